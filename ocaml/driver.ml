(* I/O driver for the extracted models.  One case per input line:  <cmd> <tree>
   where <tree> is a nested list of binary integers, e.g. [[10,-1],[],[0]].
   One output line per input line, same syntax.  Errors print "ERR <msg>". *)
module SL = Stdlib.List
module SS = Stdlib.String

type tree = I of string | L of tree list

(* ---- parsing ---- *)
let parse (s : string) : tree =
  let n = SS.length s in
  let pos = ref 0 in
  let peek () = if !pos < n then (SS.get s (!pos)) else '\000' in
  let rec skip () = if !pos < n && ((SS.get s (!pos)) = ' ' || (SS.get s (!pos)) = '\t') then (incr pos; skip ()) in
  let rec value () =
    skip ();
    match peek () with
    | '[' ->
        incr pos; skip ();
        if peek () = ']' then (incr pos; L [])
        else begin
          let items = ref [] in
          let continue = ref true in
          while !continue do
            items := value () :: !items;
            skip ();
            (match peek () with
             | ',' -> incr pos
             | ']' -> incr pos; continue := false
             | c -> failwith (Printf.sprintf "parse: unexpected %c at %d" c !pos))
          done;
          L (SL.rev !items)
        end
    | _ ->
        let start = !pos in
        while !pos < n && (let c = (SS.get s (!pos)) in c = '-' || c = '0' || c = '1') do incr pos done;
        if !pos = start then failwith (Printf.sprintf "parse: bad token at %d" start);
        I (SS.sub s start (!pos - start))
  in
  let v = value () in
  skip ();
  if !pos <> n then failwith "parse: trailing input";
  v

(* ---- conversions: binary strings <-> extracted numbers ---- *)
let rec nat_of_int (k : int) : Datatypes.nat = if k <= 0 then Datatypes.O else Datatypes.S (nat_of_int (k - 1))
let rec int_of_nat (n : Datatypes.nat) : int = match n with Datatypes.O -> 0 | Datatypes.S m -> 1 + int_of_nat m

let pos_of_bits (b : string) : BinNums.positive =
  (* b: binary, most significant first, first char '1' *)
  let p = ref BinNums.Coq_xH in
  for k = 1 to SS.length b - 1 do
    p := (if (SS.get b (k)) = '1' then BinNums.Coq_xI !p else BinNums.Coq_xO !p)
  done; !p

let strip_zeros (b : string) : string =
  let k = ref 0 in
  while !k < SS.length b && (SS.get b (!k)) = '0' do incr k done;
  SS.sub b !k (SS.length b - !k)

let z_of_bits (s : string) : BinNums.coq_Z =
  let neg = SS.length s > 0 && (SS.get s (0)) = '-' in
  let b = strip_zeros (if neg then SS.sub s 1 (SS.length s - 1) else s) in
  if b = "" then BinNums.Z0 else if neg then BinNums.Zneg (pos_of_bits b) else BinNums.Zpos (pos_of_bits b)

let bits_of_pos (p : BinNums.positive) : string =
  let buf = Buffer.create 64 in
  let rec go p acc = match p with
    | BinNums.Coq_xH -> '1' :: acc
    | BinNums.Coq_xO q -> go q ('0' :: acc)
    | BinNums.Coq_xI q -> go q ('1' :: acc) in
  SL.iter (Buffer.add_char buf) (go p []); Buffer.contents buf

let bits_of_z (z : BinNums.coq_Z) : string = match z with
  | BinNums.Z0 -> "0"
  | BinNums.Zpos p -> bits_of_pos p
  | BinNums.Zneg p -> "-" ^ bits_of_pos p

let int_of_bits (s : string) : int = int_of_string ("0b" ^ (if (SS.get s (0)) = '-' then failwith "negative nat" else s))
let rec bits_of_int (k : int) : string =
  if k < 0 then "-" ^ bits_of_int (-k) else if k = 0 then "0" else
  let rec go k acc = if k = 0 then acc else go (k / 2) ((if k land 1 = 1 then "1" else "0") ^ acc) in go k ""

(* ---- tree readers / writers ---- *)
let as_list = function L l -> l | I _ -> failwith "expected list"
let as_str = function I s -> s | L _ -> failwith "expected int"
let r_nat t = nat_of_int (int_of_bits (as_str t))
let r_int t = int_of_bits (as_str t)
let r_z t = z_of_bits (as_str t)
let r_list f t = SL.map f (as_list t)
let r_idx t = r_list r_nat t
let r_bool t = (as_str t) = "1"
let r_pair f g t = match as_list t with [a; b] -> (f a, g b) | _ -> failwith "expected pair"

let w_nat n = I (bits_of_int (int_of_nat n))
let w_int k = I (bits_of_int k)
let w_z z = I (bits_of_z z)
let w_bool b = I (if b then "1" else "0")
let w_list f l = L (SL.map f l)
let w_idx i = w_list w_nat i
let w_pair f g (a, b) = L [f a; g b]
let w_opt f = function None -> L [] | Some x -> L [f x]

let rec show buf = function
  | I s -> Buffer.add_string buf s
  | L l -> Buffer.add_char buf '[';
      SL.iteri (fun k t -> if k > 0 then Buffer.add_char buf ','; show buf t) l;
      Buffer.add_char buf ']'

(* ---- commands ---- *)
let w_tree c = w_list (w_pair w_idx w_z) c
let w_st (s : Misc.st) = L [w_list w_idx s.Misc.active; w_list w_idx s.Misc.cand; w_tree s.Misc.ctrain; w_tree s.Misc.ctest]
let r_tree t = r_list (r_pair r_idx r_z) t
let r_st t = match as_list t with
  | [a; c; tr; te] -> { Misc.active = r_list r_idx a; Misc.cand = r_list r_idx c; Misc.ctrain = r_tree tr; Misc.ctest = r_tree te }
  | _ -> failwith "expected state"

(* rationals: [num, den] in binary *)
let r_pos t = match z_of_bits (as_str t) with BinNums.Zpos p -> p | _ -> failwith "expected positive"
let r_q t = match as_list t with [n; d] -> QcInst.qc_make (r_z n) (r_pos d) | _ -> failwith "expected rational"
let w_q x = L [w_z (QcInst.qc_num x); I (bits_of_pos (QcInst.qc_den x))]
let r_qs t = r_list r_q t
let w_qs l = w_list w_q l
(* grid: [tol, nodes, weights] *)
(* [rel, nodes, weights]: tolerance = rel * node spread (Lagr.mk_grid);  [[tol], nodes, weights]: explicit tolerance *)
let r_grid t = match as_list t with
  | [L [tol]; xs; ws] -> (r_q tol, (r_qs xs, r_qs ws))
  | [rel; xs; ws] -> QcRun.q_mk_grid (r_q rel) (r_qs xs) (r_qs ws)
  | _ -> failwith "expected grid"
(* term: [weight, grids, data] *)
let r_term t = match as_list t with [w; gs; ys] -> (r_q w, (r_list r_grid gs, r_qs ys)) | _ -> failwith "expected term"
let r_shape t = r_list r_nat t

let dispatch (cmd : string) (t : tree) : tree =
  match cmd, as_list t with
  | "order_io", [cs] ->
      let cs = r_list (r_pair (r_list r_nat) (r_list r_nat)) cs in
      L [w_list w_nat (Order.inputs_ordered cs); w_list w_nat (Order.coupling_ordered cs); w_list w_nat (Order.outputs cs)]
  | "fpi_trace", [tol; maxit; c0; tr; ret] ->
      let tr = r_list (fun t -> match as_list t with [c; y; z] -> (r_qs c, (r_qs y, r_qs z)) | _ -> failwith "trace entry") tr in
      let ret = match as_list ret with [] -> None | [y; z] -> Some (r_qs y, r_qs z) | _ -> failwith "ret" in
      w_bool (QcRun.q_trace_ok (r_q tol) (r_nat maxit) Datatypes.O (Some (r_qs c0)) tr ret)
  | "sys_topo", [comps; exo; order] ->
      (* comps: [id, inputs, outputs]; order: list of ids in the observed evaluation order *)
      let mk t = match as_list t with
        | [i; ins; outs] -> { Sys.cid = r_nat i; Sys.cin = r_list r_nat ins; Sys.cout = r_list r_nat outs;
                              Sys.cmodel = (fun (x : unit list) -> x); Sys.csurr = (fun x -> x); Sys.use_model = true }
        | _ -> failwith "comp" in
      let cs = r_list mk comps in
      let ids = r_list r_int order in
      let find i = try SL.find (fun c -> int_of_nat c.Sys.cid = i) cs with Not_found -> failwith "unknown component id" in
      w_bool (Sys.is_topological cs (r_list r_nat exo) (SL.map find ids))
  | "refine_select", [cs] ->
      let mk t = match as_list t with
        | [ci; pos; err; cost] ->
            { Refine.c_comp = r_nat ci; Refine.c_pos = r_nat pos;
              Refine.c_err = (match as_list err with [] -> None | [e] -> Some (r_q e) | _ -> failwith "err");
              Refine.c_cost = r_q cost }
        | _ -> failwith "cand" in
      (match Refine.select (r_list mk cs) with
       | None -> L []
       | Some c -> L [L [w_nat c.Refine.c_comp; w_nat c.Refine.c_pos]])
  | "refine_select_sq", [cs] ->
      (* candidates with their look-ahead predictions: [comp, pos, [[pred, targ] per requested output], cost]; a value is [] (NaN) | [q];
         returns [] | [[comp, pos]] and, second, the squared indicators (None = []) *)
      let rv t = r_list (fun c -> match as_list c with [] -> None | [v] -> Some (r_q v) | _ -> failwith "value") t in
      let mk t = match as_list t with
        | [ci; pos; outs; cost] ->
            { Refine.p_comp = r_nat ci; Refine.p_pos = r_nat pos; Refine.p_outs = r_list (r_pair rv rv) outs; Refine.p_cost = r_q cost }
        | _ -> failwith "pcand" in
      let cs = r_list mk cs in
      L [(match Refine.select_sq cs with None -> L [] | Some c -> L [L [w_nat c.Refine.p_comp; w_nat c.Refine.p_pos]]);
         w_list (fun c -> w_opt w_q (Refine.indicator_sq c)) cs]
  | "grid_run", [kpl; rr; latent; batches] ->
      let batches = r_list (r_list (r_pair (r_list r_nat) (r_list r_nat))) batches in
      let (_, evals) = Grid.run_history (fun k -> k) [] (r_nat kpl) (r_bool rr) (r_list r_nat latent) batches in
      w_list (fun (a, c) -> L [w_list w_nat a; w_list w_nat c]) evals
  | "train_crash", [mx; na; kpl; latent; reqs; i; j; order] ->
      (* the combined machine of Model/Train.v on keys only (A = unit): requests reqs completed, then the request for i
         interrupted after the outputs of the first j indices of its batch were stored.  The batch is a SET in the code (the
         neighbours come from a set), so the order in which its indices were processed is an input (`order`, as observed);
         returns [stored keys after reqs, stored keys in the saved state (Crash.crash_store on the observed order),
                  the model's batch (Train.batch_of, to be compared as a set), active set, candidate set after reqs,
                  stored keys after the resumed request (Train.tstep from the saved state)] *)
      let mx = r_list r_nat mx and na = r_nat na and kpl = r_nat kpl and latent = r_list r_nat latent in
      let reqs = r_list (r_list r_nat) reqs and i = r_list r_nat i and j = r_nat j in
      let order = r_list (r_list r_nat) order in
      let f (_ : Grid.key) = () in
      let t = Train.trun f mx na kpl true latent reqs Train.t0 in
      let split = Train.split_idx na in
      let saved = Crash.crash_store f t.Train.store kpl true latent (SL.map split order) j in
      let tr = Train.tstep f mx na kpl true latent { Train.ms = t.Train.ms; Train.store = saved } i in
      let keys st = w_list (fun ((a, c), ()) -> L [w_list w_nat a; w_list w_nat c]) st in
      let batch = Train.batch_of mx na t.Train.ms i in
      L [keys t.Train.store; keys saved; w_list (fun (a, b) -> L [w_list w_nat a; w_list w_nat b]) batch;
         w_list w_idx t.Train.ms.Misc.active; w_list w_idx t.Train.ms.Misc.cand; keys tr.Train.store]
  | "grid_knots", [kpl; rr; latent; beta] ->
      w_list (w_list w_nat) (Grid.beta_to_knots (r_nat kpl) (r_bool rr) (r_list r_nat latent) (r_list r_nat beta))
  | "cost_alloc", [calls] ->
      let (c, n) = Cost.allocation (r_list r_qs calls) in L [w_q c; w_z n]
  | "cost_alloc_upto", [k; calls] ->
      let (c, n) = Cost.allocation_upto (r_nat k) (r_list r_qs calls) in L [w_q c; w_z n]
  | "transf", [chain; hyper; xs; ys] ->
      (* chain entries: [0,[m,b]] linear, [1,[lb,ub,lbn,ubn]] minmax, [2,[mu,std]] zscore; hyper: [[lb,ub]|[], [mu,std]|[]] *)
      let mk t = match as_list t with
        | [I "0"; L [m; b]] -> Transf.Linear (r_q m, r_q b)
        | [I "1"; L [a; b; c; d]] -> Transf.Minmax (r_q a, r_q b, r_q c, r_q d)
        | [I "10"; L [m; sd]] -> Transf.Zscore (r_q m, r_q sd)
        | _ -> failwith "transform" in
      let opt t = match as_list t with [] -> None | [a; b] -> Some (r_q a, r_q b) | _ -> failwith "hyper" in
      let h = match as_list hyper with [d; n] -> { Transf.h_dom = opt d; Transf.h_dist = opt n } | _ -> failwith "hyper" in
      let ch = r_list mk chain in
      L [w_qs (SL.map (QcRun.q_normalize ch h) (r_qs xs)); w_qs (SL.map (QcRun.q_denormalize ch h) (r_qs ys))]
  | "sys_eval", [tab; comps; order; env0; targets; ask] ->
      (* tab: per variable [chain, hyper] (as in "transf"); comps: [id, ins, outs, polys, use_model] with polys = per output a list
         of [coef, exponents]; order: component ids in evaluation order; env0: [var, tag, value]; returns [] (stuck) or
         [[per asked variable: [] | [value]]] *)
      let mk t = match as_list t with
        | [I "0"; L [m; b]] -> Transf.Linear (r_q m, r_q b)
        | [I "1"; L [a; b; c; d]] -> Transf.Minmax (r_q a, r_q b, r_q c, r_q d)
        | [I "10"; L [m; sd]] -> Transf.Zscore (r_q m, r_q sd)
        | _ -> failwith "transform" in
      let opt t = match as_list t with [] -> None | [a; b] -> Some (r_q a, r_q b) | _ -> failwith "hyper" in
      let mkv t = match as_list t with
        | [chain; hyper] ->
            let h = (match as_list hyper with [d; n] -> { Transf.h_dom = opt d; Transf.h_dist = opt n } | _ -> failwith "hyper") in
            { SysRun.vn_chain = r_list mk chain; SysRun.vn_hyper = h }
        | _ -> failwith "vnorm" in
      let tab = r_list mkv tab in
      let mkc t = match as_list t with
        | [i; ins; outs; polys; um] ->
            SysRun.poly_comp tab (r_nat i) (r_list r_nat ins) (r_list r_nat outs)
              (r_list (r_list (r_pair r_q (r_list r_nat))) polys) (r_bool um)
        | _ -> failwith "comp" in
      let cs = r_list mkc comps in
      let find i = try SL.find (fun c -> int_of_nat c.Sys.cid = i) cs with Not_found -> failwith "unknown component id" in
      let ord = SL.map find (r_list r_int order) in
      let e0 = r_list (fun t -> match as_list t with [v; tg; x] -> (r_nat v, (r_bool tg, r_q x)) | _ -> failwith "env") env0 in
      (match SysRun.q_sys_eval tab ord e0 (r_list r_nat targets) (r_list r_nat ask) with
       | None -> L []
       | Some vals -> L [w_list (w_opt w_q) vals])
  | "graph_plan", [comps; plans] ->
      (* comps: per component [inputs, outputs] in listing order; plans: observed evaluation plans (groups of positions);
         returns [edges, groups, [plan accepted? ...]] *)
      let cs = r_list (r_pair (r_list r_nat) (r_list r_nat)) comps in
      let plans = r_list (r_list (r_list r_nat)) plans in
      L [w_list (fun (a, b) -> L [w_nat a; w_nat b]) (Graph.edges cs); w_list (w_list w_nat) (Graph.system_sccs cs);
         w_list (fun p -> w_bool (Graph.system_plan_ok cs p)) plans]
  | "bounds_run", [kind; guess; est; update; steps] ->
      (* kind: [] (minmax) | [a, b] (x_raw = a x + b); guess: [lo, hi]; est: [] | [obs]; obs: list of [] (NaN) | [value];
         returns [start domain, [domain after each step]] *)
      let k = match as_list kind with [] -> Bounds.NMinmax | [a; b] -> Bounds.NAffine (r_q a, r_q b) | _ -> failwith "kind" in
      let rdom t = match as_list t with [a; b] -> (r_q a, r_q b) | _ -> failwith "domain" in
      let robs t = r_list (fun c -> match as_list c with [] -> None | [v] -> Some (r_q v) | _ -> failwith "obs") t in
      let est = match as_list est with [] -> None | [o] -> Some (robs o) | _ -> failwith "est" in
      let wdom (a, b) = L [w_q a; w_q b] in
      let (start, ds) = Bounds.fit_bounds est (r_bool update) k (rdom guess) (r_list robs steps) in
      L [wdom start; w_list wdom ds]
  | "search_file", [nparts; sfx; ex; holds; cwd] ->
      (* returns [0] unchanged | [1, k] found in the k-th given directory | [2] found in the working directory *)
      (match Search.search (r_nat nparts) (r_bool sfx) (r_bool ex) (r_list r_bool holds) (r_bool cwd) with
       | Search.Unchanged -> L [w_nat (nat_of_int 0)]
       | Search.InGiven k -> L [w_nat (nat_of_int 1); w_nat k]
       | Search.InCwd -> L [w_nat (nat_of_int 2)])
  | "select_rows", [req; rows] ->
      (* rows: per stored point a list of [] (missing) | [value]; returns [rows handed out, rows the former rule handed out] *)
      let rrow t = r_list (fun c -> match as_list c with [] -> None | [v] -> Some (r_z v) | _ -> failwith "cell") t in
      let rows = r_list rrow rows and req = r_list r_nat req in
      let wrow r = w_list (w_opt w_z) r in
      L [w_list wrow (Select.training_rows req rows); w_list wrow (Select.training_rows_former req rows)]
  | "sched_gather", [rs; sigma] ->
      (* rs: per task [] (raised) or [value]; the task function returns the precomputed result of its slot *)
      let rs = r_list (fun t -> match as_list t with [] -> None | [v] -> Some (r_z v) | _ -> failwith "result") rs in
      let xs = SL.mapi (fun i _ -> i) rs in
      let f i = SL.nth rs i in
      (match Sched.executor_path f xs (r_list r_nat sigma) with
       | None -> L []
       | Some out -> L [w_list (fun r -> match r with None -> L [] | Some v -> L [w_z v]) out])
  | "codec_tuple", [t] ->
      (* returns [character codes of str(tuple), 1 if parsing the text gives the tuple back] *)
      let l = r_list r_nat t in
      let txt = Codec.show_tuple l in
      let code (c : Ascii.ascii) = match c with
        | Ascii.Ascii (b0, b1, b2, b3, b4, b5, b6, b7) ->
            let b x k = if x then (1 lsl k) else 0 in
            b b0 0 + b b1 1 + b b2 2 + b b3 3 + b b4 4 + b b5 5 + b b6 6 + b b7 7 in
      let ok = (match Codec.parse_tuple txt with Some l' -> l' = l | None -> false) in
      L [w_list (fun c -> w_int (code c)) txt; w_bool ok]
  | "codec_tree", [items] ->
      (* items: [alpha, beta, value] in insertion order; returns [the nested text structure of MiscTree.serialize
         ([key codes, [[inner key codes, value]...]]...), 1 if loading it gives the items back (grouped by alpha), the list of
         str((alpha, beta)) of IndexSet.serialize, 1 if loading that list gives the pairs back] *)
      let code (c : Ascii.ascii) = match c with
        | Ascii.Ascii (b0, b1, b2, b3, b4, b5, b6, b7) ->
            let b x k = if x then (1 lsl k) else 0 in
            b b0 0 + b b1 1 + b b2 2 + b b3 3 + b b4 4 + b b5 5 + b b6 6 + b b7 7 in
      let wtxt t = w_list (fun c -> w_int (code c)) t in
      let its = r_list (fun t -> match as_list t with [a; b; v] -> ((r_list r_nat a, r_list r_nat b), r_z v) | _ -> failwith "item") items in
      let nested = Codec.save_tree its in
      let back = (match Codec.load_tree nested with
                  | Some l -> SL.sort compare l = SL.sort compare its
                  | None -> false) in
      let pairs = SL.map fst its in
      let texts = Codec.save_index_set pairs in
      let back2 = (match Codec.load_index_set texts with Some l -> l = pairs | None -> false) in
      L [w_list (fun (k, inner) -> L [wtxt k; w_list (fun (kb, v) -> L [wtxt kb; w_z v]) inner]) nested; w_bool back;
         w_list wtxt texts; w_bool back2]
  | "fault_rebase", [sizes; errs] ->
      let (groups, _) = Fault.rebase (r_list r_nat sizes) Datatypes.O (r_list r_nat errs) in
      w_list (w_list w_nat) groups
  | "shape_loop", [shapes] -> w_list w_nat (Shape.loop_shape (r_list r_shape shapes))
  | "shape_fmt_input", [l; s; data] -> w_list (w_list w_z) (Shape.fmt_input (r_shape l) (r_shape s) (r_list r_z data))
  | "shape_out", [l; o] -> w_list w_nat (Shape.fmt_output_shape (r_shape l) (r_shape o))
  | "shape_batch_sum", [arrays] ->
      (* f = sum of the first entries of the per-variable rows, weighted by position (1-based) *)
      let f rows = [SL.fold_left BinInt.Z.add BinNums.Z0
                      (SL.mapi (fun k r -> BinInt.Z.mul (z_of_bits (bits_of_int (k + 1))) (match r with x :: _ -> x | [] -> BinNums.Z0)) rows)] in
      let (l, d) = Shape.batch_eval f (r_list (r_pair r_shape (r_list r_z)) arrays) in
      L [w_list w_nat l; w_list w_z d]
  | "lagr_refine1", [c; old; pts] ->
      let old = match as_list old with [] -> None | [xs; ws] -> Some (r_qs xs, r_qs ws) | _ -> failwith "old" in
      let (xs, ws) = QcRun.q_refine1 (r_q c) old (r_qs pts) in L [w_qs xs; w_qs ws]
  | "lagr_basis1", [tol; xs; ws; x] -> w_qs (QcRun.q_basis1 (r_q tol) (r_qs xs) (r_qs ws) (r_q x))
  | "lagr_dbasis1", [tol; xs; ws; x] -> w_qs (QcRun.q_dbasis1 (r_q tol) (r_qs xs) (r_qs ws) (r_q x))
  | "lagr_predict", [gs; x; ys] ->
      let gs = r_list r_grid gs and x = r_qs x and ys = r_qs ys in
      L [w_q (QcRun.q_tpredict gs x ys); w_q (QcRun.q_tpredict_abs gs x ys)]
  | "lagr_grad", [gs; x; ys] ->
      let gs = r_list r_grid gs and x = r_qs x and ys = r_qs ys in
      w_list (fun k -> w_q (QcRun.q_tgrad (nat_of_int k) gs x ys)) (SL.init (SL.length gs) (fun k -> k))
  | "lagr_hess", [gs; x; ys] ->
      let gs = r_list r_grid gs and x = r_qs x and ys = r_qs ys in
      let d = SL.length gs in
      w_list (fun m -> w_list (fun n -> w_q (QcRun.q_thess (nat_of_int m) (nat_of_int n) gs x ys)) (SL.init d (fun k -> k))) (SL.init d (fun k -> k))
  | "misc_predict", [terms; x] ->
      let terms = r_list r_term terms and x = r_qs x in
      let absterms = SL.map (fun (w, (gs, ys)) -> (w, (gs, ys))) terms in
      ignore absterms;
      w_q (QcRun.q_misc_predict terms x)
  | "misc_grad", [terms; x] ->
      let terms = r_list r_term terms and x = r_qs x in
      (match terms with
       | (_, (gs, _)) :: _ -> w_list (fun k -> w_q (QcRun.q_misc_grad (nat_of_int k) terms x)) (SL.init (SL.length gs) (fun k -> k))
       | [] -> L [])
  | "misc_hess", [terms; x] ->
      let terms = r_list r_term terms and x = r_qs x in
      (match terms with
       | (_, (gs, _)) :: _ ->
           let d = SL.length gs in
           w_list (fun m -> w_list (fun n -> w_q (QcRun.q_misc_hess (nat_of_int m) (nat_of_int n) terms x)) (SL.init d (fun k -> k)))
                  (SL.init d (fun k -> k))
       | [] -> L [])
  | "misc_trace", [mx; reqs] ->
      (* states after every request, plus accepted flags *)
      let mx = r_idx mx and reqs = r_list r_idx reqs in
      let tr = Misc.run_trace mx Misc.st0 reqs in
      L [w_list w_st tr; w_list w_idx (Misc.accepted mx Misc.st0 reqs)]
  | "misc_lookahead", [s; news] -> w_tree (Misc.lookahead (r_st s) (r_list r_idx news))
  | "misc_dc", [s] -> w_bool (Misc.is_downward_closed (r_list r_idx s))
  | "misc_replay", [mx; live; hist] ->
      w_list w_st (Misc.replay (r_idx mx) (r_list r_idx live) Misc.st0 (r_list r_idx hist))
  | "misc_ie", [s; i] -> w_z (Misc.coq_IE (r_list r_idx s) (r_idx i))
  | _ -> failwith ("unknown command or arity: " ^ cmd)

let () =
  let buf = Buffer.create 4096 in
  try
    while true do
      let line = input_line stdin in
      let line = SS.trim line in
      if line <> "" then begin
        Buffer.clear buf;
        (try
           let sp = try SS.index line ' ' with Not_found -> SS.length line in
           let cmd = SS.sub line 0 sp in
           let rest = SS.sub line sp (SS.length line - sp) in
           show buf (dispatch cmd (parse rest))
         with Failure m -> Buffer.clear buf; Buffer.add_string buf ("ERR " ^ m)
            | Stack_overflow -> Buffer.clear buf; Buffer.add_string buf "ERR stack overflow");
        print_endline (Buffer.contents buf)
      end
    done
  with End_of_file -> ()
