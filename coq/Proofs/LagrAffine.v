(* Proofs/LagrAffine.v — C17: the interpolator model is equivariant under affine changes of input units
   x -> a*x + b (a > 0): tolerance derived from the node spread, weights, 1-d basis values and derivatives,
   tensor prediction and gradient; and the refutation for an absolute tolerance (concrete Qc instances). *)
From mathcomp Require Import all_ssreflect all_algebra.
From mathcomp Require Import ring.
From AmiscV Require Import Field QcInst Lagr QcRun LagrDefs Lagr1d.
Set Implicit Arguments. Unset Strict Implicit. Unset Printing Implicit Defensive.
Import GRing.Theory Num.Theory.
Local Open Scope ring_scope.

Lemma abs_tol_refuted : c17_scaled <> c17_unit.
Proof. by move=> H; have := f_equal (List.map qc_num) H; vm_compute. Qed.

Section Map2.
Variables (A A' B B' C D : Type).

Lemma map2_ext (f g : A -> B -> C) l m : (forall a b, f a b = g a b) -> map2 f l m = map2 g l m.
Proof. by move=> e; elim: l m => [|a l IH] [|b m] //=; rewrite e IH. Qed.

Lemma map2_map_l (f : A' -> B -> C) (h : A -> A') l m :
  map2 f (map h l) m = map2 (fun a b => f (h a) b) l m.
Proof. by elim: l m => [|a l IH] [|b m] //=; rewrite IH. Qed.

Lemma map2_map_r (f : A -> B' -> C) (h : B -> B') l m :
  map2 f l (map h m) = map2 (fun a b => f a (h b)) l m.
Proof. by elim: l m => [|a l IH] [|b m] //=; rewrite IH. Qed.

Lemma map_map2 (g : C -> D) (f : A -> B -> C) l m :
  map g (map2 f l m) = map2 (fun a b => g (f a b)) l m.
Proof. by elim: l m => [|a l IH] [|b m] //=; rewrite IH. Qed.

Lemma map2_constl (g : B -> C) (l : seq A) m :
  size l = size m -> map2 (fun _ b => g b) l m = map g m.
Proof. by elim: l m => [|a l IH] [|b m] //= [e]; rewrite IH. Qed.
End Map2.

Section Affine.
Variable F : realFieldType.
Implicit Types (xs ws news r : seq F) (x y a b tol rel C : F).

Lemma maxF_affine a b x y : 0 < a ->
  maxF (mc_ops F) (a * x + b) (a * y + b) = a * maxF (mc_ops F) x y + b.
Proof. by move=> a0; rewrite /maxF /= ler_add2r ler_pmul2l //; case: ifP. Qed.

Lemma minF_affine a b x y : 0 < a ->
  minF (mc_ops F) (a * x + b) (a * y + b) = a * minF (mc_ops F) x y + b.
Proof. by move=> a0; rewrite /minF /= ler_add2r ler_pmul2l //; case: ifP. Qed.

Lemma fold_max_affine a b r x : 0 < a ->
  List.fold_left (maxF (mc_ops F)) [seq a * t + b | t <- r] (a * x + b) =
  a * List.fold_left (maxF (mc_ops F)) r x + b.
Proof. by move=> a0; elim: r x => //= y r IH x; rewrite maxF_affine // IH. Qed.

Lemma fold_min_affine a b r x : 0 < a ->
  List.fold_left (minF (mc_ops F)) [seq a * t + b | t <- r] (a * x + b) =
  a * List.fold_left (minF (mc_ops F)) r x + b.
Proof. by move=> a0; elim: r x => //= y r IH x; rewrite minF_affine // IH. Qed.

Lemma span_affine a b xs : 0 < a -> span (mc_ops F) (amap a b xs) = a * span (mc_ops F) xs.
Proof.
move=> a0; case: xs => [|x r]; first by rewrite /= mulr0.
rewrite /amap /= fold_max_affine // fold_min_affine //; ring.
Qed.

Lemma node_tol_affine rel a b xs : 0 < a -> span (mc_ops F) xs != 0 ->
  node_tol (mc_ops F) rel (amap a b xs) = a * node_tol (mc_ops F) rel xs.
Proof.
move=> a0 s0; rewrite /node_tol span_affine //=.
by rewrite mulf_eq0 (negbTE (lt0r_neq0 a0)) /= (negbTE s0) mulrCA.
Qed.

Lemma snapped_affine a b tol x xk : 0 < a ->
  snapped (mc_ops F) (a * tol) (a * x + b) (a * xk + b) = snapped (mc_ops F) tol x xk.
Proof.
move=> a0; rewrite !snapped_mc.
have -> : a * x + b - (a * xk + b) = a * (x - xk) by ring.
by rewrite normrM (gtr0_norm a0) ler_pmul2l.
Qed.

Definition dmap a (d : F * bool) : F * bool := (if d.2 then 1 else a * d.1, d.2).

Lemma diffs1_affine a b tol xs x : 0 < a ->
  diffs1 (mc_ops F) (a * tol) (amap a b xs) (a * x + b) =
  [seq dmap a d | d <- diffs1 (mc_ops F) tol xs x].
Proof.
move=> a0; rewrite /diffs1 !lmapE /amap -!map_comp; apply: eq_map => xk.
rewrite /comp /dmap snapped_affine //.
by case: (snapped _ _ _ _) => //=; congr (_, _); ring.
Qed.

Lemma size_diffs1 tol xs x : size (diffs1 (mc_ops F) tol xs x) = size xs.
Proof. by rewrite /diffs1 lmapE size_map. Qed.

Definition sc a (d : F * bool) : F * bool := (a * d.1, d.2).

Lemma dmap_nosnap a (ds : seq (F * bool)) : ~~ has snd ds ->
  [seq dmap a d | d <- ds] = [seq sc a d | d <- ds].
Proof.
move=> hs; apply/eq_in_map => d din; rewrite /dmap /sc.
by rewrite (negbTE (hasPn hs _ din)).
Qed.

Lemma div_affine a b x y (X : F) : X / (a * x + b - (a * y + b)) = X / (x - y) / a.
Proof.
have -> : a * x + b - (a * y + b) = a * (x - y) by ring.
by rewrite invfM mulrCA mulrC.
Qed.

Definition fin (nsn : nat) (qsum : F) (q : F) (d : F * bool) : F :=
  if Nat.ltb (if d.2 then 1 else 0)%N nsn then 0 else if d.2 then 1 else q / qsum.
Definition quotf (w : F) (d : F * bool) : F := w / d.1.
Definition squotf (w : F) (d : F * bool) : F := w / (d.1 * d.1).

Lemma basis1E tol xs ws x : basis1 (mc_ops F) tol xs ws x =
  let ds := diffs1 (mc_ops F) tol xs x in
  let quot := map2 quotf ws ds in
  map2 (fin (count id [seq d.2 | d <- ds]) (\sum_(q <- quot) q)) quot ds.
Proof. by rewrite /basis1 count_trueE lmapE sumF_mc. Qed.

Lemma fin_has nsn qsum (quot : seq F) (ds : seq (F * bool)) : (0 < nsn)%N -> size quot = size ds ->
  map2 (fin nsn qsum) quot ds =
  [seq if d.2 then (if Nat.ltb 1 nsn then 0 else 1) else 0 | d <- ds].
Proof.
case: nsn => // m _ e; rewrite -(map2_constl _ e).
by apply: map2_ext => q d; rewrite /fin; case: d.2.
Qed.

Lemma quot_sc a ws (ds : seq (F * bool)) :
  map2 quotf ws [seq sc a d | d <- ds] = [seq q / a | q <- map2 quotf ws ds].
Proof.
rewrite map2_map_r map_map2; apply: map2_ext => w d.
by rewrite /quotf /= invfM mulrA mulrAC.
Qed.

Lemma squot_sc a ws (ds : seq (F * bool)) :
  map2 squotf ws [seq sc a d | d <- ds] = [seq q / (a * a) | q <- map2 squotf ws ds].
Proof.
rewrite map2_map_r map_map2; apply: map2_ext => w d.
rewrite /squotf /= !invfM; ring.
Qed.

Lemma basis1_affine a b tol xs ws x : 0 < a -> size ws = size xs ->
  basis1 (mc_ops F) (a * tol) (amap a b xs) ws (a * x + b) = basis1 (mc_ops F) tol xs ws x.
Proof.
move=> a0 sw; rewrite !basis1E /= diffs1_affine //.
have an0 : a != 0 by exact: lt0r_neq0.
set ds := diffs1 _ tol xs x.
have sds : size ds = size xs by exact: size_diffs1.
have -> : [seq d.2 | d <- [seq dmap a d | d <- ds]] = [seq d.2 | d <- ds].
  by rewrite -map_comp; apply: eq_map => d.
case: (boolP (has snd ds)) => hs.
- have n0 : (0 < count id [seq d.2 | d <- ds])%N by rewrite count_map -has_count.
  rewrite !fin_has // ?size_map2 ?size_map ?sds ?sw ?minnn //.
  by rewrite -map_comp; apply: eq_map => d.
- rewrite dmap_nosnap // quot_sc big_map -mulr_suml map2_map_l map2_map_r.
  apply: map2_ext => q d; rewrite /fin /=.
  case: ifP => // _; case: ifP => // _.
  by rewrite invf_div mulrA (mulfVK an0).
Qed.

Lemma dbasis1E tol xs ws x : dbasis1 (mc_ops F) tol xs ws x =
  let ds := diffs1 (mc_ops F) tol xs x in
  let qsum := \sum_(q <- map2 quotf ws ds) q in
  let sqsum := \sum_(q <- map2 squotf ws ds) q in
  [seq (let wj := nth 0 ws j in let dj := nth (1, false) ds j in
        match [seq p <- iota 0 (size xs) | (p != j) && (nth (1, false) ds p).2] with
        | s :: _ => wj / nth 0 ws s / (x - nth 0 xs j)
        | [::] => if dj.2
                  then - (\sum_(p <- iota 0 (size xs) | p != j) nth 0 ws p / wj / (x - nth 0 xs p))
                  else wj / (qsum * dj.1) * (sqsum / qsum - 1 / dj.1)
        end) | j <- iota 0 (size xs)].
Proof.
rewrite /dbasis1 lmapE lseqE llengthE !sumF_mc /=; apply: eq_map => j.
rewrite !lfilterE !lnthE.
rewrite (@eq_filter _ _ (fun p => (p != j) && (nth (1, false) (diffs1 (mc_ops F) tol xs x) p).2));
  last by move=> p; rewrite nat_eqbE lnthE.
case: (filter _ _) => [|s r]; last by rewrite lnthE.
case: ifP => // _; rewrite sumF_mc lmapE big_map big_filter; congr (- _).
by apply: eq_big => p; rewrite ?nat_eqbE ?lnthE.
Qed.

Lemma dbasis1_affine a b tol xs ws x : 0 < a -> size ws = size xs ->
  dbasis1 (mc_ops F) (a * tol) (amap a b xs) ws (a * x + b) =
  [seq d / a | d <- dbasis1 (mc_ops F) tol xs ws x].
Proof.
move=> a0 sw; rewrite !dbasis1E /= diffs1_affine // size_map.
have an0 : a != 0 by exact: lt0r_neq0.
set ds := diffs1 _ tol xs x.
have sds : size ds = size xs by exact: size_diffs1.
rewrite -map_comp; apply/eq_in_map => j; rewrite mem_iota /= add0n => jlt.
have fl p : (p < size xs)%N -> (nth (1, false) [seq dmap a d | d <- ds] p).2 = (nth (1, false) ds p).2.
  by move=> plt; rewrite (nth_map (1, false)) ?sds.
have nx p : (p < size xs)%N -> nth 0 (amap a b xs) p = a * nth 0 xs p + b.
  by move=> plt; rewrite (nth_map 0).
rewrite (@eq_in_filter _ _ (fun p => (p != j) && (nth (1, false) ds p).2)); last first.
  by move=> p; rewrite mem_iota /= add0n => plt; rewrite fl.
rewrite fl // nx //.
case E: (filter _ _) => [|s r]; last by rewrite div_affine.
case djE: (nth (1, false) ds j).2.
- rewrite mulNr; congr (- _); rewrite mulr_suml big_seq_cond [in RHS]big_seq_cond.
  apply: eq_bigr => p /andP[]; rewrite mem_iota /= add0n => plt _.
  by rewrite nx // div_affine.
- have hs : ~~ has snd ds.
    apply/hasPn => d din; set p := index d ds.
    have plt : (p < size xs)%N by rewrite -sds index_mem.
    have <- : nth (1, false) ds p = d by rewrite nth_index.
    case: (altP (p =P j)) => [->|ne]; first by rewrite djE.
    have : p \in [seq p <- iota 0 (size xs) | (p != j) && (nth (1, false) ds p).2] = false by rewrite E.
    by rewrite mem_filter mem_iota /= add0n plt ne /= andbT => ->.
  rewrite dmap_nosnap // quot_sc squot_sc !big_map -!mulr_suml (nth_map (1, false)) ?sds //=.
  set Q := \sum_(q <- map2 quotf _ _) q; set S := \sum_(q <- map2 squotf _ _) q.
  set d := (nth _ _ _).1; set wj := nth 0 ws j.
  case: (eqVneq Q 0) => [->|Q0]; first by rewrite !(mul0r, mulr0, invr0).
  case: (eqVneq d 0) => [->|d0]; first by rewrite !(mul0r, mulr0, invr0).
  by field; rewrite Q0 d0 an0.
Qed.

Theorem basis_affine tol a b xs ws x : 0 < a -> size ws = size xs ->
  basis1 (mc_ops F) (a * tol) (amap a b xs) ws (a * x + b) = basis1 (mc_ops F) tol xs ws x /\
  dbasis1 (mc_ops F) (a * tol) (amap a b xs) ws (a * x + b) = [seq d / a | d <- dbasis1 (mc_ops F) tol xs ws x].
Proof. by move=> a0 sw; split; [exact: basis1_affine | exact: dbasis1_affine]. Qed.

Lemma divC_affine a b C x y : a != 0 -> (a * x + b - (a * y + b)) / (a * C) = (x - y) / C.
Proof.
move=> an0; have -> : a * x + b - (a * y + b) = a * (x - y) by ring.
by rewrite invfM mulrACA divff // mul1r.
Qed.

Lemma Cdiv_affine a b C x y : a != 0 -> (a * C) / (a * x + b - (a * y + b)) = C / (x - y).
Proof.
move=> an0; have -> : a * x + b - (a * y + b) = a * (x - y) by ring.
by rewrite invfM mulrACA divff // mul1r.
Qed.

Lemma init_weights_affine a b C xs : a != 0 ->
  init_weights (mc_ops F) (a * C) (amap a b xs) = init_weights (mc_ops F) C xs.
Proof.
move=> an0; rewrite /init_weights !lmapE !llengthE !lseqE size_map.
apply/eq_in_map => j; rewrite mem_iota /= add0n => jlt; congr (_^-1); congr (prodF _ _).
rewrite !lmapE; apply/eq_in_map => i; rewrite mem_iota /= add0n => ilt.
case: ifP => // _; rewrite !lnthE !(nth_map 0) //.
exact: divC_affine.
Qed.

Lemma extend_weights_affine a b C xs ws news : a != 0 ->
  (extend_weights (mc_ops F) (a * C) (amap a b xs) ws (amap a b news)).2 =
  (extend_weights (mc_ops F) C xs ws news).2.
Proof.
move=> an0; elim: news xs ws => [|xn rest IH] xs ws //=.
rewrite !lappE.
have -> : (amap a b xs ++ [:: a * xn + b]) = amap a b (xs ++ [:: xn]) by rewrite /amap map_cat.
have -> : map2 (fun w xi => w * (a * C / (xi - (a * xn + b)))) ws (amap a b xs) =
          map2 (fun w xi => w * (C / (xi - xn))) ws xs.
  by rewrite map2_map_r; apply: map2_ext => w xi; rewrite Cdiv_affine.
have -> : List.map (fun xi => a * C / (a * xn + b - xi)) (amap a b xs) =
          List.map (fun xi => C / (xn - xi)) xs.
  by rewrite !lmapE -map_comp; apply: eq_map => xi /=; rewrite Cdiv_affine.
exact: IH.
Qed.

Theorem weights_affine C a b xs ws news : a != 0 -> size ws = size xs ->
  init_weights (mc_ops F) (a * C) (amap a b xs) = init_weights (mc_ops F) C xs /\
  (extend_weights (mc_ops F) (a * C) (amap a b xs) ws (amap a b news)).2 =
  (extend_weights (mc_ops F) C xs ws news).2.
Proof. by move=> an0 _; split; [exact: init_weights_affine | exact: extend_weights_affine]. Qed.

Lemma gsizes_gmap (ab : seq (F * F)) (gs : seq (grid (F:=F))) : size ab = size gs ->
  gsizes (gmap ab gs) = gsizes gs.
Proof.
elim: gs ab => [|g gs IH] [|p ab] //= [e].
rewrite /gsizes /= -!/(gsizes _) -/(gmap ab gs) IH // /gsize /=.
by rewrite !llengthE /amap size_map.
Qed.

Theorem tpredict_affine (ab : seq (F * F)) (gs : seq (grid (F:=F))) (x ys : seq F) :
  size ab = size gs -> size x = size gs -> (forall p, p \in ab -> 0 < p.1) ->
  (forall g, g \in gs -> size g.2.2 = size g.2.1) ->
  tpredict (mc_ops F) (gmap ab gs) (xmap ab x) ys = tpredict (mc_ops F) gs x ys.
Proof.
elim: gs ab x ys => [|[tol [xs ws]] gs IH] [|[a b] ab] [|x0 x] ys //= [sab] [sx] Hab Hgs.
rewrite -/(gmap ab gs) -/(xmap ab x).
have a0 : 0 < a by apply: (Hab (a, b)); rewrite inE eqxx.
have sw : size ws = size xs by apply: (Hgs (tol, (xs, ws))); rewrite inE eqxx.
rewrite basis1_affine // gsizes_gmap // !llengthE /amap size_map.
congr (sumF _ _); apply: map2_ext => bb ch; rewrite IH //.
- by move=> p pin; apply: Hab; rewrite inE pin orbT.
- by move=> g gin; apply: Hgs; rewrite inE gin orbT.
Qed.

Lemma sum_div_map (c : F) (l : seq F) : \sum_(y <- [seq y / c | y <- l]) y = (\sum_(y <- l) y) / c.
Proof. by rewrite big_map mulr_suml. Qed.

Theorem tgrad_affine (ab : seq (F * F)) (gs : seq (grid (F:=F))) (x ys : seq F) (k : nat) :
  size ab = size gs -> size x = size gs -> (forall p, p \in ab -> 0 < p.1) ->
  (forall g, g \in gs -> size g.2.2 = size g.2.1) -> (k < size gs)%N ->
  tgrad (mc_ops F) k (gmap ab gs) (xmap ab x) ys = tgrad (mc_ops F) k gs x ys / (nth (1, 0) ab k).1.
Proof.
elim: gs ab x ys k => [|[tol [xs ws]] gs IH] [|[a b] ab] [|x0 x] ys k //= [sab] [sx] Hab Hgs klt.
have a0 : 0 < a by apply: (Hab (a, b)); rewrite inE eqxx.
have sw : size ws = size xs by apply: (Hgs (tol, (xs, ws))); rewrite inE eqxx.
have Hab' : forall p, p \in ab -> 0 < p.1 by move=> p pin; apply: Hab; rewrite inE pin orbT.
have Hgs' : forall g, g \in gs -> size g.2.2 = size g.2.1.
  by move=> g gin; apply: Hgs; rewrite inE gin orbT.
case: k klt => [|k] klt; rewrite /= -/(gmap ab gs) -/(xmap ab x) gsizes_gmap // !llengthE /amap size_map -/(amap a b xs).
- rewrite dbasis1_affine // map2_map_l !sumF_mc -sum_div_map map_map2.
  congr (\sum_(y <- _) y); apply: map2_ext => d ch.
  by rewrite tpredict_affine // mulrAC.
- rewrite basis1_affine // !sumF_mc -sum_div_map map_map2.
  congr (\sum_(y <- _) y); apply: map2_ext => d ch.
  by rewrite IH // mulrA.
Qed.
End Affine.
