(* Proofs/TransfProofs.v — proofs about the normalisation model Model/Transf.v at the operations of a MathComp
   real field (statements of Props/C16.v). *)
From mathcomp Require Import all_ssreflect all_algebra.
From AmiscV Require Import Field QcInst QcRun Transf LagrDefs.
Set Implicit Arguments. Unset Strict Implicit. Unset Printing Implicit Defensive.
Import Order.Theory GRing.Theory Num.Theory.
Local Open Scope ring_scope.

Definition nolog (F : Type) (chain : seq (tr (F:=F))) : bool := all (fun t => if t is Logt _ _ then false else true) chain.
Definition nominmax (F : Type) (chain : seq (tr (F:=F))) : bool := all (fun t => if t is Minmax _ _ _ _ then false else true) chain.

Section Chains.
Variable F : realFieldType.
Variables lg ex : F -> F.
Local Notation K := (mc_ops F).
Implicit Types (t : tr (F:=F)) (chain : seq (tr (F:=F))) (h : hyper (F:=F)) (x y : F).

Lemma ltbF_mc x y : ltbF K x y = (x < y).
Proof. by rewrite /ltbF /= -ltNge. Qed.

(* ---- one stage ---- *)
Lemma stage_denorm_norm t h x :
  (if t is Logt _ _ then false else true) -> stage_ok K lg t h ->
  apply1 K lg ex t true h (apply1 K lg ex t false h x) = x.
Proof.
case: t => [m b|base off|lb ub lbn ubn|mu std] //= _; rewrite /divF /=.
- by move=> m0; rewrite addrK mulrC mulKf.
- case: (match h_dom h with Some d => d | None => (lb, ub) end) => lb' ub' /andP[d0 n0].
  by rewrite addrK mulfK // mulfVK // subrK.
- case: (match h_dist h with Some d => d | None => (mu, std) end) => mu' std' s0.
  by rewrite mulfVK // subrK.
Qed.

Lemma stage_norm_denorm t h y :
  (if t is Logt _ _ then false else true) -> stage_ok K lg t h ->
  apply1 K lg ex t false h (apply1 K lg ex t true h y) = y.
Proof.
case: t => [m b|base off|lb ub lbn ubn|mu std] //= _; rewrite /divF /=.
- by move=> m0; rewrite mulrC mulfVK // subrK.
- case: (match h_dom h with Some d => d | None => (lb, ub) end) => lb' ub' /andP[d0 n0].
  by rewrite addrK mulfK // mulfVK // subrK.
- case: (match h_dist h with Some d => d | None => (mu, std) end) => mu' std' s0.
  by rewrite addrK mulfK.
Qed.

(* ---- chains ---- *)
Lemma denorm_norm chain h x :
  nolog chain -> chain_ok K lg ex chain h ->
  denormalize K lg ex chain h (normalize K lg ex chain h x) = x.
Proof.
elim: chain h x => [|t rest IH] h x //= /andP[nt nr] /andP[ok okr].
by rewrite IH // stage_denorm_norm.
Qed.

Lemma norm_denorm chain h y :
  nolog chain -> chain_ok K lg ex chain h ->
  normalize K lg ex chain h (denormalize K lg ex chain h y) = y.
Proof.
elim: chain h y => [|t rest IH] h y //= /andP[nt nr] /andP[ok okr].
by rewrite stage_norm_denorm // IH.
Qed.

Lemma log_roundtrip base off h x :
  lg base != 0 -> ex (lg (x + off)) = x + off ->
  apply1 K lg ex (Logt base off) true h (apply1 K lg ex (Logt base off) false h x) = x.
Proof. by move=> b0 E; rewrite /= /divF /= mulfVK // E addrK. Qed.

(* ---- monotonicity ---- *)
Lemma stage_mono t h x y :
  stage_increasing K t h -> x <= y -> apply1 K lg ex t false h x <= apply1 K lg ex t false h y.
Proof.
case: t => [m b|base off|lb ub lbn ubn|mu std] //=; rewrite /divF /= ?ltbF_mc.
- by move=> m0 xy; rewrite ler_add2r ler_pmul2l.
- case: (match h_dom h with Some d => d | None => (lb, ub) end) => lb' ub'.
  rewrite !ltbF_mc => /andP[d0 n0] xy.
  by rewrite ler_add2r ler_pmul2r ?subr_gt0 // ler_pmul2r ?invr_gt0 ?subr_gt0 // ler_add2r.
- case: (match h_dist h with Some d => d | None => (mu, std) end) => mu' std'.
  by rewrite ltbF_mc => s0 xy; rewrite ler_pmul2r ?invr_gt0 // ler_add2r.
Qed.

Lemma chain_mono chain h x y :
  chain_increasing K lg ex chain h -> x <= y -> normalize K lg ex chain h x <= normalize K lg ex chain h y.
Proof.
elim: chain h x y => [|t rest IH] h x y //= /andP[it ir] xy.
by apply: IH => //; apply: stage_mono.
Qed.

Lemma samples_inside chain h (lb ub x : F) :
  chain_increasing K lg ex chain h -> h_dom h = Some (lb, ub) -> lb <= x <= ub ->
  exists a b, norm_domain K lg ex chain h = Some (a, b) /\
              a <= normalize K lg ex chain h x <= b.
Proof.
move=> inc hd /andP[lx xu].
exists (normalize K lg ex chain h lb), (normalize K lg ex chain h ub); split.
  by rewrite /norm_domain hd.
by rewrite !chain_mono.
Qed.

(* ---- independence of the domain without Minmax ---- *)
Lemma apply1_dist t inv h h' x :
  (if t is Minmax _ _ _ _ then false else true) -> h_dist h' = h_dist h ->
  apply1 K lg ex t inv h' x = apply1 K lg ex t inv h x.
Proof. by case: t => [m b|base off|lb ub lbn ubn|mu std] //= _ ->. Qed.

Lemma push_dist t h h' :
  (if t is Minmax _ _ _ _ then false else true) -> h_dist h' = h_dist h ->
  h_dist (push_hyper K lg ex t h') = h_dist (push_hyper K lg ex t h).
Proof.
move=> nt E; rewrite /push_hyper /= E.
by case: (h_dist h) => [[a b]|] //; rewrite !(apply1_dist _ _ nt E).
Qed.

Lemma normalize_dist chain h h' x :
  nominmax chain -> h_dist h' = h_dist h ->
  normalize K lg ex chain h' x = normalize K lg ex chain h x.
Proof.
elim: chain h h' x => [|t rest IH] h h' x //= /andP[nt nr] E.
by rewrite (apply1_dist _ _ nt E); apply: IH => //; apply: push_dist.
Qed.

Lemma denormalize_dist chain h h' y :
  nominmax chain -> h_dist h' = h_dist h ->
  denormalize K lg ex chain h' y = denormalize K lg ex chain h y.
Proof.
elim: chain h h' y => [|t rest IH] h h' y //= /andP[nt nr] E.
by rewrite (apply1_dist _ _ nt E) (IH _ _ _ nr (push_dist nt E)).
Qed.

Lemma time_stable chain h h' x :
  nolog chain -> nominmax chain -> h_dist h' = h_dist h -> chain_ok K lg ex chain h ->
  denormalize K lg ex chain h' (normalize K lg ex chain h x) = x.
Proof. by move=> nl nm E ok; rewrite (denormalize_dist _ nm E) denorm_norm. Qed.

End Chains.

Lemma minmax_deferred_refuted : c16_decoded_later <> c16_original.
Proof. by move/(f_equal qc_num); vm_compute. Qed.

Lemma latent_roundtrip (F : realFieldType) (n k : nat) (P : 'M[F]_(n, k)) (c : 'cV[F]_k) :
  P^T *m P = 1%:M -> P^T *m (P *m c) = c.
Proof. by move=> H; rewrite mulmxA H mul1mx. Qed.
