(* Proofs/ComponentExact.v — C03 (composition): the prediction the code computes (Model/Lagr.v misc_predict) with the index
   sets and weights of any accepted activation history (Model/Misc.v) reproduces every monomial resolvable by an index of
   the set in use.  Composes C01 (weights = inclusion-exclusion), C02 (state invariant), C05 (misc_predict formula) and
   C03 (exact_monomial). *)
From mathcomp Require Import all_ssreflect all_algebra.
From AmiscV Require Import Misc MiscDefs Field Lagr LagrDefs Lagr1d LagrTensor.
From AmiscV Require MiscC01 MiscC02 CombCore Combination.
Set Implicit Arguments. Unset Strict Implicit. Unset Printing Implicit Defensive.
Import GRing.Theory Num.Theory.
Local Open Scope ring_scope.

(* NoDup of a concatenation of two disjoint duplicate-free lists *)
Lemma NoDup_cat (T : Type) (A B : seq T) :
  List.NoDup A -> List.NoDup B -> (forall i, List.In i A -> ~ List.In i B) -> List.NoDup (A ++ B)%list.
Proof.
elim: A => [|a A IH] //= ndA ndB dis.
have [naA ndA'] : ~ List.In a A /\ List.NoDup A by inversion ndA.
constructor.
- move=> inAB; case: (List.in_app_or _ _ _ inAB) => [//|inB].
  exact: (dis a (or_introl erefl) inB).
- by apply: IH => // i iA; apply: dis; right.
Qed.

Section ComponentExact.
Variable F : realFieldType.

Lemma size_index_grids (na kpl : nat) (nodes : nat -> seq F) (tol : nat -> F) (wts : nat -> nat -> seq F) (i : idx) :
  size (index_grids na kpl nodes tol wts i) = (size i - na)%N.
Proof. by rewrite /index_grids size_map size_iota. Qed.

(* the composition for an arbitrary set S with inclusion-exclusion weights *)
Lemma component_exact_gen (na nx kpl : nat) (nodes : nat -> seq F) (tol : nat -> F)
    (wts : nat -> nat -> seq F) (S : seq idx) (c : tree) (bstar : idx) (m : seq nat) (x : seq F) :
  weights_ok S c ->
  List.NoDup S -> (forall i, List.In i S -> size i = (na + nx)%N) -> dclosed S -> List.In bstar S ->
  size m = nx -> size x = nx ->
  (forall k, (k < nx)%N -> uniq (nodes k)) ->
  (forall k i, (k < nx)%N -> List.In i S -> (kpl * nth 0%N i (na + k) + 1 <= size (nodes k))%N) ->
  (forall k, (k < nx)%N -> (nth 0%N m k <= kpl * nth 0%N bstar (na + k))%N) ->
  (forall i, List.In i S ->
     (forall g, g \in index_grids na kpl nodes tol wts i -> valid_grid g) /\
     all_admissible (index_grids na kpl nodes tol wts i) x) ->
  misc_predict (mc_ops F) (misc_terms na kpl nodes tol wts m S c) x
  = \prod_(k < nx) nth 0 x k ^+ nth 0%N m k.
Proof.
move=> [_ [_ Hc]] ndS szS dcS bS szm szx unodes szn Hm Hva.
rewrite misc_predict_formula; last first.
  move=> t /mapP[i /CombCore.InP iS ->] /=.
  have [Hv Ha] := Hva i iS; split=> //; split=> //.
  by rewrite size_tensor_data // size_map size_index_grids szm szS // addKn.
rewrite /misc_terms big_map /=.
rewrite -(@Combination.exact_monomial F na nx kpl nodes tol wts S bstar m x) //.
by apply: eq_bigr => i _; rewrite Hc.
Qed.

Lemma in_box_size (mx : idx) (i : idx) (n : nat) : size mx = n -> le_idx i mx -> size i = n.
Proof. by move=> <- H; have := MiscC02.leb_idx_length _ _ H; rewrite !length_size. Qed.

Lemma component_exact_train (na nx kpl : nat) (nodes : nat -> seq F) (tol : nat -> F)
    (wts : nat -> nat -> seq F) (mx : idx) (reqs : seq idx) (bstar : idx) (m : seq nat) (x : seq F) :
  wf_reqs mx reqs -> size mx = (na + nx)%N -> List.In bstar (active (run mx reqs)) ->
  size m = nx -> size x = nx ->
  (forall k, (k < nx)%N -> uniq (nodes k)) ->
  (forall k i, (k < nx)%N -> List.In i (active (run mx reqs)) -> (kpl * nth 0%N i (na + k) + 1 <= size (nodes k))%N) ->
  (forall k, (k < nx)%N -> (nth 0%N m k <= kpl * nth 0%N bstar (na + k))%N) ->
  (forall i, List.In i (active (run mx reqs)) ->
     (forall g, g \in index_grids na kpl nodes tol wts i -> valid_grid g) /\
     all_admissible (index_grids na kpl nodes tol wts i) x) ->
  misc_predict (mc_ops F) (misc_terms na kpl nodes tol wts m (active (run mx reqs)) (ctrain (run mx reqs))) x
  = \prod_(k < nx) nth 0 x k ^+ nth 0%N m k.
Proof.
move=> wf szmx bS szm szx unodes szn Hm Hva.
have I := MiscC02.run_inv _ _ wf.
apply: (@component_exact_gen na nx kpl nodes tol wts _ _ bstar) => //.
- exact: (MiscC01.train_weights_ok _ _ wf).
- exact: (inv_nodup_active _ _ I).
- move=> i iS; apply: (in_box_size szmx); apply: (inv_in_box _ _ I).
  by apply: List.in_or_app; left.
- exact: (inv_dclosed_active _ _ I).
Qed.

Lemma component_exact_test (na nx kpl : nat) (nodes : nat -> seq F) (tol : nat -> F)
    (wts : nat -> nat -> seq F) (mx : idx) (reqs : seq idx) (bstar : idx) (m : seq nat) (x : seq F) :
  let S := (active (run mx reqs) ++ cand (run mx reqs))%list in
  wf_reqs mx reqs -> size mx = (na + nx)%N -> List.In bstar S ->
  size m = nx -> size x = nx ->
  (forall k, (k < nx)%N -> uniq (nodes k)) ->
  (forall k i, (k < nx)%N -> List.In i S -> (kpl * nth 0%N i (na + k) + 1 <= size (nodes k))%N) ->
  (forall k, (k < nx)%N -> (nth 0%N m k <= kpl * nth 0%N bstar (na + k))%N) ->
  (forall i, List.In i S ->
     (forall g, g \in index_grids na kpl nodes tol wts i -> valid_grid g) /\
     all_admissible (index_grids na kpl nodes tol wts i) x) ->
  misc_predict (mc_ops F) (misc_terms na kpl nodes tol wts m S (ctest (run mx reqs))) x
  = \prod_(k < nx) nth 0 x k ^+ nth 0%N m k.
Proof.
move=> S wf szmx bS szm szx unodes szn Hm Hva.
have I := MiscC02.run_inv _ _ wf.
apply: (@component_exact_gen na nx kpl nodes tol wts _ _ bstar) => //.
- exact: (MiscC01.test_weights_ok _ _ wf).
- apply: NoDup_cat; [exact: (inv_nodup_active _ _ I) | exact: (inv_nodup_cand _ _ I) | exact: (inv_disjoint _ _ I)].
- by move=> i iS; apply: (in_box_size szmx); apply: (inv_in_box _ _ I).
- exact: (inv_dclosed_union _ _ I).
Qed.

End ComponentExact.
