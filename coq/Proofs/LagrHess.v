(* Proofs/LagrHess.v — second derivatives of the barycentric Lagrange interpolator: the executable Hessian model of
   Model/Lagr.v (d2basis1, thess), instantiated at the operations of an arbitrary MathComp realFieldType, computes the
   formal second derivatives of the Lagrange basis polynomials and the second partial derivatives of the tensor-product
   interpolant.  Statements used by Props/C11H.v: d2basis_is_second_derivative, thess_is_second_partial,
   tlagrange_dd_sym. *)
From mathcomp Require Import all_ssreflect all_algebra.
From mathcomp Require Import ring.
From AmiscV Require Import Field Lagr LagrDefs Lagr1d LagrTensor LagrDeriv.
Set Implicit Arguments. Unset Strict Implicit. Unset Printing Implicit Defensive.
Import GRing.Theory Num.Theory.
Local Open Scope ring_scope.

Section Hess1.
Variable F : realFieldType.
Implicit Types (xs ws : seq F) (x xj xk tol kappa : F).
Local Notation K := (mc_ops F).

Lemma deriv2E (p : {poly F}) : p^`(2) = p^`()^`().
Proof. by []. Qed.

Lemma deriv2_prod_XsubC_nonroot (s : seq F) x : x \notin s ->
  ((\prod_(i <- s) ('X - i%:P))^`(2)).[x] =
  (\prod_(i <- s) (x - i)) * ((\sum_(i <- s) (x - i)^-1) ^+ 2 - \sum_(i <- s) (x - i)^-2).
Proof.
elim: s => [|a s IH].
  by rewrite !big_nil -[1]/(1%:P) deriv2E !derivC horner0 expr0n subrr mulr0.
rewrite inE negb_or => /andP[xa nin].
rewrite !big_cons deriv2E derivM derivXsubC mul1r derivD derivM derivXsubC mul1r.
rewrite !hornerD hornerM hornerXsubC -deriv2E IH // deriv_prod_XsubC_nonroot // .
have d0 : x - a != 0 by rewrite subr_eq0.
rewrite -exprVn.
by field.
Qed.

(* logarithmic forms of the first and second derivative of a basis polynomial, valid wherever x is not one of the
   OTHER nodes (so also at x = xj) *)
Lemma dlbase_log xs xj x : x \notin filter (predC1 xj) xs ->
  ((lbase xs xj)^`()).[x] = (lbase xs xj).[x] * \sum_(xm <- xs | xm != xj) (x - xm)^-1.
Proof.
move=> nin; rewrite lbase_split derivZ !hornerZ -mulrA; congr (_ * _).
rewrite -big_filter deriv_prod_XsubC_nonroot // horner_prod_XsubC.
by rewrite !big_filter.
Qed.

Lemma d2lbase_log xs xj x : x \notin filter (predC1 xj) xs ->
  ((lbase xs xj)^`(2)).[x] =
  (lbase xs xj).[x] * ((\sum_(xm <- xs | xm != xj) (x - xm)^-1) ^+ 2 - \sum_(xm <- xs | xm != xj) (x - xm)^-2).
Proof.
move=> nin; rewrite lbase_split derivnZ !hornerZ -mulrA; congr (_ * _).
rewrite -big_filter deriv2_prod_XsubC_nonroot // horner_prod_XsubC.
by rewrite !big_filter.
Qed.

Lemma dlbase_diag xs a :
  ((lbase xs a)^`()).[a] = \sum_(xm <- xs | xm != a) (a - xm)^-1.
Proof. by rewrite dlbase_log ?lbase_eq ?mul1r // mem_filter /= eqxx. Qed.

Lemma d2lbase_generic xs xj x : uniq xs -> xj \in xs -> x \notin xs ->
  ((lbase xs xj)^`(2)).[x] =
  (lbase xs xj).[x] * ((\sum_(xm <- xs) (x - xm)^-1 - (x - xj)^-1) ^+ 2 -
                       (\sum_(xm <- xs) (x - xm)^-2 - (x - xj)^-2)).
Proof.
move=> U jin nin; rewrite d2lbase_log; last by rewrite mem_filter negb_and nin orbT.
congr (_ * (_ ^+ 2 - _)).
- by rewrite [in RHS](bigD1_seq xj) //= addrAC subrr add0r.
- by rewrite [in RHS](bigD1_seq xj) //= addrAC subrr add0r.
Qed.

(* second derivative of the partition of unity *)
Lemma sum_d2lbase_eq0 xs x : uniq xs -> (0 < size xs)%N ->
  \sum_(j < size xs) ((lbase xs (nth 0 xs j))^`(2)).[x] = 0.
Proof.
move=> U n0; rewrite -horner_sum -linear_sum /= sum_lbase_eq1 //.
by rewrite -[1]/(1%:P) ?deriv2E !derivC horner0.
Qed.

(* off-diagonal entries of the second-derivative matrix *)
Lemma d2lbase_other xs xp a : uniq xs -> xp \in xs -> a \in xs -> xp != a ->
  ((lbase xs xp)^`(2)).[a] =
  2%:R * ((lbase xs xp)^`()).[a] * (((lbase xs a)^`()).[a] - (a - xp)^-1).
Proof.
move=> U pin ain ne; rewrite dlbase_diag.
have nea : a != xp by rewrite eq_sym.
rewrite lbase_split derivnZ derivZ !hornerZ.
set c := (\prod_(_ <- _ | _) _)^-1.
have -> : \prod_(xi <- xs | xi != xp) ('X - xi%:P) =
          ('X - a%:P) * \prod_(xi <- filter (predC1 a) (filter (predC1 xp) xs)) ('X - xi%:P).
  rewrite -big_filter (bigD1_seq a) /= ?filter_uniq ?mem_filter /= ?nea //.
  by rewrite [in RHS]big_filter.
set M := \prod_(_ <- _) _.
have aM : a \notin filter (predC1 a) (filter (predC1 xp) xs) by rewrite mem_filter /= eqxx.
rewrite deriv2E derivM derivXsubC mul1r derivD derivM derivXsubC mul1r.
rewrite !hornerD !hornerM !hornerXsubC subrr !mul0r !addr0.
rewrite /M deriv_prod_XsubC_nonroot // horner_prod_XsubC.
have -> : \sum_(xm <- xs | xm != a) (a - xm)^-1 =
          (a - xp)^-1 + \sum_(i <- filter (predC1 a) (filter (predC1 xp) xs)) (a - i)^-1.
  rewrite -big_filter (bigD1_seq xp) /= ?filter_uniq ?mem_filter /= ?ne //.
  congr (_ + _); rewrite [LHS]big_filter_cond [RHS]big_filter [RHS]big_filter_cond.
  by apply: eq_bigl => i /=; rewrite andbC.
by rewrite addrAC subrr add0r -mulr2n -mulr_natl !mulrA [c * _]mulrC.
Qed.
Lemma d2basis1_nosnap tol kappa xs ws x : uniq xs -> kappa != 0 -> bary_weights kappa xs ws ->
  x \notin xs -> (forall xk, xk \in xs -> ~~ (`|x - xk| <= tol)) ->
  d2basis1 K tol xs ws x = [seq ((lbase xs xk)^`(2)).[x] | xk <- xs].
Proof.
move=> U k0 [sw Hw] nin far; rewrite /d2basis1.
have -> : diffs1 K tol xs x = [seq (x - xk, false) | xk <- xs].
  rewrite /diffs1 lmapE; apply/eq_in_map => xk kin.
  by rewrite snapped_mc (negbTE (far _ kin)).
set ds := [seq (x - xk, false) | xk <- xs].
have sds : size ds = size xs by rewrite size_map.
have nds p : (List.nth p ds (one K, false)).2 = false.
  rewrite lnthE; case: (ltnP p (size xs)) => plt; first by rewrite (nth_map 0).
  by rewrite nth_default // sds.
set quot := map2 _ ws ds; set cquot := map2 _ ws ds; set squot := map2 _ ws ds.
have nthq j : (j < size xs)%N -> nth 0 quot j = nth 0 ws j / (x - nth 0 xs j).
  by move=> jlt; rewrite (nth_map2 _ 0 (0, false)) ?sw ?sds // (nth_map 0).
have nthsq j : (j < size xs)%N ->
    nth 0 squot j = nth 0 ws j / ((x - nth 0 xs j) * (x - nth 0 xs j)).
  by move=> jlt; rewrite (nth_map2 _ 0 (0, false)) ?sw ?sds // (nth_map 0).
have nthcq j : (j < size xs)%N ->
    nth 0 cquot j = nth 0 ws j / ((x - nth 0 xs j) * (x - nth 0 xs j) * (x - nth 0 xs j)).
  by move=> jlt; rewrite (nth_map2 _ 0 (0, false)) ?sw ?sds // (nth_map 0).
rewrite !sumF_mc.
pose qsum := \sum_(j < size xs) nth 0 ws j / (x - nth 0 xs j).
pose sqsum := \sum_(j < size xs) nth 0 ws j / ((x - nth 0 xs j) * (x - nth 0 xs j)).
pose cqsum := \sum_(j < size xs) nth 0 ws j / ((x - nth 0 xs j) * (x - nth 0 xs j) * (x - nth 0 xs j)).
have -> : \sum_(y <- quot) y = qsum.
  rewrite (big_nth 0) size_map2 sw sds minnn big_mkord; apply: eq_bigr => j _; exact: nthq.
have -> : \sum_(y <- squot) y = sqsum.
  rewrite (big_nth 0) size_map2 sw sds minnn big_mkord; apply: eq_bigr => j _; exact: nthsq.
have -> : \sum_(y <- cquot) y = cqsum.
  rewrite (big_nth 0) size_map2 sw sds minnn big_mkord; apply: eq_bigr => j _; exact: nthcq.
rewrite lmapE lseqE llengthE.
apply: (@eq_from_nth _ 0); first by rewrite !size_map size_iota.
move=> i; rewrite size_map size_iota => ilt.
have n0 : (0 < size xs)%N by exact: leq_ltn_trans ilt.
rewrite (nth_map 0%N) ?size_iota // nth_iota // add0n (nth_map 0) //.
rewrite lfilterE (@eq_filter _ _ pred0) ?filter_pred0; last by move=> p /=; rewrite nds andbF.
rewrite nds !lnthE (nth_map 0) //=.
set L := \prod_(xi <- xs) (x - xi).
have lb j : (j < size xs)%N ->
    (lbase xs (nth 0 xs j)).[x] = L / kappa * (nth 0 ws j / (x - nth 0 xs j)).
  by move=> jlt; rewrite (lbase_bary U _ nin k0) ?mem_nth // Hw.
have Lk : L / kappa * qsum = 1.
  rewrite mulr_sumr -(sum_lbase_horner_eq1 x U n0); apply: eq_bigr => j _.
  by rewrite lb.
have q0 : qsum != 0.
  by apply: contraTneq (oner_neq0 F) => q0; rewrite -Lk q0 mulr0 eqxx.
have Lq : L / kappa = qsum^-1 by rewrite -[LHS](mulfK q0) Lk mul1r.
set S1 := \sum_(xm <- xs) (x - xm)^-1.
set S2 := \sum_(xm <- xs) (x - xm)^-2.
have d0 j : (j < size xs)%N -> x - nth 0 xs j != 0.
  by move=> jlt; rewrite subr_eq0; apply: contraNneq nin => ->; rewrite mem_nth.
have SE : S1 = L / kappa * sqsum.
  have := sum_dlbase_eq0 x U n0.
  rewrite (eq_bigr (fun j : 'I_(size xs) => (lbase xs (nth 0 xs j)).[x] * S1 -
             L / kappa * (nth 0 ws j / ((x - nth 0 xs j) * (x - nth 0 xs j))))); last first.
    move=> j _; rewrite dlbase_generic ?mem_nth // mulrBr lb //; congr (_ - _).
    by rewrite invfM !mulrA.
  rewrite sumrB -mulr_suml sum_lbase_horner_eq1 // mul1r -mulr_sumr.
  by move/eqP; rewrite subr_eq0 => /eqP.
have E2 : 2%:R * (L / kappa * cqsum) - S1 ^+ 2 = S2.
  have := sum_d2lbase_eq0 x U n0.
  rewrite (eq_bigr (fun j : 'I_(size xs) => (lbase xs (nth 0 xs j)).[x] * (S1 ^+ 2 - S2) -
             2%:R * S1 * (L / kappa * (nth 0 ws j / ((x - nth 0 xs j) * (x - nth 0 xs j)))) +
             2%:R * (L / kappa * (nth 0 ws j / ((x - nth 0 xs j) * (x - nth 0 xs j) * (x - nth 0 xs j)))))); last first.
    move=> j _; rewrite d2lbase_generic ?mem_nth // lb // -/S1 -/S2.
    have dj := d0 j (ltn_ord j).
    by field; rewrite k0 dj.
  rewrite big_split sumrB /= -mulr_suml sum_lbase_horner_eq1 // mul1r -!mulr_sumr -/sqsum -/cqsum -SE => H.
  by apply/eqP; rewrite -subr_eq0 -H; apply/eqP; ring.
rewrite -deriv2E d2lbase_generic ?mem_nth // lb // -/S1 -/S2 -E2 SE Lq /divF /=.
have di := d0 i ilt.
by field; rewrite q0 di.
Qed.
Lemma sumF_filter_ne n j (G : nat -> F) :
  sumF K (List.map G (List.filter (fun p => ~~ PeanoNat.Nat.eqb p j) (List.seq 0 n))) =
  \sum_(p < n | (p : nat) != j) G p.
Proof.
rewrite lmapE lfilterE lseqE sumF_mc big_map big_filter /=.
rewrite -[X in iota _ X]subn0 -/(index_iota 0 n) big_mkord.
by apply: eq_bigl => p; rewrite nat_eqbE.
Qed.

(* the diagonal entry of the differentiation matrix, in terms of the weights *)
Lemma dlbase_diag_bary kappa xs ws s : uniq xs -> kappa != 0 -> bary_weights kappa xs ws -> (s < size xs)%N ->
  \sum_(p < size xs | (p : nat) != s) (nth 0 ws p / nth 0 ws s) / (nth 0 xs s - nth 0 xs p) =
  - ((lbase xs (nth 0 xs s))^`()).[nth 0 xs s].
Proof.
move=> U k0 bw slt.
have n0 : (0 < size xs)%N by exact: leq_ltn_trans slt.
have := sum_dlbase_eq0 (nth 0 xs s) U n0; rewrite (bigD1 (Ordinal slt)) //=.
move/eqP; rewrite addr_eq0 => /eqP ->; rewrite opprK.
by apply: eq_bigr => p pne; rewrite (dlbase_other U k0 bw).
Qed.

Lemma d2basis1_snap tol kappa xs ws x : uniq xs -> kappa != 0 -> bary_weights kappa xs ws ->
  0 <= tol -> x \in xs -> (forall xk, xk \in xs -> xk != x -> ~~ (`|x - xk| <= tol)) ->
  d2basis1 K tol xs ws x = [seq ((lbase xs xk)^`(2)).[x] | xk <- xs].
Proof.
move=> U k0 bw tol0 xin far; have [sw Hw] := bw; rewrite /d2basis1.
have -> : diffs1 K tol xs x = [seq (if xk == x then 1 else x - xk, xk == x) | xk <- xs].
  rewrite /diffs1 lmapE; apply/eq_in_map => xk kin.
  rewrite snapped_mc; case: (altP (xk =P x)) => [->|ne]; first by rewrite subrr normr0 tol0.
  by rewrite (negbTE (far _ kin ne)).
set ds := [seq (if xk == x then 1 else x - xk, xk == x) | xk <- xs].
have sds : size ds = size xs by rewrite size_map.
set s := index x xs.
have slt : (s < size xs)%N by rewrite index_mem.
have xE : nth 0 xs s = x by rewrite nth_index.
have nds p : (List.nth p ds (one K, false)).2 = (p == s).
  rewrite lnthE; case: (ltnP p (size xs)) => plt.
    by rewrite (nth_map 0) //= -[X in _ == X]xE nth_uniq.
  by rewrite nth_default ?sds //=; apply/esym/negbTE; rewrite neq_ltn (leq_trans slt plt) orbT.
rewrite lmapE lseqE llengthE.
apply: (@eq_from_nth _ 0); first by rewrite !size_map size_iota.
move=> i; rewrite size_map size_iota => ilt.
have n0 : (0 < size xs)%N by exact: leq_ltn_trans ilt.
rewrite (nth_map 0%N) ?size_iota // nth_iota // add0n (nth_map 0) //.
rewrite lfilterE nds.
case: (altP (i =P s)) => [iE|ne].
- rewrite (@eq_filter _ _ pred0) ?filter_pred0; last first.
    by move=> p /=; rewrite nds nat_eqbE iE; case: (p == s).
  rewrite !sumF_filter_ne /=.
  have xi : nth 0 xs i = x by rewrite iE.
  rewrite -xi; set a := nth 0 xs i.
  pose D := ((lbase xs a)^`()).[a].
  pose T := \sum_(p < size xs | (p : nat) != i) ((lbase xs (nth 0 xs p))^`()).[a] * (a - nth 0 xs p)^-1.
  have sD : \sum_(p < size xs | (p : nat) != i) ((lbase xs (nth 0 xs p))^`()).[a] = - D.
    have := sum_dlbase_eq0 a U n0; rewrite (bigD1 (Ordinal ilt)) //=.
    by move/eqP; rewrite addrC addr_eq0 => /eqP.
  have -> : \sum_(p < size xs | (p : nat) != i) List.nth p ws 0 / List.nth i ws 0 / (a - List.nth p xs 0) = - D.
    rewrite -sD; apply: eq_bigr => p pne.
    by rewrite !lnthE (dlbase_other U k0 bw).
  have -> : \sum_(p < size xs | (p : nat) != i)
               List.nth p ws 0 / List.nth i ws 0 / ((a - List.nth p xs 0) * (a - List.nth p xs 0)) = T.
    apply: eq_bigr => p pne.
    by rewrite !lnthE invfM mulrA (dlbase_other U k0 bw).
  have := sum_d2lbase_eq0 a U n0; rewrite (bigD1 (Ordinal ilt)) //=.
  move/eqP; rewrite addr_eq0 -/a => /eqP ->.
  rewrite (eq_bigr (fun p : 'I_(size xs) => 2%:R * D * ((lbase xs (nth 0 xs p))^`()).[a] -
              2%:R * (((lbase xs (nth 0 xs p))^`()).[a] * (a - nth 0 xs p)^-1))); last first.
    move=> p pne; rewrite -deriv2E d2lbase_other ?mem_nth ?nth_uniq // -/D.
    by move: (_.[a]) (_^-1) (D) => d v D'; ring.
  rewrite sumrB -!mulr_sumr sD -/T.
  by ring.
- have -> : [seq p <- iota 0 (size xs) | ~~ PeanoNat.Nat.eqb p i & (List.nth p ds (one K, false)).2] = [:: s].
    rewrite -(@filter_pred1_uniq _ (iota 0 (size xs)) s) ?iota_uniq ?mem_iota //.
    apply: eq_filter => p /=; rewrite nds nat_eqbE; case: (altP (p =P s)) => [->|]; last by rewrite andbF.
    by rewrite eq_sym ne.
  rewrite !sumF_filter_ne /=.
  rewrite (eq_bigr (fun p : 'I_(size xs) => nth 0 ws p / nth 0 ws s / (nth 0 xs s - nth 0 xs p))); last first.
    by move=> p _; rewrite !lnthE.
  rewrite (dlbase_diag_bary U k0 bw slt) !lnthE -xE.
  rewrite -deriv2E (d2lbase_other U) ?mem_nth ?nth_uniq // (dlbase_other U k0 bw ilt slt ne).
  move: (nth 0 xs i) => b; move: (nth 0 xs s) => a; move: (nth 0 ws s) => wS; move: (nth 0 ws i) => wi.
  by move: (_.[_]) => D; ring.
Qed.

Theorem d2basis_is_second_derivative tol kappa xs ws x :
  uniq xs -> kappa != 0 -> bary_weights kappa xs ws -> admissible tol xs x ->
  d2basis1 K tol xs ws x = [seq ((lbase xs xk)^`(2)).[x] | xk <- xs].
Proof.
move=> U k0 bw [[nin far]|[tol0 [xin far]]]; first exact: (d2basis1_nosnap U k0 bw).
exact: (d2basis1_snap U k0 bw).
Qed.
End Hess1.

(* ------------------------------------------------------------------ tensor product: thess *)
Section TensorH.
Variable F : realFieldType.
Implicit Types (xs ws ys zs : seq F) (x : seq F) (gs : seq (grid (F:=F))).
Local Notation K := (mc_ops F).
Local Notation chunk gs ys j := (take (gsizes gs) (drop (j * gsizes gs) ys)).

Theorem thess_is_second_partial gs x ys m n :
  (forall g, g \in gs -> valid_grid g) -> all_admissible gs x -> size ys = gsizes gs ->
  (m < size gs)%N -> (n < size gs)%N ->
  thess K m n gs x ys = tlagrange_dd m n gs x ys.
Proof.
elim: gs x ys m n => [|[tol [xs ws]] gs IH] x ys m n Hv [sx Had] sy // mlt nlt.
case: x sx Had => [|x0 x] // [sx] Had.
have [Uxs [_ [kappa [k0 Hw]]]] := Hv (tol, (xs, ws)) (mem_head _ _).
have Ax0 : admissible tol xs x0 by exact: (Had 0%N).
have Hv' : forall g, g \in gs -> valid_grid g by move=> g gin; apply: Hv; rewrite inE gin orbT.
have Ad' : all_admissible gs x by split=> // k' klt'; exact: (Had k'.+1).
move: sy; rewrite gsizes_cons /= => sy.
case: m mlt => [|m] mlt; case: n nlt => [|n] nlt /=.
- rewrite (d2basis_is_second_derivative Uxs k0 Hw Ax0) length_size.
  rewrite (@sumF_map2 _ _ _ _ 0 [::]) ?size_map ?size_chunks //.
  apply: eq_bigr => j _ /=.
  by rewrite (nth_map 0) // nth_chunks // tpredict_is_lagrange // (size_chunk sy).
- rewrite (dbasis_is_derivative Uxs k0 Hw Ax0) length_size.
  rewrite (@sumF_map2 _ _ _ _ 0 [::]) ?size_map ?size_chunks //.
  apply: eq_bigr => j _ /=.
  by rewrite (nth_map 0) // nth_chunks // tgrad_is_partial // (size_chunk sy).
- rewrite (dbasis_is_derivative Uxs k0 Hw Ax0) length_size.
  rewrite (@sumF_map2 _ _ _ _ 0 [::]) ?size_map ?size_chunks //.
  apply: eq_bigr => j _ /=.
  by rewrite (nth_map 0) // nth_chunks // tgrad_is_partial // (size_chunk sy).
- rewrite (basis_is_lagrange Uxs k0 Hw Ax0) length_size.
  rewrite (@sumF_map2 _ _ _ _ 0 [::]) ?size_map ?size_chunks //.
  apply: eq_bigr => j _ /=.
  by rewrite (nth_map 0) // nth_chunks // IH // (size_chunk sy).
Qed.

Theorem tlagrange_dd_sym gs x ys m n : tlagrange_dd m n gs x ys = tlagrange_dd n m gs x ys.
Proof.
elim: gs x ys m n => [|[tol [xs ws]] gs IH] x ys m n; first by case: m => [|m]; case: n => [|n].
case: x => [|x0 x]; first by case: m => [|m]; case: n => [|n].
case: m => [|m]; case: n => [|n] //=.
by apply: eq_bigr => j _; rewrite IH.
Qed.
End TensorH.
