(* Proofs/FpiProofs.v — proofs about the fixed-point-iteration control logic of Model/Fpi.v, instantiated at the
   operations of an arbitrary MathComp realFieldType.  Statements used by Props/C06.v:
   run_total, returned_is_fixed_point, failed_at_limit, more_iterations_same, batch_independent, fpi_is_seq,
   seq_returned_is_fixed_point, checker_sound, affine_identity. *)
From Coq Require Import List Arith Bool.
From mathcomp Require Import all_ssreflect all_algebra.
From AmiscV Require Import Field Fpi LagrDefs Lagr1d.
Set Implicit Arguments. Unset Strict Implicit. Unset Printing Implicit Defensive.
Import GRing.Theory Num.Theory.
Local Open Scope ring_scope.

(* ------------------------------------------------------------------ stdlib booleans vs ssreflect *)
Lemma leb_ssr (m n : nat) : PeanoNat.Nat.leb m n = (m <= n)%N.
Proof. by elim: m n => [|m IH] [|n] //=; rewrite IH. Qed.

Lemma forallbE (A : Type) (p : A -> bool) (l : seq A) : forallb p l = all p l.
Proof. by elim: l => //= a l ->. Qed.

(* a Prop-valued `all` *)
Fixpoint allP (A : Type) (P : A -> Prop) (l : seq A) : Prop :=
  if l is a :: l' then P a /\ allP P l' else True.

Section FpiProofs.
Variable F : realFieldType.
Variable tol : F.
Variable max_iter mem : nat.
Variable sweep : seq F -> seq F * seq F.
Variable mix : seq (seq F * seq F) -> seq F.

Local Notation K := (mc_ops F).
Local Notation fpiL L := (fpi K tol L mem sweep mix).
Local Notation fpi0 := (fpi K tol max_iter mem sweep mix).
Local Notation run := (run_sample K tol max_iter mem sweep mix).
Local Notation fseq := (fpi_seq K tol max_iter sweep).
Local Notation cnv := (conv K tol).

(* ------------------------------------------------------------------ the convergence test *)
Lemma convP (y c : seq F) : cnv y c = true ->
  size y = size c /\ forall i, (i < size y)%N -> `|nth 0 y i - nth 0 c i| <= tol.
Proof.
rewrite /conv forallbE nat_eqbE !llengthE => /andP [/all_nthP H /eqP e]; split=> // i ilt.
have := H 0 i; rewrite /vsub size_map2 -e minnn => /(_ ilt).
by rewrite (nth_map2 _ 0 0) -?e // absF_mc.
Qed.

Lemma vsub_zero_eq (a b : seq F) :
  forallb (fun r => eqb K r (zero K)) (vsub K a b) && PeanoNat.Nat.eqb (length a) (length b) = true -> a = b.
Proof.
elim: a b => [|x a IH] [|y b] //= /andP [/andP [/eqP e H] L].
by rewrite (subr0_eq e) (IH b) // H L.
Qed.

(* ------------------------------------------------------------------ the per-sample machine *)
Lemma fpi_converged L fuel k c h y z k0 : fpiL L fuel k c h = Converged y z k0 ->
  exists c', sweep c' = (y, z) /\ cnv y c' = true.
Proof.
elim: fuel k c h => [|fuel IH] k c h /=; case E: (sweep c) => [y' z']; case Ec: (conv _ _ _ _).
- by case=> <- <- _; exists c.
- by case: (PeanoNat.Nat.leb _ _).
- by case=> <- <- _; exists c.
- by case: (PeanoNat.Nat.leb _ _) => //; exact: IH.
Qed.

Lemma fpi_total fuel k c h : (max_iter <= k + fuel)%N -> fpi0 fuel k c h <> OutOfFuel.
Proof.
elim: fuel k c h => [|fuel IH] k c h /=; case E: (sweep c) => [y' z']; case Ec: (conv _ _ _ _) => //;
  rewrite leb_ssr.
- by rewrite addn0 => ->.
- by case: (max_iter <= k)%N => // Hk; apply: IH; rewrite addSnnS.
Qed.

Lemma fpi_failed fuel k c h k0 : fpi0 fuel k c h = Failed k0 -> (k <= max_iter)%N -> k0 = max_iter.
Proof.
elim: fuel k c h => [|fuel IH] k c h /=; case E: (sweep c) => [y' z']; case Ec: (conv _ _ _ _) => //;
  rewrite leb_ssr; case Ek: (max_iter <= k)%N => //.
- by case=> <- Hk; apply/eqP; rewrite eqn_leq Hk Ek.
- by case=> <- Hk; apply/eqP; rewrite eqn_leq Hk Ek.
- by move=> H _; apply: IH H _; rewrite ltnNge Ek.
Qed.

Lemma fpi_more L L' fuel fuel' k c h y z k0 : (L <= L')%N -> (fuel <= fuel')%N ->
  fpiL L fuel k c h = Converged y z k0 -> fpiL L' fuel' k c h = Converged y z k0.
Proof.
move=> HL; elim: fuel fuel' k c h => [|fuel IH] [|fuel'] k c h //= Hf;
  case E: (sweep c) => [y' z']; case Ec: (conv _ _ _ _) => //; rewrite !leb_ssr;
  case Ek: (L <= k)%N => //.
have -> : (L' <= k)%N = false by apply/negbTE; rewrite -ltnNge (leq_trans _ HL) // ltnNge Ek.
exact: IH.
Qed.

Theorem run_total (c0 : seq F) : run c0 <> OutOfFuel.
Proof. by apply: fpi_total; rewrite add0n. Qed.

Theorem returned_is_fixed_point (c0 y z : seq F) (k : nat) :
  run c0 = Converged y z k ->
  exists c, sweep c = (y, z) /\ size y = size c /\
            forall i, (i < size y)%N -> `|nth 0 y i - nth 0 c i| <= tol.
Proof. by case/fpi_converged => c [Es /convP Hc]; exists c. Qed.

Theorem failed_at_limit (c0 : seq F) (k : nat) : run c0 = Failed k -> k = max_iter.
Proof. by move/fpi_failed; apply. Qed.

Theorem more_iterations_same (max' : nat) (c0 y z : seq F) (k : nat) :
  (max_iter <= max')%N ->
  run c0 = Converged y z k ->
  run_sample K tol max' mem sweep mix c0 = Converged y z k.
Proof. by move=> HL; apply: fpi_more. Qed.

(* ------------------------------------------------------------------ the sequence-driven machine *)
Lemma fpi_is_seq_gen fuel k c h : exists nexts, fseq k c nexts = fpi0 fuel k c h.
Proof.
elim: fuel k c h => [|fuel IH] k c h; first by exists [::].
case E: (sweep c) => [y z].
set h' := push mem h (y, vsub K y c).
have [nexts Hn] := IH k.+1 (if PeanoNat.Nat.eqb k 0 then y else mix h') h'.
exists (mix h' :: nexts); rewrite /= E -/h' Hn.
by case: (PeanoNat.Nat.eqb k 0).
Qed.

Theorem fpi_is_seq (c0 : seq F) : exists nexts, fseq 0%N c0 nexts = run c0.
Proof. exact: fpi_is_seq_gen. Qed.

Lemma fseq_converged nexts k c y z k0 : fseq k c nexts = Converged y z k0 ->
  exists c', sweep c' = (y, z) /\ cnv y c' = true.
Proof.
elim: nexts k c => [|n nexts IH] k c /=; case E: (sweep c) => [y' z']; case Ec: (conv _ _ _ _).
- by case=> <- <- _; exists c.
- by case: (PeanoNat.Nat.leb _ _).
- by case=> <- <- _; exists c.
- by case: (PeanoNat.Nat.leb _ _) => //; exact: IH.
Qed.

Theorem seq_returned_is_fixed_point (nexts : seq (seq F)) (c0 y z : seq F) (k : nat) :
  fseq 0%N c0 nexts = Converged y z k ->
  exists c, sweep c = (y, z) /\ size y = size c /\
            forall i, (i < size y)%N -> `|nth 0 y i - nth 0 c i| <= tol.
Proof. by case/fseq_converged => c [Es /convP Hc]; exists c. Qed.

(* ------------------------------------------------------------------ the trace checker *)
Lemma ret_eq (ry rz y z : seq F) :
  forallb (fun r => eqb K r (zero K)) (vsub K ry y ++ vsub K rz z)%list
    && PeanoNat.Nat.eqb (length ry) (length y) && PeanoNat.Nat.eqb (length rz) (length z) = true ->
  ry = y /\ rz = z.
Proof.
rewrite forallb_app => /andP [/andP [/andP [H1 H2] L1] L2].
by split; apply: vsub_zero_eq; apply/andP.
Qed.

Lemma trace_sound tr k ce ret :
  trace_ok K tol max_iter k ce tr ret = true ->
  (forall c y z, (c, (y, z)) \in tr -> sweep c = (y, z)) ->
  match tr with
  | [::] => False
  | (c, _) :: _ => (forall ce', ce = Some ce' -> c = ce') /\
                   exists nexts, sample_values (fseq k c nexts) = Some ret
  end.
Proof.
elim: tr k ce ret => [|[c [y z]] rest IH] k ce ret //= /andP [Hce Hrest] G.
have Esw : sweep c = (y, z) by apply: G; rewrite inE eqxx.
have G' : forall c y z, (c, (y, z)) \in rest -> sweep c = (y, z).
  by move=> c1 y1 z1 H; apply: G; rewrite inE H orbT.
split; first by case: ce Hce => // ce' Hce _ [<-]; exact: vsub_zero_eq.
move: Hrest; case Ec: (conv _ _ _ _).
  case: rest {IH G G'} => //; case: ret => // [[ry rz]] /ret_eq [-> ->].
  by exists [::]; rewrite /= Esw Ec.
rewrite leb_ssr; case Ek: (max_iter <= k)%N.
  case: rest {IH G G'} => //; case: ret => // _.
  by exists [::]; rewrite /= Esw Ec leb_ssr Ek.
move=> Hrest.
have Hrec : trace_ok K tol max_iter k.+1 (if PeanoNat.Nat.eqb k 0 then Some y else None) rest ret = true.
  by case: rest Hrest {IH G G'}.
have := IH _ _ _ Hrec G'.
case: rest {IH G G' Hrest Hrec} => [|[c' [y' z']] rest'] // [Hc' [nexts Hn]].
exists (c' :: nexts); rewrite /= Esw Ec leb_ssr Ek.
case: (PeanoNat.Nat.eqb k 0) Hc' => Hc' //.
by rewrite -(Hc' y erefl).
Qed.

Theorem checker_sound (c0 : seq F) (tr : seq (seq F * (seq F * seq F))) (ret : option (seq F * seq F)) :
  trace_ok K tol max_iter 0 (Some c0) tr ret = true ->
  (forall c y z, (c, (y, z)) \in tr -> sweep c = (y, z)) ->
  exists nexts, sample_values (fseq 0%N c0 nexts) = Some ret.
Proof.
move=> H G; have := trace_sound H G.
by case: tr {H G} => [|[c yz] rest] // [Hc [nexts Hn]]; exists nexts; rewrite -(Hc c0 erefl).
Qed.

(* ------------------------------------------------------------------ the batched machine *)
Local Notation ev1 := (eval1 sweep).
Local Notation mk1 := (mark1 K tol mem).
Local Notation mx1 := (mix1 mix).
Local Notation bf := (bfpi K tol max_iter mem sweep mix).

Definition outv (r : result (F:=F)) : option (seq F * seq F) :=
  if r is Converged y z _ then Some (y, z) else None.

(* the per-sample machine and the sample's row of the batch are in the same state *)
Definition R (fuel k : nat) (p : seq F * sample (F:=F)) : Prop :=
  if s_conv p.2 then exists k', run p.1 = Converged (s_y p.2) (s_z p.2) k'
  else run p.1 = fpi0 fuel k (s_c p.2) (s_hist p.2).

Definition bstep (k : nat) (s : sample (F:=F)) : sample :=
  let s1 := mk1 (ev1 s) in if PeanoNat.Nat.eqb k 0 then s1 else mx1 s1.

Lemma R_mark fuel k p : R fuel k p ->
  let s1 := mk1 (ev1 p.2) in
  if s_conv s1 then exists k', run p.1 = Converged (s_y s1) (s_z s1) k'
  else run p.1 =
       if (max_iter <= k)%N then Failed k
       else if fuel is f.+1
            then fpi0 f k.+1 (if PeanoNat.Nat.eqb k 0 then s_c s1 else mix (s_hist s1)) (s_hist s1)
            else OutOfFuel.
Proof.
case: p => c0 [cv c y z h]; rewrite /R /=; case: cv => //=.
rewrite /eval1 /=; case E: (sweep c) => [y' z'] /=; case Ec: (conv _ _ _ _) => /= ->.
  by exists k; case: fuel => [|f] /=; rewrite E Ec.
by case: fuel => [|f] /=; rewrite E Ec leb_ssr.
Qed.

Lemma R_step fuel k p : R fuel.+1 k p -> (max_iter <= k)%N = false -> R fuel k.+1 (p.1, bstep k p.2).
Proof.
move=> /R_mark H Ek; move: H; rewrite /bstep /R Ek; move: (mk1 _) => s1 /=.
by case: (PeanoNat.Nat.eqb k 0); rewrite /mix1; case Es: (s_conv s1) => //=; rewrite ?Es.
Qed.

Lemma bf_unfold fuel k ss :
  bf fuel k ss =
  let ss1 := map mk1 (map ev1 ss) in
  if all (@s_conv F) ss1 || (max_iter <= k)%N then Some (ss1, k)
  else if fuel is f.+1 then bf f k.+1 (if PeanoNat.Nat.eqb k 0 then ss1 else map mx1 ss1) else None.
Proof.
by case: fuel => [|f] /=; rewrite forallbE leb_ssr !lmapE; case: (all _ _); case: (max_iter <= k)%N.
Qed.

Lemma stop_values fuel k ps : allP (R fuel k) ps ->
  let ss1 := map mk1 (map ev1 (map snd ps)) in
  all (@s_conv F) ss1 || (max_iter <= k)%N ->
  map (fun s => if s_conv s then Some (s_y s, s_z s) else None) ss1 = map (fun p => outv (run p.1)) ps.
Proof.
elim: ps => [|p ps IH] //.
rewrite [allP _ _]/= !map_cons => -[/R_mark]; move: (mk1 _) => s1 /=.
case Es: (s_conv s1) => /=.
  by case=> k' -> Hps Hs; rewrite IH.
case Ek: (max_iter <= k)%N => // -> Hps _.
by rewrite IH // Ek orbT.
Qed.

Lemma step_all fuel k ps : allP (R fuel.+1 k) ps -> (max_iter <= k)%N = false ->
  allP (R fuel k.+1) (map (fun p => (p.1, bstep k p.2)) ps).
Proof. by move=> H Ek; elim: ps H => [|p ps IH] //= [/R_step Hp /IH Hps]; split=> //; exact: Hp. Qed.

Lemma step_snd k ps :
  map snd (map (fun p : seq F * sample (F:=F) => (p.1, bstep k p.2)) ps) =
  if PeanoNat.Nat.eqb k 0 then map mk1 (map ev1 (map snd ps)) else map mx1 (map mk1 (map ev1 (map snd ps))).
Proof.
rewrite /bstep /=; case: (PeanoNat.Nat.eqb k 0); rewrite -!map_comp; exact: eq_map.
Qed.

Lemma bf_spec fuel k ps : (max_iter <= k + fuel)%N -> allP (R fuel k) ps ->
  batch_values (bf fuel k (map snd ps)) = Some (map (fun p => outv (run p.1)) ps).
Proof.
elim: fuel k ps => [|fuel IH] k ps Hf HR; rewrite bf_unfold /=.
  rewrite addn0 in Hf; rewrite Hf orbT /= lmapE; congr Some.
  by apply: (stop_values HR); rewrite Hf orbT.
case Est: (all _ _ || _).
  by rewrite /= lmapE; congr Some; apply: (stop_values HR).
move/norP: (negbT Est) => [_ /negbTE Ek].
rewrite -step_snd IH ?addSnnS //; last exact: step_all.
by rewrite -map_comp.
Qed.

Theorem batch_independent (c0s : seq (seq F)) :
  batch_values (bf max_iter.+1 0%N [seq init_sample c0 | c0 <- c0s]) =
  Some [seq (if run c0 is Converged y z _ then Some (y, z) else None) | c0 <- c0s].
Proof.
have -> : [seq init_sample c0 | c0 <- c0s] = map snd [seq (c0, init_sample c0) | c0 <- c0s].
  by rewrite -map_comp.
rewrite bf_spec ?add0n //; first by rewrite -map_comp.
by elim: c0s => [|c0 c0s IH].
Qed.
End FpiProofs.

(* ------------------------------------------------------------------ affine loops *)
Theorem affine_identity (F : realFieldType) (n : nat) (A : 'M[F]_n) (b c y cstar : 'cV[F]_n) :
  1%:M - A \in unitmx -> cstar = A *m cstar + b -> y = A *m c + b ->
  y - cstar = A *m invmx (1%:M - A) *m (c - y).
Proof.
move=> U Ec Ey.
have Ec' : A *m cstar = cstar - b by rewrite [in RHS]Ec addrK.
have Ey' : A *m c = y - b by rewrite Ey addrK.
have d1 : A *m (c - cstar) = y - cstar by rewrite mulmxBr Ey' Ec' opprB addrA subrK.
have d2 : (1%:M - A) *m (c - cstar) = c - y by rewrite mulmxBl mul1mx d1 opprB addrA subrK.
by rewrite -d2 -mulmxA (mulKmx U) d1.
Qed.
