(* Proofs/BoundsDefs.v — specification vocabulary for Model/Bounds.v (no executable content) *)
From Coq Require Import List Bool QArith Qcanon.
From AmiscV Require Import Bounds.
Import ListNotations.

Definition inside (d : dom) (x : Qc) : Prop := (fst d <= x)%Qc /\ (x <= snd d)%Qc.
(* d contains d' *)
Definition contains (d d' : dom) : Prop := (fst d <= fst d')%Qc /\ (snd d' <= snd d)%Qc.
Definition dom_ok (d : dom) : Prop := (fst d < snd d)%Qc.
(* the decoding is order preserving *)
Definition kind_ok (k : nkind) : Prop := match k with NAffine a _ => (Q2Qc 0 < a)%Qc | NMinmax => True end.
