(* Proofs/LagrDefs.v — MathComp-side vocabulary for the interpolator theorems (no proofs). *)
From mathcomp Require Import all_ssreflect all_algebra.
From AmiscV Require Import Misc Field Lagr.
Set Implicit Arguments. Unset Strict Implicit. Unset Printing Implicit Defensive.
Import GRing.Theory Num.Theory.
Local Open Scope ring_scope.

(* the field operations of a MathComp real field, as the record the models take *)
Definition mc_ops (F : realFieldType) : ops F :=
  mkops F 0 1 +%R *%R (fun x y => x - y) -%R GRing.inv (fun x y => x == y) (fun x y => x <= y).

(* the value of a Coq integer (a combination weight of Model/Misc.v) in a ring *)
Definition z2r (R : ringType) (z : BinNums.Z) : R :=
  match z with
  | BinNums.Z0 => 0
  | BinNums.Zpos p => (BinPos.Pos.to_nat p)%:R
  | BinNums.Zneg p => - (BinPos.Pos.to_nat p)%:R
  end.

Section Defs.
Variable F : realFieldType.
Implicit Types (xs ws ys : seq F) (x tol kappa : F).

(* Lagrange basis polynomial of node xj on the node list xs, and the interpolation polynomial *)
Definition lbase xs (xj : F) : {poly F} :=
  \prod_(xi <- xs | xi != xj) ((xj - xi)^-1 *: ('X - xi%:P)).
Definition interp_poly xs ys : {poly F} :=
  \sum_(j < size xs) nth 0 ys j *: lbase xs (nth 0 xs j).

(* barycentric weights of the form kappa / prod_{i<>j} (x_j - x_i) *)
Definition bary_weights kappa xs ws : Prop :=
  size ws = size xs /\
  forall j, (j < size xs)%N ->
    nth 0 ws j = kappa / \prod_(xi <- xs | xi != nth 0 xs j) (nth 0 xs j - xi).

(* the evaluation point is admissible for a grid: either not a node and farther than tol from every node, or exactly
   on a node with every other node farther than tol from it *)
Definition admissible tol xs x : Prop :=
  (x \notin xs /\ forall xk, xk \in xs -> ~~ (`|x - xk| <= tol)) \/
  (0 <= tol /\ x \in xs /\ forall xk, xk \in xs -> xk != x -> ~~ (`|x - xk| <= tol)).

(* a valid grid: distinct nodes, consistent weights with a non-zero constant *)
Definition valid_grid (g : grid (F:=F)) : Prop :=
  let: (tol, (xs, ws)) := g in
  uniq xs /\ (0 < size xs)%N /\ exists kappa, kappa != 0 /\ bary_weights kappa xs ws.

(* data of a product function prod_k f_k(x_k) on the tensor grid, row-major (last dimension fastest) *)
Fixpoint tensor_data (gs : seq (grid (F:=F))) (fs : seq (F -> F)) : seq F :=
  match gs, fs with
  | (_, (xs, _)) :: gs', f :: fs' => flatten [seq [seq f xk * y | y <- tensor_data gs' fs'] | xk <- xs]
  | _, _ => [:: 1]
  end.

(* data of an arbitrary function of the coordinate list on the tensor grid, same order *)
Fixpoint grid_data (gs : seq (grid (F:=F))) (f : seq F -> F) : seq F :=
  match gs with
  | (_, (xs, _)) :: gs' => flatten [seq grid_data gs' (fun r => f (xk :: r)) | xk <- xs]
  | [::] => [:: f [::]]
  end.

(* the tensor-product Lagrange interpolant written with basis polynomials (the mathematical object) *)
Fixpoint tlagrange (gs : seq (grid (F:=F))) (x : seq F) (ys : seq F) : F :=
  match gs, x with
  | [::], _ => head 0 ys
  | (_, (xs, _)) :: gs', x0 :: x' =>
      \sum_(j < size xs) (lbase xs (nth 0 xs j)).[x0] *
         tlagrange gs' x' (take (gsizes gs') (drop (j * gsizes gs') ys))
  | _, [::] => 0
  end.

(* the grids of index i = alpha ++ beta (na = length alpha): input dimension k uses the first
   kpl * beta_k + 1 points of the nested sequence nodes k *)
Definition index_grids (na kpl : nat) (nodes : nat -> seq F) (tol : nat -> F)
    (wts : nat -> nat -> seq F) (i : seq nat) : seq (grid (F:=F)) :=
  [seq (tol k, (take (kpl * nth 0%N i (na + k) + 1) (nodes k), wts k (nth 0%N i (na + k))))
  | k <- iota 0 (size i - na)].

(* d/dx_k of the tensor-product Lagrange interpolant: dimension k uses the derivative of the basis polynomials *)
Fixpoint tlagrange_d (k : nat) (gs : seq (grid (F:=F))) (x : seq F) (ys : seq F) : F :=
  match gs, x with
  | [::], _ => 0
  | (_, (xs, _)) :: gs', x0 :: x' =>
      match k with
      | 0%N => \sum_(j < size xs) ((lbase xs (nth 0 xs j))^`()).[x0] *
                 tlagrange gs' x' (take (gsizes gs') (drop (j * gsizes gs') ys))
      | k'.+1 => \sum_(j < size xs) (lbase xs (nth 0 xs j)).[x0] *
                 tlagrange_d k' gs' x' (take (gsizes gs') (drop (j * gsizes gs') ys))
      end
  | _, [::] => 0
  end.

(* second partial d2/dx_m dx_n of the tensor-product Lagrange interpolant *)
Fixpoint tlagrange_dd (m n : nat) (gs : seq (grid (F:=F))) (x : seq F) (ys : seq F) : F :=
  match gs, x with
  | [::], _ => 0
  | (_, (xs, _)) :: gs', x0 :: x' =>
      let ch j := take (gsizes gs') (drop (j * gsizes gs') ys) in
      match m, n with
      | 0%N, 0%N => \sum_(j < size xs) ((lbase xs (nth 0 xs j))^`(2)).[x0] * tlagrange gs' x' (ch j)
      | 0%N, n'.+1 => \sum_(j < size xs) ((lbase xs (nth 0 xs j))^`()).[x0] * tlagrange_d n' gs' x' (ch j)
      | m'.+1, 0%N => \sum_(j < size xs) ((lbase xs (nth 0 xs j))^`()).[x0] * tlagrange_d m' gs' x' (ch j)
      | m'.+1, n'.+1 => \sum_(j < size xs) (lbase xs (nth 0 xs j)).[x0] * tlagrange_dd m' n' gs' x' (ch j)
      end
  | _, [::] => 0
  end.

(* affine change of units of one input: nodes a*t+b, tolerance a*tol, same weights *)
Definition amap (a b : F) (xs : seq F) : seq F := [seq a * t + b | t <- xs].
Definition gmap (ab : seq (F * F)) (gs : seq (grid (F:=F))) : seq (grid (F:=F)) :=
  [seq (p.1.1 * p.2.1, (amap p.1.1 p.1.2 p.2.2.1, p.2.2.2)) | p <- zip ab gs].
Definition xmap (ab : seq (F * F)) (x : seq F) : seq F := [seq p.1.1 * p.2 + p.1.2 | p <- zip ab x].

(* the terms Component.predict sums for the monomial prod x_k^(m_k): one per index of the set in use, with its weight from
   the weight tree of Model/Misc.v *)
Definition misc_terms (na kpl : nat) (nodes : nat -> seq F) (tol : nat -> F) (wts : nat -> nat -> seq F)
    (m : seq nat) (S : seq (seq nat)) (c : Misc.tree) : seq (F * (seq (grid (F:=F)) * seq F)) :=
  [seq (z2r F (Misc.coeff c i),
        (index_grids na kpl nodes tol wts i,
         tensor_data (index_grids na kpl nodes tol wts i) [seq (fun t : F => t ^+ e) | e <- m]))
  | i <- S].

Definition all_admissible (gs : seq (grid (F:=F))) (x : seq F) : Prop :=
  size x = size gs /\
  forall k, (k < size gs)%N -> let: (tol, (xs, _)) := nth (0, ([::], [::])) gs k in admissible tol xs (nth 0 x k).
End Defs.
