(* Proofs/SearchProofs.v — lemmas about Model/Search.v *)
From Coq Require Import List Arith Bool Lia.
From AmiscV Require Import Search.
Import ListNotations.

Lemma first_true_spec (l : list bool) (k : nat) :
  first_true l = Some k <-> nth_error l k = Some true /\ forall j, j < k -> nth_error l j = Some false.
Proof.
  revert k; induction l as [|b r IH]; intros k; cbn [first_true].
  - split; [discriminate|]. intros [H _]. destruct k; discriminate.
  - destruct b.
    + split.
      * intros H; injection H as <-. split; [reflexivity|]. intros j Hj; lia.
      * intros [Hk Hlt]. destruct k as [|k]; [reflexivity|]. specialize (Hlt 0 ltac:(lia)). discriminate.
    + destruct (first_true r) as [k'|] eqn:E.
      * split.
        -- intros H; injection H as <-. destruct (proj1 (IH k') eq_refl) as [E1 E2]. split; [exact E1|].
           intros [|j] Hj; [reflexivity|]. apply E2; lia.
        -- intros [Hk Hlt]. destruct k as [|k]; [discriminate|]. f_equal.
           assert (Some k' = Some k) as E'.
           { apply IH. split; [exact Hk|]. intros j Hj. apply (Hlt (S j)); lia. }
           congruence.
      * split; [discriminate|]. intros [Hk Hlt]. destruct k as [|k]; [discriminate|].
        assert (None = Some k) as E'.
        { apply IH. split; [exact Hk|]. intros j Hj. apply (Hlt (S j)); lia. }
        discriminate.
Qed.

Lemma first_true_none (l : list bool) : first_true l = None <-> forall b, In b l -> b = false.
Proof.
  induction l as [|b r IH]; cbn [first_true].
  - split; [intros _ b []|reflexivity].
  - destruct b.
    + split; [discriminate|]. intros H. specialize (H true (or_introl eq_refl)). discriminate.
    + destruct (first_true r) eqn:E.
      * split; [discriminate|]. intros H. assert (Some n = None) by (apply IH; intros b Hb; apply H; right; exact Hb). discriminate.
      * split; [|reflexivity]. intros _ b [<-|Hb]; [reflexivity|]. apply (proj1 IH eq_refl); exact Hb.
Qed.

(* a path that exists as given is never replaced *)
Lemma existing_path_untouched (nparts : nat) (sfx : bool) (holds : list bool) (cwd : bool) :
  1 < nparts -> search nparts sfx true holds cwd = Unchanged.
Proof.
  intros H. unfold search, need_to_search.
  assert (Nat.eqb nparts 1 = false) as -> by (apply Nat.eqb_neq; lia).
  rewrite andb_false_r. reflexivity.
Qed.

(* what is searched for: a bare name with a suffix, or a path that no longer exists *)
Lemma searched_iff (nparts : nat) (sfx ex : bool) :
  need_to_search nparts sfx ex = true <-> (nparts = 1 /\ sfx = true) \/ (1 < nparts /\ ex = false).
Proof.
  unfold need_to_search. rewrite orb_true_iff, !andb_true_iff, Nat.eqb_eq, Nat.ltb_lt, negb_true_iff. tauto.
Qed.

(* the directories given by the caller win over the working directory, in their order *)
Lemma given_directory_wins (nparts : nat) (sfx ex : bool) (holds : list bool) (cwd : bool) (k : nat) :
  need_to_search nparts sfx ex = true ->
  nth_error holds k = Some true -> (forall j, j < k -> nth_error holds j = Some false) ->
  search nparts sfx ex holds cwd = InGiven k.
Proof.
  intros Hn Hk Hlt. unfold search. rewrite Hn.
  assert (k < length holds) as Hlen by (apply nth_error_Some; congruence).
  assert (first_true (holds ++ [cwd]) = Some k) as ->.
  { apply first_true_spec. split.
    - rewrite nth_error_app1 by exact Hlen. exact Hk.
    - intros j Hj. rewrite nth_error_app1 by lia. apply Hlt; exact Hj. }
  apply Nat.ltb_lt in Hlen. rewrite Hlen. reflexivity.
Qed.

(* the working directory is used only when no given directory holds the file *)
Lemma cwd_only_as_last_resort (nparts : nat) (sfx ex : bool) (holds : list bool) (cwd : bool) :
  search nparts sfx ex holds cwd = InCwd ->
  need_to_search nparts sfx ex = true /\ cwd = true /\ forall b, In b holds -> b = false.
Proof.
  unfold search. destruct (need_to_search nparts sfx ex); [|discriminate].
  destruct (first_true (holds ++ [cwd])) as [k|] eqn:E; [|discriminate].
  destruct (Nat.ltb k (length holds)) eqn:Hk; [discriminate|]. intros _.
  apply Nat.ltb_ge in Hk. apply first_true_spec in E. destruct E as [E1 E2].
  split; [reflexivity|]. split.
  - rewrite nth_error_app2 in E1 by exact Hk.
    destruct (k - length holds) as [|m] eqn:Em; cbn in E1; [congruence|]. destruct m; discriminate.
  - intros b Hb. apply In_nth_error in Hb. destruct Hb as [j Hj].
    assert (j < length holds) as Hlen by (apply nth_error_Some; congruence).
    specialize (E2 j ltac:(lia)). rewrite nth_error_app1 in E2 by exact Hlen. congruence.
Qed.

(* nothing found anywhere: the recorded name goes back to the caller unchanged *)
Lemma not_found_unchanged (nparts : nat) (sfx ex : bool) (holds : list bool) :
  (forall b, In b holds -> b = false) -> search nparts sfx ex holds false = Unchanged.
Proof.
  intros H. unfold search. destruct (need_to_search nparts sfx ex); [|reflexivity].
  assert (first_true (holds ++ [false]) = None) as ->; [|reflexivity].
  apply first_true_none. intros b Hb. apply in_app_or in Hb. destruct Hb as [Hb|[<-|[]]]; [apply H; exact Hb|reflexivity].
Qed.

(* the result does not depend on the working directory as soon as a given directory holds the file *)
Lemma independent_of_cwd (nparts : nat) (sfx ex : bool) (holds : list bool) (c1 c2 : bool) :
  In true holds -> search nparts sfx ex holds c1 = search nparts sfx ex holds c2.
Proof.
  intros Hin. unfold search. destruct (need_to_search nparts sfx ex); [|reflexivity].
  assert (exists k, first_true holds = Some k) as [k Hk].
  { destruct (first_true holds) eqn:E; [eexists; reflexivity|].
    assert (true = false) by (apply (proj1 (first_true_none holds) E); exact Hin). discriminate. }
  apply first_true_spec in Hk. destruct Hk as [H1 H2].
  assert (k < length holds) as Hlen by (apply nth_error_Some; congruence).
  assert (forall c, first_true (holds ++ [c]) = Some k) as Hc.
  { intros c. apply first_true_spec. split.
    - rewrite nth_error_app1 by exact Hlen. exact H1.
    - intros j Hj. rewrite nth_error_app1 by lia. apply H2; exact Hj. }
  rewrite !Hc. reflexivity.
Qed.
