From mathcomp Require Import all_ssreflect all_algebra.
From mathcomp Require Import ring.
From AmiscV Require Import Field Lagr LagrDefs Lagr1d LagrTensor LagrDeriv.
Set Implicit Arguments. Unset Strict Implicit. Unset Printing Implicit Defensive.
Import GRing.Theory Num.Theory.
Local Open Scope ring_scope.

Section Hess1.
Variable F : realFieldType.
Implicit Types (xs ws : seq F) (x xj xk tol kappa : F).
Local Notation K := (mc_ops F).

Lemma deriv2E (p : {poly F}) : p^`(2) = p^`()^`().
Proof. by []. Qed.

Lemma deriv2_prod_XsubC_nonroot (s : seq F) x : x \notin s ->
  ((\prod_(i <- s) ('X - i%:P))^`(2)).[x] =
  (\prod_(i <- s) (x - i)) * ((\sum_(i <- s) (x - i)^-1) ^+ 2 - \sum_(i <- s) (x - i)^-2).
Proof.
elim: s => [|a s IH].
  by rewrite !big_nil -[1]/(1%:P) deriv2E !derivC horner0 expr0n subrr mulr0.
rewrite inE negb_or => /andP[xa nin].
rewrite !big_cons deriv2E derivM derivXsubC mul1r derivD derivM derivXsubC mul1r.
rewrite !hornerD hornerM hornerXsubC -deriv2E IH // deriv_prod_XsubC_nonroot // .
have d0 : x - a != 0 by rewrite subr_eq0.
rewrite -exprVn.
by field.
Qed.

(* logarithmic forms of the first and second derivative of a basis polynomial, valid wherever x is not one of the
   OTHER nodes (so also at x = xj) *)
Lemma dlbase_log xs xj x : x \notin filter (predC1 xj) xs ->
  ((lbase xs xj)^`()).[x] = (lbase xs xj).[x] * \sum_(xm <- xs | xm != xj) (x - xm)^-1.
Proof.
move=> nin; rewrite lbase_split derivZ !hornerZ -mulrA; congr (_ * _).
rewrite -big_filter deriv_prod_XsubC_nonroot // horner_prod_XsubC.
by rewrite !big_filter.
Qed.

Lemma d2lbase_log xs xj x : x \notin filter (predC1 xj) xs ->
  ((lbase xs xj)^`(2)).[x] =
  (lbase xs xj).[x] * ((\sum_(xm <- xs | xm != xj) (x - xm)^-1) ^+ 2 - \sum_(xm <- xs | xm != xj) (x - xm)^-2).
Proof.
move=> nin; rewrite lbase_split derivnZ !hornerZ -mulrA; congr (_ * _).
rewrite -big_filter deriv2_prod_XsubC_nonroot // horner_prod_XsubC.
by rewrite !big_filter.
Qed.

Lemma dlbase_diag xs a :
  ((lbase xs a)^`()).[a] = \sum_(xm <- xs | xm != a) (a - xm)^-1.
Proof. by rewrite dlbase_log ?lbase_eq ?mul1r // mem_filter /= eqxx. Qed.

Lemma d2lbase_generic xs xj x : uniq xs -> xj \in xs -> x \notin xs ->
  ((lbase xs xj)^`(2)).[x] =
  (lbase xs xj).[x] * ((\sum_(xm <- xs) (x - xm)^-1 - (x - xj)^-1) ^+ 2 -
                       (\sum_(xm <- xs) (x - xm)^-2 - (x - xj)^-2)).
Proof.
move=> U jin nin; rewrite d2lbase_log; last by rewrite mem_filter negb_and nin orbT.
congr (_ * (_ ^+ 2 - _)).
- by rewrite [in RHS](bigD1_seq xj) //= addrAC subrr add0r.
- by rewrite [in RHS](bigD1_seq xj) //= addrAC subrr add0r.
Qed.

(* second derivative of the partition of unity *)
Lemma sum_d2lbase_eq0 xs x : uniq xs -> (0 < size xs)%N ->
  \sum_(j < size xs) ((lbase xs (nth 0 xs j))^`(2)).[x] = 0.
Proof.
move=> U n0; rewrite -horner_sum -linear_sum /= sum_lbase_eq1 //.
by rewrite -[1]/(1%:P) ?deriv2E !derivC horner0.
Qed.

(* off-diagonal entries of the second-derivative matrix *)
Lemma d2lbase_other xs xp a : uniq xs -> xp \in xs -> a \in xs -> xp != a ->
  ((lbase xs xp)^`(2)).[a] =
  2%:R * ((lbase xs xp)^`()).[a] * (((lbase xs a)^`()).[a] - (a - xp)^-1).
Proof.
move=> U pin ain ne; rewrite dlbase_diag.
have nea : a != xp by rewrite eq_sym.
rewrite lbase_split derivnZ derivZ !hornerZ.
set c := (\prod_(_ <- _ | _) _)^-1.
have -> : \prod_(xi <- xs | xi != xp) ('X - xi%:P) =
          ('X - a%:P) * \prod_(xi <- filter (predC1 a) (filter (predC1 xp) xs)) ('X - xi%:P).
  rewrite -big_filter (bigD1_seq a) /= ?filter_uniq ?mem_filter /= ?nea //.
  by rewrite [in RHS]big_filter.
set M := \prod_(_ <- _) _.
have aM : a \notin filter (predC1 a) (filter (predC1 xp) xs) by rewrite mem_filter /= eqxx.
rewrite deriv2E derivM derivXsubC mul1r derivD derivM derivXsubC mul1r.
rewrite !hornerD !hornerM !hornerXsubC subrr !mul0r !addr0.
rewrite /M deriv_prod_XsubC_nonroot // horner_prod_XsubC.
have -> : \sum_(xm <- xs | xm != a) (a - xm)^-1 =
          (a - xp)^-1 + \sum_(i <- filter (predC1 a) (filter (predC1 xp) xs)) (a - i)^-1.
  rewrite -big_filter (bigD1_seq xp) /= ?filter_uniq ?mem_filter /= ?ne //.
  congr (_ + _). Show.
  by rewrite [in RHS]big_filter big_filter_cond big_filter.
by rewrite addrAC subrr add0r -mulr2n -mulr_natl !mulrA.
Qed.
Check derivnZ.
Search derivn.
End Hess1.
