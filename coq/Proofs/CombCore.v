(* Proofs/CombCore.v — algebraic core of C03: the combination-technique sum of a product of
   per-dimension factors telescopes to the product of the limits (any commutative ring).
   Bridges the stdlib-style model (Model/Misc.v, Proofs/MiscIE.v) to MathComp big operators. *)
From mathcomp Require Import all_ssreflect all_algebra.
From AmiscV Require Import Misc MiscDefs MiscIE LagrDefs.
From AmiscV Require MiscC02.
Set Implicit Arguments. Unset Strict Implicit. Unset Printing Implicit Defensive.
Import GRing.Theory.
Local Open Scope ring_scope.

(* ------------------------------------------------------------------ stdlib <-> MathComp bridges *)
Lemma InP (T : eqType) (x : T) (s : seq T) : reflect (List.In x s) (x \in s).
Proof.
elim: s => [|y s IH] /=; first by rewrite in_nil; constructor.
rewrite in_cons; apply: (iffP orP) => [[/eqP->|/IH ?]|[<-|/IH ?]].
- by left.
- by right.
- by left.
- by right.
Qed.

Lemma NoDup_uniq (T : eqType) (s : seq T) : List.NoDup s -> uniq s.
Proof.
elim=> [|x l Hx _ IH] //=; rewrite IH andbT.
by apply/negP => /InP.
Qed.

Lemma lebE x y : Nat.leb x y = (x <= y)%N.
Proof. by apply/idP/idP => [/PeanoNat.Nat.leb_le/leP|/leP/PeanoNat.Nat.leb_le]. Qed.

Lemma eqbE x y : Nat.eqb x y = (x == y).
Proof. by elim: x y => [|x IH] [|y] //=. Qed.

(* ------------------------------------------------------------------ z2r is additive *)
Section Z2R.
Variable R : ringType.

Lemma z2r_opp z : z2r R (BinInt.Z.opp z) = - z2r R z.
Proof. by case: z => [|p|p] /=; rewrite ?oppr0 ?opprK. Qed.

Lemma z2r_pos_sub p q :
  z2r R (BinInt.Z.pos_sub p q) = (BinPos.Pos.to_nat p)%:R - (BinPos.Pos.to_nat q)%:R.
Proof.
rewrite BinInt.Z.pos_sub_spec; case: BinPos.Pos.compare_spec => [->|lt|lt] /=.
- by rewrite subrr.
- rewrite Pnat.Pos2Nat.inj_sub // minusE natrB ?opprB //.
  by apply/leP/PeanoNat.Nat.lt_le_incl/Pnat.Pos2Nat.inj_lt.
- rewrite Pnat.Pos2Nat.inj_sub // minusE natrB //.
  by apply/leP/PeanoNat.Nat.lt_le_incl/Pnat.Pos2Nat.inj_lt.
Qed.

Lemma z2r_add a b : z2r R (BinInt.Z.add a b) = z2r R a + z2r R b.
Proof.
case: a b => [|p|p] [|q|q] /=; rewrite ?add0r ?addr0 //.
- by rewrite Pnat.Pos2Nat.inj_add plusE natrD.
- by rewrite z2r_pos_sub.
- by rewrite z2r_pos_sub addrC.
- by rewrite Pnat.Pos2Nat.inj_add plusE natrD opprD.
Qed.
End Z2R.

(* ------------------------------------------------------------------ sums over duplicate-free lists *)
Section BigSub.
Variables (R : ringType) (T : eqType).

Lemma big_sub (F : T -> R) (M S : seq T) :
  uniq M -> uniq S -> {subset M <= S} -> (forall i, i \in S -> i \notin M -> F i = 0) ->
  \sum_(i <- S) F i = \sum_(i <- M) F i.
Proof.
move=> uM uS sub z.
rewrite (bigID (fun i => i \in M)) /= [X in _ + X]big1_seq ?addr0; last first.
  by move=> i /andP[? ?]; apply: z.
rewrite -big_filter; apply: perm_big; apply: uniq_perm; rewrite ?filter_uniq // => i.
rewrite mem_filter; case e: (i \in M) => //=.
exact: sub.
Qed.

Lemma big_flat_map (A : Type) (f : A -> seq T) (s : seq A) (F : T -> R) :
  \sum_(j <- List.flat_map f s) F j = \sum_(a <- s) \sum_(j <- f a) F j.
Proof.
elim: s => [|a s IH] /=; first by rewrite !big_nil.
by rewrite big_cat big_cons IH.
Qed.
End BigSub.

(* ------------------------------------------------------------------ the box below an index *)
Lemma flat_cons_head (z : idx) (t : seq idx) (s : seq nat) :
  z \in List.flat_map (fun v => List.map (cons v) t) s -> head 0%N z \in s.
Proof.
elim: s => [|a s IH] //=; rewrite mem_cat in_cons => /orP[/mapP[w _ ->]|/IH ->].
- by rewrite eqxx.
- by rewrite orbT.
Qed.

Lemma uniq_flat_cons (t : seq idx) (s : seq nat) :
  uniq s -> uniq t -> uniq (List.flat_map (fun v => List.map (cons v) t) s).
Proof.
elim: s => [|a s IH] //= /andP[na us] ut.
rewrite cat_uniq IH // andbT (@map_inj_uniq _ _ (cons a)) ?ut /=; last by move=> ? ? [].
apply/hasPn => z /flat_cons_head hz; apply/negP => /mapP[w _ zE].
by move: hz; rewrite zE /= (negbTE na).
Qed.

Lemma below_uniq (L : idx) : uniq (below L).
Proof.
elim: L => [|x r IH] //=.
exact: (@uniq_flat_cons (below r) (iota 0 x.+1) (iota_uniq 0 x.+1) IH).
Qed.

(* ------------------------------------------------------------------ the core *)
Section Core.
Variable R : comRingType.
Implicit Types (g h : nat -> nat -> R) (v : nat -> R) (i j L : idx).

(* product of per-dimension factors, by recursion on the index *)
Fixpoint gprod g i : R :=
  if i is x :: r then g 0%N x * gprod (fun k => g k.+1) r else 1.

Lemma gprodE g i : \prod_(k < size i) g k (nth 0%N i k) = gprod g i.
Proof.
elim: i g => [|x r IH] g /=; first by rewrite big_ord0.
by rewrite big_ord_recl /= -IH.
Qed.

Lemma gprod_ext g h i : (forall k l, g k l = h k l) -> gprod g i = gprod h i.
Proof.
elim: i g h => [|x r IH] g h E //=.
by rewrite E (IH _ (fun k => h k.+1)).
Qed.

(* the weight contributions, in the ring *)
Definition cR j i : R := z2r R (contrib j i).

Lemma cR_same x n o : cR (x :: n) (x :: o) = cR n o.
Proof. by rewrite /cR contrib_cons PeanoNat.Nat.eqb_refl. Qed.

Lemma cR_succ x n o : cR (x.+1 :: n) (x :: o) = - cR n o.
Proof.
rewrite /cR contrib_cons !eqbE eqxx.
by rewrite -[x.+1]addn1 -[X in _ == X]addn0 eqn_add2l /= z2r_opp.
Qed.

Lemma IE_sum (S : seq idx) i : List.NoDup S -> z2r R (IE S i) = \sum_(j <- S) cR j i.
Proof.
elim=> [|j l Hj _ IH]; first by rewrite IE_nil big_nil.
by rewrite IE_cons // z2r_add big_cons IH addrC.
Qed.

(* backward difference of the factors *)
Definition dif g : nat -> nat -> R :=
  fun k l => g k l - (if l is l'.+1 then g k l' else 0).

(* mixed difference of a product = product of differences *)
Lemma cube_diff g j : \sum_(i <- dn j) cR j i * gprod g i = gprod (dif g) j.
Proof.
elim: j g => [|x r IH] g.
  by rewrite /= big_seq1 /cR /= mul1r.
rewrite [dn _]/= big_cat big_map /=.
have -> : \sum_(o <- dn r) cR (x :: r) (x :: o) * (g 0%N x * gprod (fun k => g k.+1) o)
          = g 0%N x * gprod (dif (fun k => g k.+1)) r.
  rewrite -IH big_distrr /=; apply: eq_bigr => o _.
  by rewrite cR_same mulrCA.
case: x => [|x].
  by rewrite big_nil addr0 /dif /= subr0.
rewrite big_map.
have -> : \sum_(o <- dn r) cR (x.+1 :: r) (x :: o) * gprod g (x :: o)
          = - (g 0%N x * gprod (dif (fun k => g k.+1)) r).
  rewrite -IH big_distrr /= -sumrN; apply: eq_bigr => o _.
  by rewrite cR_succ mulNr mulrCA.
by rewrite {1}/dif /= mulrBl.
Qed.

(* sum over the full box = product of the 1-d sums *)
Lemma box_sum h L :
  \sum_(j <- below L) gprod h j = gprod (fun k x => \sum_(0 <= l < x.+1) h k l) L.
Proof.
elim: L h => [|x r IH] h; first by rewrite /= big_seq1.
have -> : below (x :: r) =
          List.flat_map (fun a => List.map (cons a) (below r)) (iota 0 x.+1) by [].
rewrite big_flat_map /= -IH big_distrl /=.
rewrite /index_iota subn0; apply: eq_bigr => a _.
by rewrite big_map big_distrr.
Qed.

Lemma tele g k x : \sum_(0 <= l < x.+1) dif g k l = g k x.
Proof.
elim: x => [|x IH]; first by rewrite big_nat1 /dif subr0.
by rewrite big_nat_recr //= IH /dif /= addrC subrK.
Qed.

Lemma box_tele g L : \sum_(j <- below L) gprod (dif g) j = gprod g L.
Proof. by rewrite box_sum; apply: gprod_ext => k l; rewrite tele. Qed.

(* outside the box below L one of the differences vanishes *)
Lemma dif_vanish g v j L :
  size j = size L -> ~~ leb_idx j L ->
  (forall k l, (k < size L)%N -> (nth 0%N L k <= l)%N -> g k l = v k) ->
  gprod (dif g) j = 0.
Proof.
elim: j L g v => [|x j IH] [|y L] g v //= [sz]; rewrite lebE negb_and => /orP[+|nle] H.
- rewrite -ltnNge; case: x H => // x H lt.
  by rewrite /dif /= !(H 0%N) // ?subrr ?mul0r // ltnW.
- rewrite (IH L _ (fun k => v k.+1)) ?mulr0 // => k l lt le.
  exact: (H k.+1).
Qed.

Lemma combination_product_exact (d : nat) (S : seq idx) (L : idx)
    (g : nat -> nat -> R) (v : nat -> R) :
  List.NoDup S -> (forall i, List.In i S -> size i = d) -> dclosed S -> List.In L S ->
  (forall k l, (k < d)%N -> (nth 0%N L k <= l)%N -> g k l = v k) ->
  \sum_(i <- S) z2r _ (IE S i) * \prod_(k < d) g k (nth 0%N i k) = \prod_(k < d) v k.
Proof.
move=> ndS szS dcS LS Hg.
have uS := NoDup_uniq ndS.
have szL := szS _ LS.
transitivity (\sum_(i <- S) \sum_(j <- S) cR j i * gprod g i).
  rewrite [LHS]big_seq [RHS]big_seq; apply: eq_bigr => i /InP iS.
  by rewrite IE_sum // big_distrl /= -(szS _ iS) gprodE.
rewrite exchange_big /=.
transitivity (\sum_(j <- S) gprod (dif g) j).
  rewrite [LHS]big_seq [RHS]big_seq; apply: eq_bigr => j /InP jS.
  rewrite -cube_diff; apply: big_sub => //.
  - exact/NoDup_uniq/dn_NoDup.
  - move=> i /InP/dn_In/diff01_le le; apply/InP.
    exact: (dcS j i).
  - move=> i _ /negP ni; rewrite /cR contrib_none ?mul0r //.
    case E: (diff01 j i) => [n|] //; case: ni; apply/InP/dn_In.
    by rewrite E.
rewrite (@big_sub _ _ _ (below L)) //.
- rewrite box_tele -gprodE szL; apply: eq_bigr => k _.
  exact: Hg.
- exact: below_uniq.
- move=> j /InP/MiscC02.below_In le; apply/InP.
  exact: (dcS L j).
- move=> j /InP jS /negP nb; apply: (@dif_vanish _ v _ L).
  + by rewrite szL; apply: szS.
  + by apply/negP => le; apply: nb; apply/InP/MiscC02.below_In.
  + by rewrite szL.
Qed.
End Core.
