(* Proofs/BoundsRun.v — whole-run statements about Model/Bounds.v (used by Props/C04C.v) *)
From Coq Require Import List Bool QArith Qcanon Permutation.
From AmiscV Require Import Bounds BoundsDefs BoundsProofs.
Import ListNotations.

Local Open Scope Qc_scope.

(* ---------- last / fold_left ---------- *)

Lemma last_cons_default : forall (A : Type) (l : list A) (d x : A), last (d :: l) x = last l d.
Proof.
  intros A l. induction l as [|a l IH]; intros d x.
  - reflexivity.
  - change (last (d :: a :: l) x) with (last (a :: l) x).
    rewrite (IH a x). rewrite (IH a d). reflexivity.
Qed.

Lemma run_last_fold : forall (k : nkind) (steps : list obs) (cur : dom),
  last (run_bounds true k cur steps) cur = fold_left (refine_step k) steps cur.
Proof.
  intros k steps. induction steps as [|o r IH]; intro cur.
  - reflexivity.
  - change (run_bounds true k cur (o :: r))
      with (refine_step k cur o :: run_bounds true k (refine_step k cur o) r).
    rewrite last_cons_default. simpl fold_left. apply IH.
Qed.

(* ---------- invariants of the fold ---------- *)

Lemma inside_contains : forall (d d' : dom) (x : Qc), contains d' d -> inside d x -> inside d' x.
Proof.
  intros d d' x [C1 C2] [I1 I2]. split; eapply Qcle_trans; eassumption.
Qed.

Lemma fold_valid : forall (k : nkind) (steps : list obs) (cur : dom), dom_ok cur ->
  dom_ok (fold_left (refine_step k) steps cur).
Proof.
  intros k steps. induction steps as [|o r IH]; intros cur Hd; simpl.
  - exact Hd.
  - apply IH. apply step_valid. exact Hd.
Qed.

Lemma fold_widens : forall (k : nkind) (steps : list obs) (cur : dom),
  contains (fold_left (refine_step k) steps cur) cur.
Proof.
  intros k steps. induction steps as [|o r IH]; intro cur; simpl.
  - apply contains_refl.
  - eapply contains_trans; [apply IH | apply step_widens].
Qed.

Lemma fold_covers : forall (a b : Qc) (steps : list obs) (cur : dom) (o : obs) (v : Qc),
  Q2Qc 0 < a -> dom_ok cur -> In o steps -> In (Some v) o ->
  inside (fold_left (refine_step (NAffine a b)) steps cur) (a * v + b).
Proof.
  intros a b steps. induction steps as [|o1 r IH]; intros cur o v Ha Hd Ho Hv.
  - destruct Ho.
  - simpl fold_left. destruct Ho as [Ho|Ho].
    + subst o1.
      apply (inside_contains (refine_step (NAffine a b) cur o)); [apply fold_widens|].
      exact (step_covers_observed (NAffine a b) cur o v Ha Hd Hv).
    + apply (IH (refine_step (NAffine a b) cur o1) o v Ha); [apply step_valid; exact Hd | exact Ho | exact Hv].
Qed.

Lemma fold_hull : forall (a b : Qc) (steps : list obs) (cur d : dom),
  Q2Qc 0 < a -> dom_ok cur -> contains d cur ->
  (forall o v, In o steps -> In (Some v) o -> inside d (a * v + b)) ->
  contains d (fold_left (refine_step (NAffine a b)) steps cur).
Proof.
  intros a b steps. induction steps as [|o1 r IH]; intros cur d Ha Hd Hc Hall.
  - exact Hc.
  - simpl fold_left. apply IH.
    + exact Ha.
    + apply step_valid. exact Hd.
    + apply (step_is_hull (NAffine a b) cur o1 d Ha Hd Hc).
      intros v Hv. exact (Hall o1 v (or_introl eq_refl) Hv).
    + intros o v Ho Hv. exact (Hall o v (or_intror Ho) Hv).
Qed.

(* ---------- the statements of Props/C04C.v ---------- *)

Lemma run_covers_history : forall (a b : Qc) (cur : dom) (steps : list obs) (o : obs) (v : Qc),
  (Q2Qc 0 < a)%Qc -> dom_ok cur -> In o steps -> In (Some v) o ->
  inside (last (run_bounds true (NAffine a b) cur steps) cur) (a * v + b)%Qc.
Proof.
  intros a b cur steps o v Ha Hd Ho Hv. rewrite run_last_fold.
  exact (fold_covers a b steps cur o v Ha Hd Ho Hv).
Qed.

Lemma run_is_hull : forall (a b : Qc) (cur : dom) (steps : list obs) (d : dom),
  (Q2Qc 0 < a)%Qc -> dom_ok cur -> contains d cur ->
  (forall o v, In o steps -> In (Some v) o -> inside d (a * v + b)%Qc) ->
  contains d (last (run_bounds true (NAffine a b) cur steps) cur).
Proof.
  intros a b cur steps d Ha Hd Hc Hall. rewrite run_last_fold.
  exact (fold_hull a b steps cur d Ha Hd Hc Hall).
Qed.

Lemma contains_antisym : forall d d' : dom, contains d d' -> contains d' d -> d = d'.
Proof.
  intros [l h] [l' h'] [A1 A2] [B1 B2]. simpl in *.
  f_equal; apply Qcle_antisym; assumption.
Qed.

Lemma run_final_order_independent : forall (a b : Qc) (cur : dom) (s1 s2 : list obs),
  (Q2Qc 0 < a)%Qc -> dom_ok cur -> Permutation s1 s2 ->
  last (run_bounds true (NAffine a b) cur s1) cur = last (run_bounds true (NAffine a b) cur s2) cur.
Proof.
  intros a b cur s1 s2 Ha Hd P. rewrite !run_last_fold.
  apply contains_antisym.
  - apply (fold_hull a b s2 cur _ Ha Hd); [apply fold_widens|].
    intros o v Ho Hv. apply (fold_covers a b s1 cur o v Ha Hd); [|exact Hv].
    apply (Permutation_in _ (Permutation_sym P)). exact Ho.
  - apply (fold_hull a b s1 cur _ Ha Hd); [apply fold_widens|].
    intros o v Ho Hv. apply (fold_covers a b s2 cur o v Ha Hd); [|exact Hv].
    apply (Permutation_in _ P). exact Ho.
Qed.
