(* Proofs/LagrTensor.v — tensor-product lemmas about the executable interpolator model (Model/Lagr.v)
   at mc_ops F for an arbitrary realFieldType F. *)
From mathcomp Require Import all_ssreflect all_algebra.
From AmiscV Require Import Field Lagr LagrDefs Lagr1d.
Set Implicit Arguments. Unset Strict Implicit. Unset Printing Implicit Defensive.
Import GRing.Theory Num.Theory.
Local Open Scope ring_scope.

(* ------------------------------------------------------------------ stdlib list <-> seq bridges *)
Section Bridge.
Variables (A B C : Type).

Lemma length_size (l : seq A) : length l = size l.
Proof. by elim: l => //= _ l ->. Qed.

Lemma lmap_map (f : A -> B) (l : seq A) : List.map f l = map f l.
Proof. by elim: l => //= a l ->. Qed.

Lemma firstn_take n (l : seq A) : List.firstn n l = take n l.
Proof. by elim: n l => [|n IH] [|a l] //=; rewrite IH. Qed.

Lemma skipn_drop n (l : seq A) : List.skipn n l = drop n l.
Proof. by elim: n l => [|n IH] [|a l] //=. Qed.

Lemma lfilter_filter (p : A -> bool) (l : seq A) : List.filter p l = filter p l.
Proof. by elim: l => //= a l ->. Qed.

Lemma hd_head (a : A) (l : seq A) : List.hd a l = head a l.
Proof. by case: l. Qed.

Lemma chunksE n sz (l : seq A) :
  chunks n sz l = [seq take sz (drop (j * sz) l) | j <- iota 0 n].
Proof.
elim: n l => [|n IH] l //=.
rewrite mul0n drop0 firstn_take skipn_drop IH; congr (_ :: _).
rewrite -[1%N]addn0 iotaDl -map_comp; apply: eq_map => j /=.
by rewrite drop_drop add1n mulSn addnC.
Qed.

Lemma size_chunks n sz (l : seq A) : size (chunks n sz l) = n.
Proof. by rewrite chunksE size_map size_iota. Qed.

Lemma nth_chunks n sz (l : seq A) j :
  (j < n)%N -> nth [::] (chunks n sz l) j = take sz (drop (j * sz) l).
Proof.
by move=> jn; rewrite chunksE (nth_map 0%N) ?size_iota // nth_iota // add0n.
Qed.

Lemma take_zip n (s : seq A) (t : seq B) : take n (zip s t) = zip (take n s) (take n t).
Proof. by elim: n s t => [|n IH] [|a s] [|b t] //=; rewrite IH. Qed.

Lemma drop_zip n (s : seq A) (t : seq B) : drop n (zip s t) = zip (drop n s) (drop n t).
Proof. by elim: n s t => [|n IH] [|a s] [|b t] //=; [case: (drop n t) | case: (drop n s)]. Qed.

(* the j-th block of a concatenation of rows of equal length *)
Lemma take_drop_flatten sz (ss : seq (seq A)) j :
  (forall s, List.In s ss -> size s = sz) -> (j < size ss)%N ->
  take sz (drop (j * sz) (flatten ss)) = nth [::] ss j.
Proof.
elim: ss j => [|s ss IH] j //= Hs.
have ss_sz : size s = sz by apply: Hs; left.
case: j => [|j] jlt.
  by rewrite mul0n drop0 take_size_cat.
rewrite mulSn addnC -drop_drop drop_size_cat //; apply: IH => // s' ins'.
by apply: Hs; right.
Qed.
End Bridge.

Section Tensor.
Variable F : realFieldType.
Implicit Types (xs ws ys zs : seq F) (x : seq F) (gs : seq (grid (F:=F))).
Local Notation K := (mc_ops F).

Lemma sumFE (l : seq F) : sumF K l = \sum_(y <- l) y.
Proof. by elim: l => [|a l IH]; rewrite ?big_nil // big_cons /= -IH. Qed.

Lemma sumF_map2 (A B : Type) (f : A -> B -> F) (a : A) (b : B) (l : seq A) (m : seq B) :
  size l = size m ->
  sumF K (map2 f l m) = \sum_(j < size l) f (nth a l j) (nth b m j).
Proof.
elim: l m => [|u l IH] [|v m] //=; first by rewrite big_ord0.
by case=> sz; rewrite big_ord_recl /= IH.
Qed.

Lemma gsizes_cons (g : grid (F:=F)) gs : gsizes (g :: gs) = (size g.2.1 * gsizes gs)%N.
Proof. by rewrite /gsizes /= /gsize length_size. Qed.

(* ------------------------------------------------------------------ sizes of the data lists *)
Lemma size_flatten_const (A : Type) sz (ss : seq (seq A)) :
  (forall s, List.In s ss -> size s = sz) -> size (flatten ss) = (size ss * sz)%N.
Proof.
elim: ss => [|s ss IH] //= Hs; rewrite size_cat IH ?mulSn ?(Hs s) //; first by left.
by move=> s' ins'; apply: Hs; right.
Qed.

Lemma In_map_all (A B : Type) (f : A -> B) (P : B -> Prop) (l : seq A) :
  (forall a, P (f a)) -> forall b, List.In b (map f l) -> P b.
Proof. by move=> Pf b; elim: l => //= a l IH [<-|/IH]. Qed.

Lemma size_tensor_data gs (fs : seq (F -> F)) :
  size fs = size gs -> size (tensor_data gs fs) = gsizes gs.
Proof.
elim: gs fs => [|[tol [xs ws]] gs IH] [|f fs] //= [sz].
rewrite gsizes_cons /= (@size_flatten_const _ (gsizes gs)) ?size_map //.
by apply: In_map_all => xk; rewrite size_map IH.
Qed.

Lemma size_grid_data gs (f : seq F -> F) : size (grid_data gs f) = gsizes gs.
Proof.
elim: gs f => [|[tol [xs ws]] gs IH] f //=.
rewrite gsizes_cons /= (@size_flatten_const _ (gsizes gs)) ?size_map //.
by apply: In_map_all => xk; rewrite IH.
Qed.

(* ------------------------------------------------------------------ tlagrange is linear in the data *)
Lemma tlagrange_scale gs x (c : F) ys :
  tlagrange gs x [seq c * y | y <- ys] = c * tlagrange gs x ys.
Proof.
elim: gs x ys => [|[tol [xs ws]] gs IH] x ys /=.
  by case: ys => //=; rewrite mulr0.
case: x => [|x0 x]; first by rewrite mulr0.
rewrite mulr_sumr; apply: eq_bigr => j _.
by rewrite -map_drop -map_take IH mulrCA.
Qed.

(* value of the 1-d interpolation polynomial as a sum over the nodes *)
Lemma interp_poly_hornerE xs ys (t : F) :
  (interp_poly xs ys).[t] = \sum_(j < size xs) nth 0 ys j * (lbase xs (nth 0 xs j)).[t].
Proof. by rewrite /interp_poly horner_sum; apply: eq_bigr => j _; rewrite hornerZ. Qed.

(* ------------------------------------------------------------------ product data *)
Lemma tlagrange_product gs (fs : seq (F -> F)) x :
  (forall g, g \in gs -> uniq g.2.1) -> size fs = size gs -> size x = size gs ->
  tlagrange gs x (tensor_data gs fs) =
  \prod_(k < size gs) (interp_poly (nth (0, ([::], [::])) gs k).2.1
                                   [seq (nth (fun=> 0) fs k) t | t <- (nth (0, ([::], [::])) gs k).2.1]).[nth 0 x k].
Proof.
move=> _; elim: gs fs x => [|[tol [xs ws]] gs IH] fs x.
  by move=> _ _; rewrite big_ord0.
case: fs => [|f fs] //; case: x => [|x0 x] // [szf] [szx].
rewrite big_ord_recl /= -(IH _ _ szf szx) interp_poly_hornerE mulr_suml.
apply: eq_bigr => j _.
rewrite take_drop_flatten ?size_map //; last first.
  by apply: In_map_all => xk; rewrite size_map size_tensor_data.
rewrite !(nth_map 0) // tlagrange_scale mulrCA mulrA; congr (_ * _).
Qed.

(* ------------------------------------------------------------------ interpolation of the grid data *)
Lemma tlagrange_interpolates gs (f : seq F -> F) x :
  (forall g, g \in gs -> uniq g.2.1) -> size x = size gs ->
  (forall k, (k < size gs)%N -> nth 0 x k \in (nth (0, ([::], [::])) gs k).2.1) ->
  tlagrange gs x (grid_data gs f) = f x.
Proof.
elim: gs f x => [|[tol [xs ws]] gs IH] f x Hu; first by case: x.
case: x => [|x0 x] // [sx] Hin /=.
have x0in : x0 \in xs by exact: (Hin 0%N).
have Uxs : uniq xs by apply: (Hu (tol, (xs, ws))); rewrite inE eqxx.
have IH' f' : tlagrange gs x (grid_data gs f') = f' x.
  apply: IH => // [g gin|k klt]; first by apply: Hu; rewrite inE gin orbT.
  exact: (Hin k.+1).
rewrite (eq_bigr (fun j : 'I_(size xs) => (lbase xs (nth 0 xs j)).[x0] * f (nth 0 xs j :: x))); last first.
  move=> j _; rewrite take_drop_flatten ?size_map //; last first.
    by apply: In_map_all => xk; rewrite size_grid_data.
  by rewrite (nth_map 0) // IH'.
have ilt : (index x0 xs < size xs)%N by rewrite index_mem.
rewrite (bigD1 (Ordinal ilt)) //= nth_index // lbase_eq mul1r big1 ?addr0 // => j ne.
rewrite lbase_neq ?mul0r //; apply: contraNneq ne => x0E.
by apply/eqP/val_inj => /=; rewrite x0E index_uniq.
Qed.

(* ------------------------------------------------------------------ tpredict is linear in the data *)
Local Notation lin a ys zs := [seq a * y.1 + y.2 | y <- zip ys zs].

Lemma sum_chunks_lin (T : seq F -> F) sz (a : F) :
  (forall ys zs, size ys = sz -> size zs = sz -> T (lin a ys zs) = a * T ys + T zs) ->
  forall n (bs : seq F) ys zs, size ys = (n * sz)%N -> size zs = (n * sz)%N ->
  sumF K (map2 (fun b ch => b * T ch) bs (chunks n sz (lin a ys zs))) =
  a * sumF K (map2 (fun b ch => b * T ch) bs (chunks n sz ys)) +
  sumF K (map2 (fun b ch => b * T ch) bs (chunks n sz zs)).
Proof.
move=> HT; elim=> [|n IH] bs ys zs sy sz_.
  by case: bs => [|b bs] /=; rewrite mulr0 addr0.
case: bs => [|b bs] /=; first by rewrite mulr0 addr0.
rewrite !firstn_take !skipn_drop -map_take -map_drop take_zip drop_zip.
have sty : size (take sz ys) = sz by rewrite size_takel // sy mulSn leq_addr.
have stz : size (take sz zs) = sz by rewrite size_takel // sz_ mulSn leq_addr.
have sdy : size (drop sz ys) = (n * sz)%N by rewrite size_drop sy mulSn addKn.
have sdz : size (drop sz zs) = (n * sz)%N by rewrite size_drop sz_ mulSn addKn.
by rewrite HT // IH // mulrDr [in RHS]mulrDr mulrCA addrACA.
Qed.

Lemma tpredict_linear gs x ys zs (a : F) :
  size ys = gsizes gs -> size zs = gsizes gs ->
  tpredict K gs x [seq a * y.1 + y.2 | y <- zip ys zs] =
  a * tpredict K gs x ys + tpredict K gs x zs.
Proof.
elim: gs x ys zs => [|[tol [xs ws]] gs IH] x ys zs.
  by case: ys => [|y [|? ?]] //; case: zs => [|z [|? ?]].
case: x => [|x0 x] sy sz_; first by rewrite /= mulr0 addr0.
by apply: sum_chunks_lin => //; exact: IH.
Qed.

(* ------------------------------------------------------------------ tpredict = tlagrange, given the 1-d fact *)
Definition basis1_spec : Prop :=
  forall (tol kappa : F) xs ws (t : F),
    uniq xs -> kappa != 0 -> bary_weights kappa xs ws -> admissible tol xs t ->
    basis1 K tol xs ws t = [seq (lbase xs xk).[t] | xk <- xs].

Lemma tpredict_is_lagrange_of gs x ys : basis1_spec ->
  (forall g, g \in gs -> valid_grid g) -> all_admissible gs x -> size ys = gsizes gs ->
  tpredict K gs x ys = tlagrange gs x ys.
Proof.
move=> B1; elim: gs x ys => [|[tol [xs ws]] gs IH] x ys Hv [sx Had] sy.
  by rewrite /= hd_head.
case: x sx Had => [|x0 x] // [sx] Had.
have [Uxs [_ [kappa [k0 Hw]]]] := Hv (tol, (xs, ws)) (mem_head _ _).
have Ax0 : admissible tol xs x0 by exact: (Had 0%N).
rewrite /= (B1 tol kappa) // length_size.
rewrite (@sumF_map2 _ _ _ 0 [::]) ?size_map ?size_chunks //.
apply: eq_bigr => j _ /=.
rewrite (nth_map 0) // nth_chunks // IH //.
- by move=> g gin; apply: Hv; rewrite inE gin orbT.
- by split=> // k klt; exact: (Had k.+1).
- rewrite size_takel // size_drop sy gsizes_cons /= -mulnBl leq_pmull //.
  by rewrite subn_gt0.
Qed.

Lemma misc_predict_formula_of (terms : seq (F * (seq (grid (F:=F)) * seq F))) x : basis1_spec ->
  (forall t, t \in terms -> (forall g, g \in t.2.1 -> valid_grid g) /\ all_admissible t.2.1 x /\
                            size t.2.2 = gsizes t.2.1) ->
  misc_predict K terms x = \sum_(t <- terms) t.1 * tlagrange t.2.1 x t.2.2.
Proof.
move=> B1 H; rewrite /misc_predict lfilter_filter lmap_map sumFE big_map big_filter big_mkcond /=.
rewrite big_seq [RHS]big_seq; apply: eq_bigr => t tin.
case: eqP => [->|_] /=; first by rewrite mul0r.
by have [Hv [Ha Hs]] := H t tin; rewrite tpredict_is_lagrange_of.
Qed.

(* ------------------------------------------------------------------ with the 1-d facts of Lagr1d.v *)
Lemma tpredict_is_lagrange gs x ys :
  (forall g, g \in gs -> valid_grid g) -> all_admissible gs x -> size ys = gsizes gs ->
  tpredict K gs x ys = tlagrange gs x ys.
Proof. by apply: tpredict_is_lagrange_of => tol kappa xs ws t; exact: basis_is_lagrange. Qed.

Lemma misc_predict_formula (terms : seq (F * (seq (grid (F:=F)) * seq F))) x :
  (forall t, t \in terms -> (forall g, g \in t.2.1 -> valid_grid g) /\ all_admissible t.2.1 x /\
                            size t.2.2 = gsizes t.2.1) ->
  misc_predict K terms x = \sum_(t <- terms) t.1 * tlagrange t.2.1 x t.2.2.
Proof. by apply: misc_predict_formula_of => tol kappa xs ws t; exact: basis_is_lagrange. Qed.

Lemma tlagrange_exact_product gs (ps : seq {poly F}) x :
  (forall g, g \in gs -> uniq g.2.1) -> size ps = size gs -> size x = size gs ->
  (forall k, (k < size gs)%N -> (size (nth 0%R ps k) <= size (nth (0%R, ([::], [::])) gs k).2.1)%N) ->
  tlagrange gs x (tensor_data gs [seq horner p | p <- ps]) = \prod_(k < size gs) (nth 0 ps k).[nth 0 x k].
Proof.
move=> Hu sp sx Hdeg; rewrite tlagrange_product ?size_map //.
apply: eq_bigr => k _; rewrite (nth_map 0) ?sp //.
rewrite interp_poly_exact //; last exact: Hdeg.
by apply: Hu; rewrite mem_nth.
Qed.

End Tensor.
