(* Proofs/LagrTensor.v — tensor-product lemmas about the executable interpolator model (Model/Lagr.v)
   at mc_ops F for an arbitrary realFieldType F. *)
From mathcomp Require Import all_ssreflect all_algebra.
From AmiscV Require Import Field Lagr LagrDefs.
Set Implicit Arguments. Unset Strict Implicit. Unset Printing Implicit Defensive.
Import GRing.Theory Num.Theory.
Local Open Scope ring_scope.

(* ------------------------------------------------------------------ stdlib list <-> seq bridges *)
Section Bridge.
Variables (A B C : Type).

Lemma length_size (l : seq A) : length l = size l.
Proof. by elim: l => //= _ l ->. Qed.

Lemma lmap_map (f : A -> B) (l : seq A) : List.map f l = map f l.
Proof. by elim: l => //= a l ->. Qed.

Lemma firstn_take n (l : seq A) : List.firstn n l = take n l.
Proof. by elim: n l => [|n IH] [|a l] //=; rewrite IH. Qed.

Lemma skipn_drop n (l : seq A) : List.skipn n l = drop n l.
Proof. by elim: n l => [|n IH] [|a l] //=. Qed.

Lemma lfilter_filter (p : A -> bool) (l : seq A) : List.filter p l = filter p l.
Proof. by elim: l => //= a l ->. Qed.

Lemma hd_head (a : A) (l : seq A) : List.hd a l = head a l.
Proof. by case: l. Qed.

Lemma chunksE n sz (l : seq A) :
  chunks n sz l = [seq take sz (drop (j * sz) l) | j <- iota 0 n].
Proof.
elim: n l => [|n IH] l //=.
rewrite mul0n drop0 firstn_take skipn_drop IH; congr (_ :: _).
rewrite -[1%N]addn0 iotaDl -map_comp; apply: eq_map => j /=.
by rewrite drop_drop add1n mulSn addnC.
Qed.

Lemma size_chunks n sz (l : seq A) : size (chunks n sz l) = n.
Proof. by rewrite chunksE size_map size_iota. Qed.

Lemma nth_chunks n sz (l : seq A) j :
  (j < n)%N -> nth [::] (chunks n sz l) j = take sz (drop (j * sz) l).
Proof.
by move=> jn; rewrite chunksE (nth_map 0%N) ?size_iota // nth_iota // add0n.
Qed.

(* the j-th block of a concatenation of rows of equal length *)
Lemma take_drop_flatten sz (ss : seq (seq A)) j :
  (forall s, List.In s ss -> size s = sz) -> (j < size ss)%N ->
  take sz (drop (j * sz) (flatten ss)) = nth [::] ss j.
Proof.
elim: ss j => [|s ss IH] j //= Hs.
have ss_sz : size s = sz by apply: Hs; left.
case: j => [|j] jlt.
  by rewrite mul0n drop0 take_size_cat.
rewrite mulSn addnC -drop_drop drop_size_cat //; apply: IH => // s' ins'.
by apply: Hs; right.
Qed.
End Bridge.

Section Tensor.
Variable F : realFieldType.
Implicit Types (xs ws ys zs : seq F) (x : seq F) (gs : seq (grid (F:=F))).
Local Notation K := (mc_ops F).

Lemma sumFE (l : seq F) : sumF K l = \sum_(y <- l) y.
Proof. by elim: l => [|a l IH]; rewrite ?big_nil // big_cons /= -IH. Qed.

Lemma sumF_map2 (A B : Type) (f : A -> B -> F) (a : A) (b : B) (l : seq A) (m : seq B) :
  size l = size m ->
  sumF K (map2 f l m) = \sum_(j < size l) f (nth a l j) (nth b m j).
Proof.
elim: l m => [|u l IH] [|v m] //=; first by rewrite big_ord0.
by case=> sz; rewrite big_ord_recl /= IH.
Qed.

Lemma gsizes_cons (g : grid (F:=F)) gs : gsizes (g :: gs) = (size g.2.1 * gsizes gs)%N.
Proof. by rewrite /gsizes /= /gsize length_size. Qed.

(* ------------------------------------------------------------------ sizes of the data lists *)
Lemma size_flatten_const (A : Type) sz (ss : seq (seq A)) :
  (forall s, List.In s ss -> size s = sz) -> size (flatten ss) = (size ss * sz)%N.
Proof.
elim: ss => [|s ss IH] //= Hs; rewrite size_cat IH ?mulSn ?(Hs s) //; first by left.
by move=> s' ins'; apply: Hs; right.
Qed.

Lemma In_map_all (A B : Type) (f : A -> B) (P : B -> Prop) (l : seq A) :
  (forall a, P (f a)) -> forall b, List.In b (map f l) -> P b.
Proof. by move=> Pf b; elim: l => //= a l IH [<-|/IH]. Qed.

Lemma size_tensor_data gs (fs : seq (F -> F)) :
  size fs = size gs -> size (tensor_data gs fs) = gsizes gs.
Proof.
elim: gs fs => [|[tol [xs ws]] gs IH] [|f fs] //= [sz].
rewrite gsizes_cons /= (@size_flatten_const _ (gsizes gs)) ?size_map //.
by apply: In_map_all => xk; rewrite size_map IH.
Qed.

Lemma size_grid_data gs (f : seq F -> F) : size (grid_data gs f) = gsizes gs.
Proof.
elim: gs f => [|[tol [xs ws]] gs IH] f //=.
rewrite gsizes_cons /= (@size_flatten_const _ (gsizes gs)) ?size_map //.
by apply: In_map_all => xk; rewrite IH.
Qed.

(* ------------------------------------------------------------------ tlagrange is linear in the data *)
Lemma tlagrange_scale gs x (c : F) ys :
  tlagrange gs x [seq c * y | y <- ys] = c * tlagrange gs x ys.
Proof.
elim: gs x ys => [|[tol [xs ws]] gs IH] x ys /=.
  by case: ys => //=; rewrite mulr0.
case: x => [|x0 x]; first by rewrite mulr0.
rewrite mulr_sumr; apply: eq_bigr => j _.
by rewrite -map_drop -map_take IH mulrCA.
Qed.

(* value of the 1-d interpolation polynomial as a sum over the nodes *)
Lemma interp_poly_hornerE xs ys (t : F) :
  (interp_poly xs ys).[t] = \sum_(j < size xs) nth 0 ys j * (lbase xs (nth 0 xs j)).[t].
Proof. by rewrite /interp_poly horner_sum; apply: eq_bigr => j _; rewrite hornerZ. Qed.

(* ------------------------------------------------------------------ product data *)
Lemma tlagrange_product gs (fs : seq (F -> F)) x :
  (forall g, g \in gs -> uniq g.2.1) -> size fs = size gs -> size x = size gs ->
  tlagrange gs x (tensor_data gs fs) =
  \prod_(k < size gs) (interp_poly (nth (0, ([::], [::])) gs k).2.1
                                   [seq (nth (fun=> 0) fs k) t | t <- (nth (0, ([::], [::])) gs k).2.1]).[nth 0 x k].
Proof.
move=> _; elim: gs fs x => [|[tol [xs ws]] gs IH] fs x.
  by move=> _ _; rewrite big_ord0.
case: fs => [|f fs] //; case: x => [|x0 x] // [szf] [szx].
rewrite big_ord_recl /= -(IH _ _ szf szx) interp_poly_hornerE mulr_suml.
apply: eq_bigr => j _.
rewrite take_drop_flatten ?size_map //; last first.
  by apply: In_map_all => xk; rewrite size_map size_tensor_data.
rewrite !(nth_map 0) // tlagrange_scale mulrCA mulrA; congr (_ * _).
Qed.

End Tensor.
