From mathcomp Require Import all_ssreflect all_algebra.
From mathcomp Require Import ring.
From AmiscV Require Import Field Lagr LagrDefs Lagr1d LagrTensor.
Set Implicit Arguments. Unset Strict Implicit. Unset Printing Implicit Defensive.
Import GRing.Theory Num.Theory.
Local Open Scope ring_scope.

Section Deriv1.
Variable F : realFieldType.
Implicit Types (xs ws : seq F) (x xj xk tol kappa : F).
Local Notation K := (mc_ops F).

Lemma horner_prod_XsubC (s : seq F) (P : pred F) x :
  (\prod_(i <- s | P i) ('X - i%:P)).[x] = \prod_(i <- s | P i) (x - i).
Proof. by rewrite horner_prod; apply: eq_bigr => i _; rewrite hornerXsubC. Qed.

Lemma deriv_prod_XsubC_nonroot (s : seq F) x : x \notin s ->
  ((\prod_(i <- s) ('X - i%:P))^`()).[x] = (\prod_(i <- s) (x - i)) * \sum_(i <- s) (x - i)^-1.
Proof.
elim: s => [|a s IH]; first by rewrite !big_nil -[1]/(1%:P) derivC horner0 mulr0.
rewrite inE negb_or => /andP[xa nin].
rewrite !big_cons derivM derivXsubC mul1r hornerD hornerM hornerXsubC IH // horner_prod_XsubC.
have d0 : x - a != 0 by rewrite subr_eq0.
by field.
Qed.

Lemma deriv_prod_XsubC_root (s : seq F) a : uniq s -> a \in s ->
  ((\prod_(i <- s) ('X - i%:P))^`()).[a] = \prod_(i <- s | i != a) (a - i).
Proof.
move=> U ain; rewrite (bigD1_seq a) //= derivM derivXsubC mul1r hornerD hornerM hornerXsubC.
by rewrite subrr mul0r addr0 horner_prod_XsubC.
Qed.

Lemma dlbase_generic xs xj x : uniq xs -> xj \in xs -> x \notin xs ->
  ((lbase xs xj)^`()).[x] = (lbase xs xj).[x] * (\sum_(xm <- xs) (x - xm)^-1 - (x - xj)^-1).
Proof.
move=> U jin nin; rewrite lbase_split derivZ !hornerZ -mulrA; congr (_ * _).
rewrite -!big_filter deriv_prod_XsubC_nonroot ?horner_prod_XsubC; last first.
  by rewrite mem_filter negb_and nin orbT.
congr (_ * _); rewrite big_filter [in RHS](bigD1_seq xj) //=.
by rewrite addrAC subrr add0r.
Qed.

Lemma sum_dlbase_eq0 xs x : uniq xs -> (0 < size xs)%N ->
  \sum_(j < size xs) ((lbase xs (nth 0 xs j))^`()).[x] = 0.
Proof.
move=> U n0; rewrite -horner_sum -linear_sum /= sum_lbase_eq1 //.
by rewrite -[1]/(1%:P) derivC horner0.
Qed.

Lemma dlbase_other kappa xs ws j s : uniq xs -> kappa != 0 -> bary_weights kappa xs ws ->
  (j < size xs)%N -> (s < size xs)%N -> j != s ->
  ((lbase xs (nth 0 xs j))^`()).[nth 0 xs s] =
  (nth 0 ws j / nth 0 ws s) / (nth 0 xs s - nth 0 xs j).
Proof.
move=> U k0 [sw Hw] jlt slt ne; rewrite !Hw //.
set xj := nth 0 xs j; set a := nth 0 xs s.
have nea : a != xj by rewrite nth_uniq // eq_sym.
have ain : a \in xs by rewrite mem_nth.
rewrite lbase_split derivZ hornerZ -big_filter deriv_prod_XsubC_root; first last.
- by rewrite mem_filter /= nea.
- exact: filter_uniq.
rewrite big_filter_cond /=.
have -> : \prod_(xi <- xs | xi != a) (a - xi) =
          (a - xj) * \prod_(i <- xs | (i != xj) && (i != a)) (a - i).
  rewrite -big_filter (bigD1_seq xj) /=; first last.
  - exact: filter_uniq.
  - by rewrite mem_filter /= eq_sym nea mem_nth.
  by rewrite big_filter_cond /=; congr (_ * _); apply: eq_bigl => i; rewrite andbC.
set M := \prod_(i <- xs | _ && _) _; set P := \prod_(i <- _ | _) _.
have P0 : P != 0 by exact: prod_sub_neq0_cond.
have d0 : a - xj != 0 by rewrite subr_eq0.
have M0 : M != 0.
  rewrite prodf_seq_neq0; apply/allP => xi xin /=; apply/implyP => /andP[_].
  by rewrite subr_eq0 eq_sym.
by field; rewrite k0 P0 d0 M0.
Qed.

End Deriv1.
