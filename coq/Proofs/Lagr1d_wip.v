From mathcomp Require Import all_ssreflect all_algebra.
From mathcomp Require Import ring.
From AmiscV Require Import Field Lagr LagrDefs Lagr1d.
Set Implicit Arguments. Unset Strict Implicit. Unset Printing Implicit Defensive.
Import GRing.Theory Num.Theory.
Local Open Scope ring_scope.

(* ------------------------------------------------------------------ stdlib list functions vs seq *)
Section ListBridge.
Variables (A B C : Type).

Lemma lmapE (f : A -> B) (l : seq A) : List.map f l = [seq f a | a <- l].
Proof. by elim: l => //= a l ->. Qed.

Lemma llengthE (l : seq A) : length l = size l.
Proof. by []. Qed.

Lemma lnthE (d : A) (l : seq A) (i : nat) : List.nth i l d = nth d l i.
Proof. by elim: l i => [|a l IH] [|i] //=. Qed.

Lemma lseqE (m n : nat) : List.seq m n = iota m n.
Proof. by elim: n m => //= n IH m; rewrite IH. Qed.

Lemma lfilterE (a : pred A) (l : seq A) : List.filter a l = filter a l.
Proof. by elim: l => //= x l ->. Qed.

Lemma lappE (l m : seq A) : (l ++ m)%list = l ++ m.
Proof. by elim: l => //= x l ->. Qed.

Lemma size_map2 (f : A -> B -> C) (l : seq A) (m : seq B) :
  size (map2 f l m) = minn (size l) (size m).
Proof. by elim: l m => [|a l IH] [|b m] //=; rewrite IH minnSS. Qed.

Lemma nth_map2 (f : A -> B -> C) (a0 : A) (b0 : B) (c0 : C) (l : seq A) (m : seq B) (i : nat) :
  (i < size l)%N -> (i < size m)%N -> nth c0 (map2 f l m) i = f (nth a0 l i) (nth b0 m i).
Proof. by elim: l m i => [|a l IH] [|b m] [|i] //=; apply: IH. Qed.

Lemma map2_mkseq (f : A -> B -> C) (a0 : A) (b0 : B) (l : seq A) (m : seq B) :
  size l = size m -> map2 f l m = mkseq (fun i => f (nth a0 l i) (nth b0 m i)) (size l).
Proof.
move=> e; apply: (@eq_from_nth _ (f a0 b0)); first by rewrite size_map2 size_mkseq -e minnn.
move=> i; rewrite size_map2 -e minnn => ilt.
by rewrite nth_mkseq // (nth_map2 _ a0 b0) // -e.
Qed.
End ListBridge.

Lemma count_trueE (l : seq bool) : count_true l = count id l.
Proof. by rewrite /count_true llengthE lfilterE size_filter. Qed.

(* ------------------------------------------------------------------ derived operations at mc_ops *)
Section OpsBridge.
Variable F : realFieldType.
Implicit Types (x y : F) (l : seq F).

Lemma absF_mc x : absF (mc_ops F) x = `|x|.
Proof.
rewrite /absF /=; case: (lerP 0 x) => h; first by rewrite ger0_norm.
by rewrite ltr0_norm.
Qed.

Lemma divF_mc x y : divF (mc_ops F) x y = x / y.
Proof. by []. Qed.

Lemma sumF_mc l : sumF (mc_ops F) l = \sum_(y <- l) y.
Proof. by elim: l => [|a l IH]; rewrite ?big_nil ?big_cons //= -IH. Qed.

Lemma prodF_mc l : prodF (mc_ops F) l = \prod_(y <- l) y.
Proof. by elim: l => [|a l IH]; rewrite ?big_nil ?big_cons //= -IH. Qed.

Lemma snapped_mc (tol x xk : F) : snapped (mc_ops F) tol x xk = (`|x - xk| <= tol).
Proof. by rewrite /snapped absF_mc. Qed.
End OpsBridge.

(* ------------------------------------------------------------------ products over a node list *)
Section Nodes.
Variable F : realFieldType.
Implicit Types (xs ws : seq F) (x xj xk tol kappa : F).

Lemma prod_const_seq (T : Type) (s : seq T) (c : F) : \prod_(i <- s) c = c ^+ size s.
Proof. by elim: s => [|a s IH]; rewrite ?big_nil ?big_cons ?expr0 // IH exprS. Qed.

Lemma big_notin_cond (R : Type) (idx : R) (op : Monoid.law idx) xs xn (G : F -> R) :
  xn \notin xs -> \big[op/idx]_(xi <- xs | xi != xn) G xi = \big[op/idx]_(xi <- xs) G xi.
Proof.
move=> nin; rewrite big_seq_cond [RHS]big_seq_cond; apply: eq_bigl => xi.
by case: (boolP (xi \in xs)) => //= xin; apply: contraNneq nin => <-.
Qed.

(* the node polynomial without the factor of x_j *)
Lemma prod_rem xs xj (G : F -> F) : uniq xs -> xj \in xs ->
  \prod_(xi <- xs) G xi = G xj * \prod_(xi <- xs | xi != xj) G xi.
Proof. by move=> U jin; rewrite (bigD1_seq xj). Qed.

Lemma prod_sub_neq0 xs x : x \notin xs -> \prod_(xi <- xs) (x - xi) != 0.
Proof.
move=> nin; rewrite prodf_seq_neq0; apply/allP => xi xin /=.
by rewrite subr_eq0; apply: contraNneq nin => ->.
Qed.

Lemma prod_sub_neq0_cond xs xj : \prod_(xi <- xs | xi != xj) (xj - xi) != 0.
Proof.
by rewrite prodf_seq_neq0; apply/allP => xi xin /=; apply/implyP; rewrite subr_eq0 eq_sym.
Qed.

(* value of a basis polynomial off the nodes, in barycentric form *)
Lemma lbase_bary kappa xs xj x : uniq xs -> xj \in xs -> x \notin xs -> kappa != 0 ->
  (lbase xs xj).[x] =
  (\prod_(xi <- xs) (x - xi)) / kappa * (kappa / (\prod_(xi <- xs | xi != xj) (xj - xi)) / (x - xj)).
Proof.
move=> U jin nin k0.
have xj0 : x - xj != 0 by rewrite subr_eq0; apply: contraNneq nin => ->.
rewrite lbase_split hornerZ horner_prod.
have -> : \prod_(xi <- xs | xi != xj) ('X - xi%:P).[x] = \prod_(xi <- xs | xi != xj) (x - xi).
  by apply: eq_bigr => i _; rewrite hornerXsubC.
rewrite (prod_rem (fun xi => x - xi) U jin).
set P := \prod_(xi <- xs | xi != xj) (xj - xi); set L := \prod_(_ <- _ | _) (x - _).
have P0 : P != 0 by exact: prod_sub_neq0_cond.
by field; rewrite xj0 P0 k0.
Qed.
End Nodes.

(* ------------------------------------------------------------------ basis1 *)
Section Basis.
Variable F : realFieldType.
Implicit Types (xs ws : seq F) (x xj xk tol kappa : F).

Lemma basis1_nosnap tol kappa xs ws x : uniq xs -> kappa != 0 -> bary_weights kappa xs ws ->
  x \notin xs -> (forall xk, xk \in xs -> ~~ (`|x - xk| <= tol)) ->
  basis1 (mc_ops F) tol xs ws x = [seq (lbase xs xk).[x] | xk <- xs].
Proof.
move=> U k0 [sw Hw] nin far; rewrite /basis1.
have -> : diffs1 (mc_ops F) tol xs x = [seq (x - xk, false) | xk <- xs].
  rewrite /diffs1 lmapE; apply/eq_in_map => xk kin.
  by rewrite snapped_mc (negbTE (far _ kin)).
set ds := [seq _ | _ <- xs].
have sds : size ds = size xs by rewrite size_map.
have -> : count_true (List.map snd ds) = 0%N.
  by rewrite count_trueE lmapE -map_comp count_map (@eq_count _ _ pred0) ?count_pred0.
set quot := map2 _ ws ds.
have squot : size quot = size xs by rewrite size_map2 sw sds minnn.
have nthq j : (j < size xs)%N -> nth 0 quot j = nth 0 ws j / (x - nth 0 xs j).
  by move=> jlt; rewrite (nth_map2 _ 0 (0, false)) ?sw ?sds // (nth_map 0).
rewrite sumF_mc.
Show.
Admitted.
End Basis.
