(* Proofs/SysProofs.v — proofs about Model/Sys.v used by Props/C07.v. *)
From Coq Require Import List Arith Bool Lia Permutation.
From AmiscV Require Import Sys.
Import ListNotations.

Section SysProofs.
Variable V : Type.
Variable norm denorm : nat -> V -> V.

Local Notation env := (Sys.env V).
Local Notation comp := (Sys.comp V).
Local Notation lookup := (Sys.lookup V).
Local Notation gather := (Sys.gather V norm denorm).
Local Notation zip_out := (Sys.zip_out V).
Local Notation comp_step := (Sys.comp_step V norm denorm).
Local Notation eval := (Sys.eval V norm denorm).
Local Notation all_computed := (Sys.all_computed V).
Local Notation eval_targets := (Sys.eval_targets V norm denorm).
Local Notation canon := (Sys.canon V denorm).
Local Notation produced := (Sys.produced V).
Local Notation is_topological := (Sys.is_topological V).
Local Notation cin := (Sys.cin V).
Local Notation cout := (Sys.cout V).
Local Notation cmodel := (Sys.cmodel V).
Local Notation csurr := (Sys.csurr V).
Local Notation use_model := (Sys.use_model V).
Local Notation as_raw := (Sys.as_raw V denorm).
Local Notation as_norm := (Sys.as_norm V norm).

(* ------------------------------------------------------------------ basic facts *)
Lemma lookup_app : forall (l e : env) v,
  lookup (l ++ e) v = match lookup l v with Some t => Some t | None => lookup e v end.
Proof.
  induction l as [|[w t] l IH]; intros e v; simpl.
  - reflexivity.
  - destruct (Nat.eqb v w) eqn:E.
    + reflexivity.
    + apply IH.
Qed.

Lemma lookup_zip_notin : forall tag vs ys v, ~ In v vs -> lookup (zip_out tag vs ys) v = None.
Proof.
  induction vs as [|w vs IH]; intros ys v Hn; simpl.
  - reflexivity.
  - destruct ys as [|y ys].
    + reflexivity.
    + simpl. destruct (Nat.eqb v w) eqn:E.
      * apply Nat.eqb_eq in E. exfalso. apply Hn. left. symmetry. exact E.
      * apply IH. intro Hi. apply Hn. right. exact Hi.
Qed.

Lemma lookup_zip_in : forall tag vs ys v t, lookup (zip_out tag vs ys) v = Some t -> In v vs.
Proof.
  intros tag vs ys v t H.
  destruct (in_dec Nat.eq_dec v vs) as [Hi|Hn].
  - exact Hi.
  - rewrite (lookup_zip_notin tag vs ys v Hn) in H. discriminate H.
Qed.

Lemma lookup_zip_nth : forall tag vs ys j v yv,
  NoDup vs -> nth_error vs j = Some v -> nth_error ys j = Some yv ->
  lookup (zip_out tag vs ys) v = Some (tag, yv).
Proof.
  induction vs as [|w vs IH]; intros ys j v yv Hnd Hv Hy.
  - destruct j; discriminate Hv.
  - destruct ys as [|y ys].
    + destruct j; discriminate Hy.
    + inversion Hnd as [|w' vs' Hnw Hnd']. subst w' vs'.
      destruct j as [|j]; simpl in Hv, Hy.
      * inversion Hv. inversion Hy. subst. simpl. rewrite Nat.eqb_refl. reflexivity.
      * simpl. destruct (Nat.eqb v w) eqn:E.
        -- apply Nat.eqb_eq in E. subst w. exfalso. apply Hnw.
           apply nth_error_In with j. exact Hv.
        -- apply IH with j; assumption.
Qed.

Lemma lookup_none_notin : forall (e : env) v, lookup e v = None -> ~ In v (map fst e).
Proof.
  induction e as [|[w t] e IH]; intros v H; simpl.
  - intros [].
  - simpl in H. destruct (Nat.eqb v w) eqn:E.
    + discriminate H.
    + intros [Hw|Hi].
      * simpl in Hw. subst w. rewrite Nat.eqb_refl in E. discriminate E.
      * apply (IH v H Hi).
Qed.

Lemma gather_ext : forall (e e' : env) b vs,
  (forall v, In v vs -> lookup e v = lookup e' v) -> gather e b vs = gather e' b vs.
Proof.
  induction vs as [|v vs IH]; intros H; simpl.
  - reflexivity.
  - rewrite (H v (or_introl eq_refl)). rewrite IH.
    + reflexivity.
    + intros u Hu. apply H. right. exact Hu.
Qed.

Definition leq (e e' : env) : Prop := forall v, lookup e v = lookup e' v.

Lemma leq_refl : forall e, leq e e.
Proof. intros e v. reflexivity. Qed.

Lemma leq_trans : forall e1 e2 e3, leq e1 e2 -> leq e2 e3 -> leq e1 e3.
Proof. intros e1 e2 e3 H1 H2 v. rewrite H1. apply H2. Qed.

Lemma leq_app : forall (z : env) e e', leq e e' -> leq (z ++ e) (z ++ e').
Proof.
  intros z e e' H v. rewrite !lookup_app. destruct (lookup z v) eqn:E.
  - reflexivity.
  - apply H.
Qed.

Lemma comp_step_leq : forall e e' c r, leq e e' -> comp_step e c = Some r ->
  exists r', comp_step e' c = Some r' /\ leq r r'.
Proof.
  intros e e' c r Hl H. unfold Sys.comp_step in *.
  rewrite <- (gather_ext e e' (negb (use_model c)) (cin c)).
  - destruct (gather e (negb (use_model c)) (cin c)) as [xs|] eqn:G.
    + inversion H. subst r. eexists. split.
      * reflexivity.
      * apply leq_app. exact Hl.
    + discriminate H.
  - intros v _. apply Hl.
Qed.

Lemma eval_leq : forall o e e' r, leq e e' -> eval o e = Some r ->
  exists r', eval o e' = Some r' /\ leq r r'.
Proof.
  induction o as [|c o IH]; intros e e' r Hl H; simpl in *.
  - inversion H. subst r. exists e'. split; [reflexivity|exact Hl].
  - destruct (comp_step e c) as [ea|] eqn:S.
    + destruct (comp_step_leq e e' c ea Hl S) as [ea' [S' Hl']].
      rewrite S'. apply IH with ea; assumption.
    + discriminate H.
Qed.

Lemma eval_app : forall l1 l2 e,
  eval (l1 ++ l2) e = match eval l1 e with None => None | Some e1 => eval l2 e1 end.
Proof.
  induction l1 as [|c l1 IH]; intros l2 e; simpl.
  - reflexivity.
  - destruct (comp_step e c) as [ea|] eqn:S.
    + apply IH.
    + reflexivity.
Qed.

Lemma comp_step_frame : forall e c r v, comp_step e c = Some r -> ~ In v (cout c) -> lookup r v = lookup e v.
Proof.
  intros e c r v H Hn. unfold Sys.comp_step in H.
  destruct (gather e (negb (use_model c)) (cin c)) as [xs|] eqn:G.
  - inversion H. subst r. rewrite lookup_app. rewrite lookup_zip_notin.
    + reflexivity.
    + exact Hn.
  - discriminate H.
Qed.

Lemma produced_cons : forall c (l : list comp), produced (c :: l) = cout c ++ produced l.
Proof. reflexivity. Qed.

Lemma produced_app : forall (l1 l2 : list comp), produced (l1 ++ l2) = produced l1 ++ produced l2.
Proof. intros l1 l2. unfold Sys.produced. apply flat_map_app. Qed.

Lemma produced_in : forall (l : list comp) c v, In c l -> In v (cout c) -> In v (produced l).
Proof.
  intros l c v Hc Hv. unfold Sys.produced. apply in_flat_map. exists c. split; assumption.
Qed.

Lemma produced_perm : forall (l l' : list comp), Permutation l l' -> Permutation (produced l) (produced l').
Proof.
  intros l l' H. induction H as [|x l l' H IH|x y l|l l' l'' H1 IH1 H2 IH2].
  - apply Permutation_refl.
  - rewrite !produced_cons. apply Permutation_app_head. exact IH.
  - rewrite !produced_cons. rewrite !app_assoc. apply Permutation_app_tail. apply Permutation_app_comm.
  - apply Permutation_trans with (produced l'); assumption.
Qed.

Lemma eval_frame : forall o e r v, eval o e = Some r -> ~ In v (produced o) -> lookup r v = lookup e v.
Proof.
  induction o as [|c o IH]; intros e r v H Hn; simpl in H.
  - inversion H. reflexivity.
  - destruct (comp_step e c) as [ea|] eqn:S.
    + rewrite produced_cons in Hn. rewrite (IH ea r v H).
      * apply comp_step_frame with c.
        -- exact S.
        -- intro Hi. apply Hn. apply in_or_app. left. exact Hi.
      * intro Hi. apply Hn. apply in_or_app. right. exact Hi.
    + discriminate H.
Qed.

Lemma NoDup_app_l : forall (A : Type) (l1 l2 : list A), NoDup (l1 ++ l2) -> NoDup l1.
Proof.
  induction l1 as [|a l1 IH]; intros l2 H; simpl in *.
  - constructor.
  - inversion H as [|a' l' Hn Hd]. subst. constructor.
    + intro Hi. apply Hn. apply in_or_app. left. exact Hi.
    + apply IH with l2. exact Hd.
Qed.

Lemma NoDup_app_r : forall (A : Type) (l1 l2 : list A), NoDup (l1 ++ l2) -> NoDup l2.
Proof.
  induction l1 as [|a l1 IH]; intros l2 H; simpl in *.
  - exact H.
  - inversion H as [|a' l' Hn Hd]. subst. apply IH. exact Hd.
Qed.

Lemma NoDup_app_disj : forall (A : Type) (l1 l2 : list A) x, NoDup (l1 ++ l2) -> In x l1 -> ~ In x l2.
Proof.
  induction l1 as [|a l1 IH]; intros l2 x H Hi; simpl in *.
  - destruct Hi.
  - inversion H as [|a' l' Hn Hd]. subst. destruct Hi as [Ha|Hi].
    + subst a. intro H2. apply Hn. apply in_or_app. right. exact H2.
    + apply IH; assumption.
Qed.

Lemma vmem_true : forall v l, Sys.vmem v l = true -> In v l.
Proof.
  intros v l H. unfold Sys.vmem in H. apply existsb_exists in H. destruct H as [x [Hx E]].
  apply Nat.eqb_eq in E. subst x. exact Hx.
Qed.

Lemma vmem_in : forall v l, In v l -> Sys.vmem v l = true.
Proof.
  intros v l H. unfold Sys.vmem. apply existsb_exists. exists v. split.
  - exact H.
  - apply Nat.eqb_refl.
Qed.

Lemma vmem_false : forall v l, Sys.vmem v l = false -> ~ In v l.
Proof.
  intros v l H Hi. rewrite (vmem_in v l Hi) in H. discriminate H.
Qed.

(* the head condition of is_topological as a proposition *)
Definition ready (all : list comp) (done : list nat) (c : comp) : Prop :=
  forall v, In v (cin c) -> ~ In v (produced all) \/ In v done.

Lemma topo_cons : forall all done c rest,
  is_topological all done (c :: rest) = true <->
  ready all done c /\ is_topological all (cout c ++ done) rest = true.
Proof.
  intros all done c rest. simpl. rewrite andb_true_iff. rewrite forallb_forall. split.
  - intros [H1 H2]. split.
    + intros v Hv. specialize (H1 v Hv). apply orb_true_iff in H1. destruct H1 as [H1|H1].
      * left. apply vmem_false. apply negb_true_iff. exact H1.
      * right. apply vmem_true. exact H1.
    + exact H2.
  - intros [H1 H2]. split.
    + intros v Hv. apply orb_true_iff. destruct (H1 v Hv) as [H|H].
      * left. apply negb_true_iff. destruct (Sys.vmem v (produced all)) eqn:E.
        -- exfalso. apply H. apply vmem_true. exact E.
        -- reflexivity.
      * right. apply vmem_in. exact H.
    + exact H2.
Qed.

Lemma topo_incl : forall all order done done', incl done done' ->
  is_topological all done order = true -> is_topological all done' order = true.
Proof.
  induction order as [|c rest IH]; intros done done' Hi H.
  - reflexivity.
  - apply topo_cons in H. destruct H as [Hr Ht]. apply topo_cons. split.
    + intros v Hv. destruct (Hr v Hv) as [H|H].
      * left. exact H.
      * right. apply Hi. exact H.
    + apply IH with (cout c ++ done).
      * intros x Hx. apply in_app_or in Hx. apply in_or_app. destruct Hx as [Hx|Hx].
        -- left. exact Hx.
        -- right. apply Hi. exact Hx.
      * exact Ht.
Qed.

Lemma topo_remove : forall all pre done c post done',
  is_topological all done (pre ++ c :: post) = true ->
  incl done done' -> incl (cout c) done' ->
  is_topological all done' (pre ++ post) = true.
Proof.
  induction pre as [|p pre IH]; intros done c post done' H Hi Hc; simpl app in *.
  - apply topo_cons in H. destruct H as [_ Ht]. apply topo_incl with (cout c ++ done).
    + intros x Hx. apply in_app_or in Hx. destruct Hx as [Hx|Hx].
      * apply Hc. exact Hx.
      * apply Hi. exact Hx.
    + exact Ht.
  - apply topo_cons in H. destruct H as [Hr Ht]. apply topo_cons. split.
    + intros v Hv. destruct (Hr v Hv) as [H|H].
      * left. exact H.
      * right. apply Hi. exact H.
    + apply IH with (cout p ++ done) c.
      * exact Ht.
      * intros x Hx. apply in_app_or in Hx. apply in_or_app. destruct Hx as [Hx|Hx].
        -- left. exact Hx.
        -- right. apply Hi. exact Hx.
      * intros x Hx. apply in_or_app. right. apply Hc. exact Hx.
Qed.

(* components before c in a topological order do not read c's outputs *)
Lemma topo_pre_avoid : forall all pre done c post,
  is_topological all done (pre ++ c :: post) = true ->
  NoDup (produced (pre ++ c :: post)) ->
  (forall v, In v (cout c) -> In v (produced all)) ->
  (forall v, In v (cout c) -> ~ In v done) ->
  forall p, In p pre -> forall v, In v (cin p) -> ~ In v (cout c).
Proof.
  induction pre as [|q pre IH]; intros done c post H Hnd Hall Hav p Hp v Hv Hvc; simpl app in *.
  - destruct Hp.
  - apply topo_cons in H. destruct H as [Hr Ht].
    rewrite produced_cons in Hnd.
    destruct Hp as [Hp|Hp].
    + subst q. destruct (Hr v Hv) as [H|H].
      * apply H. apply Hall. exact Hvc.
      * apply (Hav v Hvc H).
    + apply (IH (cout q ++ done) c post Ht (NoDup_app_r _ _ _ Hnd) Hall) with p v; try assumption.
      intros u Hu Hd. apply in_app_or in Hd. destruct Hd as [Hd|Hd].
      * apply (NoDup_app_disj _ _ _ u Hnd Hd). rewrite produced_app. apply in_or_app. right.
        rewrite produced_cons. apply in_or_app. left. exact Hu.
      * apply (Hav u Hu Hd).
Qed.

(* ------------------------------------------------------------------ commutation *)
Definition indep (a b : comp) : Prop :=
  (forall v, In v (cin b) -> ~ In v (cout a)) /\
  (forall v, In v (cin a) -> ~ In v (cout b)) /\
  (forall v, In v (cout a) -> ~ In v (cout b)).

Lemma comp_step_comm : forall e a b ea eab, indep a b ->
  comp_step e a = Some ea -> comp_step ea b = Some eab ->
  exists eb eba, comp_step e b = Some eb /\ comp_step eb a = Some eba /\ leq eab eba.
Proof.
  intros e a b ea eab [Hba [Hab Hd]] Sa Sb. unfold Sys.comp_step in *.
  destruct (gather e (negb (use_model a)) (cin a)) as [xa|] eqn:Ga.
  - inversion Sa. subst ea. clear Sa.
    rewrite (gather_ext _ e (negb (use_model b)) (cin b)) in Sb.
    + destruct (gather e (negb (use_model b)) (cin b)) as [xb|] eqn:Gb.
      * inversion Sb. subst eab. clear Sb.
        eexists. eexists. split.
        -- reflexivity.
        -- rewrite (gather_ext _ e (negb (use_model a)) (cin a)).
           ++ rewrite Ga. split.
              ** reflexivity.
              ** intro v. rewrite !lookup_app.
                 destruct (lookup (zip_out (negb (use_model b)) (cout b)
                            (if use_model b then cmodel b xb else csurr b xb)) v) as [tb|] eqn:Lb.
                 --- apply lookup_zip_in in Lb. rewrite lookup_zip_notin.
                     +++ reflexivity.
                     +++ intro Hi. apply (Hd v Hi Lb).
                 --- reflexivity.
           ++ intros v Hv. rewrite lookup_app. rewrite lookup_zip_notin.
              ** reflexivity.
              ** apply Hab. exact Hv.
      * discriminate Sb.
    + intros v Hv. rewrite lookup_app. rewrite lookup_zip_notin.
      * reflexivity.
      * apply Hba. exact Hv.
  - discriminate Sa.
Qed.

Lemma eval_move : forall pre c post e r,
  (forall p, In p pre -> indep c p) ->
  eval (c :: pre ++ post) e = Some r ->
  exists r', eval (pre ++ c :: post) e = Some r' /\ leq r r'.
Proof.
  induction pre as [|p pre IH]; intros c post e r Hind H.
  - exists r. split.
    + exact H.
    + apply leq_refl.
  - simpl in H. destruct (comp_step e c) as [ec|] eqn:Sc.
    + destruct (comp_step ec p) as [ecp|] eqn:Sp.
      * destruct (comp_step_comm e c p ec ecp (Hind p (or_introl eq_refl)) Sc Sp)
          as [ep [epc [Sp' [Sc' Hl]]]].
        destruct (eval_leq _ _ _ _ Hl H) as [r1 [E1 Hl1]].
        assert (E2 : eval (c :: pre ++ post) ep = Some r1).
        { simpl. rewrite Sc'. exact E1. }
        destruct (IH c post ep r1 (fun q Hq => Hind q (or_intror Hq)) E2) as [r' [E3 Hl3]].
        exists r'. split.
        -- simpl. rewrite Sp'. exact E3.
        -- apply leq_trans with r1; assumption.
      * discriminate H.
    + discriminate H.
Qed.

(* ------------------------------------------------------------------ order independence *)
Lemma oi_gen : forall o1 all done o2 e0 e0' e1,
  Permutation o1 o2 ->
  NoDup (produced o1) ->
  (forall v, In v (produced o1) -> In v (produced all)) ->
  (forall v, In v (produced o1) -> ~ In v done) ->
  is_topological all done o1 = true -> is_topological all done o2 = true ->
  leq e0 e0' ->
  eval o1 e0 = Some e1 ->
  exists e2, eval o2 e0' = Some e2 /\ leq e1 e2.
Proof.
  induction o1 as [|c o1 IH]; intros all done o2 e0 e0' e1 Hp Hnd Hall Hav T1 T2 Hl E.
  - apply Permutation_nil in Hp. subst o2. simpl in *. inversion E. subst e1.
    exists e0'. split; [reflexivity|exact Hl].
  - assert (Hc : In c o2).
    { apply Permutation_in with (c :: o1). exact Hp. left. reflexivity. }
    apply in_split in Hc. destruct Hc as [pre [post Ho2]]. subst o2.
    apply Permutation_cons_app_inv in Hp.
    assert (Hnd2 : NoDup (produced (pre ++ c :: post))).
    { apply Permutation_NoDup with (produced (c :: pre ++ post)).
      - apply produced_perm. apply Permutation_middle.
      - apply Permutation_NoDup with (produced (c :: o1)).
        + apply produced_perm. apply perm_skip. exact Hp.
        + exact Hnd. }
    rewrite produced_cons in Hnd, Hall, Hav.
    apply topo_cons in T1. destruct T1 as [Hr T1].
    simpl in E. destruct (comp_step e0 c) as [ea|] eqn:Sc.
    + destruct (comp_step_leq _ _ _ _ Hl Sc) as [ea' [Sc' Hla]].
      destruct (IH all (cout c ++ done) (pre ++ post) ea ea' e1) as [e2 [E2 Hl2]].
      * exact Hp.
      * apply NoDup_app_r with (cout c). exact Hnd.
      * intros v Hv. apply Hall. apply in_or_app. right. exact Hv.
      * intros v Hv Hd. apply in_app_or in Hd. destruct Hd as [Hd|Hd].
        -- apply (NoDup_app_disj _ _ _ v Hnd Hd Hv).
        -- apply (Hav v). apply in_or_app. right. exact Hv. exact Hd.
      * exact T1.
      * apply topo_remove with done c.
        -- exact T2.
        -- intros x Hx. apply in_or_app. right. exact Hx.
        -- intros x Hx. apply in_or_app. left. exact Hx.
      * exact Hla.
      * exact E.
      * assert (E3 : eval (c :: pre ++ post) e0' = Some e2).
        { simpl. rewrite Sc'. exact E2. }
        destruct (eval_move pre c post e0' e2) as [r' [E4 Hl4]].
        -- intros p Hpin.
           assert (Hpo : forall v, In v (cout p) -> In v (produced o1)).
           { intros v Hv. apply Permutation_in with (produced (pre ++ post)).
             - apply Permutation_sym. apply produced_perm. exact Hp.
             - apply produced_in with p.
               + apply in_or_app. left. exact Hpin.
               + exact Hv. }
           split; [|split].
           ++ intros v Hv. apply (topo_pre_avoid all pre done c post T2 Hnd2) with p.
              ** intros u Hu. apply Hall. apply in_or_app. left. exact Hu.
              ** intros u Hu. apply Hav. apply in_or_app. left. exact Hu.
              ** exact Hpin.
              ** exact Hv.
           ++ intros v Hv Hvp. destruct (Hr v Hv) as [H|H].
              ** apply H. apply Hall. apply in_or_app. right. apply Hpo. exact Hvp.
              ** apply (Hav v).
                 --- apply in_or_app. right. apply Hpo. exact Hvp.
                 --- exact H.
           ++ intros v Hv Hvp. apply (NoDup_app_disj _ _ _ v Hnd Hv). apply Hpo. exact Hvp.
        -- exact E3.
        -- exists r'. split.
           ++ exact E4.
           ++ apply leq_trans with e2; assumption.
    + discriminate E.
Qed.

Lemma order_independent : forall (cs o1 o2 : list comp) (e0 e1 : env),
  Permutation o1 cs -> Permutation o2 cs -> NoDup (produced cs) ->
  (forall v, In v (produced cs) -> lookup e0 v = None) ->
  is_topological cs (map fst e0) o1 = true -> is_topological cs (map fst e0) o2 = true ->
  eval o1 e0 = Some e1 ->
  exists e2, eval o2 e0 = Some e2 /\ forall v, lookup e1 v = lookup e2 v.
Proof.
  intros cs o1 o2 e0 e1 P1 P2 Hnd Hun T1 T2 E.
  assert (Hin : forall v, In v (produced o1) -> In v (produced cs)).
  { intros v Hv. apply Permutation_in with (produced o1).
    - apply produced_perm. exact P1.
    - exact Hv. }
  apply (oi_gen o1 cs (map fst e0) o2 e0 e0 e1).
  - apply Permutation_trans with cs.
    + exact P1.
    + apply Permutation_sym. exact P2.
  - apply Permutation_NoDup with (produced cs).
    + apply Permutation_sym. apply produced_perm. exact P1.
    + exact Hnd.
  - exact Hin.
  - intros v Hv. apply lookup_none_notin. apply Hun. apply Hin. exact Hv.
  - exact T1.
  - exact T2.
  - apply leq_refl.
  - exact E.
Qed.

(* ------------------------------------------------------------------ the pool solves the component equations *)
Lemma sol_gen : forall order all done e0 e,
  NoDup (produced order) ->
  (forall v, In v (produced order) -> In v (produced all)) ->
  (forall v, In v done -> ~ In v (produced order)) ->
  is_topological all done order = true ->
  eval order e0 = Some e ->
  forall c, In c order ->
  exists xs, gather e (negb (use_model c)) (cin c) = Some xs /\
    forall j v yv, nth_error (cout c) j = Some v ->
      nth_error (if use_model c then cmodel c xs else csurr c xs) j = Some yv ->
      lookup e v = Some (negb (use_model c), yv).
Proof.
  induction order as [|a rest IH]; intros all done e0 e Hnd Hall Hdn T E c Hc.
  - destruct Hc.
  - apply topo_cons in T. destruct T as [Hr T].
    rewrite produced_cons in Hnd, Hall, Hdn.
    simpl in E. destruct (comp_step e0 a) as [ea|] eqn:Sa.
    + destruct Hc as [Hc|Hc].
      * subst c. pose proof Sa as Sa'. unfold Sys.comp_step in Sa.
        destruct (gather e0 (negb (use_model a)) (cin a)) as [xs|] eqn:G.
        -- inversion Sa. clear Sa. exists xs. split.
           ++ rewrite <- G. apply gather_ext. intros v Hv.
              assert (Hnp : ~ In v (cout a ++ produced rest)).
              { destruct (Hr v Hv) as [H|H].
                - intro Hi. apply H. apply Hall. exact Hi.
                - apply Hdn. exact H. }
              rewrite (eval_frame rest ea e v E).
              ** apply comp_step_frame with a.
                 --- exact Sa'.
                 --- intro Hi. apply Hnp. apply in_or_app. left. exact Hi.
              ** intro Hi. apply Hnp. apply in_or_app. right. exact Hi.
           ++ intros j v yv Hv Hy.
              rewrite (eval_frame rest ea e v E).
              ** subst ea. rewrite lookup_app.
                 rewrite (lookup_zip_nth _ _ _ j v yv (NoDup_app_l _ _ _ Hnd) Hv Hy). reflexivity.
              ** apply (NoDup_app_disj _ _ _ v Hnd). apply nth_error_In with j. exact Hv.
        -- discriminate Sa.
      * apply (IH all (cout a ++ done) ea e).
        -- apply NoDup_app_r with (cout a). exact Hnd.
        -- intros v Hv. apply Hall. apply in_or_app. right. exact Hv.
        -- intros v Hv Hp. apply in_app_or in Hv. destruct Hv as [Hv|Hv].
           ++ apply (NoDup_app_disj _ _ _ v Hnd Hv Hp).
           ++ apply (Hdn v Hv). apply in_or_app. right. exact Hp.
        -- exact T.
        -- exact E.
        -- exact Hc.
    + discriminate E.
Qed.

Lemma is_solution : forall (cs order : list comp) (e0 e : env),
  Permutation order cs -> NoDup (produced cs) ->
  (forall v, In v (produced cs) -> lookup e0 v = None) ->
  is_topological cs (map fst e0) order = true ->
  eval order e0 = Some e ->
  forall c, In c order ->
  exists xs, gather e (negb (use_model c)) (cin c) = Some xs /\
    forall j v yv, nth_error (cout c) j = Some v ->
      nth_error (if use_model c then cmodel c xs else csurr c xs) j = Some yv ->
      lookup e v = Some (negb (use_model c), yv).
Proof.
  intros cs order e0 e P Hnd Hun T E.
  assert (Hin : forall v, In v (produced order) -> In v (produced cs)).
  { intros v Hv. apply Permutation_in with (produced order).
    - apply produced_perm. exact P.
    - exact Hv. }
  apply (sol_gen order cs (map fst e0) e0 e).
  - apply Permutation_NoDup with (produced cs).
    + apply Permutation_sym. apply produced_perm. exact P.
    + exact Hnd.
  - exact Hin.
  - intros v Hv Hp. apply (lookup_none_notin e0 v).
    + apply Hun. apply Hin. exact Hp.
    + exact Hv.
  - exact T.
  - exact E.
Qed.

(* ------------------------------------------------------------------ early exit *)
Lemma tgt_gen : forall targets order e0 e e',
  NoDup (produced order) ->
  (forall v, In v (produced order) -> lookup e0 v = None) ->
  eval order e0 = Some e ->
  eval_targets targets order e0 = Some e' ->
  forall t, In t targets -> lookup e' t = lookup e t.
Proof.
  induction order as [|a rest IH]; intros e0 e e' Hnd Hun E ET t Ht.
  - simpl in E, ET. inversion E. subst e.
    destruct (all_computed targets e0) eqn:A; inversion ET; reflexivity.
  - simpl in ET. destruct (all_computed targets e0) eqn:A.
    + inversion ET. subst e'. symmetry. apply eval_frame with (a :: rest).
      * exact E.
      * intro Hp. unfold Sys.all_computed in A. rewrite forallb_forall in A.
        specialize (A t Ht). rewrite (Hun t Hp) in A. discriminate A.
    + simpl in E. destruct (comp_step e0 a) as [ea|] eqn:Sa.
      * rewrite produced_cons in Hnd, Hun. apply (IH ea e e').
        -- apply NoDup_app_r with (cout a). exact Hnd.
        -- intros v Hv. rewrite (comp_step_frame e0 a ea v Sa).
           ++ apply Hun. apply in_or_app. right. exact Hv.
           ++ intro Hi. apply (NoDup_app_disj _ _ _ v Hnd Hi Hv).
        -- exact E.
        -- exact ET.
        -- exact Ht.
      * discriminate E.
Qed.

Lemma targets_same : forall (cs order : list comp) (targets : list Sys.var) (e0 e e' : env),
  Permutation order cs -> NoDup (produced cs) ->
  (forall v, In v (produced cs) -> lookup e0 v = None) ->
  eval order e0 = Some e ->
  eval_targets targets order e0 = Some e' ->
  forall t, In t targets -> lookup e' t = lookup e t.
Proof.
  intros cs order targets e0 e e' P Hnd Hun E ET.
  apply (tgt_gen targets order e0 e e').
  - apply Permutation_NoDup with (produced cs).
    + apply Permutation_sym. apply produced_perm. exact P.
    + exact Hnd.
  - intros v Hv. apply Hun. apply Permutation_in with (produced order).
    + apply produced_perm. exact P.
    + exact Hv.
  - exact E.
  - exact ET.
Qed.

(* ------------------------------------------------------------------ override *)
Lemma override_local : forall (pre post : list comp) (c c' : comp) (e0 e e' : env),
  cin c' = cin c -> cout c' = cout c ->
  NoDup (produced (pre ++ c :: post)) ->
  (forall v, In v (produced (pre ++ c :: post)) -> lookup e0 v = None) ->
  eval (pre ++ c :: post) e0 = Some e ->
  eval (pre ++ c' :: post) e0 = Some e' ->
  forall v, ~ In v (produced (c :: post)) -> lookup e' v = lookup e v.
Proof.
  intros pre post c c' e0 e e' Hci Hco _ _ E E' v Hn.
  rewrite eval_app in E, E'. destruct (eval pre e0) as [ep|] eqn:Ep.
  - rewrite (eval_frame _ _ _ v E Hn). apply (eval_frame _ _ _ v E').
    rewrite produced_cons in *. rewrite Hco. exact Hn.
  - discriminate E.
Qed.

(* ------------------------------------------------------------------ raw / normalised inputs *)
Definition ceq (e e' : env) : Prop := forall v, canon e v = canon e' v.

Lemma as_norm_raw : (forall v x, norm v (denorm v x) = x) ->
  forall v t, as_norm v t = norm v (as_raw v t).
Proof.
  intros Hnd v [b x]. unfold Sys.as_norm, Sys.as_raw. simpl. destruct b.
  - symmetry. apply Hnd.
  - reflexivity.
Qed.

Lemma gather_ceq : (forall v x, norm v (denorm v x) = x) ->
  forall e e' b vs, ceq e e' -> gather e b vs = gather e' b vs.
Proof.
  intros Hnd e e' b vs Hc. induction vs as [|v vs IH]; simpl.
  - reflexivity.
  - rewrite IH. specialize (Hc v). unfold Sys.canon in Hc.
    destruct (lookup e v) as [t|] eqn:L.
    + destruct (lookup e' v) as [t'|] eqn:L'.
      * inversion Hc as [Hr]. destruct (gather e' b vs) as [l|] eqn:G.
        -- destruct b.
           ++ rewrite !(as_norm_raw Hnd). rewrite Hr. reflexivity.
           ++ rewrite Hr. reflexivity.
        -- reflexivity.
      * discriminate Hc.
    + destruct (lookup e' v) as [t'|] eqn:L'.
      * discriminate Hc.
      * reflexivity.
Qed.

Lemma ceq_app : forall (z : env) e e', ceq e e' -> ceq (z ++ e) (z ++ e').
Proof.
  intros z e e' H v. specialize (H v). unfold Sys.canon in *. rewrite !lookup_app.
  destruct (lookup z v) as [t|] eqn:L.
  - reflexivity.
  - exact H.
Qed.

Lemma raw_or_normalised : forall (order : list comp) (e0 e0' e1 : env),
  (forall v x, denorm v (norm v x) = x) -> (forall v x, norm v (denorm v x) = x) ->
  (forall v, canon e0 v = canon e0' v) ->
  eval order e0 = Some e1 ->
  exists e2, eval order e0' = Some e2 /\ forall v, canon e1 v = canon e2 v.
Proof.
  intros order e0 e0' e1 _ Hnd. revert e0 e0' e1.
  induction order as [|c order IH]; intros e0 e0' e1 Hc E; simpl in *.
  - inversion E. subst e1. exists e0'. split; [reflexivity|exact Hc].
  - destruct (comp_step e0 c) as [ea|] eqn:S.
    + unfold Sys.comp_step in *.
      rewrite <- (gather_ceq Hnd e0 e0' (negb (use_model c)) (cin c) Hc).
      destruct (gather e0 (negb (use_model c)) (cin c)) as [xs|] eqn:G.
      * inversion S. subst ea. apply IH with (2 := E). apply ceq_app. exact Hc.
      * discriminate S.
    + discriminate E.
Qed.

End SysProofs.
