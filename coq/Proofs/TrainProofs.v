(* Proofs/TrainProofs.v — proofs for the extension of C13 (Props/C13X.v) about Model/Train.v, on top of
   Proofs/GridProofs.v and Proofs/CrashProofs.v. *)
From Coq Require Import List Arith Bool Lia ZArith.
From AmiscV Require Import Misc Grid Crash Train GridProofs CrashProofs.
Import ListNotations.

Definition truthful (A : Type) (f : key -> A) (s : list (key * A)) : Prop :=
  NoDup (map fst s) /\ forall k v, In (k, v) s -> v = f k.

(* ------------------------------------------------------------------ a request that is not accepted changes nothing *)
Lemma activate_noop mx s i : accepts s i = false -> activate mx s i = s.
Proof.
  unfold accepts, activate. intro H.
  destruct (mem i (active s)); [reflexivity|].
  destruct (mem i (cand s)); simpl in H |- *; [discriminate|].
  destruct (Nat.eqb_spec (isum i) 0) as [E|E]; [discriminate|].
  destruct (Nat.ltb_spec 0 (isum i)) as [L|L]; [reflexivity | lia].
Qed.

(* ------------------------------------------------------------------ batch_designs sees the store only through membership *)
Lemma kmem_ext (l l' : list key) : (forall k, In k l <-> In k l') -> forall k, kmem k l = kmem k l'.
Proof.
  intros H k. destruct (kmem k l) eqn:E1, (kmem k l') eqn:E2; try reflexivity.
  - apply kmem_In in E1. apply kmem_false in E2. exfalso. apply E2. apply H. exact E1.
  - apply kmem_In in E2. apply kmem_false in E1. exfalso. apply E1. apply H. exact E2.
Qed.

Lemma batch_designs_ext (l l' : list key) kpl rr latent :
  (forall k, In k l <-> In k l') ->
  forall indices sofar, batch_designs l kpl rr latent indices sofar = batch_designs l' kpl rr latent indices sofar.
Proof.
  intro H. induction indices as [|[alpha beta] rest IH]; intro sofar; [reflexivity|].
  simpl.
  assert (E : new_coords l alpha (grid_coords kpl rr latent beta) =
              new_coords l' alpha (grid_coords kpl rr latent beta)).
  { unfold new_coords. apply filter_ext. intro c. rewrite (kmem_ext l l' H). reflexivity. }
  rewrite E, IH. reflexivity.
Qed.

Lemma keys_equiv {A} (s s' : list (key * A)) :
  (forall k v, In (k, v) s <-> In (k, v) s') -> forall k, In k (map fst s) <-> In k (map fst s').
Proof.
  intros H k. rewrite !in_map_iff. split; intros [[k' v] [E Hin]]; exists (k', v); (split; [exact E|]); apply H; exact Hin.
Qed.

(* ------------------------------------------------------------------ one batch keeps the store truthful *)
Lemma activate_batch_truthful (A : Type) (f : key -> A) store kpl rr latent indices :
  truthful A f store -> truthful A f (fst (activate_batch f store kpl rr latent indices)).
Proof.
  intros [Hnd Hf].
  set (designs := batch_designs (map fst store) kpl rr latent indices []).
  assert (E : fst (activate_batch f store kpl rr latent indices) =
              crash_store A f store kpl rr latent indices
                          (length (slice_back designs (map f (concat designs))))).
  { unfold activate_batch, crash_store. simpl fst. fold designs. rewrite firstn_all. reflexivity. }
  rewrite E. exact (crash_store_truthful A f store kpl rr latent indices _ Hnd Hf).
Qed.

Section TrainProofs.
Variable A : Type.
Variable f : key -> A.
Variables (mx : idx) (na kpl : nat) (rr : bool) (latent : list nat).

Notation tstate := (tstate A).
Notation ms := (ms A).
Notation store := (store A).
Notation t0 := (t0 A).
Notation batch_of := (batch_of mx na).
Notation tstep := (tstep A f mx na kpl rr latent).
Notation trun := (trun A f mx na kpl rr latent).
Notation tcrash := (tcrash A f mx na kpl rr latent).
Notation trun_interrupted := (trun_interrupted A f mx na kpl rr latent).

Lemma trun_cons i rest t : trun (i :: rest) t = trun rest (tstep t i).
Proof. reflexivity. Qed.

Lemma trun_app l1 l2 t : trun (l1 ++ l2) t = trun l2 (trun l1 t).
Proof. unfold Train.trun. apply fold_left_app. Qed.

(* ---------------------------------------------------------------- truthful stores *)
Lemma tstep_truthful t i : truthful A f (store t) -> truthful A f (store (tstep t i)).
Proof.
  intro H. unfold Train.tstep. destruct (accepts (ms t) i); [|exact H].
  simpl. apply activate_batch_truthful. exact H.
Qed.

Lemma trun_truthful : forall reqs t, truthful A f (store t) -> truthful A f (store (trun reqs t)).
Proof.
  induction reqs as [|i rest IH]; intros t H; [exact H|].
  rewrite trun_cons. apply IH. apply tstep_truthful. exact H.
Qed.

Lemma t0_truthful : truthful A f (store t0).
Proof. split; simpl; [constructor | intros k v []]. Qed.

Lemma run_store_truthful_sec : forall reqs, truthful A f (store (trun reqs t0)).
Proof. intro reqs. apply trun_truthful. exact t0_truthful. Qed.

(* ---------------------------------------------------------------- sets and weights *)
Lemma tstep_ms t i : ms (tstep t i) = activate mx (ms t) i.
Proof.
  unfold Train.tstep. destruct (accepts (ms t) i) eqn:E; [reflexivity|].
  symmetry. apply activate_noop. exact E.
Qed.

Lemma trun_ms : forall reqs t, ms (trun reqs t) = fold_left (activate mx) reqs (ms t).
Proof.
  induction reqs as [|i rest IH]; intro t; [reflexivity|].
  rewrite trun_cons, IH, tstep_ms. reflexivity.
Qed.

Lemma tcrash_ms t i j : ms (tcrash t i j) = ms t.
Proof. unfold Train.tcrash. destruct (accepts (ms t) i); reflexivity. Qed.

Lemma tcrash_truthful t i j : truthful A f (store t) -> truthful A f (store (tcrash t i j)).
Proof.
  intros [Hnd Hf]. unfold Train.tcrash. destruct (accepts (ms t) i); [|split; assumption].
  simpl. exact (crash_store_truthful A f _ kpl rr latent _ j Hnd Hf).
Qed.

Lemma saved_state_sec : forall reqs i j,
  let t := trun reqs t0 in
  ms (tcrash t i j) = ms t /\ ms t = Misc.run mx reqs /\ truthful A f (store (tcrash t i j)).
Proof.
  intros reqs i j t. split; [apply tcrash_ms|]. split.
  - unfold t. rewrite trun_ms. reflexivity.
  - apply tcrash_truthful. apply run_store_truthful_sec.
Qed.

(* ---------------------------------------------------------------- equivalent states *)
Definition teq (t t' : tstate) : Prop :=
  ms t = ms t' /\ forall k v, In (k, v) (store t) <-> In (k, v) (store t').

Lemma teq_refl t : teq t t.
Proof. split; [reflexivity | intros; reflexivity]. Qed.

Lemma tstep_teq t t' i : teq t t' -> teq (tstep t i) (tstep t' i).
Proof.
  intros [Hm Hs]. unfold Train.tstep. rewrite <- Hm.
  destruct (accepts (ms t) i); [|split; assumption].
  split; [reflexivity|]. cbn [Train.store]. intros k v.
  rewrite !activate_batch_spec. simpl fst.
  rewrite (batch_designs_ext (map fst (store t)) (map fst (store t')) kpl rr latent (keys_equiv _ _ Hs)).
  rewrite !in_app_iff. rewrite (Hs k v). reflexivity.
Qed.

Lemma trun_teq : forall reqs t t', teq t t' -> teq (trun reqs t) (trun reqs t').
Proof.
  induction reqs as [|i rest IH]; intros t t' H; [exact H|].
  rewrite !trun_cons. apply IH. apply tstep_teq. exact H.
Qed.

(* the resumed request reaches a state equivalent to the one of the uninterrupted request *)
Lemma tstep_tcrash_teq t i j : truthful A f (store t) -> teq (tstep (tcrash t i j) i) (tstep t i).
Proof.
  intros [Hnd Hf]. unfold Train.tcrash, Train.tstep.
  destruct (accepts (ms t) i) eqn:Ea.
  - simpl Train.ms. rewrite Ea. split; [reflexivity|]. simpl Train.store. simpl Train.ms.
    exact (resume_same_data A f (store t) kpl rr latent (batch_of (ms t) i) j Hnd Hf).
  - rewrite Ea. apply teq_refl.
Qed.

Lemma resume_same_result_sec : forall reqs n j,
  teq (trun_interrupted reqs n j) (trun reqs t0).
Proof.
  intros reqs n j.
  assert (Hsplit : trun reqs t0 = trun (skipn n reqs) (trun (firstn n reqs) t0)).
  { rewrite <- trun_app, firstn_skipn. reflexivity. }
  unfold Train.trun_interrupted. rewrite Hsplit.
  destruct (skipn n reqs) as [|i rest]; [apply teq_refl|].
  rewrite !trun_cons. apply trun_teq. apply tstep_tcrash_teq. apply run_store_truthful_sec.
Qed.
End TrainProofs.

(* ------------------------------------------------------------------ the statements of Props/C13X.v *)
Lemma run_store_truthful : forall (A : Type) (f : key -> A) mx na kpl rr latent (reqs : list idx),
  truthful A f (store A (trun A f mx na kpl rr latent reqs (t0 A))).
Proof. intros. apply run_store_truthful_sec. Qed.

Lemma saved_state : forall (A : Type) (f : key -> A) mx na kpl rr latent (reqs : list idx) (i : idx) (j : nat),
  let t := trun A f mx na kpl rr latent reqs (t0 A) in
  ms A (tcrash A f mx na kpl rr latent t i j) = ms A t /\
  ms A t = Misc.run mx reqs /\
  truthful A f (store A (tcrash A f mx na kpl rr latent t i j)).
Proof. intros. apply saved_state_sec. Qed.

Lemma resume_same_result : forall (A : Type) (f : key -> A) mx na kpl rr latent (reqs : list idx) (n j : nat),
  ms A (trun_interrupted A f mx na kpl rr latent reqs n j) = ms A (trun A f mx na kpl rr latent reqs (t0 A)) /\
  forall k v, In (k, v) (store A (trun_interrupted A f mx na kpl rr latent reqs n j)) <->
              In (k, v) (store A (trun A f mx na kpl rr latent reqs (t0 A))).
Proof. intros. exact (resume_same_result_sec A f mx na kpl rr latent reqs n j). Qed.
