(* Proofs/Lagr1d.v — one-dimensional barycentric Lagrange interpolation: the executable model of
   Model/Lagr.v, instantiated at the operations of an arbitrary MathComp realFieldType, computes the
   Lagrange basis polynomials of Proofs/LagrDefs.v.  Statements used by Props/C05.v:
   basis_is_lagrange, init_weights_ok, extend_weights_ok, interp_poly_spec. *)
From mathcomp Require Import all_ssreflect all_algebra.
From mathcomp Require Import ring.
From AmiscV Require Import Field Lagr LagrDefs.
Set Implicit Arguments. Unset Strict Implicit. Unset Printing Implicit Defensive.
Import GRing.Theory Num.Theory.
Local Open Scope ring_scope.

(* ------------------------------------------------------------------ the interpolation polynomial *)
Section Poly.
Variable F : realFieldType.
Implicit Types (xs ws ys zs : seq F) (x xj xk : F) (p q : {poly F}).

Lemma lbase_eq xs xj : (lbase xs xj).[xj] = 1.
Proof.
rewrite /lbase horner_prod big1_seq // => xi /andP[ne _].
by rewrite hornerZ hornerXsubC mulVf // subr_eq0 eq_sym.
Qed.

Lemma lbase_neq xs xj xk : xk \in xs -> xk != xj -> (lbase xs xj).[xk] = 0.
Proof.
move=> kin ne; apply/eqP; rewrite /lbase horner_prod prodf_seq_eq0; apply/hasP.
by exists xk => //; rewrite ne hornerZ hornerXsubC subrr mulr0 eqxx.
Qed.

Lemma lbase_split xs xj :
  lbase xs xj = (\prod_(xi <- xs | xi != xj) (xj - xi))^-1 *: \prod_(xi <- xs | xi != xj) ('X - xi%:P).
Proof.
rewrite /lbase -prodfV.
elim/big_rec3: _ => [|i a b c ne ->]; first by rewrite scale1r.
by rewrite -scalerAl -scalerAr scalerA mulrC.
Qed.

Lemma size_lbase xs xj : xj \in xs -> (size (lbase xs xj) <= size xs)%N.
Proof.
move=> jin; rewrite lbase_split.
apply: leq_trans (size_scale_leq _ _) _.
rewrite -big_filter size_prod_XsubC.
have : (count (fun xi => xi != xj) xs < size xs)%N.
  rewrite -(count_predC (fun xi => xi != xj) xs) -[X in (X < _)%N]addn0 ltn_add2l.
  by rewrite -has_count; apply/hasP; exists xj => //=; rewrite negbK.
by rewrite size_filter.
Qed.

Lemma interp_poly_at xs ys j : uniq xs -> (j < size xs)%N ->
  (interp_poly xs ys).[nth 0 xs j] = nth 0 ys j.
Proof.
move=> U jlt; rewrite /interp_poly horner_sum (bigD1 (Ordinal jlt)) //= hornerZ lbase_eq mulr1.
rewrite big1 ?addr0 // => i ne.
rewrite hornerZ lbase_neq ?mulr0 ?mem_nth //.
by rewrite nth_uniq // eq_sym.
Qed.

Lemma size_interp_poly xs ys : (size (interp_poly xs ys) <= size xs)%N.
Proof.
rewrite /interp_poly.
elim/big_ind: _ => [|p q Hp Hq|j _]; first by rewrite size_poly0.
- by apply: leq_trans (size_add _ _) _; rewrite geq_max Hp Hq.
- by apply: leq_trans (size_scale_leq _ _) (size_lbase _); rewrite mem_nth.
Qed.

(* two polynomials of degree < n that agree on n distinct points are equal *)
Lemma poly_eq_on_nodes xs p q : uniq xs -> (size p <= size xs)%N -> (size q <= size xs)%N ->
  (forall j, (j < size xs)%N -> p.[nth 0 xs j] = q.[nth 0 xs j]) -> p = q.
Proof.
move=> U sp sq H; apply/eqP; rewrite -subr_eq0; apply/eqP.
set r := p - q.
have sr : (size r <= size xs)%N.
  by apply: leq_trans (size_add _ _) _; rewrite size_opp geq_max sp sq.
apply: contraTeq sr => rn0; rewrite -ltnNge.
apply: max_poly_roots => //.
apply/allP => xk /(nthP 0) [j jlt <-]; rewrite /root /r hornerD hornerN H //.
by rewrite subrr.
Qed.

Lemma eq_interp_poly xs ys zs :
  (forall j, (j < size xs)%N -> nth 0 ys j = nth 0 zs j) -> interp_poly xs ys = interp_poly xs zs.
Proof. by move=> H; rewrite /interp_poly; apply: eq_bigr => j _; rewrite H. Qed.

Theorem interp_poly_exact xs p : uniq xs -> (size p <= size xs)%N ->
  interp_poly xs [seq p.[t] | t <- xs] = p.
Proof.
move=> U sp; apply: (poly_eq_on_nodes U) => //; first exact: size_interp_poly.
by move=> j jlt; rewrite interp_poly_at // (nth_map 0).
Qed.

(* partition of unity *)
Lemma sum_lbase_eq1 xs : uniq xs -> (0 < size xs)%N ->
  \sum_(j < size xs) lbase xs (nth 0 xs j) = 1.
Proof.
move=> U n0.
have := @interp_poly_exact xs 1 U; rewrite size_poly1 => /(_ n0) <-.
rewrite /interp_poly; apply: eq_bigr => j _.
by rewrite (nth_map 0) // hornerC scale1r.
Qed.

Lemma sum_lbase_horner_eq1 xs x : uniq xs -> (0 < size xs)%N ->
  \sum_(j < size xs) (lbase xs (nth 0 xs j)).[x] = 1.
Proof. by move=> U n0; rewrite -horner_sum sum_lbase_eq1 // hornerC. Qed.

(* linearity in the data, positional and zip forms *)
Lemma interp_poly_linear_nth xs (a : F) ys zs ws :
  (forall j, (j < size xs)%N -> nth 0 ws j = a * nth 0 ys j + nth 0 zs j) ->
  interp_poly xs ws = a *: interp_poly xs ys + interp_poly xs zs.
Proof.
move=> H; rewrite /interp_poly scaler_sumr -big_split /=; apply: eq_bigr => j _.
by rewrite H // scalerDl scalerA.
Qed.

Lemma interp_poly_linear xs (a : F) ys zs : size ys = size xs -> size zs = size xs ->
  interp_poly xs [seq a * y.1 + y.2 | y <- zip ys zs] = a *: interp_poly xs ys + interp_poly xs zs.
Proof.
move=> sy sz; apply: interp_poly_linear_nth => j jlt.
by rewrite (nth_map (0, 0)) ?size_zip ?sy ?sz ?minnn // nth_zip ?sy ?sz.
Qed.

Theorem interp_poly_spec xs ys : uniq xs -> size ys = size xs ->
  (forall j, (j < size xs)%N -> (interp_poly xs ys).[nth 0 xs j] = nth 0 ys j) /\
  (size (interp_poly xs ys) <= size xs)%N /\
  (forall p : {poly F}, (size p <= size xs)%N ->
     (forall j, (j < size xs)%N -> p.[nth 0 xs j] = nth 0 ys j) -> p = interp_poly xs ys).
Proof.
move=> U sy; split; first by move=> j jlt; exact: interp_poly_at.
split; first exact: size_interp_poly.
move=> p sp H; rewrite -[LHS](interp_poly_exact U sp).
by apply: eq_interp_poly => j jlt; rewrite (nth_map 0) // H.
Qed.
End Poly.

(* ------------------------------------------------------------------ stdlib list functions vs seq *)
Section ListBridge.
Variables (A B C : Type).

Lemma lmapE (f : A -> B) (l : seq A) : List.map f l = [seq f a | a <- l].
Proof. by elim: l => //= a l ->. Qed.

Lemma llengthE (l : seq A) : length l = size l.
Proof. by []. Qed.

Lemma lnthE (d : A) (l : seq A) (i : nat) : List.nth i l d = nth d l i.
Proof. by elim: l i => [|a l IH] [|i] //=. Qed.

Lemma lseqE (m n : nat) : List.seq m n = iota m n.
Proof. by elim: n m => //= n IH m; rewrite IH. Qed.

Lemma lfilterE (a : pred A) (l : seq A) : List.filter a l = filter a l.
Proof. by elim: l => //= x l ->. Qed.

Lemma lappE (l m : seq A) : (l ++ m)%list = l ++ m.
Proof. by elim: l => //= x l ->. Qed.

Lemma size_map2 (f : A -> B -> C) (l : seq A) (m : seq B) :
  size (map2 f l m) = minn (size l) (size m).
Proof. by elim: l m => [|a l IH] [|b m] //=; rewrite IH minnSS. Qed.

Lemma nth_map2 (f : A -> B -> C) (a0 : A) (b0 : B) (c0 : C) (l : seq A) (m : seq B) (i : nat) :
  (i < size l)%N -> (i < size m)%N -> nth c0 (map2 f l m) i = f (nth a0 l i) (nth b0 m i).
Proof. by elim: l m i => [|a l IH] [|b m] [|i] //=; apply: IH. Qed.

Lemma map2_mkseq (f : A -> B -> C) (a0 : A) (b0 : B) (l : seq A) (m : seq B) :
  size l = size m -> map2 f l m = mkseq (fun i => f (nth a0 l i) (nth b0 m i)) (size l).
Proof.
move=> e; apply: (@eq_from_nth _ (f a0 b0)); first by rewrite size_map2 size_mkseq -e minnn.
move=> i; rewrite size_map2 -e minnn => ilt.
by rewrite nth_mkseq // (nth_map2 _ a0 b0) // -e.
Qed.
End ListBridge.

Lemma count_trueE (l : seq bool) : count_true l = count id l.
Proof. by rewrite /count_true llengthE lfilterE size_filter. Qed.

(* ------------------------------------------------------------------ derived operations at mc_ops *)
Section OpsBridge.
Variable F : realFieldType.
Implicit Types (x y : F) (l : seq F).

Lemma absF_mc x : absF (mc_ops F) x = `|x|.
Proof.
rewrite /absF /=; case: (lerP 0 x) => h; first by rewrite ger0_norm.
by rewrite ltr0_norm.
Qed.

Lemma divF_mc x y : divF (mc_ops F) x y = x / y.
Proof. by []. Qed.

Lemma sumF_mc l : sumF (mc_ops F) l = \sum_(y <- l) y.
Proof. by elim: l => [|a l IH]; rewrite ?big_nil ?big_cons //= -IH. Qed.

Lemma prodF_mc l : prodF (mc_ops F) l = \prod_(y <- l) y.
Proof. by elim: l => [|a l IH]; rewrite ?big_nil ?big_cons //= -IH. Qed.

Lemma snapped_mc (tol x xk : F) : snapped (mc_ops F) tol x xk = (`|x - xk| <= tol).
Proof. by rewrite /snapped absF_mc. Qed.
End OpsBridge.

(* ------------------------------------------------------------------ products over a node list *)
Section Nodes.
Variable F : realFieldType.
Implicit Types (xs ws : seq F) (x xj xk tol kappa : F).

Lemma prod_const_seq (T : Type) (s : seq T) (c : F) : \prod_(i <- s) c = c ^+ size s.
Proof. by elim: s => [|a s IH]; rewrite ?big_nil ?big_cons ?expr0 // IH exprS. Qed.

Lemma big_notin_cond (R : Type) (idx : R) (op : R -> R -> R) xs xn (G : F -> R) :
  xn \notin xs -> \big[op/idx]_(xi <- xs | xi != xn) G xi = \big[op/idx]_(xi <- xs) G xi.
Proof.
move=> nin; rewrite big_seq_cond [RHS]big_seq_cond; apply: eq_bigl => xi.
by case: (boolP (xi \in xs)) => //= xin; apply: contraNneq nin => <-.
Qed.

(* the node polynomial without the factor of x_j *)
Lemma prod_rem xs xj (G : F -> F) : uniq xs -> xj \in xs ->
  \prod_(xi <- xs) G xi = G xj * \prod_(xi <- xs | xi != xj) G xi.
Proof. by move=> U jin; rewrite (bigD1_seq xj). Qed.

Lemma prod_sub_neq0 xs x : x \notin xs -> \prod_(xi <- xs) (x - xi) != 0.
Proof.
move=> nin; rewrite prodf_seq_neq0; apply/allP => xi xin /=.
by rewrite subr_eq0; apply: contraNneq nin => ->.
Qed.

Lemma prod_sub_neq0_cond xs xj : \prod_(xi <- xs | xi != xj) (xj - xi) != 0.
Proof.
by rewrite prodf_seq_neq0; apply/allP => xi xin /=; apply/implyP; rewrite subr_eq0 eq_sym.
Qed.

(* value of a basis polynomial off the nodes, in barycentric form *)
Lemma lbase_bary kappa xs xj x : uniq xs -> xj \in xs -> x \notin xs -> kappa != 0 ->
  (lbase xs xj).[x] =
  (\prod_(xi <- xs) (x - xi)) / kappa * (kappa / (\prod_(xi <- xs | xi != xj) (xj - xi)) / (x - xj)).
Proof.
move=> U jin nin k0.
have xj0 : x - xj != 0 by rewrite subr_eq0; apply: contraNneq nin => ->.
rewrite lbase_split hornerZ horner_prod.
have -> : \prod_(xi <- xs | xi != xj) ('X - xi%:P).[x] = \prod_(xi <- xs | xi != xj) (x - xi).
  by apply: eq_bigr => i _; rewrite hornerXsubC.
rewrite (prod_rem (fun xi => x - xi) U jin).
set P := \prod_(xi <- xs | xi != xj) (xj - xi); set L := \prod_(_ <- _ | _) (x - _).
have P0 : P != 0 by exact: prod_sub_neq0_cond.
by field; rewrite xj0 P0 k0.
Qed.
End Nodes.

(* ------------------------------------------------------------------ basis1 *)
Section Basis.
Variable F : realFieldType.
Implicit Types (xs ws : seq F) (x xj xk tol kappa : F).

Lemma basis1_nosnap tol kappa xs ws x : uniq xs -> kappa != 0 -> bary_weights kappa xs ws ->
  x \notin xs -> (forall xk, xk \in xs -> ~~ (`|x - xk| <= tol)) ->
  basis1 (mc_ops F) tol xs ws x = [seq (lbase xs xk).[x] | xk <- xs].
Proof.
move=> U k0 [sw Hw] nin far; rewrite /basis1.
have -> : diffs1 (mc_ops F) tol xs x = [seq (x - xk, false) | xk <- xs].
  rewrite /diffs1 lmapE; apply/eq_in_map => xk kin.
  by rewrite snapped_mc (negbTE (far _ kin)).
set ds := [seq (x - xk, false) | xk <- xs].
have sds : size ds = size xs by rewrite size_map.
have -> : count_true (List.map snd ds) = 0%N.
  by rewrite count_trueE lmapE -map_comp count_map (@eq_count _ _ pred0) ?count_pred0.
set quot := map2 _ ws ds.
have squot : size quot = size xs by rewrite size_map2 sw sds minnn.
have nthq j : (j < size xs)%N -> nth 0 quot j = nth 0 ws j / (x - nth 0 xs j).
  by move=> jlt; rewrite (nth_map2 _ 0 (0, false)) ?sw ?sds // (nth_map 0).
rewrite sumF_mc.
have -> : \sum_(y <- quot) y = \sum_(j < size xs) nth 0 ws j / (x - nth 0 xs j).
  rewrite (big_nth 0) squot big_mkord; apply: eq_bigr => j _; exact: nthq.
set qsum := \sum_(j < _) _.
apply: (@eq_from_nth _ 0); first by rewrite size_map2 squot sds minnn size_map.
move=> i; rewrite size_map2 squot sds minnn => ilt.
have n0 : (0 < size xs)%N by exact: leq_ltn_trans ilt.
rewrite (nth_map2 _ 0 (0, false)) ?squot ?sds // (nth_map 0) //= (nth_map 0) // nthq //.
rewrite /divF /=.
set L := \prod_(xi <- xs) (x - xi).
have lb j : (j < size xs)%N ->
    (lbase xs (nth 0 xs j)).[x] = L / kappa * (nth 0 ws j / (x - nth 0 xs j)).
  by move=> jlt; rewrite (lbase_bary U _ nin k0) ?mem_nth // Hw.
have Lk : L / kappa * qsum = 1.
  rewrite mulr_sumr -(sum_lbase_horner_eq1 x U n0); apply: eq_bigr => j _.
  by rewrite lb.
have q0 : qsum != 0.
  by apply: contraTneq (oner_neq0 F) => q0; rewrite -Lk q0 mulr0 eqxx.
by rewrite lb // -[in RHS](mulfK q0 (L / kappa)) Lk mul1r mulrC.
Qed.

Lemma basis1_snap tol xs ws x : uniq xs -> size ws = size xs -> 0 <= tol -> x \in xs ->
  (forall xk, xk \in xs -> xk != x -> ~~ (`|x - xk| <= tol)) ->
  basis1 (mc_ops F) tol xs ws x = [seq (lbase xs xk).[x] | xk <- xs].
Proof.
move=> U sw tol0 xin far; rewrite /basis1.
have -> : diffs1 (mc_ops F) tol xs x = [seq (if xk == x then 1 else x - xk, xk == x) | xk <- xs].
  rewrite /diffs1 lmapE; apply/eq_in_map => xk kin.
  rewrite snapped_mc; case: (altP (xk =P x)) => [->|ne]; first by rewrite subrr normr0 tol0.
  by rewrite (negbTE (far _ kin ne)).
set ds := [seq (if xk == x then 1 else x - xk, xk == x) | xk <- xs].
have sds : size ds = size xs by rewrite size_map.
have -> : count_true (List.map snd ds) = 1%N.
  rewrite count_trueE lmapE -map_comp count_map (@eq_count _ _ (pred1 x)) //.
  by rewrite count_uniq_mem // xin.
set quot := map2 _ ws ds.
have squot : size quot = size xs by rewrite size_map2 sw sds minnn.
apply: (@eq_from_nth _ 0); first by rewrite size_map2 squot sds minnn size_map.
move=> i; rewrite size_map2 squot sds minnn => ilt.
rewrite (nth_map2 _ 0 (0, false)) ?squot ?sds // (nth_map 0) //= (nth_map 0) //.
case: (altP (nth 0 xs i =P x)) => [->|ne] /=; first by rewrite lbase_eq.
by rewrite lbase_neq // eq_sym.
Qed.

Theorem basis_is_lagrange tol kappa xs ws x :
  uniq xs -> kappa != 0 -> bary_weights kappa xs ws -> admissible tol xs x ->
  basis1 (mc_ops F) tol xs ws x = [seq (lbase xs xk).[x] | xk <- xs].
Proof.
move=> U k0 bw [[nin far]|[tol0 [xin far]]]; first exact: (basis1_nosnap U k0 bw).
by case: bw => sw _; exact: basis1_snap.
Qed.
End Basis.

(* ------------------------------------------------------------------ barycentric weights *)
Lemma nat_eqbE (i j : nat) : PeanoNat.Nat.eqb i j = (i == j).
Proof. by elim: i j => [|i IH] [|j] //=. Qed.

Section Weights.
Variable F : realFieldType.
Implicit Types (xs ws news : seq F) (x xj xk xn C : F).

Lemma prod_nodes_ord xs j (G : F -> F) : uniq xs -> (j < size xs)%N ->
  \prod_(xi <- xs | xi != nth 0 xs j) G xi = \prod_(i < size xs | (i : nat) != j) G (nth 0 xs i).
Proof.
move=> U jlt; rewrite (big_nth 0) big_mkord; apply: eq_bigl => i.
by rewrite nth_uniq.
Qed.

Theorem init_weights_ok C xs : uniq xs -> C != 0 ->
  bary_weights (C ^+ (size xs).-1) xs (init_weights (mc_ops F) C xs).
Proof.
move=> U C0; rewrite /init_weights lmapE llengthE lseqE.
split; first by rewrite size_map size_iota.
move=> j jlt; rewrite (nth_map 0%N) ?size_iota // nth_iota // add0n /=.
rewrite lmapE prodF_mc big_map -[X in iota _ X]subn0 -/(index_iota 0 (size xs)) big_mkord.
rewrite (eq_bigr (fun i : 'I_(size xs) =>
           if (i : nat) != j then (nth 0 xs j - nth 0 xs i) / C else 1)); last first.
  by move=> i _; rewrite nat_eqbE !lnthE; case: eqP.
rewrite -big_mkcond /= prodf_div invf_div prod_nodes_ord //; congr (_ / _).
rewrite prodr_const (@eq_card _ _ (predC1 (Ordinal jlt))) ?cardC1 ?card_ord //.
Qed.

(* one incremental step: the old weights times C/(x_i - x_new), and the new weight *)
Lemma extend1_ok C xs ws xn : uniq (xs ++ [:: xn]) -> C != 0 ->
  bary_weights (C ^+ (size xs).-1) xs ws ->
  bary_weights (C ^+ (size xs)) (xs ++ [:: xn])
    (map2 (fun w xi => w * (C / (xi - xn))) ws xs ++ [:: \prod_(xi <- xs) (C / (xn - xi))]).
Proof.
rewrite cats1 rcons_uniq -cats1 => /andP[nin U] C0 [sw Hw].
have sw1 : size (map2 (fun w xi => w * (C / (xi - xn))) ws xs) = size xs.
  by rewrite size_map2 sw minnn.
split; first by rewrite !size_cat sw1.
move=> j; rewrite size_cat /= addn1 ltnS leq_eqVlt => /orP[/eqP ->|jlt].
- rewrite !nth_cat sw1 ltnn subnn /= big_cat /= big_cons big_nil eqxx /= mulr1.
  by rewrite big_notin_cond // prodf_div prod_const_seq.
- rewrite !nth_cat sw1 jlt (nth_map2 _ 0 0) ?sw // Hw //.
  set xj := nth 0 xs j.
  have jin : xj \in xs by rewrite mem_nth.
  have ne : xn != xj by apply: contraNneq nin => ->.
  rewrite big_cat /= big_cons big_nil ne mulr1.
  have e : (size xs) = (size xs).-1.+1 by rewrite prednK //; exact: leq_ltn_trans jlt.
  rewrite [in RHS]e exprSr.
  have P0 := prod_sub_neq0_cond xs xj.
  have d0 : xj - xn != 0 by rewrite subr_eq0 eq_sym.
  by field; rewrite d0 P0.
Qed.

Theorem extend_weights_ok C xs ws news :
  uniq (xs ++ news) -> C != 0 -> bary_weights (C ^+ (size xs).-1) xs ws ->
  (extend_weights (mc_ops F) C xs ws news).1 = xs ++ news /\
  bary_weights (C ^+ (size (xs ++ news)).-1) (xs ++ news) (extend_weights (mc_ops F) C xs ws news).2.
Proof.
elim: news xs ws => [|xn rest IH] xs ws U C0 bw /=; first by rewrite cats0.
rewrite !lappE lmapE prodF_mc big_map.
have U1 : uniq ((xs ++ [:: xn]) ++ rest) by rewrite -catA.
have bw1 := @extend1_ok C xs ws xn _ C0 bw.
have := IH (xs ++ [:: xn]) _ U1 C0; rewrite -catA /= size_cat /= addn1 /=.
apply; apply: bw1.
by move: U1; rewrite cat_uniq => /andP[].
Qed.
End Weights.
