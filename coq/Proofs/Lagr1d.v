(* Proofs/Lagr1d.v — one-dimensional barycentric Lagrange interpolation: the executable model of
   Model/Lagr.v, instantiated at the operations of an arbitrary MathComp realFieldType, computes the
   Lagrange basis polynomials of Proofs/LagrDefs.v.  Statements used by Props/C05.v:
   basis_is_lagrange, init_weights_ok, extend_weights_ok, interp_poly_spec. *)
From mathcomp Require Import all_ssreflect all_algebra.
From AmiscV Require Import Field Lagr LagrDefs.
Set Implicit Arguments. Unset Strict Implicit. Unset Printing Implicit Defensive.
Import GRing.Theory Num.Theory.
Local Open Scope ring_scope.

(* ------------------------------------------------------------------ the interpolation polynomial *)
Section Poly.
Variable F : realFieldType.
Implicit Types (xs ws ys zs : seq F) (x xj xk : F) (p q : {poly F}).

Lemma lbase_eq xs xj : (lbase xs xj).[xj] = 1.
Proof.
rewrite /lbase horner_prod big1_seq // => xi /andP[ne _].
by rewrite hornerZ hornerXsubC mulVf // subr_eq0 eq_sym.
Qed.

Lemma lbase_neq xs xj xk : xk \in xs -> xk != xj -> (lbase xs xj).[xk] = 0.
Proof.
move=> kin ne; apply/eqP; rewrite /lbase horner_prod prodf_seq_eq0; apply/hasP.
by exists xk => //; rewrite ne hornerZ hornerXsubC subrr mulr0 eqxx.
Qed.

Lemma lbase_split xs xj :
  lbase xs xj = (\prod_(xi <- xs | xi != xj) (xj - xi))^-1 *: \prod_(xi <- xs | xi != xj) ('X - xi%:P).
Proof.
rewrite /lbase -prodfV.
elim/big_rec3: _ => [|i a b c ne ->]; first by rewrite scale1r.
by rewrite -scalerAl -scalerAr scalerA mulrC.
Qed.

Lemma size_lbase xs xj : xj \in xs -> (size (lbase xs xj) <= size xs)%N.
Proof.
move=> jin; rewrite lbase_split.
apply: leq_trans (size_scale_leq _ _) _.
rewrite -big_filter size_prod_XsubC.
have : (count (fun xi => xi != xj) xs < size xs)%N.
  rewrite -(count_predC (fun xi => xi != xj) xs) -[X in (X < _)%N]addn0 ltn_add2l.
  by rewrite -has_count; apply/hasP; exists xj => //=; rewrite negbK.
by rewrite size_filter.
Qed.

Lemma interp_poly_at xs ys j : uniq xs -> (j < size xs)%N ->
  (interp_poly xs ys).[nth 0 xs j] = nth 0 ys j.
Proof.
move=> U jlt; rewrite /interp_poly horner_sum (bigD1 (Ordinal jlt)) //= hornerZ lbase_eq mulr1.
rewrite big1 ?addr0 // => i ne.
rewrite hornerZ lbase_neq ?mulr0 ?mem_nth //.
by rewrite nth_uniq // eq_sym.
Qed.

Lemma size_interp_poly xs ys : (size (interp_poly xs ys) <= size xs)%N.
Proof.
rewrite /interp_poly.
elim/big_ind: _ => [|p q Hp Hq|j _]; first by rewrite size_poly0.
- by apply: leq_trans (size_add _ _) _; rewrite geq_max Hp Hq.
- by apply: leq_trans (size_scale_leq _ _) (size_lbase _); rewrite mem_nth.
Qed.

(* two polynomials of degree < n that agree on n distinct points are equal *)
Lemma poly_eq_on_nodes xs p q : uniq xs -> (size p <= size xs)%N -> (size q <= size xs)%N ->
  (forall j, (j < size xs)%N -> p.[nth 0 xs j] = q.[nth 0 xs j]) -> p = q.
Proof.
move=> U sp sq H; apply/eqP; rewrite -subr_eq0; apply/eqP.
set r := p - q.
have sr : (size r <= size xs)%N.
  by apply: leq_trans (size_add _ _) _; rewrite size_opp geq_max sp sq.
apply: contraTeq sr => rn0; rewrite -ltnNge.
apply: max_poly_roots => //.
apply/allP => xk /(nthP 0) [j jlt <-]; rewrite /root /r hornerD hornerN H //.
by rewrite subrr.
Qed.

Lemma eq_interp_poly xs ys zs :
  (forall j, (j < size xs)%N -> nth 0 ys j = nth 0 zs j) -> interp_poly xs ys = interp_poly xs zs.
Proof. by move=> H; rewrite /interp_poly; apply: eq_bigr => j _; rewrite H. Qed.

Theorem interp_poly_exact xs p : uniq xs -> (size p <= size xs)%N ->
  interp_poly xs [seq p.[t] | t <- xs] = p.
Proof.
move=> U sp; apply: (poly_eq_on_nodes U) => //; first exact: size_interp_poly.
by move=> j jlt; rewrite interp_poly_at // (nth_map 0).
Qed.

(* partition of unity *)
Lemma sum_lbase_eq1 xs : uniq xs -> (0 < size xs)%N ->
  \sum_(j < size xs) lbase xs (nth 0 xs j) = 1.
Proof.
move=> U n0.
have := @interp_poly_exact xs 1 U; rewrite size_poly1 => /(_ n0) <-.
rewrite /interp_poly; apply: eq_bigr => j _.
by rewrite (nth_map 0) // hornerC scale1r.
Qed.

Lemma sum_lbase_horner_eq1 xs x : uniq xs -> (0 < size xs)%N ->
  \sum_(j < size xs) (lbase xs (nth 0 xs j)).[x] = 1.
Proof. by move=> U n0; rewrite -horner_sum sum_lbase_eq1 // hornerC. Qed.

(* linearity in the data, positional and zip forms *)
Lemma interp_poly_linear_nth xs (a : F) ys zs ws :
  (forall j, (j < size xs)%N -> nth 0 ws j = a * nth 0 ys j + nth 0 zs j) ->
  interp_poly xs ws = a *: interp_poly xs ys + interp_poly xs zs.
Proof.
move=> H; rewrite /interp_poly scaler_sumr -big_split /=; apply: eq_bigr => j _.
by rewrite H // scalerDl scalerA.
Qed.

Lemma interp_poly_linear xs (a : F) ys zs : size ys = size xs -> size zs = size xs ->
  interp_poly xs [seq a * y.1 + y.2 | y <- zip ys zs] = a *: interp_poly xs ys + interp_poly xs zs.
Proof.
move=> sy sz; apply: interp_poly_linear_nth => j jlt.
by rewrite (nth_map (0, 0)) ?size_zip ?sy ?sz ?minnn // nth_zip ?sy ?sz.
Qed.

Theorem interp_poly_spec xs ys : uniq xs -> size ys = size xs ->
  (forall j, (j < size xs)%N -> (interp_poly xs ys).[nth 0 xs j] = nth 0 ys j) /\
  (size (interp_poly xs ys) <= size xs)%N /\
  (forall p : {poly F}, (size p <= size xs)%N ->
     (forall j, (j < size xs)%N -> p.[nth 0 xs j] = nth 0 ys j) -> p = interp_poly xs ys).
Proof.
move=> U sy; split; first by move=> j jlt; exact: interp_poly_at.
split; first exact: size_interp_poly.
move=> p sp H; rewrite -[LHS](interp_poly_exact U sp).
by apply: eq_interp_poly => j jlt; rewrite (nth_map 0) // H.
Qed.
End Poly.
