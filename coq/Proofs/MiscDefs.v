(* Proofs/MiscDefs.v — specification-level vocabulary for the multi-index model (no proofs). *)
From Coq Require Import List Arith ZArith Bool.
From AmiscV Require Import Misc.
Import ListNotations.

(* j <= i pointwise (and same length) *)
Definition le_idx (j i : idx) : Prop := leb_idx j i = true.

(* downward closed: with i, every index below it *)
Definition dclosed (S : list idx) : Prop := forall i j, In i S -> le_idx j i -> In j S.

(* every backward neighbour of n is in A *)
Definition back_in (A : list idx) (n : idx) : Prop :=
  forall k, k < length n -> 0 < nth k n 0 -> In (dec k n) A.

(* the admissible margin of A inside the box [0, mx] *)
Definition margin (mx : idx) (A : list idx) (n : idx) : Prop :=
  ~ In n A /\ le_idx n mx /\ back_in A n.

(* the state invariant of C02 *)
Record Inv (mx : idx) (s : st) : Prop := mkInv {
  inv_nodup_active : NoDup (active s);
  inv_nodup_cand : NoDup (cand s);
  inv_disjoint : forall i, In i (active s) -> ~ In i (cand s);
  inv_in_box : forall i, In i (active s ++ cand s) -> le_idx i mx;
  inv_dclosed_active : dclosed (active s);
  inv_dclosed_union : dclosed (active s ++ cand s);
  inv_margin : active s <> [] -> forall n, In n (cand s) <-> margin mx (active s) n;
  inv_empty : active s = [] -> cand s = []
}.

(* well-formed request list: every request has the dimension of the box *)
Definition wf_reqs (mx : idx) (reqs : list idx) : Prop := Forall (fun r => length r = length mx) reqs.

(* weights of a tree: keys are exactly the members of S (once each), values are inclusion-exclusion *)
Definition keys (c : tree) : list idx := map fst c.
Definition weights_ok (S : list idx) (c : tree) : Prop :=
  NoDup (keys c) /\ (forall i, In i (keys c) <-> In i S) /\ (forall i, coeff c i = IE S i).

(* same members *)
Definition same_set (A B : list idx) : Prop := forall i, In i A <-> In i B.

(* the states after the accepted requests only *)
Fixpoint accepted_states (mx : idx) (s : st) (reqs : list idx) : list st :=
  match reqs with
  | [] => []
  | r :: rest => if accepts s r then activate mx s r :: accepted_states mx (activate mx s r) rest
                 else accepted_states mx (activate mx s r) rest
  end.
