(* Proofs/SysRunProofs.v — proofs of the statements of Props/C04X.v: the executable system model of Model/SysRun.v
   (polynomial components, normalisation chains of Model/Transf.v, surrogates that resolve their polynomial) is an instance
   of the round-trip theorem of Proofs/TransfParams.v and of chain_exact of Proofs/C04Proofs.v. *)
From Coq Require Import QArith Qcanon.
From mathcomp Require Import all_ssreflect all_algebra.
From AmiscV Require Import Field QcInst Transf Sys QcRun SysRun LagrDefs QcField TransfProofs TransfParams SysProofs C04Proofs.
Set Implicit Arguments. Unset Strict Implicit. Unset Printing Implicit Defensive.

(* identical copies of the definitions of Props/C04X.v *)
Definition cspec := (nat * seq nat * seq nat * seq (seq mono))%type.
Definition build (tab : seq vnorm) (um : bool) (s : cspec) : comp Qc :=
  let '(i, ins, outs, polys) := s in poly_comp tab i ins outs polys um.

Definition tab_ok (tab : seq vnorm) : Prop :=
  forall v, all (@TransfParams.params_ok Qc_realFieldType (isSome (h_dom (vn_hyper (vlookup tab v)))) (isSome (h_dist (vn_hyper (vlookup tab v)))))
                (vn_chain (vlookup tab v)) /\
            @TransfParams.hyper_ok Qc_realFieldType (vn_hyper (vlookup tab v)).

Lemma tab_roundtrip (tab : seq vnorm) :
  tab_ok tab -> (forall v x, q_vdenorm tab v (q_vnorm tab v x) = x) /\ (forall v x, q_vnorm tab v (q_vdenorm tab v x) = x).
Proof.
move=> ok; split=> v x; have [pc ht] := ok v;
  have [H1 H2] := @TransfParams.roundtrip_of_params Qc_realFieldType (fun x => x) (fun x => x) _ _ x pc ht.
- exact: H1.
- exact: H2.
Qed.

Lemma map2_zip (A B C : Type) (f : A -> B -> C) (l : seq A) (m : seq B) :
  SysRun.map2 f l m = [seq f p.1 p.2 | p <- zip l m].
Proof. by elim: l m => [|a l IH] [|b m] //=; rewrite IH. Qed.

Lemma denorm_norm_inputs (tab : seq vnorm) (ins : seq nat) (xs : seq Qc) :
  (forall v x, q_vdenorm tab v (q_vnorm tab v x) = x) -> size xs = size ins ->
  SysRun.map2 (q_vdenorm tab) ins [seq q_vnorm tab p.1 p.2 | p <- zip ins xs] = xs.
Proof.
move=> Hdn; elim: ins xs => [|v ins IH] [|x xs] //= [sz].
by rewrite Hdn IH.
Qed.

Lemma poly_comp_surrogate_exact (tab : seq vnorm) (s : cspec) (xs : seq Qc) :
  tab_ok tab -> size s.2 = size s.1.2 -> size xs = size (cin Qc (build tab true s)) ->
  csurr Qc (build tab true s) [seq q_vnorm tab p.1 p.2 | p <- zip (cin Qc (build tab true s)) xs] =
  [seq q_vnorm tab p.1 p.2 | p <- zip (cout Qc (build tab true s)) (cmodel Qc (build tab true s) xs)].
Proof.
case: s => [[[i ins] outs] polys] /= ok _ sz.
have [Hdn _] := tab_roundtrip ok.
by rewrite denorm_norm_inputs // map2_zip.
Qed.

Lemma build_flag (tab : seq vnorm) (b um : bool) (s : cspec) :
  mkcomp Qc (cid Qc (build tab um s)) (cin Qc (build tab um s)) (cout Qc (build tab um s))
            (cmodel Qc (build tab um s)) (csurr Qc (build tab um s)) b = build tab b s.
Proof. by case: s => [[[i ins] outs] polys]. Qed.

Lemma In_map_mem (tab : seq vnorm) (specs : seq cspec) (c : comp Qc) :
  List.In c [seq build tab true s | s <- specs] -> exists2 s, List.In s specs & c = build tab true s.
Proof.
elim: specs => [|s specs IH] //= [<-|/IH[s' i' e]].
  by exists s => //; left.
by exists s' => //; right.
Qed.

Lemma In_mem (specs : seq cspec) (P : cspec -> Prop) :
  (forall s, s \in specs -> P s) -> forall s, List.In s specs -> P s.
Proof.
elim: specs => [|t specs IH] H s //= [<-|i].
  by apply: H; rewrite mem_head.
by apply: IH => // u uin; apply: H; rewrite inE uin orbT.
Qed.

Lemma poly_system_exact (tab : seq vnorm) (specs : seq cspec) (e0 e1 : env Qc) :
  tab_ok tab -> (forall s, s \in specs -> size s.2 = size s.1.2) ->
  eval Qc (q_vnorm tab) (q_vdenorm tab) [seq build tab false s | s <- specs] e0 = Some e1 ->
  exists e2, eval Qc (q_vnorm tab) (q_vdenorm tab) [seq build tab true s | s <- specs] e0 = Some e2 /\
             forall v, canon Qc (q_vdenorm tab) e1 v = canon Qc (q_vdenorm tab) e2 v.
Proof.
move=> ok Hsz E.
have [Hdn Hnd] := tab_roundtrip ok.
have Efl b : [seq mkcomp Qc (cid Qc c) (cin Qc c) (cout Qc c) (cmodel Qc c) (csurr Qc c) b | c <- [seq build tab true s | s <- specs]]
             = [seq build tab b s | s <- specs].
  by rewrite -map_comp; apply: eq_map => s /=; rewrite build_flag.
rewrite -(Efl true); apply: (@C04Proofs.chain_exact Qc (q_vnorm tab) (q_vdenorm tab) [seq build tab true s | s <- specs] e0 e1 Hdn Hnd).
  move=> c /In_map_mem[s sin ->] xs sz.
  have szs := In_mem Hsz sin.
  split; first exact: poly_comp_surrogate_exact.
  by case: s szs {sin sz} => [[[i ins] outs] polys] /= <-; rewrite size_map.
by rewrite Efl.
Qed.
