(* Proofs/ShapeProofs.v — C10: proofs about the batch-shape model Model/Shape.v
   (loop shape, row-major ravel/unravel, broadcast + flatten, pointwise batch evaluation, output shape).
   Statements are used verbatim by Props/C10.v. *)
From Coq Require Import List Arith Bool Lia PeanoNat.
From AmiscV Require Import Shape.
Import ListNotations.

(* ---------- generic list helpers ---------- *)

Lemma map_repeat' : forall (X Y : Type) (g : X -> Y) (x : X) (n : nat),
  map g (repeat x n) = repeat (g x) n.
Proof.
  intros X Y g x n. induction n as [|n IHn]; simpl; [reflexivity|]. rewrite IHn. reflexivity.
Qed.

Lemma firstn_length_app : forall (X : Type) (l r : list X), firstn (length l) (l ++ r) = l.
Proof.
  intros X l r. induction l as [|x l IHl]; simpl; [reflexivity|]. rewrite IHl. reflexivity.
Qed.

Lemma skipn_length_app : forall (X : Type) (l r : list X), skipn (length l) (l ++ r) = r.
Proof.
  intros X l r. induction l as [|x l IHl]; simpl; [reflexivity|]. exact IHl.
Qed.

Lemma nth_map_seq : forall (X : Type) (g : nat -> X) (N n : nat) (d : X),
  n < N -> nth n (map g (seq 0 N)) d = g n.
Proof.
  intros X g N n d Hn.
  rewrite (nth_indep (map g (seq 0 N)) d (g 0)).
  - rewrite map_nth. rewrite seq_nth by assumption. reflexivity.
  - rewrite map_length, seq_length. assumption.
Qed.

Lemma Forall2_cons_r_inv : forall (X Y : Type) (R : X -> Y -> Prop) (l : list X) (b : Y) (l' : list Y),
  Forall2 R l (b :: l') -> exists a l0, l = a :: l0 /\ R a b /\ Forall2 R l0 l'.
Proof.
  intros X Y R l b l' H. inversion H; subst. eauto.
Qed.

(* ---------- loop shape ---------- *)

Lemma nprod_cons : forall d s, nprod (d :: s) = d * nprod s.
Proof. reflexivity. Qed.

Lemma common_shape_refl : forall s, common_shape s s = s.
Proof.
  induction s as [|a s IH]; simpl; [reflexivity|]. rewrite Nat.eqb_refl, IH. reflexivity.
Qed.

Lemma fold_common_repeat : forall s n, fold_left common_shape (repeat s n) s = s.
Proof.
  intros s n. induction n as [|n IHn]; simpl; [reflexivity|]. rewrite common_shape_refl. exact IHn.
Qed.

Lemma loop_shape_equal : forall (s : shape) (n : nat),
  loop_shape (repeat s (S n)) = atleast_1d s.
Proof.
  intros s n. unfold loop_shape. rewrite map_repeat'.
  cbn [repeat]. exact (fold_common_repeat (atleast_1d s) (S n)).
Qed.

Definition bc (s B : shape) : Prop := Forall2 (fun a b => a = b \/ a = 1) s B.

Lemma common_shape_bc : forall acc B, bc acc B -> forall s, bc s B ->
  bc (common_shape acc s) B /\
  forall k, (nth k acc 0 = nth k B 0 \/ nth k s 0 = nth k B 0) ->
            nth k (common_shape acc s) 0 = nth k B 0.
Proof.
  unfold bc. intros acc B Hacc.
  induction Hacc as [|a b acc' B' Hab Hacc' IH]; intros s Hs.
  - inversion Hs; subst. simpl. split; [constructor|]. intros k _. reflexivity.
  - destruct (Forall2_cons_r_inv _ _ _ _ _ _ Hs) as [c [s' [Es [Hcb Hs']]]]. subst s.
    destruct (IH s' Hs') as [IH1 IH2].
    simpl.
    destruct (Nat.eqb a c) eqn:Eac.
    + apply Nat.eqb_eq in Eac. subst c. split.
      * constructor; assumption.
      * intros [|k] Hk; simpl in *.
        { destruct Hk; assumption. }
        apply IH2; assumption.
    + apply Nat.eqb_neq in Eac. destruct (Nat.eqb a 1) eqn:Ea1.
      * apply Nat.eqb_eq in Ea1. subst a. split.
        -- constructor; assumption.
        -- intros [|k] Hk; simpl in *.
           { destruct Hk as [Hk|Hk]; [|assumption]. destruct Hcb; lia. }
           apply IH2; assumption.
      * apply Nat.eqb_neq in Ea1. destruct (Nat.eqb c 1) eqn:Ec1.
        -- apply Nat.eqb_eq in Ec1. subst c. split.
           ++ constructor; assumption.
           ++ intros [|k] Hk; simpl in *.
              { destruct Hab; destruct Hk; lia. }
              apply IH2; assumption.
        -- apply Nat.eqb_neq in Ec1. exfalso. destruct Hab; destruct Hcb; lia.
Qed.

Lemma fold_common_bc : forall B l acc, bc acc B -> Forall (fun s => bc s B) l ->
  bc (fold_left common_shape l acc) B /\
  forall k, (nth k acc 0 = nth k B 0 \/ exists s, In s l /\ nth k s 0 = nth k B 0) ->
            nth k (fold_left common_shape l acc) 0 = nth k B 0.
Proof.
  intros B l. induction l as [|s l IH]; intros acc Hacc Hl; simpl.
  - split; [assumption|]. intros k [Hk|[s [[] _]]]. assumption.
  - inversion Hl as [|s' l' Hs Hl']; subst.
    destruct (common_shape_bc acc B Hacc s Hs) as [C1 C2].
    destruct (IH (common_shape acc s) C1 Hl') as [I1 I2].
    split; [assumption|]. intros k Hk. apply I2.
    destruct Hk as [Hk|[t [[Et|Ht] Hk]]].
    + left. apply C2. left; assumption.
    + subst t. left. apply C2. right; assumption.
    + right. exists t. split; assumption.
Qed.

Lemma bc_eq : forall x B, bc x B ->
  (forall k, k < length B -> nth k x 0 = nth k B 0) -> x = B.
Proof.
  unfold bc. intros x B H. induction H as [|a b x' B' Hab Hx IH]; intros Hk.
  - reflexivity.
  - f_equal.
    + apply (Hk 0). simpl. lia.
    + apply IH. intros k Hlt. apply (Hk (S k)). simpl. lia.
Qed.

Lemma loop_shape_broadcast : forall (shapes : list shape) (B : shape),
  shapes <> [] -> B <> [] ->
  Forall (fun s => Forall2 (fun a b => a = b \/ a = 1) s B) shapes ->
  (forall k, k < length B -> exists s, In s shapes /\ nth k s 0 = nth k B 0) ->
  loop_shape shapes = B.
Proof.
  intros shapes B Hne HB Hall Hatt.
  assert (Hmap : map atleast_1d shapes = shapes).
  { clear Hne Hatt. induction Hall as [|s l Hs Hl IH]; simpl; [reflexivity|].
    rewrite IH. f_equal. destruct s as [|a s]; [|reflexivity]. inversion Hs; subst. congruence. }
  unfold loop_shape. rewrite Hmap. destruct shapes as [|s0 rest]; [congruence|].
  assert (Hs0 : bc s0 B) by (inversion Hall; assumption).
  destruct (fold_common_bc B (s0 :: rest) s0 Hs0 Hall) as [F1 F2].
  apply bc_eq; [assumption|]. intros k Hk. apply F2. right. apply Hatt; assumption.
Qed.

(* ---------- ravel / unravel ---------- *)

Lemma ravel_unravel : forall (L : shape) (m : list nat),
  Forall2 (fun i d => i < d) m L -> ravel L m < nprod L /\ unravel L (ravel L m) = m.
Proof.
  intros L m H. induction H as [|i d m' L' Hid Hm IH].
  - simpl. split; [lia|reflexivity].
  - destruct IH as [IH1 IH2].
    cbn [ravel unravel]. rewrite nprod_cons.
    remember (nprod L') as P eqn:EP. remember (ravel L' m') as r eqn:Er.
    assert (HP : P <> 0) by lia.
    split.
    + assert (Hle : S i * P <= d * P) by (apply Nat.mul_le_mono_r; lia).
      simpl in Hle. lia.
    + rewrite Nat.div_add_l by assumption.
      rewrite (Nat.div_small r P) by assumption.
      rewrite Nat.add_0_r.
      rewrite (Nat.mod_small i d) by assumption.
      rewrite (Nat.add_comm (i * P) r).
      rewrite Nat.mod_add by assumption.
      rewrite (Nat.mod_small r P) by assumption.
      rewrite IH2. reflexivity.
Qed.

(* ---------- fmt_input ---------- *)

Lemma input_row : forall (A : Type) (L lead trail : shape) (data : list A) (m : list nat),
  length lead = length L -> broadcastable_to L lead = true -> length data = nprod (lead ++ trail) ->
  Forall2 (fun i d => i < d) m L ->
  nth (ravel L m) (fmt_input L (lead ++ trail) data) [] =
  slice data (ravel lead (bidx lead m) * nprod trail) (nprod trail).
Proof.
  intros A L lead trail data m Hlen _ _ Hm.
  destruct (ravel_unravel L m Hm) as [Hlt Hun].
  unfold fmt_input. cbv zeta. rewrite <- Hlen.
  rewrite firstn_length_app, skipn_length_app.
  rewrite nth_map_seq by assumption.
  rewrite Hun. reflexivity.
Qed.

(* ---------- batch_eval ---------- *)

Lemma length_transpose : forall (A : Type) (N : nat) (cols : list (list (list A))),
  length (transpose_rows N cols) = N.
Proof.
  intros A N. induction N as [|N IH]; intros cols; simpl; [reflexivity|]. rewrite IH. reflexivity.
Qed.

Lemma nth_transpose : forall (A : Type) (N : nat) (cols : list (list (list A))) (n : nat),
  n < N -> nth n (transpose_rows N cols) [] = map (fun col => nth n col []) cols.
Proof.
  intros A N. induction N as [|N IH]; intros cols n Hn; [lia|].
  destruct n as [|n]; simpl.
  - apply map_ext. intros col. destruct col; reflexivity.
  - rewrite IH by lia. rewrite map_map. apply map_ext. intros col.
    destruct col as [|c col]; simpl; [destruct n; reflexivity|reflexivity].
Qed.

Lemma flat_map_nth : forall (X B : Type) (f : X -> list B) (o : nat),
  (forall r, length (f r) = o) ->
  forall (rows : list X) (n j : nat) (d : B) (dr : X),
  n < length rows -> j < o ->
  nth (n * o + j) (flat_map f rows) d = nth j (f (nth n rows dr)) d.
Proof.
  intros X B f o Hf rows. induction rows as [|r rows IH]; intros n j d dr Hn Hj; simpl in Hn; [lia|].
  cbn [flat_map]. destruct n as [|n].
  - cbn [nth]. rewrite Nat.mul_0_l, Nat.add_0_l. apply app_nth1. rewrite Hf. assumption.
  - cbn [nth]. rewrite app_nth2 by (rewrite Hf; simpl; lia).
    rewrite Hf. replace (S n * o + j - o) with (n * o + j) by (simpl; lia).
    apply IH; lia.
Qed.

Lemma pointwise : forall (A B : Type) (f : list (list A) -> list B) (o : nat)
    (arrays : list (shape * list A)) (m : list nat) (j : nat) (d : B),
  (forall r, length (f r) = o) -> j < o ->
  let L := loop_shape (map fst arrays) in
  Forall2 (fun i dd => i < dd) m L ->
  fst (batch_eval f arrays) = L /\
  nth (ravel L m * o + j) (snd (batch_eval f arrays)) d =
  nth j (f (map (fun a => nth (ravel L m) (fmt_input L (atleast_1d (fst a)) (snd a)) []) arrays)) d.
Proof.
  intros A B f o arrays m j d Hf Hj L Hm.
  split; [reflexivity|].
  destruct (ravel_unravel L m Hm) as [Hlt _].
  unfold batch_eval. cbv zeta. cbn [snd]. fold L.
  rewrite (flat_map_nth _ _ f o Hf _ _ _ d []).
  - rewrite nth_transpose by assumption. rewrite map_map. reflexivity.
  - rewrite length_transpose. assumption.
  - assumption.
Qed.

(* ---------- fmt_output_shape ---------- *)

Lemma output_shape : forall (L o : shape), L <> [] ->
  (o = [] \/ o = [1] -> fmt_output_shape L o = L) /\
  (o <> [] -> o <> [1] -> L <> [1] -> fmt_output_shape L o = L ++ o) /\
  (o <> [] -> o <> [1] -> L = [1] -> fmt_output_shape L o = o).
Proof.
  intros L o HL. split; [|split].
  - intros [Ho|Ho]; subst o; unfold fmt_output_shape; rewrite ?app_nil_r;
      destruct L as [|[|[|a]] [|b L']]; try congruence; reflexivity.
  - intros Ho1 Ho2 HL1. unfold fmt_output_shape.
    destruct L as [|[|[|a]] [|b L']]; try congruence;
      destruct o as [|[|[|x]] [|y o']]; try congruence; reflexivity.
  - intros Ho1 Ho2 HL1. subst L. unfold fmt_output_shape.
    destruct o as [|[|[|x]] [|y o']]; try congruence; reflexivity.
Qed.

(* two valid loop positions never share a flat position: no two samples collide in the batch buffers *)
Lemma ravel_injective : forall (L : shape) (m1 m2 : list nat),
  Forall2 (fun i d => i < d) m1 L -> Forall2 (fun i d => i < d) m2 L ->
  ravel L m1 = ravel L m2 -> m1 = m2.
Proof.
  intros L m1 m2 H1 H2 He.
  rewrite <- (proj2 (ravel_unravel L m1 H1)), <- (proj2 (ravel_unravel L m2 H2)), He. reflexivity.
Qed.
