(* Proofs/MiscC02.v — proofs for C02: the state invariant of the multi-index bookkeeping
   (downward closedness, candidates = admissible margin) and the acceptance lemmas. *)
From Coq Require Import List Arith ZArith Bool Lia.
From AmiscV Require Import Misc MiscDefs.
Import ListNotations.

(* ------------------------------------------------------------------ idx_eqb / mem *)
Lemma idx_eqb_eq : forall a b, idx_eqb a b = true <-> a = b.
Proof.
  induction a as [|x a IH]; destruct b as [|y b]; simpl; split; intro H;
    try reflexivity; try discriminate.
  - apply andb_true_iff in H. destruct H as [H1 H2].
    apply Nat.eqb_eq in H1. apply IH in H2. subst. reflexivity.
  - inversion H; subst. apply andb_true_iff. split.
    + apply Nat.eqb_refl.
    + apply IH. reflexivity.
Qed.

Lemma idx_eqb_refl : forall a, idx_eqb a a = true.
Proof. intro a. apply idx_eqb_eq. reflexivity. Qed.

Lemma idx_eqb_neq : forall a b, idx_eqb a b = false <-> a <> b.
Proof.
  intros a b. split; intro H.
  - intro E. apply idx_eqb_eq in E. congruence.
  - destruct (idx_eqb a b) eqn:E.
    + apply idx_eqb_eq in E. contradiction.
    + reflexivity.
Qed.

Lemma idx_eq_dec : forall a b : idx, {a = b} + {a <> b}.
Proof.
  intros a b. destruct (idx_eqb a b) eqn:E.
  - left. apply idx_eqb_eq. exact E.
  - right. apply idx_eqb_neq. exact E.
Qed.

Lemma mem_In : forall i s, mem i s = true <-> In i s.
Proof.
  intros i s. induction s as [|j s IH]; simpl.
  - split; [discriminate | contradiction].
  - rewrite orb_true_iff, IH, idx_eqb_eq.
    split; intros [H|H]; [left; congruence | right; exact H | left; congruence | right; exact H].
Qed.

Lemma mem_false : forall i s, mem i s = false <-> ~ In i s.
Proof.
  intros i s. split; intro H.
  - intro E. apply mem_In in E. congruence.
  - destruct (mem i s) eqn:E.
    + apply mem_In in E. contradiction.
    + reflexivity.
Qed.

(* ------------------------------------------------------------------ remove_idx / add1 / add_all *)
Lemma remove_idx_In : forall i s x, In x (remove_idx i s) <-> In x s /\ x <> i.
Proof.
  intros i s x. induction s as [|j s IH]; simpl.
  - tauto.
  - destruct (idx_eqb i j) eqn:E.
    + apply idx_eqb_eq in E. subst j. rewrite IH. split.
      * tauto.
      * intros [[H|H] N]; [congruence | tauto].
    + apply idx_eqb_neq in E. simpl. rewrite IH. split.
      * intros [H|[H N]].
        -- subst x. split; [left; reflexivity | congruence].
        -- tauto.
      * intros [[H|H] N]; tauto.
Qed.

Lemma remove_idx_notin : forall i s, ~ In i s -> remove_idx i s = s.
Proof.
  intros i s. induction s as [|j s IH]; simpl; intro H.
  - reflexivity.
  - destruct (idx_eqb i j) eqn:E.
    + apply idx_eqb_eq in E. subst j. exfalso. apply H. left. reflexivity.
    + f_equal. apply IH. intro N. apply H. right. exact N.
Qed.

Lemma remove_idx_NoDup : forall i s, NoDup s -> NoDup (remove_idx i s).
Proof.
  intros i s H. induction H as [|j s Hn Hd IH]; simpl.
  - constructor.
  - destruct (idx_eqb i j) eqn:E.
    + exact IH.
    + constructor.
      * intro N. apply remove_idx_In in N. tauto.
      * exact IH.
Qed.

Lemma add1_In : forall s i x, In x (add1 s i) <-> In x s \/ x = i.
Proof.
  intros s i x. unfold add1. destruct (mem i s) eqn:E.
  - apply mem_In in E. split.
    + tauto.
    + intros [H|H]; [exact H | subst; exact E].
  - rewrite in_app_iff. simpl. split.
    + intros [H|[H|[]]]; [left; exact H | right; congruence].
    + intros [H|H]; [left; exact H | right; left; congruence].
Qed.

Lemma add1_notin : forall s i, mem i s = false -> add1 s i = s ++ [i].
Proof. intros s i H. unfold add1. rewrite H. reflexivity. Qed.

Lemma NoDup_snoc : forall (s : list idx) i, NoDup s -> ~ In i s -> NoDup (s ++ [i]).
Proof.
  intros s i H. induction H as [|j s Hn Hd IH]; simpl; intro N.
  - constructor; [intros [] | constructor].
  - constructor.
    + rewrite in_app_iff. simpl. intros [H|[H|[]]].
      * contradiction.
      * apply N. left. congruence.
    + apply IH. intro H. apply N. right. exact H.
Qed.

Lemma add1_NoDup : forall s i, NoDup s -> NoDup (add1 s i).
Proof.
  intros s i H. unfold add1. destruct (mem i s) eqn:E.
  - exact H.
  - apply NoDup_snoc; [exact H | apply mem_false; exact E].
Qed.

Lemma add_all_In : forall news s x, In x (add_all s news) <-> In x s \/ In x news.
Proof.
  unfold add_all. induction news as [|n news IH]; intros s x; simpl.
  - tauto.
  - rewrite IH, add1_In. split.
    + intros [[H|H]|H]; [left; exact H | right; left; congruence | right; right; exact H].
    + intros [H|[H|H]]; [left; left; exact H | left; right; congruence | right; exact H].
Qed.

Lemma add_all_NoDup : forall news s, NoDup s -> NoDup (add_all s news).
Proof.
  unfold add_all. induction news as [|n news IH]; intros s H; simpl.
  - exact H.
  - apply IH. apply add1_NoDup. exact H.
Qed.

(* ------------------------------------------------------------------ inc / dec / nth / isum *)
Lemma length_inc : forall k i, length (inc k i) = length i.
Proof.
  intros k i. revert k. induction i as [|x r IH]; intros [|k]; simpl; auto.
Qed.

Lemma length_dec : forall k i, length (dec k i) = length i.
Proof.
  intros k i. revert k. induction i as [|x r IH]; intros [|k]; simpl; auto.
Qed.

Lemma nth_inc_same : forall k i, k < length i -> nth k (inc k i) 0 = S (nth k i 0).
Proof.
  intros k i. revert k. induction i as [|x r IH]; intros [|k]; simpl; intro H; try lia.
  apply IH. lia.
Qed.

Lemma nth_inc_other : forall k j i, j <> k -> nth j (inc k i) 0 = nth j i 0.
Proof.
  intros k j i. revert k j. induction i as [|x r IH]; intros [|k] [|j]; simpl; intro H;
    try reflexivity; try lia.
  apply IH. lia.
Qed.

Lemma nth_dec_same : forall k i, nth k (dec k i) 0 = pred (nth k i 0).
Proof.
  intros k i. revert k. induction i as [|x r IH]; intros [|k]; simpl; auto.
Qed.

Lemma nth_dec_other : forall k j i, j <> k -> nth j (dec k i) 0 = nth j i 0.
Proof.
  intros k j i. revert k j. induction i as [|x r IH]; intros [|k] [|j]; simpl; intro H;
    try reflexivity; try lia.
  apply IH. lia.
Qed.

Lemma dec_inc : forall k i, dec k (inc k i) = i.
Proof.
  intros k i. revert k. induction i as [|x r IH]; intros [|k]; simpl; try reflexivity.
  f_equal. apply IH.
Qed.

Lemma inc_dec : forall k i, 0 < nth k i 0 -> inc k (dec k i) = i.
Proof.
  intros k i. revert k. induction i as [|x r IH]; intros [|k]; simpl; intro H; try lia.
  - f_equal. lia.
  - f_equal. apply IH. exact H.
Qed.

Lemma nth_pos_lt : forall k (i : idx), 0 < nth k i 0 -> k < length i.
Proof.
  intros k i H. destruct (lt_dec k (length i)) as [L|L].
  - exact L.
  - rewrite nth_overflow in H; lia.
Qed.

Lemma isum_dec : forall k i, 0 < nth k i 0 -> S (isum (dec k i)) = isum i.
Proof.
  intros k i. revert k. induction i as [|x r IH]; intros [|k]; simpl; intro H; try lia.
  specialize (IH k H). lia.
Qed.

Lemma isum_inc : forall k i, k < length i -> isum (inc k i) = S (isum i).
Proof.
  intros k i. revert k. induction i as [|x r IH]; intros [|k]; simpl; intro H; try lia.
  assert (L : k < length r) by lia. specialize (IH k L). lia.
Qed.

Lemma inc_neq : forall k i, k < length i -> inc k i <> i.
Proof.
  intros k i H E. apply (f_equal isum) in E. rewrite isum_inc in E; [lia | exact H].
Qed.

Lemma inc_inj_k : forall k1 k2 i, k1 < length i -> k2 < length i -> inc k1 i = inc k2 i -> k1 = k2.
Proof.
  intros k1 k2 i H1 H2 E. destruct (Nat.eq_dec k1 k2) as [Q|Q]; [exact Q|].
  apply (f_equal (fun l => nth k1 l 0)) in E.
  rewrite nth_inc_same in E by exact H1.
  rewrite nth_inc_other in E by exact Q. lia.
Qed.

(* ------------------------------------------------------------------ leb_idx *)
Lemma leb_idx_length : forall a b, leb_idx a b = true -> length a = length b.
Proof.
  induction a as [|x a IH]; destruct b as [|y b]; simpl; intro H; try discriminate.
  - reflexivity.
  - apply andb_true_iff in H. destruct H as [_ H]. f_equal. apply IH. exact H.
Qed.

Lemma leb_idx_refl : forall a, leb_idx a a = true.
Proof.
  induction a as [|x a IH]; simpl.
  - reflexivity.
  - rewrite IH, Nat.leb_refl. reflexivity.
Qed.

Lemma leb_idx_trans : forall a b c, leb_idx a b = true -> leb_idx b c = true -> leb_idx a c = true.
Proof.
  induction a as [|x a IH]; destruct b as [|y b]; destruct c as [|z c]; simpl; intros H1 H2;
    try discriminate; try reflexivity.
  apply andb_true_iff in H1. destruct H1 as [H1 H1'].
  apply andb_true_iff in H2. destruct H2 as [H2 H2'].
  apply andb_true_iff. split.
  - apply Nat.leb_le. apply Nat.leb_le in H1. apply Nat.leb_le in H2. lia.
  - apply (IH b c); assumption.
Qed.

Lemma leb_idx_dec : forall k i, leb_idx (dec k i) i = true.
Proof.
  intros k i. revert k. induction i as [|x r IH]; intros [|k]; simpl; try reflexivity.
  - rewrite leb_idx_refl. rewrite andb_true_r. apply Nat.leb_le. lia.
  - rewrite IH. rewrite Nat.leb_refl. reflexivity.
Qed.

Lemma leb_idx_inc : forall k i, leb_idx i (inc k i) = true.
Proof.
  intros k i. revert k. induction i as [|x r IH]; intros [|k]; simpl; try reflexivity.
  - rewrite leb_idx_refl. rewrite andb_true_r. apply Nat.leb_le. lia.
  - rewrite IH. rewrite Nat.leb_refl. reflexivity.
Qed.

(* a strictly smaller index is below some backward neighbour *)
Lemma leb_idx_step : forall j i, leb_idx j i = true -> j <> i ->
  exists k, 0 < nth k i 0 /\ leb_idx j (dec k i) = true.
Proof.
  induction j as [|x j IH]; destruct i as [|y i]; simpl; intros H N; try discriminate.
  - exfalso. apply N. reflexivity.
  - apply andb_true_iff in H. destruct H as [H1 H2]. apply Nat.leb_le in H1.
    destruct (Nat.eq_dec x y) as [E|E].
    + subst y. assert (N' : j <> i) by (intro Q; apply N; congruence).
      destruct (IH i H2 N') as [k [P L]].
      exists (S k). simpl. split; [exact P|].
      rewrite L, Nat.leb_refl. reflexivity.
    + exists 0. simpl. split; [lia|].
      rewrite H2, andb_true_r. apply Nat.leb_le. lia.
Qed.

(* ------------------------------------------------------------------ all-zero indices *)
Lemma isum0_nth : forall n k, isum n = 0 -> nth k n 0 = 0.
Proof.
  induction n as [|x n IH]; intros [|k]; simpl; intro H; try reflexivity.
  - lia.
  - apply IH. lia.
Qed.

Lemma isum0_unique : forall a b, isum a = 0 -> isum b = 0 -> length a = length b -> a = b.
Proof.
  induction a as [|x a IH]; destruct b as [|y b]; simpl; intros Ha Hb L; try discriminate.
  - reflexivity.
  - f_equal; [lia|]. apply IH; lia.
Qed.

Lemma isum0_leb : forall a b, isum a = 0 -> length a = length b -> leb_idx a b = true.
Proof.
  induction a as [|x a IH]; destruct b as [|y b]; simpl; intros Ha L; try discriminate.
  - reflexivity.
  - apply andb_true_iff. split.
    + apply Nat.leb_le. lia.
    + apply IH; lia.
Qed.

Lemma no_pos_isum0 : forall n, (forall k, k < length n -> ~ 0 < nth k n 0) -> isum n = 0.
Proof.
  induction n as [|x n IH]; simpl; intro H.
  - reflexivity.
  - assert (X : x = 0).
    { specialize (H 0). simpl in H. assert (L : 0 < S (length n)) by lia. specialize (H L). lia. }
    rewrite IH; [lia|].
    intros k L. specialize (H (S k)). simpl in H. apply H. lia.
Qed.

Lemma isum_repeat0 : forall d, isum (repeat 0 d) = 0.
Proof. induction d as [|d IH]; simpl; [reflexivity | exact IH]. Qed.

(* ------------------------------------------------------------------ back_ok / neighbors *)
Lemma back_ok_spec : forall act self n,
  back_ok act self n = true <->
  (forall j, j < length n -> 0 < nth j n 0 -> In (dec j n) act \/ dec j n = self).
Proof.
  intros act self n. unfold back_ok. rewrite forallb_forall. split.
  - intros H j L P. specialize (H j). rewrite in_seq in H.
    assert (R : 0 <= j < 0 + length n) by lia. specialize (H R).
    apply Nat.ltb_lt in P. rewrite P in H.
    apply orb_true_iff in H. destruct H as [H|H].
    + left. apply mem_In. exact H.
    + right. apply idx_eqb_eq. exact H.
  - intros H j R. apply in_seq in R.
    destruct (Nat.ltb 0 (nth j n 0)) eqn:P; [|reflexivity].
    apply Nat.ltb_lt in P. assert (L : j < length n) by lia.
    destruct (H j L P) as [Q|Q]; apply orb_true_iff.
    + left. apply mem_In. exact Q.
    + right. apply idx_eqb_eq. exact Q.
Qed.

Lemma back_ok_back_in : forall act self n,
  back_ok act self n = true <-> back_in (act ++ [self]) n.
Proof.
  intros act self n. rewrite back_ok_spec. unfold back_in. split; intros H k L P.
  - rewrite in_app_iff. simpl. destruct (H k L P) as [Q|Q]; [left; exact Q | right; left; congruence].
  - specialize (H k L P). rewrite in_app_iff in H. simpl in H.
    destruct H as [Q|[Q|[]]]; [left; exact Q | right; congruence].
Qed.

Lemma neighbors_In : forall mx act i n,
  In n (neighbors mx act i) <->
  exists k, k < length i /\ n = inc k i /\ leb_idx n mx = true /\ back_ok act i n = true.
Proof.
  intros mx act i n. unfold neighbors. rewrite in_flat_map. split.
  - intros [k [R H]]. apply in_seq in R. cbv zeta in H.
    destruct (leb_idx (inc k i) mx && back_ok act i (inc k i)) eqn:E.
    + simpl in H. destruct H as [H|[]]. subst n.
      apply andb_true_iff in E. destruct E as [E1 E2].
      exists k. split; [lia|]. split; [reflexivity|]. split; assumption.
    + destruct H.
  - intros [k [L [E [H1 H2]]]]. exists k. split.
    + apply in_seq. lia.
    + cbv zeta. subst n. rewrite H1, H2. simpl. left. reflexivity.
Qed.

Lemma neighbors_NoDup : forall mx act i, NoDup (neighbors mx act i).
Proof.
  intros mx act i. unfold neighbors.
  assert (G : forall l, NoDup l -> (forall k, In k l -> k < length i) ->
     NoDup (flat_map (fun k => let n := inc k i in
                        if leb_idx n mx && back_ok act i n then [n] else []) l)).
  { intros l H. induction H as [|a l Hn Hd IH]; simpl; intro B.
    - constructor.
    - assert (IH' : NoDup (flat_map (fun k => let n := inc k i in
                        if leb_idx n mx && back_ok act i n then [n] else []) l)).
      { apply IH. intros k Hk. apply B. right. exact Hk. }
      destruct (leb_idx (inc a i) mx && back_ok act i (inc a i)); simpl.
      + constructor; [|exact IH'].
        intro N. apply in_flat_map in N. destruct N as [k [Hk N]]. cbv zeta in N.
        destruct (leb_idx (inc k i) mx && back_ok act i (inc k i)); simpl in N.
        * destruct N as [N|[]].
          assert (Q : k = a).
          { apply (inc_inj_k k a i); [apply B; right; exact Hk | apply B; left; reflexivity | exact N]. }
          subst k. contradiction.
        * destruct N.
      + exact IH'. }
  apply G.
  - apply seq_NoDup.
  - intros k Hk. apply in_seq in Hk. lia.
Qed.

(* ------------------------------------------------------------------ simple acceptance facts *)
Lemma accepts_true : forall s i, accepts s i = true <->
  mem i (active s) = false /\ (mem i (cand s) = true \/ isum i = 0).
Proof.
  intros s i. unfold accepts. rewrite andb_true_iff, negb_true_iff, orb_true_iff, Nat.eqb_eq.
  tauto.
Qed.

Lemma accepts_st0 : forall i, accepts st0 i = true <-> isum i = 0.
Proof.
  intro i. rewrite accepts_true. simpl. split.
  - intros [_ [H|H]]; [discriminate | exact H].
  - intro H. split; [reflexivity | right; exact H].
Qed.

Lemma reject_unchanged : forall mx s i, accepts s i = false -> activate mx s i = s.
Proof.
  intros mx s i H. unfold accepts in H. unfold activate.
  destruct (mem i (active s)) eqn:Ea; [reflexivity|].
  simpl in H. apply orb_false_iff in H. destruct H as [Hc Hz].
  rewrite Hc. simpl.
  apply Nat.eqb_neq in Hz.
  assert (P : Nat.ltb 0 (isum i) = true) by (apply Nat.ltb_lt; lia).
  rewrite P. reflexivity.
Qed.

Lemma activate_accepted_shape : forall mx s i, accepts s i = true ->
  activate mx s i =
  mkst (add1 (active s) i)
       (add_all (if mem i (cand s) then remove_idx i (cand s) else cand s)
                (neighbors mx (active s) i))
       (upd [i] (active s) (ctrain s))
       (upd (neighbors mx (active s) i)
            (add1 (active s) i ++ (if mem i (cand s) then remove_idx i (cand s) else cand s))
            (if mem i (cand s) then ctest s else upd [i] (active s ++ cand s) (ctest s))).
Proof.
  intros mx s i H. apply accepts_true in H. destruct H as [Ha Hc].
  unfold activate. rewrite Ha.
  assert (G : negb (mem i (cand s)) && Nat.ltb 0 (isum i) = false).
  { destruct Hc as [Hc|Hc].
    - rewrite Hc. reflexivity.
    - assert (P : Nat.ltb 0 (isum i) = false) by (apply Nat.ltb_ge; lia).
      rewrite P. apply andb_false_r. }
  rewrite G. reflexivity.
Qed.

Lemma accept_active : forall mx s i, accepts s i = true ->
  forall j, In j (active (activate mx s i)) <-> (In j (active s) \/ j = i).
Proof.
  intros mx s i H j. rewrite (activate_accepted_shape mx s i H). simpl. apply add1_In.
Qed.

(* the candidate list after an accepted step, as a set *)
Lemma cand1_eq : forall i C, (if mem i C then remove_idx i C else C) = remove_idx i C.
Proof.
  intros i C. destruct (mem i C) eqn:E; [reflexivity|].
  symmetry. apply remove_idx_notin. apply mem_false. exact E.
Qed.

(* ------------------------------------------------------------------ downward closedness *)
Lemma back_in_mono : forall A B n, (forall x, In x A -> In x B) -> back_in A n -> back_in B n.
Proof. intros A B n H Hb k L P. apply H. apply Hb; assumption. Qed.

Lemma dclosed_app_back : forall A B, dclosed A -> (forall x, In x B -> back_in A x) -> dclosed (A ++ B).
Proof.
  intros A B HA HB i j Hi Hle. apply in_app_iff in Hi. apply in_app_iff.
  destruct Hi as [Hi|Hi].
  - left. apply (HA i j Hi Hle).
  - destruct (idx_eq_dec j i) as [E|E].
    + subst j. right. exact Hi.
    + left. destruct (leb_idx_step j i Hle E) as [k [P L]].
      apply (HA (dec k i) j); [|exact L].
      apply (HB i Hi k); [apply nth_pos_lt; exact P | exact P].
Qed.

Lemma back_in_nil_isum0 : forall n, back_in [] n -> isum n = 0.
Proof.
  intros n H. apply no_pos_isum0. intros k L P. exact (H k L P).
Qed.

Lemma isum0_back_in : forall A n, isum n = 0 -> back_in A n.
Proof.
  intros A n H k L P. rewrite (isum0_nth n k H) in P. lia.
Qed.

(* a backward-closed-in-(A+i) index is backward closed in A or a forward neighbour of i *)
Lemma back_split : forall A i n, back_in (A ++ [i]) n ->
  back_in A n \/ exists k, k < length n /\ 0 < nth k n 0 /\ dec k n = i.
Proof.
  intros A i n H.
  assert (G : forall m,
    (forall k, k < m -> k < length n -> 0 < nth k n 0 -> In (dec k n) A) \/
    (exists k, k < length n /\ 0 < nth k n 0 /\ dec k n = i)).
  { induction m as [|m IH].
    - left. intros k L. lia.
    - destruct IH as [IH|IH]; [|right; exact IH].
      destruct (lt_dec 0 (nth m n 0)) as [P|P].
      + assert (L : m < length n) by (apply nth_pos_lt; exact P).
        specialize (H m L P). apply in_app_iff in H. simpl in H.
        destruct H as [H|[H|[]]].
        * left. intros k Lk Lk' Pk. destruct (Nat.eq_dec k m) as [E|E].
          -- subst k. exact H.
          -- apply IH; [lia | exact Lk' | exact Pk].
        * right. exists m. split; [exact L|]. split; [exact P|]. symmetry. exact H.
      + left. intros k Lk Lk' Pk. destruct (Nat.eq_dec k m) as [E|E].
        * subst k. contradiction.
        * apply IH; [lia | exact Lk' | exact Pk]. }
  destruct (G (length n)) as [Q|Q].
  - left. intros k L P. apply Q; assumption.
  - right. exact Q.
Qed.

(* ------------------------------------------------------------------ the margin after one step *)
Lemma margin_step : forall mx A C i,
  dclosed A ->
  (A <> [] -> forall n, In n C <-> margin mx A n) ->
  (A = [] -> C = []) ->
  length i = length mx ->
  margin mx A i ->
  (A = [] -> isum i = 0) ->
  forall n, (In n (remove_idx i C) \/ In n (neighbors mx A i)) <-> margin mx (A ++ [i]) n.
Proof.
  intros mx A C i HdA HM HE Hlen [HiA [Hile HiB]] HZ n. split.
  - intros [H|H].
    + apply remove_idx_In in H. destruct H as [HC Hne].
      assert (HA : A <> []). { intro E. rewrite (HE E) in HC. destruct HC. }
      apply (HM HA) in HC. destruct HC as [HnA [Hnle HnB]].
      split; [|split].
      * rewrite in_app_iff. simpl. intros [Q|[Q|[]]]; [contradiction | congruence].
      * exact Hnle.
      * apply (back_in_mono A); [|exact HnB]. intros x Hx. apply in_app_iff. left. exact Hx.
    + apply neighbors_In in H. destruct H as [k [Lk [En [Hnle Hbo]]]].
      split; [|split].
      * rewrite in_app_iff. simpl. intros [Q|[Q|[]]].
        -- apply HiA. apply (HdA n i Q). unfold le_idx. subst n. apply leb_idx_inc.
        -- subst n. symmetry in Q. revert Q. apply inc_neq. exact Lk.
      * exact Hnle.
      * apply back_ok_back_in. exact Hbo.
  - intros [HnA [Hnle HnB]].
    rewrite in_app_iff in HnA. simpl in HnA.
    assert (HnA1 : ~ In n A) by tauto.
    assert (Hni : n <> i) by (intro Q; apply HnA; right; left; congruence).
    destruct (back_split A i n HnB) as [Q|[k [Lk [Pk Ek]]]].
    + left. apply remove_idx_In. split; [|exact Hni].
      destruct A as [|a A0] eqn:EA.
      * exfalso. apply Hni. apply isum0_unique.
        -- apply back_in_nil_isum0. exact Q.
        -- apply HZ. reflexivity.
        -- rewrite Hlen. apply leb_idx_length. exact Hnle.
      * apply HM; [discriminate|]. split; [exact HnA1|]. split; [exact Hnle | exact Q].
    + right. apply neighbors_In. exists k.
      assert (En : n = inc k i). { rewrite <- Ek. symmetry. apply inc_dec. exact Pk. }
      split; [|split; [|split]].
      * rewrite <- Ek, length_dec. exact Lk.
      * exact En.
      * exact Hnle.
      * apply back_ok_back_in. exact HnB.
Qed.

(* ------------------------------------------------------------------ what acceptance means under Inv *)
Lemma zero_in_active_gen : forall mx s z, Inv mx s -> active s <> [] ->
  isum z = 0 -> length z = length mx -> In z (active s).
Proof.
  intros mx s z HI HA Hz Hl. destruct (active s) as [|a A0] eqn:EA; [congruence|].
  assert (Ha : In a (active s)) by (rewrite EA; left; reflexivity).
  assert (Hb : le_idx a mx).
  { apply (inv_in_box mx s HI). apply in_app_iff. left. exact Ha. }
  rewrite <- EA. apply (inv_dclosed_active mx s HI a z Ha).
  apply isum0_leb; [exact Hz|]. rewrite Hl. symmetry. apply leb_idx_length. exact Hb.
Qed.

Lemma zero_in_active : forall mx s, Inv mx s -> active s <> [] ->
  In (repeat 0 (length mx)) (active s).
Proof.
  intros mx s HI HA. apply (zero_in_active_gen mx s _ HI HA).
  - apply isum_repeat0.
  - apply repeat_length.
Qed.

Lemma first_accept_zero : forall mx s i, Inv mx s -> active s = [] -> accepts s i = true -> isum i = 0.
Proof.
  intros mx s i HI HA H. apply accepts_true in H. destruct H as [_ [H|H]]; [|exact H].
  rewrite (inv_empty mx s HI HA) in H. discriminate.
Qed.

Lemma accepts_cases : forall mx s i, Inv mx s -> length i = length mx -> accepts s i = true ->
  (active s = [] /\ isum i = 0) \/ (active s <> [] /\ In i (cand s)).
Proof.
  intros mx s i HI Hl H.
  destruct (active s) as [|a A0] eqn:EA.
  - left. split; [reflexivity|]. apply (first_accept_zero mx s i HI EA H).
  - right. split; [discriminate|].
    apply accepts_true in H. destruct H as [Ha [H|H]].
    + apply mem_In. exact H.
    + exfalso. apply mem_false in Ha. apply Ha.
      apply (zero_in_active_gen mx s i HI); [rewrite EA; discriminate | exact H | exact Hl].
Qed.

Lemma accepts_margin : forall mx s i, Inv mx s -> length i = length mx -> accepts s i = true ->
  margin mx (active s) i.
Proof.
  intros mx s i HI Hl H.
  destruct (accepts_cases mx s i HI Hl H) as [[EA Hz]|[NA Hc]].
  - split; [|split].
    + rewrite EA. intros [].
    + apply isum0_leb; assumption.
    + apply isum0_back_in. exact Hz.
  - apply (inv_margin mx s HI NA). exact Hc.
Qed.

Lemma cand_accepts : forall mx s i, Inv mx s -> In i (cand s) -> accepts s i = true.
Proof.
  intros mx s i HI Hc. apply accepts_true. split.
  - apply mem_false. intro Ha. apply (inv_disjoint mx s HI i Ha Hc).
  - left. apply mem_In. exact Hc.
Qed.

Lemma accepts_iff_cand : forall mx s i, Inv mx s -> active s <> [] -> length i = length mx ->
  (accepts s i = true <-> In i (cand s)).
Proof.
  intros mx s i HI HA Hl. split.
  - intro H. destruct (accepts_cases mx s i HI Hl H) as [[EA _]|[_ Hc]]; [contradiction | exact Hc].
  - apply (cand_accepts mx s i HI).
Qed.

(* ------------------------------------------------------------------ the one-step invariant *)
Lemma activate_inv_accepted : forall mx s i, Inv mx s -> length i = length mx ->
  accepts s i = true -> Inv mx (activate mx s i).
Proof.
  intros mx s i HI Hl H.
  pose proof (accepts_margin mx s i HI Hl H) as HMi.
  pose proof (accepts_cases mx s i HI Hl H) as HCs.
  assert (HZ : active s = [] -> isum i = 0).
  { intro E. destruct HCs as [[_ Z]|[N _]]; [exact Z | contradiction]. }
  assert (Hmem : mem i (active s) = false) by (apply accepts_true in H; tauto).
  pose proof (margin_step mx (active s) (cand s) i (inv_dclosed_active mx s HI)
                (inv_margin mx s HI) (inv_empty mx s HI) Hl HMi HZ) as HM.
  rewrite (activate_accepted_shape mx s i H). rewrite cand1_eq. rewrite (add1_notin _ _ Hmem).
  set (A' := active s ++ [i]) in *.
  set (C' := add_all (remove_idx i (cand s)) (neighbors mx (active s) i)).
  assert (HM' : forall n, In n C' <-> margin mx A' n).
  { intro n. unfold C'. rewrite add_all_In. apply HM. }
  assert (HdA' : dclosed A').
  { unfold A'. apply dclosed_app_back; [apply (inv_dclosed_active mx s HI)|].
    intros x [Hx|[]]. subst x. destruct HMi as [_ [_ Hb]]. exact Hb. }
  constructor; simpl.
  - unfold A'. apply NoDup_snoc; [apply (inv_nodup_active mx s HI) | apply mem_false; exact Hmem].
  - unfold C'. apply add_all_NoDup. apply remove_idx_NoDup. apply (inv_nodup_cand mx s HI).
  - intros x Hx Hc. apply HM' in Hc. destruct Hc as [Hc _]. contradiction.
  - intros x Hx. apply in_app_iff in Hx. destruct Hx as [Hx|Hx].
    + unfold A' in Hx. apply in_app_iff in Hx. destruct Hx as [Hx|[Hx|[]]].
      * apply (inv_in_box mx s HI). apply in_app_iff. left. exact Hx.
      * subst x. destruct HMi as [_ [Hb _]]. exact Hb.
    + apply HM' in Hx. destruct Hx as [_ [Hb _]]. exact Hb.
  - exact HdA'.
  - apply dclosed_app_back; [exact HdA'|].
    intros x Hx. apply HM' in Hx. destruct Hx as [_ [_ Hb]]. exact Hb.
  - intros _. exact HM'.
  - intro E. unfold A' in E. destruct (active s); discriminate.
Qed.

Lemma activate_inv : forall mx s i, Inv mx s -> length i = length mx -> Inv mx (activate mx s i).
Proof.
  intros mx s i HI Hl. destruct (accepts s i) eqn:H.
  - apply activate_inv_accepted; assumption.
  - rewrite (reject_unchanged mx s i H). exact HI.
Qed.

Lemma inv_st0 : forall mx, Inv mx st0.
Proof.
  intro mx. constructor; simpl.
  - constructor.
  - constructor.
  - intros i [].
  - intros i [].
  - intros i j [].
  - intros i j [].
  - intro N. exfalso. apply N. reflexivity.
  - reflexivity.
Qed.

Lemma fold_activate_inv : forall mx reqs s, Inv mx s -> wf_reqs mx reqs ->
  Inv mx (fold_left (activate mx) reqs s).
Proof.
  intros mx reqs. induction reqs as [|r reqs IH]; intros s HI Hw; simpl.
  - exact HI.
  - inversion Hw as [|r' reqs' Hr Hrest]; subst.
    apply IH; [|exact Hrest]. apply activate_inv; assumption.
Qed.

Lemma run_inv : forall mx reqs, wf_reqs mx reqs -> Inv mx (run mx reqs).
Proof.
  intros mx reqs Hw. unfold run. apply fold_activate_inv; [apply inv_st0 | exact Hw].
Qed.

(* ------------------------------------------------------------------ fresh neighbours *)
Lemma neighbors_fresh : forall mx s i n, Inv mx s -> accepts s i = true -> length i = length mx ->
  In n (neighbors mx (active s) i) ->
  ~ In n (active s) /\ ~ In n (cand s) /\ n <> i.
Proof.
  intros mx s i n HI H Hl Hn.
  pose proof (accepts_margin mx s i HI Hl H) as [HiA _].
  apply neighbors_In in Hn. destruct Hn as [k [Lk [En [Hle Hbo]]]].
  assert (HnA : ~ In n (active s)).
  { intro Q. apply HiA. apply (inv_dclosed_active mx s HI n i Q).
    unfold le_idx. subst n. apply leb_idx_inc. }
  split; [exact HnA|]. split.
  - intro Q.
    assert (NA : active s <> []).
    { intro E. rewrite (inv_empty mx s HI E) in Q. destruct Q. }
    apply (inv_margin mx s HI NA) in Q. destruct Q as [_ [_ Hb]].
    apply HiA. subst n.
    assert (P : 0 < nth k (inc k i) 0) by (rewrite nth_inc_same by exact Lk; lia).
    specialize (Hb k). rewrite length_inc, dec_inc in Hb. apply Hb; assumption.
  - subst n. apply inc_neq. exact Lk.
Qed.

(* ------------------------------------------------------------------ exhaustion *)
Lemma box_in_active : forall mx s, Inv mx s -> active s <> [] -> cand s = [] ->
  forall m i, isum i <= m -> le_idx i mx -> In i (active s).
Proof.
  intros mx s HI NA HC. induction m as [|m IH]; intros i Hs Hle.
  - apply (zero_in_active_gen mx s i HI NA); [lia | apply leb_idx_length; exact Hle].
  - destruct (mem i (active s)) eqn:E; [apply mem_In; exact E|].
    exfalso. apply mem_false in E.
    assert (M : margin mx (active s) i).
    { split; [exact E|]. split; [exact Hle|].
      intros k L P. apply IH.
      - pose proof (isum_dec k i P). lia.
      - unfold le_idx. apply (leb_idx_trans _ i); [apply leb_idx_dec | exact Hle]. }
    apply (inv_margin mx s HI NA) in M. rewrite HC in M. destruct M.
Qed.

Lemma exhaustion : forall mx s, Inv mx s -> active s <> [] ->
  (cand s = [] <-> forall i, le_idx i mx -> In i (active s)).
Proof.
  intros mx s HI NA. split.
  - intros HC i Hle. apply (box_in_active mx s HI NA HC (isum i) i); [lia | exact Hle].
  - intro Hall. destruct (cand s) as [|c C0] eqn:EC; [reflexivity|].
    exfalso.
    assert (Hc : In c (cand s)) by (rewrite EC; left; reflexivity).
    apply (inv_margin mx s HI NA) in Hc. destruct Hc as [Hn [Hle _]].
    apply Hn. apply Hall. exact Hle.
Qed.

(* ------------------------------------------------------------------ is_downward_closed *)
Lemma below_In : forall i j, In j (below i) <-> leb_idx j i = true.
Proof.
  induction i as [|x r IH]; intro j.
  - simpl. destruct j as [|y j]; simpl; split; intro H.
    + reflexivity.
    + left. reflexivity.
    + destruct H as [H|[]]. discriminate.
    + discriminate.
  - cbn [below]. rewrite in_flat_map. split.
    + intros [v [Hv Hj]]. apply in_seq in Hv. apply in_map_iff in Hj.
      destruct Hj as [j' [E Hj']]. subst j. cbn [leb_idx].
      apply andb_true_iff. split.
      * apply Nat.leb_le. lia.
      * apply IH. exact Hj'.
    + destruct j as [|y j]; cbn [leb_idx]; intro H; [discriminate|].
      apply andb_true_iff in H. destruct H as [H1 H2]. apply Nat.leb_le in H1.
      exists y. split.
      * apply in_seq. lia.
      * apply in_map. apply IH. exact H2.
Qed.

Lemma is_downward_closed_spec : forall S, is_downward_closed S = true <-> dclosed S.
Proof.
  intro S. unfold is_downward_closed, dclosed. rewrite forallb_forall. split.
  - intros H i j Hi Hle. specialize (H i Hi). rewrite forallb_forall in H.
    apply mem_In. apply H. apply below_In. exact Hle.
  - intros H i Hi. apply forallb_forall. intros j Hj. apply mem_In.
    apply (H i j Hi). apply below_In. exact Hj.
Qed.

(* the active set only grows: an activation request (accepted or not) never deactivates an index *)
Lemma active_monotone_step : forall mx s i j, In j (active s) -> In j (active (activate mx s i)).
Proof.
  intros mx s i j Hj. destruct (accepts s i) eqn:Ha.
  - apply (accept_active mx s i Ha). left; exact Hj.
  - rewrite (reject_unchanged mx s i Ha). exact Hj.
Qed.

Lemma active_monotone_fold : forall mx more s j, In j (active s) -> In j (active (fold_left (activate mx) more s)).
Proof.
  intros mx more. induction more as [|r more IH]; intros s j Hj; cbn [fold_left]; [exact Hj|].
  apply IH. apply active_monotone_step. exact Hj.
Qed.

(* whatever the history is continued with, everything active stays active *)
Lemma active_monotone : forall mx reqs more j,
  In j (active (run mx reqs)) -> In j (active (run mx (reqs ++ more))).
Proof.
  intros mx reqs more j Hj. unfold run. rewrite fold_left_app. apply active_monotone_fold. exact Hj.
Qed.
