(* Proofs/LagrDeriv.v — derivatives of the barycentric Lagrange interpolator: the executable gradient model of
   Model/Lagr.v (dbasis1, tgrad, misc_grad), instantiated at the operations of an arbitrary MathComp
   realFieldType, computes the formal derivatives of the Lagrange basis polynomials and the partial
   derivatives of the tensor-product interpolant.  Statements used by Props/C11.v: dbasis_is_derivative,
   tgrad_is_partial, partial_is_derivative, tlagrange_d_exact_product, misc_grad_formula. *)
From mathcomp Require Import all_ssreflect all_algebra.
From mathcomp Require Import ring.
From AmiscV Require Import Field Lagr LagrDefs Lagr1d LagrTensor.
Set Implicit Arguments. Unset Strict Implicit. Unset Printing Implicit Defensive.
Import GRing.Theory Num.Theory.
Local Open Scope ring_scope.

(* ------------------------------------------------------------------ one dimension: dbasis1 *)
Section Deriv1.
Variable F : realFieldType.
Implicit Types (xs ws : seq F) (x xj xk tol kappa : F).
Local Notation K := (mc_ops F).

Lemma horner_prod_XsubC (s : seq F) (P : pred F) x :
  (\prod_(i <- s | P i) ('X - i%:P)).[x] = \prod_(i <- s | P i) (x - i).
Proof. by rewrite horner_prod; apply: eq_bigr => i _; rewrite hornerXsubC. Qed.

(* logarithmic derivative of a product of linear factors, off the roots *)
Lemma deriv_prod_XsubC_nonroot (s : seq F) x : x \notin s ->
  ((\prod_(i <- s) ('X - i%:P))^`()).[x] = (\prod_(i <- s) (x - i)) * \sum_(i <- s) (x - i)^-1.
Proof.
elim: s => [|a s IH]; first by rewrite !big_nil -[1]/(1%:P) derivC horner0 mulr0.
rewrite inE negb_or => /andP[xa nin].
rewrite !big_cons derivM derivXsubC mul1r hornerD hornerM hornerXsubC IH // horner_prod_XsubC.
have d0 : x - a != 0 by rewrite subr_eq0.
by field.
Qed.

(* and at a simple root *)
Lemma deriv_prod_XsubC_root (s : seq F) a : uniq s -> a \in s ->
  ((\prod_(i <- s) ('X - i%:P))^`()).[a] = \prod_(i <- s | i != a) (a - i).
Proof.
move=> U ain; rewrite (bigD1_seq a) //= derivM derivXsubC mul1r hornerD hornerM hornerXsubC.
by rewrite subrr mul0r addr0 horner_prod_XsubC.
Qed.

Lemma dlbase_generic xs xj x : uniq xs -> xj \in xs -> x \notin xs ->
  ((lbase xs xj)^`()).[x] = (lbase xs xj).[x] * (\sum_(xm <- xs) (x - xm)^-1 - (x - xj)^-1).
Proof.
move=> U jin nin; rewrite lbase_split derivZ !hornerZ -mulrA; congr (_ * _).
have -> : \prod_(xi <- xs | xi != xj) ('X - xi%:P) = \prod_(xi <- filter (predC1 xj) xs) ('X - xi%:P).
  by rewrite big_filter.
rewrite deriv_prod_XsubC_nonroot ?horner_prod_XsubC; last first.
  by rewrite mem_filter negb_and nin orbT.
congr (_ * _); rewrite big_filter [in RHS](bigD1_seq xj) //=.
by rewrite addrAC subrr add0r.
Qed.

(* derivative of the partition of unity *)
Lemma sum_dlbase_eq0 xs x : uniq xs -> (0 < size xs)%N ->
  \sum_(j < size xs) ((lbase xs (nth 0 xs j))^`()).[x] = 0.
Proof.
move=> U n0; rewrite -horner_sum -linear_sum /= sum_lbase_eq1 //.
by rewrite -[1]/(1%:P) derivC horner0.
Qed.

(* off-diagonal entries of the differentiation matrix *)
Lemma dlbase_other kappa xs ws j s : uniq xs -> kappa != 0 -> bary_weights kappa xs ws ->
  (j < size xs)%N -> (s < size xs)%N -> j != s ->
  ((lbase xs (nth 0 xs j))^`()).[nth 0 xs s] =
  (nth 0 ws j / nth 0 ws s) / (nth 0 xs s - nth 0 xs j).
Proof.
move=> U k0 [sw Hw] jlt slt ne; rewrite !Hw //.
set xj := nth 0 xs j; set a := nth 0 xs s.
have nea : a != xj by rewrite nth_uniq // eq_sym.
have ain : a \in xs by rewrite mem_nth.
rewrite lbase_split derivZ hornerZ.
have -> : \prod_(xi <- xs | xi != xj) ('X - xi%:P) = \prod_(xi <- filter (predC1 xj) xs) ('X - xi%:P).
  by rewrite big_filter.
rewrite deriv_prod_XsubC_root; first last.
- by rewrite mem_filter /= nea.
- exact: filter_uniq.
rewrite big_filter_cond /=.
have -> : \prod_(xi <- xs | xi != a) (a - xi) =
          (a - xj) * \prod_(i <- xs | (i != xj) && (i != a)) (a - i).
  rewrite -big_filter (bigD1_seq xj) /=; first last.
  - exact: filter_uniq.
  - by rewrite mem_filter /= eq_sym nea mem_nth.
  by rewrite big_filter_cond /=; congr (_ * _); apply: eq_bigl => i; rewrite andbC.
set M := \prod_(i <- xs | _ && _) _; set P := \prod_(i <- _ | _) _.
have P0 : P != 0 by exact: prod_sub_neq0_cond.
have d0 : a - xj != 0 by rewrite subr_eq0.
have M0 : M != 0.
  rewrite prodf_seq_neq0; apply/allP => xi xin /=; apply/implyP => /andP[_].
  by rewrite subr_eq0 eq_sym.
by field; rewrite k0 P0 d0 M0.
Qed.

Lemma dbasis1_nosnap tol kappa xs ws x : uniq xs -> kappa != 0 -> bary_weights kappa xs ws ->
  x \notin xs -> (forall xk, xk \in xs -> ~~ (`|x - xk| <= tol)) ->
  dbasis1 K tol xs ws x = [seq ((lbase xs xk)^`()).[x] | xk <- xs].
Proof.
move=> U k0 [sw Hw] nin far; rewrite /dbasis1.
have -> : diffs1 K tol xs x = [seq (x - xk, false) | xk <- xs].
  rewrite /diffs1 lmapE; apply/eq_in_map => xk kin.
  by rewrite snapped_mc (negbTE (far _ kin)).
set ds := [seq (x - xk, false) | xk <- xs].
have sds : size ds = size xs by rewrite size_map.
have nds p : (List.nth p ds (one K, false)).2 = false.
  rewrite lnthE; case: (ltnP p (size xs)) => plt; first by rewrite (nth_map 0).
  by rewrite nth_default // sds.
set quot := map2 _ ws ds; set squot := map2 _ ws ds.
have nthq j : (j < size xs)%N -> nth 0 quot j = nth 0 ws j / (x - nth 0 xs j).
  by move=> jlt; rewrite (nth_map2 _ 0 (0, false)) ?sw ?sds // (nth_map 0).
have nthsq j : (j < size xs)%N ->
    nth 0 squot j = nth 0 ws j / ((x - nth 0 xs j) * (x - nth 0 xs j)).
  by move=> jlt; rewrite (nth_map2 _ 0 (0, false)) ?sw ?sds // (nth_map 0).
rewrite !sumF_mc.
have -> : \sum_(y <- quot) y = \sum_(j < size xs) nth 0 ws j / (x - nth 0 xs j).
  rewrite (big_nth 0) size_map2 sw sds minnn big_mkord; apply: eq_bigr => j _; exact: nthq.
have -> : \sum_(y <- squot) y =
          \sum_(j < size xs) nth 0 ws j / ((x - nth 0 xs j) * (x - nth 0 xs j)).
  rewrite (big_nth 0) size_map2 sw sds minnn big_mkord; apply: eq_bigr => j _; exact: nthsq.
set qsum := \sum_(j < _) _; set sqsum := \sum_(j < _) _.
rewrite lmapE lseqE llengthE.
apply: (@eq_from_nth _ 0); first by rewrite !size_map size_iota.
move=> i; rewrite size_map size_iota => ilt.
have n0 : (0 < size xs)%N by exact: leq_ltn_trans ilt.
rewrite (nth_map 0%N) ?size_iota // nth_iota // add0n (nth_map 0) //.
rewrite lfilterE (@eq_filter _ _ pred0) ?filter_pred0; last by move=> p /=; rewrite nds andbF.
rewrite nds !lnthE (nth_map 0) //=.
set L := \prod_(xi <- xs) (x - xi).
have lb j : (j < size xs)%N ->
    (lbase xs (nth 0 xs j)).[x] = L / kappa * (nth 0 ws j / (x - nth 0 xs j)).
  by move=> jlt; rewrite (lbase_bary U _ nin k0) ?mem_nth // Hw.
have Lk : L / kappa * qsum = 1.
  rewrite mulr_sumr -(sum_lbase_horner_eq1 x U n0); apply: eq_bigr => j _.
  by rewrite lb.
have q0 : qsum != 0.
  by apply: contraTneq (oner_neq0 F) => q0; rewrite -Lk q0 mulr0 eqxx.
have Lq : L / kappa = qsum^-1 by rewrite -[LHS](mulfK q0) Lk mul1r.
set S := \sum_(xm <- xs) (x - xm)^-1.
have d0 j : (j < size xs)%N -> x - nth 0 xs j != 0.
  by move=> jlt; rewrite subr_eq0; apply: contraNneq nin => ->; rewrite mem_nth.
have SE : S = L / kappa * sqsum.
  have := sum_dlbase_eq0 x U n0.
  rewrite (eq_bigr (fun j : 'I_(size xs) => (lbase xs (nth 0 xs j)).[x] * S -
             L / kappa * (nth 0 ws j / ((x - nth 0 xs j) * (x - nth 0 xs j))))); last first.
    move=> j _; rewrite dlbase_generic ?mem_nth // mulrBr lb //; congr (_ - _).
    by rewrite invfM !mulrA.
  rewrite sumrB -mulr_suml sum_lbase_horner_eq1 // mul1r -mulr_sumr.
  by move/eqP; rewrite subr_eq0 => /eqP.
rewrite dlbase_generic ?mem_nth // lb // -/S SE Lq /divF /=.
have di := d0 i ilt.
by field; rewrite q0 di.
Qed.
Lemma dbasis1_snap tol kappa xs ws x : uniq xs -> kappa != 0 -> bary_weights kappa xs ws ->
  0 <= tol -> x \in xs -> (forall xk, xk \in xs -> xk != x -> ~~ (`|x - xk| <= tol)) ->
  dbasis1 K tol xs ws x = [seq ((lbase xs xk)^`()).[x] | xk <- xs].
Proof.
move=> U k0 bw tol0 xin far; have [sw Hw] := bw; rewrite /dbasis1.
have -> : diffs1 K tol xs x = [seq (if xk == x then 1 else x - xk, xk == x) | xk <- xs].
  rewrite /diffs1 lmapE; apply/eq_in_map => xk kin.
  rewrite snapped_mc; case: (altP (xk =P x)) => [->|ne]; first by rewrite subrr normr0 tol0.
  by rewrite (negbTE (far _ kin ne)).
set ds := [seq (if xk == x then 1 else x - xk, xk == x) | xk <- xs].
have sds : size ds = size xs by rewrite size_map.
set s := index x xs.
have slt : (s < size xs)%N by rewrite index_mem.
have xE : nth 0 xs s = x by rewrite nth_index.
have nds p : (List.nth p ds (one K, false)).2 = (p == s).
  rewrite lnthE; case: (ltnP p (size xs)) => plt.
    by rewrite (nth_map 0) //= -[X in _ == X]xE nth_uniq.
  by rewrite nth_default ?sds //=; apply/esym/negbTE; rewrite neq_ltn (leq_trans slt plt) orbT.
rewrite lmapE lseqE llengthE.
apply: (@eq_from_nth _ 0); first by rewrite !size_map size_iota.
move=> i; rewrite size_map size_iota => ilt.
have n0 : (0 < size xs)%N by exact: leq_ltn_trans ilt.
rewrite (nth_map 0%N) ?size_iota // nth_iota // add0n (nth_map 0) //.
rewrite lfilterE nds.
case: (altP (i =P s)) => [iE|ne].
- rewrite (@eq_filter _ _ pred0) ?filter_pred0; last first.
    by move=> p /=; rewrite nds nat_eqbE iE; case: (p == s).
  rewrite lmapE lfilterE sumF_mc big_map big_filter /=.
  rewrite -[X in iota _ X]subn0 -/(index_iota 0 (size xs)) big_mkord.
  have := sum_dlbase_eq0 x U n0; rewrite (bigD1 (Ordinal ilt)) //=.
  move/eqP; rewrite addr_eq0 => /eqP ->; congr (- _).
  apply: congr_big => // p; rewrite nat_eqbE => pne.
  by rewrite !lnthE -xE (dlbase_other U k0 bw) -?iE.
- have -> : [seq p <- iota 0 (size xs) | ~~ PeanoNat.Nat.eqb p i & (List.nth p ds (one K, false)).2] = [:: s].
    rewrite -(@filter_pred1_uniq _ (iota 0 (size xs)) s) ?iota_uniq ?mem_iota //.
    apply: eq_filter => p /=; rewrite nds nat_eqbE; case: (altP (p =P s)) => [->|]; last by rewrite andbF.
    by rewrite eq_sym ne.
  by rewrite !lnthE -xE (dlbase_other U k0 bw).
Qed.

Theorem dbasis_is_derivative tol kappa xs ws x :
  uniq xs -> kappa != 0 -> bary_weights kappa xs ws -> admissible tol xs x ->
  dbasis1 K tol xs ws x = [seq ((lbase xs xk)^`()).[x] | xk <- xs].
Proof.
move=> U k0 bw [[nin far]|[tol0 [xin far]]]; first exact: (dbasis1_nosnap U k0 bw).
exact: (dbasis1_snap U k0 bw).
Qed.
End Deriv1.

(* ------------------------------------------------------------------ tensor product: tgrad, misc_grad *)
Section TensorD.
Variable F : realFieldType.
Implicit Types (xs ws ys zs : seq F) (x : seq F) (gs : seq (grid (F:=F))).
Local Notation K := (mc_ops F).
Local Notation chunk gs ys j := (take (gsizes gs) (drop (j * gsizes gs) ys)).

Lemma size_chunk gs xs ys j : size ys = (size xs * gsizes gs)%N -> (j < size xs)%N ->
  size (chunk gs ys j) = gsizes gs.
Proof. by move=> sy jlt; rewrite size_takel // size_drop sy -mulnBl leq_pmull // subn_gt0. Qed.

Theorem tgrad_is_partial gs x ys k :
  (forall g, g \in gs -> valid_grid g) -> all_admissible gs x -> size ys = gsizes gs -> (k < size gs)%N ->
  tgrad K k gs x ys = tlagrange_d k gs x ys.
Proof.
elim: gs x ys k => [|[tol [xs ws]] gs IH] x ys k Hv [sx Had] sy // klt.
case: x sx Had => [|x0 x] // [sx] Had.
have [Uxs [_ [kappa [k0 Hw]]]] := Hv (tol, (xs, ws)) (mem_head _ _).
have Ax0 : admissible tol xs x0 by exact: (Had 0%N).
have Hv' : forall g, g \in gs -> valid_grid g by move=> g gin; apply: Hv; rewrite inE gin orbT.
have Ad' : all_admissible gs x by split=> // k' klt'; exact: (Had k'.+1).
move: sy; rewrite gsizes_cons /= => sy.
case: k klt => [|k] klt /=.
- rewrite (dbasis_is_derivative Uxs k0 Hw Ax0) length_size.
  rewrite (@sumF_map2 _ _ _ _ 0 [::]) ?size_map ?size_chunks //.
  apply: eq_bigr => j _ /=.
  by rewrite (nth_map 0) // nth_chunks // tpredict_is_lagrange // (size_chunk sy).
- rewrite (basis_is_lagrange Uxs k0 Hw Ax0) length_size.
  rewrite (@sumF_map2 _ _ _ _ 0 [::]) ?size_map ?size_chunks //.
  apply: eq_bigr => j _ /=.
  by rewrite (nth_map 0) // nth_chunks // IH // (size_chunk sy).
Qed.

(* the prediction as a polynomial in coordinate k, the other coordinates fixed *)
Fixpoint tpoly (k : nat) gs x ys : {poly F} :=
  match gs, x with
  | [::], _ => (head 0 ys)%:P
  | (_, (xs, _)) :: gs', x0 :: x' =>
      match k with
      | 0%N => \sum_(j < size xs) tlagrange gs' x' (chunk gs' ys j) *: lbase xs (nth 0 xs j)
      | k'.+1 => \sum_(j < size xs) (lbase xs (nth 0 xs j)).[x0] *: tpoly k' gs' x' (chunk gs' ys j)
      end
  | _, [::] => 0
  end.

Lemma tpoly_horner k gs x ys t : (k < size gs)%N -> size x = size gs ->
  (tpoly k gs x ys).[t] = tlagrange gs (set_nth 0 x k t) ys.
Proof.
elim: gs k x ys => [|[tol [xs ws]] gs IH] k x ys // klt.
case: x => [|x0 x] // [sx].
case: k klt => [|k] klt /=; rewrite horner_sum; apply: eq_bigr => j _; rewrite hornerZ.
- by rewrite mulrC.
- by rewrite IH.
Qed.

Lemma tpoly_deriv k gs x ys : (k < size gs)%N -> size x = size gs ->
  tlagrange_d k gs x ys = ((tpoly k gs x ys)^`()).[nth 0 x k].
Proof.
elim: gs k x ys => [|[tol [xs ws]] gs IH] k x ys // klt.
case: x => [|x0 x] // [sx].
case: k klt => [|k] klt /=; rewrite linear_sum /= horner_sum; apply: eq_bigr => j _;
  rewrite derivZ hornerZ.
- by rewrite mulrC.
- by rewrite IH.
Qed.

Theorem partial_is_derivative gs x ys k :
  (k < size gs)%N -> size x = size gs ->
  exists P : {poly F}, (forall t, P.[t] = tlagrange gs (set_nth 0 x k t) ys) /\
                       tlagrange_d k gs x ys = (P^`()).[nth 0 x k].
Proof.
move=> klt sx; exists (tpoly k gs x ys); split; last exact: tpoly_deriv.
by move=> t; exact: tpoly_horner.
Qed.

Lemma tlagrange_d_scale k gs x (c : F) ys :
  tlagrange_d k gs x [seq c * y | y <- ys] = c * tlagrange_d k gs x ys.
Proof.
elim: gs k x ys => [|[tol [xs ws]] gs IH] k x ys; first by case: k => [|k] /=; rewrite mulr0.
case: x => [|x0 x]; first by case: k => [|k] /=; rewrite mulr0.
case: k => [|k] /=; rewrite mulr_sumr; apply: eq_bigr => j _; rewrite -map_drop -map_take.
- by rewrite tlagrange_scale mulrCA.
- by rewrite IH mulrCA.
Qed.

Lemma interp_poly_derivE xs ys (t : F) :
  ((interp_poly xs ys)^`()).[t] = \sum_(j < size xs) nth 0 ys j * ((lbase xs (nth 0 xs j))^`()).[t].
Proof.
by rewrite /interp_poly linear_sum /= horner_sum; apply: eq_bigr => j _; rewrite derivZ hornerZ.
Qed.

Local Notation g0 := (0 : F, ([::] : seq F, [::] : seq F)).

Lemma tlagrange_d_product gs (fs : seq (F -> F)) x k :
  (forall g, g \in gs -> uniq g.2.1) -> size fs = size gs -> size x = size gs -> (k < size gs)%N ->
  tlagrange_d k gs x (tensor_data gs fs) =
  \prod_(j < size gs)
     (if (j : nat) == k
      then ((interp_poly (nth g0 gs j).2.1 [seq (nth (fun=> 0) fs j) t | t <- (nth g0 gs j).2.1])^`()).[nth 0 x j]
      else (interp_poly (nth g0 gs j).2.1 [seq (nth (fun=> 0) fs j) t | t <- (nth g0 gs j).2.1]).[nth 0 x j]).
Proof.
elim: gs fs x k => [|[tol [xs ws]] gs IH] fs x k // Hu.
case: fs => [|f fs] //; case: x => [|x0 x] // [szf] [szx] klt.
have Hu' : forall g, g \in gs -> uniq g.2.1 by move=> g gin; apply: Hu; rewrite inE gin orbT.
have chunkE (j : 'I_(size xs)) :
    chunk gs (tensor_data ((tol, (xs, ws)) :: gs) (f :: fs)) j =
    [seq f (nth 0 xs j) * y | y <- tensor_data gs fs].
  rewrite /= take_drop_flatten ?size_map //; last first.
    by apply: In_map_all => xk; rewrite size_map size_tensor_data.
  by rewrite (nth_map 0).
rewrite big_ord_recl; case: k klt => [|k] klt.
- rewrite [LHS]/= eqxx interp_poly_derivE mulr_suml.
  rewrite (eq_bigr (fun j : 'I_(size gs) =>
     (interp_poly (nth g0 gs j).2.1 [seq (nth (fun=> 0) fs j) t | t <- (nth g0 gs j).2.1]).[nth 0 x j])) //.
  rewrite -tlagrange_product //.
  apply: eq_bigr => j _; rewrite -/(tensor_data _ _) chunkE tlagrange_scale.
  by rewrite (nth_map 0) // mulrCA mulrA.
- rewrite [LHS]/= interp_poly_hornerE mulr_suml.
  rewrite (eq_bigr (fun j : 'I_(size gs) => if (j : nat) == k
      then ((interp_poly (nth g0 gs j).2.1 [seq (nth (fun=> 0) fs j) t | t <- (nth g0 gs j).2.1])^`()).[nth 0 x j]
      else (interp_poly (nth g0 gs j).2.1 [seq (nth (fun=> 0) fs j) t | t <- (nth g0 gs j).2.1]).[nth 0 x j])) //.
  rewrite -IH //.
  apply: eq_bigr => j _; rewrite -/(tensor_data _ _) chunkE tlagrange_d_scale.
  by rewrite (nth_map 0) // mulrCA mulrA.
Qed.

Theorem tlagrange_d_exact_product gs (ps : seq {poly F}) x k :
  (forall g, g \in gs -> uniq g.2.1) -> size ps = size gs -> size x = size gs -> (k < size gs)%N ->
  (forall j, (j < size gs)%N -> (size (nth 0%R ps j) <= size (nth (0%R, ([::], [::])) gs j).2.1)%N) ->
  tlagrange_d k gs x (tensor_data gs [seq horner p | p <- ps]) =
  \prod_(j < size gs) (if (j : nat) == k then ((nth 0 ps j)^`()).[nth 0 x j] else (nth 0 ps j).[nth 0 x j]).
Proof.
move=> Hu sp sx klt Hdeg; rewrite tlagrange_d_product ?size_map //.
apply: eq_bigr => j _; rewrite (nth_map 0) ?sp //.
rewrite interp_poly_exact //; last exact: Hdeg.
by apply: Hu; rewrite mem_nth.
Qed.

Theorem misc_grad_formula (terms : seq (F * (seq (grid (F:=F)) * seq F))) x k :
  (forall t, t \in terms -> (forall g, g \in t.2.1 -> valid_grid g) /\ all_admissible t.2.1 x /\
                            size t.2.2 = gsizes t.2.1 /\ (k < size t.2.1)%N) ->
  misc_grad K k terms x = \sum_(t <- terms) t.1 * tlagrange_d k t.2.1 x t.2.2.
Proof.
move=> H; rewrite /misc_grad lfilter_filter lmap_map sumFE big_map big_filter big_mkcond /=.
rewrite big_seq [RHS]big_seq; apply: eq_bigr => t tin.
case: eqP => [->|_] /=; first by rewrite mul0r.
by have [Hv [Ha [Hs Hk]]] := H t tin; rewrite tgrad_is_partial.
Qed.
End TensorD.
