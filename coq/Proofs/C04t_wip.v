From Coq Require Import QArith Qcanon.
From mathcomp Require Import all_ssreflect all_algebra.
From AmiscV Require Import Field QcInst Lagr QcRun.
Goal True.
Time have := erefl (qc_den (c04_predict c04_incremental)).
Time vm_compute.
move=> _.
Time have := erefl (qc_num (c04_predict c04_recomputed)).
Time vm_compute.
Abort.
Lemma a : c04_predict c04_incremental <> c04_true.
Proof.
Time move=> H; have := f_equal qc_den H. Time vm_compute. Time done. 
Time Qed.
Lemma b : c04_predict c04_recomputed = c04_true.
Proof.
Time apply: Qc_is_canon. Time vm_compute. Time done.
Time Qed.
