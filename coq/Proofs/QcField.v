(* Proofs/QcField.v — stdlib Qc (Coq.QArith.Qcanon) is a MathComp realFieldType whose operations are,
   definitionally, the stdlib operations that Model/QcInst.v packs into qc_ops and that are extracted. *)
From Coq Require Import ZArith QArith Qcanon Lia.
From mathcomp Require Import ssreflect ssrfun ssrbool eqtype ssrnat seq choice.
From mathcomp Require Import order ssralg countalg ssrnum ssrint.
From mathcomp Require Import ssrZ.
From AmiscV Require Import Field QcInst Lagr LagrDefs.
Set Implicit Arguments. Unset Strict Implicit. Unset Printing Implicit Defensive.
Import Order.Theory GRing.Theory Num.Theory.

Definition Qc_eqb (x y : Qc) : bool := Qeq_bool x y.
Fact eqQcP : Equality.axiom Qc_eqb.
Proof.
move=> x y; apply: (iffP idP) => [/Qeq_bool_eq /Qc_is_canon //|->].
by apply/Qeq_eq_bool.
Qed.
Canonical Qc_eqType := EqType Qc (EqMixin eqQcP).

Definition pair_of_Qc (x : Qc) : Z * Z := (Qnum x, Zpos (Qden x)).
Definition Qc_of_pair (p : Z * Z) : Qc := Q2Qc (Qmake p.1 (Z.to_pos p.2)).
Lemma pair_of_QcK : cancel pair_of_Qc Qc_of_pair.
Proof.
case=> [[n d] H]; rewrite /Qc_of_pair /pair_of_Qc /=; apply: Qc_is_canon => /=.
exact: Qred_correct.
Qed.
Canonical Qc_choiceType := ChoiceType Qc (CanChoiceMixin pair_of_QcK).
Canonical Qc_countType := CountType Qc (CanCountMixin pair_of_QcK).

Fact Qcplus_opp_l (x : Qc) : (- x + x)%Qc = 0%Qc. Proof. by rewrite Qcplus_comm Qcplus_opp_r. Qed.
Definition Qc_zmodMixin := ZmodMixin Qcplus_assoc Qcplus_comm Qcplus_0_l Qcplus_opp_l.
Canonical Qc_zmodType := ZmodType Qc Qc_zmodMixin.
Fact Qc_1_neq_0 : (1%Qc != 0%Qc). Proof. by []. Qed.
Definition Qc_ringMixin := RingMixin Qcmult_assoc Qcmult_1_l Qcmult_1_r Qcmult_plus_distr_l Qcmult_plus_distr_r Qc_1_neq_0.
Canonical Qc_ringType := RingType Qc Qc_ringMixin.
Canonical Qc_comRingType := ComRingType Qc Qcmult_comm.
Fact Qc_mulVx : forall x : Qc, x != 0%R -> (Qcinv x * x)%Qc = 1%Qc.
Proof. by move=> x /eqP H; rewrite Qcmult_inv_l. Qed.
Fact Qc_inv0 : Qcinv 0%Qc = 0%Qc. Proof. by apply: Qc_is_canon. Qed.
Definition Qc_unitMixin := FieldUnitMixin Qc_mulVx Qc_inv0.
Canonical Qc_unitRingType := UnitRingType Qc Qc_unitMixin.
Canonical Qc_comUnitRingType := [comUnitRingType of Qc].
Fact Qc_field_axiom : GRing.Field.mixin_of Qc_unitRingType. Proof. exact. Qed.
Definition Qc_idomainMixin := FieldIdomainMixin Qc_field_axiom.
Canonical Qc_idomainType := IdomainType Qc Qc_idomainMixin.
Canonical Qc_fieldType := FieldType Qc Qc_field_axiom.

Definition Qc_leb (x y : Qc) : bool := Qle_bool x y.
Definition Qc_ltb (x y : Qc) : bool := ~~ Qc_leb y x.
Definition Qc_norm (x : Qc) : Qc := if Qc_leb 0%Qc x then x else Qcopp x.
Lemma Qc_lebP x y : reflect (x <= y)%Qc (Qc_leb x y).
Proof. by apply: (iffP idP) => /Qle_bool_iff. Qed.

Fact Qc_le0_add x y : Qc_leb 0%Qc x -> Qc_leb 0%Qc y -> Qc_leb 0%Qc (x + y)%R.
Proof. move=> /Qc_lebP Hx /Qc_lebP Hy; apply/Qc_lebP.
have := Qcplus_le_compat _ _ _ _ Hx Hy; by rewrite Qcplus_0_l. Qed.
Fact Qc_le0_mul x y : Qc_leb 0%Qc x -> Qc_leb 0%Qc y -> Qc_leb 0%Qc (x * y)%R.
Proof. move=> /Qc_lebP Hx /Qc_lebP Hy; apply/Qc_lebP.
have := Qcmult_le_compat_r _ _ _ Hx Hy; by rewrite Qcmult_0_l. Qed.
Fact Qc_le0_anti x : Qc_leb 0%Qc x -> Qc_leb x 0%Qc -> x = 0%R.
Proof. by move=> /Qc_lebP Hx /Qc_lebP Hy; apply: Qcle_antisym. Qed.
Fact Qc_sub_ge0 x y : Qc_leb 0%Qc (y - x)%R = Qc_leb x y.
Proof.
apply/Qc_lebP/Qc_lebP; [exact: (proj2 (Qcle_minus_iff x y)) | exact: (proj1 (Qcle_minus_iff x y))].
Qed.
Fact Qc_le0_total x : Qc_leb 0%Qc x || Qc_leb x 0%Qc.
Proof. by case: (Qclt_le_dec 0 x) => [/Qclt_le_weak|] /Qc_lebP ->; rewrite ?orbT. Qed.
Fact Qc_normN x : Qc_norm (- x)%R = Qc_norm x.
Proof.
rewrite /Qc_norm /GRing.opp /=.
case: (Qc_lebP 0%Qc x) => Hx; case: (Qc_lebP 0%Qc (- x)%Qc) => Hnx //.
- have x0 : x = 0%Qc by apply: Qcle_antisym => //; rewrite -(Qcopp_involutive x) -[0%Qc]/(- 0)%Qc; apply: Qcopp_le_compat.
  by rewrite x0.
- by rewrite Qcopp_involutive.
- case: Hnx; rewrite -[0%Qc]/(- 0)%Qc; apply: Qcopp_le_compat.
  by apply: Qclt_le_weak; apply: Qcnot_le_lt.
Qed.
Fact Qc_ge0_norm x : Qc_leb 0%Qc x -> Qc_norm x = x.
Proof. by rewrite /Qc_norm => ->. Qed.
Fact Qc_lt_def x y : Qc_ltb x y = (y != x) && Qc_leb x y.
Proof.
rewrite /Qc_ltb; case: (Qc_lebP y x) => Hyx /=.
- case: eqP => //= ne; case: (Qc_lebP x y) => // Hxy.
  by case: ne; exact: (Qcle_antisym _ _ Hyx Hxy).
- have Hlt : (x < y)%Qc by apply: Qcnot_le_lt.
  have -> : Qc_leb x y by apply/Qc_lebP; apply: Qclt_le_weak.
  rewrite andbT; case: eqP => // E; rewrite E in Hlt.
  by case: (Qclt_not_le _ _ Hlt (Qcle_refl _)).
Qed.
Fact Qc_le_total x y : Qc_leb x y || Qc_leb y x.
Proof. by case: (Qclt_le_dec x y) => [/Qclt_le_weak|] /Qc_lebP ->; rewrite ?orbT. Qed.
Definition Qc_Mixin : realLeMixin [idomainType of Qc] :=
  RealLeMixin Qc_le0_add Qc_le0_mul Qc_le0_anti Qc_sub_ge0 Qc_le0_total Qc_normN Qc_ge0_norm Qc_lt_def.
Canonical Qc_porderType := POrderType ring_display Qc Qc_Mixin.
Canonical Qc_latticeType := LatticeType Qc Qc_Mixin.
Canonical Qc_distrLatticeType := DistrLatticeType Qc Qc_Mixin.
Canonical Qc_orderType := OrderType Qc Qc_le_total.
Canonical Qc_numDomainType := NumDomainType Qc Qc_Mixin.
Canonical Qc_normedZmodType := NormedZmodType Qc Qc Qc_Mixin.
Canonical Qc_numFieldType := [numFieldType of Qc].
Canonical Qc_realDomainType := [realDomainType of Qc].
Canonical Qc_realFieldType := [realFieldType of Qc].

(* bridge: generic ring ops at the instance are definitionally the stdlib Qc operations *)
Lemma mc_ops_Qc : mc_ops Qc_realFieldType = qc_ops.
Proof. reflexivity. Qed.
