From Coq Require Import List Arith Bool Lia Permutation.
From AmiscV Require Import Order.
Import ListNotations.

Lemma vmem_In k l : vmem k l = true <-> In k l.
Proof.
  unfold vmem. rewrite existsb_exists. split.
  - intros [x [Hx He]]. apply Nat.eqb_eq in He. subst. exact Hx.
  - intros H. exists k. split; [exact H | apply Nat.eqb_refl].
Qed.

Lemma vmem_false k l : vmem k l = false <-> ~ In k l.
Proof. rewrite <- vmem_In. destruct (vmem k l); split; congruence. Qed.

Lemma dict_update_spec keys : forall d, NoDup d ->
  NoDup (dict_update d keys) /\ (forall k, In k (dict_update d keys) <-> In k d \/ In k keys).
Proof.
  induction keys as [|a keys IH]; intros d Hd; cbn [dict_update fold_left].
  - split; [exact Hd | intros k; cbn; tauto].
  - fold (dict_update (if vmem a d then d else d ++ [a]) keys).
    destruct (vmem a d) eqn:E.
    + destruct (IH d Hd) as [H1 H2]. split; [exact H1|].
      intros k. rewrite H2. apply vmem_In in E. cbn [In]. split; [tauto|]. intros [H|[H|H]]; subst; tauto.
    + assert (Hd' : NoDup (d ++ [a])).
      { apply vmem_false in E. rewrite <- rev_involutive. apply NoDup_rev. rewrite rev_app_distr. cbn.
        constructor; [rewrite <- in_rev; exact E | apply NoDup_rev; exact Hd]. }
      destruct (IH _ Hd') as [H1 H2]. split; [exact H1|].
      intros k. rewrite H2, in_app_iff. cbn. tauto.
Qed.

Lemma fold_update_spec maps : forall d, NoDup d ->
  NoDup (fold_left dict_update maps d) /\
  (forall k, In k (fold_left dict_update maps d) <-> In k d \/ exists m, In m maps /\ In k m).
Proof.
  induction maps as [|m maps IH]; intros d Hd; cbn [fold_left].
  - split; [exact Hd|]. intros k. split; [tauto|]. intros [H|[m [[] _]]]. exact H.
  - destruct (dict_update_spec m d Hd) as [H1 H2]. destruct (IH _ H1) as [H3 H4]. split; [exact H3|].
    intros k. rewrite H4, H2. split.
    + intros [[H|H]|[m' [Hm Hk]]]; [tauto | right; exists m; cbn; tauto | right; exists m'; cbn; tauto].
    + intros [H|[m' [[Hm|Hm] Hk]]]; [tauto | subst; tauto | right; exists m'; tauto].
Qed.

Lemma chain_keys_spec maps :
  NoDup (chain_keys maps) /\ (forall k, In k (chain_keys maps) <-> exists m, In m maps /\ In k m).
Proof.
  unfold chain_keys. destruct (fold_update_spec (rev maps) [] (NoDup_nil _)) as [H1 H2]. split; [exact H1|].
  intros k. rewrite H2. split.
  - intros [[]|[m [Hm Hk]]]. exists m. rewrite in_rev. tauto.
  - intros [m [Hm Hk]]. right. exists m. rewrite <- in_rev. tauto.
Qed.

Lemma in_map_fst (cs : list comp) k : (exists m, In m (map fst cs) /\ In k m) <-> exists c, In c cs /\ In k (fst c).
Proof.
  split.
  - intros [m [Hm Hk]]. apply in_map_iff in Hm. destruct Hm as [c [Hc Hin]]. subst. exists c. tauto.
  - intros [c [Hc Hk]]. exists (fst c). split; [apply in_map; exact Hc | exact Hk].
Qed.
Lemma in_map_snd (cs : list comp) k : (exists m, In m (map snd cs) /\ In k m) <-> exists c, In c cs /\ In k (snd c).
Proof.
  split.
  - intros [m [Hm Hk]]. apply in_map_iff in Hm. destruct Hm as [c [Hc Hin]]. subst. exists c. tauto.
  - intros [c [Hc Hk]]. exists (snd c). split; [apply in_map; exact Hc | exact Hk].
Qed.

Lemma inputs_spec cs :
  NoDup (inputs_ordered cs) /\
  (forall k, In k (inputs_ordered cs) <->
             (exists c, In c cs /\ In k (fst c)) /\ ~ (exists c, In c cs /\ In k (snd c))).
Proof.
  unfold inputs_ordered, all_inputs, outputs.
  destruct (chain_keys_spec (map fst cs)) as [N1 M1]. destruct (chain_keys_spec (map snd cs)) as [N2 M2].
  split; [apply NoDup_filter; exact N1|].
  intros k. rewrite filter_In, M1, negb_true_iff, vmem_false, M2, in_map_fst, in_map_snd. tauto.
Qed.

Lemma coupling_spec cs :
  NoDup (coupling_ordered cs) /\
  (forall k, In k (coupling_ordered cs) <->
             (exists c, In c cs /\ In k (snd c)) /\ (exists c, In c cs /\ In k (fst c))).
Proof.
  unfold coupling_ordered, all_inputs, outputs.
  destruct (chain_keys_spec (map fst cs)) as [N1 M1]. destruct (chain_keys_spec (map snd cs)) as [N2 M2].
  split; [apply NoDup_filter; exact N2|].
  intros k. rewrite filter_In, M2, vmem_In, M1, in_map_fst, in_map_snd. tauto.
Qed.

(* with the set-difference form the assignment of stream positions depends on the iteration order of the set *)
Lemma setdiff_refuted :
  exists (cs : list comp) (pi pi' : list var -> list var) (n : nat),
    (forall l, Permutation (pi l) l) /\ (forall l, Permutation (pi' l) l) /\
    stream_assignment (inputs_setdiff pi cs) n <> stream_assignment (inputs_setdiff pi' cs) n.
Proof.
  exists [([0; 1], [2])], (fun l => l), (@rev var), 3. split; [intros; apply Permutation_refl|].
  split; [intros; apply Permutation_sym, Permutation_rev|]. vm_compute. discriminate.
Qed.

(* the ordered form consults no set; as a SET its result does not depend on the listing order of the components *)
Lemma ordered_independent cs c' : Permutation c' cs -> forall k, In k (inputs_ordered c') <-> In k (inputs_ordered cs).
Proof.
  intros Hp k.
  rewrite (proj2 (inputs_spec c')), (proj2 (inputs_spec cs)).
  assert (E : forall c, In c c' <-> In c cs) by (intros c; split; apply Permutation_in; [exact Hp | apply Permutation_sym; exact Hp]).
  split; intros [[c [Hc Hk]] Hn]; (split; [exists c; split; [apply E; exact Hc | exact Hk] |
    intros [c2 [Hc2 Hk2]]; apply Hn; exists c2; split; [apply E; exact Hc2 | exact Hk2]]).
Qed.

Lemma map_fst_combine {A B} (l : list A) : forall (m : list B), length l = length m -> map fst (combine l m) = l.
Proof. induction l as [|a l IH]; intros [|b m] H; cbn in *; try congruence. f_equal. apply IH. congruence. Qed.
Lemma map_snd_combine {A B} (l : list A) : forall (m : list B), length l = length m -> map snd (combine l m) = m.
Proof. induction l as [|a l IH]; intros [|b m] H; cbn in *; try congruence. f_equal. apply IH. congruence. Qed.

(* the variables get consecutive blocks of the stream, in the order of inputs() *)
Lemma stream_positions order n :
  map fst (stream_assignment order n) = order /\
  map snd (stream_assignment order n) = map (fun j => j * n) (seq 0 (length order)).
Proof.
  unfold stream_assignment. split; [apply map_fst_combine | apply map_snd_combine];
    rewrite map_length, seq_length; reflexivity.
Qed.

(* the stream assignment and the input order determine each other: two runs use the random stream the same way
   exactly when inputs() lists the variables in the same order *)
Lemma stream_iff_order : forall (o1 o2 : list var) n,
  stream_assignment o1 n = stream_assignment o2 n <-> o1 = o2.
Proof.
  intros o1 o2 n. split; [|intros ->; reflexivity].
  intros H. apply (f_equal (map fst)) in H.
  rewrite (proj1 (stream_positions o1 n)), (proj1 (stream_positions o2 n)) in H. exact H.
Qed.
