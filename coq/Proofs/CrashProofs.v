(* Proofs/CrashProofs.v — proofs for C13 (Props/C13.v) about Model/Crash.v, on top of Proofs/GridProofs.v. *)
From Coq Require Import List Arith Bool Lia Permutation QArith Qcanon.
From AmiscV Require Import Grid Cost Crash GridProofs.
Import ListNotations.
Local Close Scope Q_scope.
Local Close Scope Qc_scope.

(* ------------------------------------------------------------------ slicing, element-wise *)
Lemma slice_back_map {A} (f : key -> A) : forall designs,
  slice_back designs (map f (concat designs)) = map (map (fun k => (k, f k))) designs.
Proof.
  induction designs as [|d rest IH]; [reflexivity|].
  simpl. rewrite firstn_map_app, skipn_map_app, IH, combine_map_self. reflexivity.
Qed.

Lemma crash_store_spec {A} (f : key -> A) store kpl rr latent indices j :
  crash_store A f store kpl rr latent indices j =
  store ++ map (fun k => (k, f k))
               (concat (firstn j (batch_designs (map fst store) kpl rr latent indices []))).
Proof.
  unfold crash_store. rewrite slice_back_map, firstn_map, <- concat_map. reflexivity.
Qed.

Lemma crash_store_keys {A} (f : key -> A) store kpl rr latent indices j :
  map fst (crash_store A f store kpl rr latent indices j) =
  map fst store ++ concat (firstn j (batch_designs (map fst store) kpl rr latent indices [])).
Proof. rewrite crash_store_spec, map_app, map_fst_pair. reflexivity. Qed.

(* ------------------------------------------------------------------ prefixes of a concatenation *)
Lemma concat_firstn_skipn {B} (L : list (list B)) j :
  concat L = concat (firstn j L) ++ concat (skipn j L).
Proof. rewrite <- concat_app, firstn_skipn. reflexivity. Qed.

Lemma concat_firstn_incl {B} (L : list (list B)) j x :
  In x (concat (firstn j L)) -> In x (concat L).
Proof. intro H. rewrite (concat_firstn_skipn L j). apply in_or_app. left. exact H. Qed.

Lemma concat_firstn_NoDup {B} (L : list (list B)) j :
  NoDup (concat L) -> NoDup (concat (firstn j L)).
Proof. intro H. rewrite (concat_firstn_skipn L j) in H. exact (NoDup_app_l _ _ H). Qed.

(* ------------------------------------------------------------------ membership in a batch of designs *)
Definition requested kpl rr latent (indices : list (list nat * list nat)) (k : key) : Prop :=
  exists alpha beta c, In (alpha, beta) indices /\ In c (grid_coords kpl rr latent beta) /\ k = (alpha, c).

Lemma batch_designs_In store kpl rr latent : forall indices sofar k,
  In k (concat (batch_designs store kpl rr latent indices sofar)) <->
  (requested kpl rr latent indices k /\ ~ In k store /\ ~ In k sofar).
Proof.
  induction indices as [|[alpha beta] rest IH]; intros sofar k.
  - simpl. split; [intros [] | intros [[a [b [c [[] _]]]] _]].
  - rewrite batch_designs_cons. simpl concat. rewrite in_app_iff. split.
    + intros [H|H].
      * apply design_In in H. destruct H as [c [E [Hc [Hst Hs]]]].
        split; [|split; assumption].
        exists alpha, beta, c. split; [left; reflexivity|]. split; assumption.
      * apply IH in H. destruct H as [[a [b [c [Hin [Hc E]]]]] [Hst Hs]].
        split; [|split; [exact Hst|]].
        -- exists a, b, c. split; [right; exact Hin|]. split; assumption.
        -- intro Hin'. apply Hs. apply in_or_app. left. exact Hin'.
    + intros [[a [b [c [Hin [Hc E]]]]] [Hst Hs]].
      destruct (kmem k (design_of store kpl rr latent alpha beta sofar)) eqn:Ed.
      * left. apply kmem_In. exact Ed.
      * apply kmem_false in Ed. destruct Hin as [Ei|Hin].
        -- inversion Ei; subst a b. exfalso. apply Ed. apply design_In.
           exists c. split; [exact E|]. split; [exact Hc|]. split; assumption.
        -- right. apply IH. split; [|split; [exact Hst|]].
           ++ exists a, b, c. split; [exact Hin|]. split; assumption.
           ++ intro Hin'. apply in_app_or in Hin'. destruct Hin' as [Hin'|Hin'];
                [exact (Hs Hin') | exact (Ed Hin')].
Qed.

(* ------------------------------------------------------------------ C13 *)
Lemma crash_store_truthful : forall (A : Type) (f : key -> A) store kpl rr latent indices j,
  NoDup (map fst store) -> (forall k v, In (k, v) store -> v = f k) ->
  NoDup (map fst (crash_store A f store kpl rr latent indices j)) /\
  forall k v, In (k, v) (crash_store A f store kpl rr latent indices j) -> v = f k.
Proof.
  intros A f store kpl rr latent indices j Hnd Hf. split.
  - rewrite crash_store_keys. apply NoDup_app_intro; [exact Hnd | |].
    + apply concat_firstn_NoDup. apply (NoDup_app_r []). apply batch_designs_NoDup. constructor.
    + intros x H1 H2. apply concat_firstn_incl in H2.
      exact (batch_designs_fresh _ _ _ _ _ _ _ H2 H1).
  - intros k v Hin. rewrite crash_store_spec in Hin. apply in_app_or in Hin.
    destruct Hin as [Hin|Hin]; [exact (Hf k v Hin)|].
    apply in_map_iff in Hin. destruct Hin as [k' [E _]]. inversion E; subst. reflexivity.
Qed.

Lemma resume_evaluates_only_lost : forall (A : Type) (f : key -> A) store kpl rr latent indices j,
  NoDup (map fst store) ->
  forall k, In k (snd (resume A f store kpl rr latent indices j)) <->
            (In k (snd (activate_batch f store kpl rr latent indices)) /\
             ~ In k (map fst (crash_store A f store kpl rr latent indices j))).
Proof.
  intros A f store kpl rr latent indices j _ k.
  unfold resume. rewrite !activate_batch_spec. simpl snd.
  rewrite !batch_designs_In. rewrite crash_store_keys. split.
  - intros [Hr [Hst Hn]]. split; [|exact Hst].
    split; [exact Hr|]. split; [|exact Hn].
    intro H. apply Hst. apply in_or_app. left. exact H.
  - intros [[Hr [_ Hn]] Hst]. split; [exact Hr|]. split; assumption.
Qed.

Lemma resume_same_data : forall (A : Type) (f : key -> A) store kpl rr latent indices j,
  NoDup (map fst store) -> (forall k v, In (k, v) store -> v = f k) ->
  forall k v, In (k, v) (fst (resume A f store kpl rr latent indices j)) <->
              In (k, v) (fst (activate_batch f store kpl rr latent indices)).
Proof.
  intros A f store kpl rr latent indices j _ _ k v.
  unfold resume. rewrite !activate_batch_spec. simpl fst.
  rewrite crash_store_keys. rewrite crash_store_spec.
  set (S := map fst store).
  set (designs := batch_designs S kpl rr latent indices []).
  set (P := concat (firstn j designs)).
  set (g := fun k0 : key => (k0, f k0)).
  rewrite !in_app_iff. split.
  - intros [[H|H]|H].
    + left. exact H.
    + right. apply in_map_iff in H. destruct H as [k' [E Hk]].
      apply in_map_iff. exists k'. split; [exact E|].
      unfold P in Hk. exact (concat_firstn_incl _ _ _ Hk).
    + right. apply in_map_iff in H. destruct H as [k' [E Hk]].
      apply in_map_iff. exists k'. split; [exact E|].
      apply batch_designs_In in Hk. destruct Hk as [Hr [Hst Hn]].
      unfold designs. apply batch_designs_In. split; [exact Hr|]. split; [|exact Hn].
      intro H. apply Hst. apply in_or_app. left. exact H.
  - intros [H|H]; [left; left; exact H|].
    apply in_map_iff in H. destruct H as [k' [E Hk]].
    destruct (kmem k' P) eqn:Ep.
    + left. right. apply in_map_iff. exists k'. split; [exact E|]. apply kmem_In. exact Ep.
    + right. apply kmem_false in Ep. apply in_map_iff. exists k'. split; [exact E|].
      unfold designs in Hk. apply batch_designs_In in Hk. destruct Hk as [Hr [Hst Hn]].
      apply batch_designs_In. split; [exact Hr|]. split; [|exact Hn].
      intro H. apply in_app_or in H. destruct H as [H|H]; [exact (Hst H) | exact (Ep H)].
Qed.

Lemma resume_equiv_pre_store : forall (A : Type) (f : key -> A) store kpl rr latent indices,
  resume A f store kpl rr latent indices 0 = activate_batch f store kpl rr latent indices.
Proof.
  intros A f store kpl rr latent indices.
  unfold resume, crash_store. simpl firstn. simpl concat. rewrite app_nil_r. reflexivity.
Qed.

(* witness: before the interruption the two indices ask for [1; 1] new points, after it (j = 1) for [0; 1] *)
Lemma costs_differ_refuted :
  exists store kpl rr latent indices j,
    new_points (map fst (crash_store nat (fun _ => 0) store kpl rr latent indices j)) kpl rr latent indices <>
    new_points (map fst store) kpl rr latent indices.
Proof.
  exists (@nil (key * nat)), 1, true, [0], [([], [0]); ([], [1])], 1.
  vm_compute. discriminate.
Qed.
