(* Proofs/CodecProofs.v — round-trip proofs for the textual encoding of multi-indices (Model/Codec.v). *)
From Coq Require Import List Arith Bool Ascii String Decimal DecimalString DecimalNat DecimalFacts Permutation Lia.
From AmiscV Require Import Codec.
Import ListNotations.
Local Open Scope char_scope.

(* ---------- numbers ---------- *)

Definition digits (l : list ascii) : Prop := Forall (fun c => is_digit c = true) l.

Definition nondigit_start (l : list ascii) : Prop :=
  match l with
  | [] => True
  | c :: _ => is_digit c = false
  end.

Lemma digits_NilEmpty : forall d, digits (list_ascii_of_string (NilEmpty.string_of_uint d)).
Proof.
  unfold digits. induction d; simpl; constructor; auto; reflexivity.
Qed.

Lemma show_nat_digits : forall n, digits (show_nat n).
Proof.
  intro n. unfold show_nat, NilZero.string_of_uint.
  destruct (Nat.to_uint n) eqn:E; try (rewrite <- E; apply digits_NilEmpty);
    try (apply digits_NilEmpty).
  simpl. constructor; [reflexivity | constructor].
Qed.

Lemma to_uint_nonnil : forall n, Nat.to_uint n <> Nil.
Proof.
  intros n E.
  pose proof (Unsigned.of_to n) as H. rewrite E in H. simpl in H. subst n.
  vm_compute in E. discriminate E.
Qed.

Lemma show_nat_nonempty : forall n, show_nat n <> [].
Proof.
  intro n. unfold show_nat, NilZero.string_of_uint.
  pose proof (to_uint_nonnil n) as Hn.
  destruct (Nat.to_uint n); simpl; discriminate.
Qed.

Lemma span_digits_app : forall ds rest, digits ds -> nondigit_start rest ->
  span_digits (ds ++ rest) = (ds, rest).
Proof.
  induction ds as [|c ds IH]; intros rest Hd Hr.
  - simpl. destruct rest as [|c r]; [reflexivity|]. simpl in *. rewrite Hr. reflexivity.
  - inversion Hd; subst. simpl. rewrite H1. rewrite IH; auto.
Qed.

Lemma parse_nat_show : forall n, parse_nat (show_nat n) = Some n.
Proof.
  intro n. unfold parse_nat.
  destruct (show_nat n) eqn:E.
  - exfalso. apply (show_nat_nonempty n). exact E.
  - rewrite <- E. unfold show_nat. rewrite string_of_list_ascii_of_string.
    rewrite NilZero.usu by apply to_uint_nonnil.
    simpl. f_equal. apply Unsigned.of_to.
Qed.

(* ---------- tuples ---------- *)

Fixpoint rest_text (l : list nat) : list ascii :=
  match l with
  | [] => []
  | a :: r => "," :: " " :: show_nat a ++ rest_text r
  end.

Lemma show_items_cons : forall l a, show_items (a :: l) = show_nat a ++ rest_text l.
Proof.
  induction l as [|b l IH]; intro a.
  - simpl. rewrite List.app_nil_r. reflexivity.
  - change (show_items (a :: b :: l)) with (show_nat a ++ [","; " "] ++ show_items (b :: l)).
    rewrite IH. reflexivity.
Qed.

Lemma rest_text_length : forall l, List.length l <= List.length (rest_text l).
Proof.
  induction l as [|a l IH]; simpl; [lia|]. rewrite List.app_length. lia.
Qed.

Lemma rest_text_nondigit : forall l tl, nondigit_start (rest_text l ++ ")" :: tl).
Proof.
  intros [|a l] tl; simpl; reflexivity.
Qed.

Lemma parse_rest_step : forall f r acc,
  parse_rest (S f) ("," :: " " :: r) acc =
  let (ds, r') := span_digits r in
  match parse_nat ds with
  | Some n => parse_rest f r' (n :: acc)
  | None => None
  end.
Proof. reflexivity. Qed.

Lemma parse_rest_ok : forall l fuel acc tl, List.length l < fuel ->
  parse_rest fuel (rest_text l ++ ")" :: tl) acc = Some (List.rev acc ++ l, tl).
Proof.
  induction l as [|a l IH]; intros fuel acc tl Hf.
  - destruct fuel as [|f]; [inversion Hf|]. simpl. rewrite List.app_nil_r. reflexivity.
  - destruct fuel as [|f]; [inversion Hf|].
    change (rest_text (a :: l) ++ ")" :: tl)
      with ("," :: " " :: (show_nat a ++ rest_text l) ++ ")" :: tl).
    rewrite parse_rest_step. rewrite <- List.app_assoc.
    rewrite span_digits_app by (apply show_nat_digits || apply rest_text_nondigit).
    rewrite parse_nat_show. rewrite IH by (simpl in Hf; lia).
    simpl. rewrite <- List.app_assoc. reflexivity.
Qed.

Lemma parse_tuple_prefix_digit : forall c r, is_digit c = true ->
  parse_tuple_prefix ("(" :: c :: r) =
  let (ds, r') := span_digits (c :: r) in
  match parse_nat ds with
  | Some n => parse_rest (S (List.length r')) r' [n]
  | None => None
  end.
Proof.
  intros c r H.
  destruct c as [b0 b1 b2 b3 b4 b5 b6 b7].
  destruct b0, b1, b2, b3, b4, b5, b6, b7; try (vm_compute in H; discriminate H); reflexivity.
Qed.

Lemma parse_tuple_prefix_show_nat : forall a r,
  parse_tuple_prefix ("(" :: show_nat a ++ r) =
  let (ds, r') := span_digits (show_nat a ++ r) in
  match parse_nat ds with
  | Some n => parse_rest (S (List.length r')) r' [n]
  | None => None
  end.
Proof.
  intros a r. pose proof (show_nat_digits a) as Hd. pose proof (show_nat_nonempty a) as Hn.
  destruct (show_nat a) as [|c ds]; [contradiction Hn; reflexivity|].
  inversion Hd; subst. simpl app. apply parse_tuple_prefix_digit. assumption.
Qed.

Lemma tuple_prefix_roundtrip : forall t tl, parse_tuple_prefix (show_tuple t ++ tl) = Some (t, tl).
Proof.
  intros [|a [|b l]] tl.
  - reflexivity.
  - change (show_tuple [a] ++ tl) with ("(" :: (show_nat a ++ [","; ")"]) ++ tl).
    rewrite <- List.app_assoc. rewrite parse_tuple_prefix_show_nat.
    rewrite span_digits_app by (apply show_nat_digits || reflexivity).
    rewrite parse_nat_show. reflexivity.
  - change (show_tuple (a :: b :: l)) with ("(" :: show_items (a :: b :: l) ++ [")"]).
    rewrite show_items_cons.
    change (("(" :: (show_nat a ++ rest_text (b :: l)) ++ [")"]) ++ tl)
      with ("(" :: ((show_nat a ++ rest_text (b :: l)) ++ [")"]) ++ tl).
    rewrite <- !List.app_assoc. rewrite parse_tuple_prefix_show_nat.
    change ([")"] ++ tl) with (")" :: tl).
    rewrite span_digits_app by (apply show_nat_digits || apply rest_text_nondigit).
    rewrite parse_nat_show. rewrite parse_rest_ok.
    + reflexivity.
    + rewrite List.app_length. pose proof (rest_text_length (b :: l)). simpl List.length in *. lia.
Qed.

Lemma tuple_roundtrip : forall t : list nat, parse_tuple (show_tuple t) = Some t.
Proof.
  intro t. unfold parse_tuple.
  rewrite <- (List.app_nil_r (show_tuple t)). rewrite tuple_prefix_roundtrip. reflexivity.
Qed.

Lemma show_tuple_inj : forall t u : list nat, show_tuple t = show_tuple u -> t = u.
Proof.
  intros t u H. apply (f_equal parse_tuple) in H. rewrite !tuple_roundtrip in H.
  injection H; auto.
Qed.

(* ---------- pairs and index sets ---------- *)

Lemma pair_roundtrip : forall ab : list nat * list nat, parse_pair (show_pair ab) = Some ab.
Proof.
  intros [a b]. unfold show_pair. simpl fst. simpl snd.
  change (["("] ++ show_tuple a ++ [","; " "] ++ show_tuple b ++ [")"])
    with ("(" :: show_tuple a ++ "," :: " " :: show_tuple b ++ [")"]).
  unfold parse_pair. rewrite tuple_prefix_roundtrip. rewrite tuple_prefix_roundtrip. reflexivity.
Qed.

Lemma index_set_roundtrip : forall s, load_index_set (save_index_set s) = Some s.
Proof.
  induction s as [|p s IH]; [reflexivity|].
  unfold save_index_set, load_index_set in *. cbn [map fold_right].
  rewrite pair_roundtrip. rewrite IH. reflexivity.
Qed.

(* ---------- trees ---------- *)

Lemma list_ascii_eqb_eq : forall a b, list_ascii_eqb a b = true <-> a = b.
Proof.
  induction a as [|x a IH]; intros [|y b]; simpl; split; intro H; try reflexivity; try discriminate.
  - apply andb_true_iff in H. destruct H as [H1 H2].
    apply Ascii.eqb_eq in H1. apply IH in H2. subst. reflexivity.
  - injection H as H1 H2. subst. apply andb_true_iff. split.
    + apply Ascii.eqb_eq. reflexivity.
    + apply IH. reflexivity.
Qed.

Section TreeProofs.
Variable V : Type.

(* nested trees with decoded keys *)
Definition ant := list (list nat * list (list nat * V)).

Definition enc_inner (inner : list (list nat * V)) : list (list ascii * V) :=
  map (fun kv => (show_tuple (fst kv), snd kv)) inner.
Definition enc (t : ant) : nested V :=
  map (fun e => (show_tuple (fst e), enc_inner (snd e))) t.

Fixpoint ains (t : ant) (a b : list nat) (v : V) : ant :=
  match t with
  | [] => [(a, [(b, v)])]
  | (k, inner) :: rest =>
      if list_eq_dec Nat.eq_dec k a then (k, inner ++ [(b, v)]) :: rest
      else (k, inner) :: ains rest a b v
  end.

Definition aflat (t : ant) : list ((list nat * list nat) * V) :=
  List.concat (map (fun e => map (fun kv => ((fst e, fst kv), snd kv)) (snd e)) t).

Lemma nested_insert_enc : forall t a b v,
  nested_insert V (enc t) (show_tuple a) (show_tuple b) v = enc (ains t a b v).
Proof.
  induction t as [|[k inner] t IH]; intros a b v.
  - reflexivity.
  - simpl. destruct (list_eq_dec Nat.eq_dec k a) as [E|NE].
    + subst k. replace (list_ascii_eqb (show_tuple a) (show_tuple a)) with true
        by (symmetry; apply list_ascii_eqb_eq; reflexivity).
      simpl. unfold enc_inner. rewrite List.map_app. reflexivity.
    + destruct (list_ascii_eqb (show_tuple k) (show_tuple a)) eqn:E.
      * apply list_ascii_eqb_eq in E. apply show_tuple_inj in E. contradiction.
      * simpl. f_equal. apply IH.
Qed.

Definition ains_entry (acc : ant) (e : (list nat * list nat) * V) : ant :=
  ains acc (fst (fst e)) (snd (fst e)) (snd e).

Lemma save_tree_enc_gen : forall l t0,
  fold_left (fun acc e => nested_insert V acc (show_tuple (fst (fst e))) (show_tuple (snd (fst e))) (snd e)) l (enc t0)
  = enc (fold_left ains_entry l t0).
Proof.
  induction l as [|e l IH]; intro t0; [reflexivity|].
  simpl. rewrite nested_insert_enc. apply IH.
Qed.

Lemma save_tree_enc : forall l, save_tree V l = enc (fold_left ains_entry l []).
Proof.
  intro l. unfold save_tree. apply (save_tree_enc_gen l []).
Qed.

Lemma load_inner_enc : forall (a : list nat) inner,
  fold_right (fun (kv : list ascii * V) acc2 =>
                match parse_tuple (fst kv), acc2 with
                | Some b, Some r2 => Some (((a, b), snd kv) :: r2)
                | _, _ => None
                end) (Some []) (enc_inner inner)
  = Some (map (fun kv => ((a, fst kv), snd kv)) inner).
Proof.
  intros a. induction inner as [|[b v] inner IH]; [reflexivity|].
  unfold enc_inner in *. cbn [map fold_right fst snd]. rewrite tuple_roundtrip. rewrite IH. reflexivity.
Qed.

Lemma load_tree_enc : forall t, load_tree V (enc t) = Some (aflat t).
Proof.
  induction t as [|[a inner] t IH]; [reflexivity|].
  unfold load_tree in *. unfold enc in *. cbn [map fold_right fst snd]. rewrite tuple_roundtrip. rewrite IH.
  rewrite load_inner_enc. reflexivity.
Qed.

Lemma aflat_ains : forall t a b v, Permutation (aflat (ains t a b v)) (aflat t ++ [((a, b), v)]).
Proof.
  induction t as [|[k inner] t IH]; intros a b v.
  - simpl. apply Permutation_refl.
  - simpl. destruct (list_eq_dec Nat.eq_dec k a) as [E|NE].
    + subst k. unfold aflat. simpl. rewrite List.map_app. simpl.
      rewrite <- !List.app_assoc. apply Permutation_app_head. apply Permutation_app_comm.
    + unfold aflat in *. simpl. rewrite <- List.app_assoc. apply Permutation_app_head. apply IH.
Qed.

Lemma aflat_fold : forall l t0, Permutation (aflat (fold_left ains_entry l t0)) (aflat t0 ++ l).
Proof.
  induction l as [|[[a b] v] l IH]; intro t0.
  - simpl. rewrite List.app_nil_r. apply Permutation_refl.
  - simpl. eapply perm_trans; [apply IH|].
    unfold ains_entry. simpl.
    change (((a, b), v) :: l) with ([((a, b), v)] ++ l). rewrite List.app_assoc.
    apply Permutation_app_tail. apply aflat_ains.
Qed.

Lemma tree_roundtrip_V : forall t : list ((list nat * list nat) * V),
  exists t', load_tree V (save_tree V t) = Some t' /\ Permutation t' t.
Proof.
  intro t. exists (aflat (fold_left ains_entry t [])). split.
  - rewrite save_tree_enc. apply load_tree_enc.
  - apply (aflat_fold t []).
Qed.

End TreeProofs.

Lemma tree_roundtrip : forall (V : Type) (t : list ((list nat * list nat) * V)),
  exists t', load_tree V (save_tree V t) = Some t' /\ Permutation t' t.
Proof. exact tree_roundtrip_V. Qed.

(* distinct index-set elements / index sets never save to the same text (consequence of the round trips) *)
Lemma show_pair_inj : forall ab cd : list nat * list nat, show_pair ab = show_pair cd -> ab = cd.
Proof.
  intros ab cd H. pose proof (pair_roundtrip ab) as Ha. rewrite H, pair_roundtrip in Ha.
  injection Ha as Ha. symmetry. exact Ha.
Qed.

Lemma save_index_set_inj : forall s s', save_index_set s = save_index_set s' -> s = s'.
Proof.
  intros s s' H. pose proof (index_set_roundtrip s) as Ha. rewrite H, index_set_roundtrip in Ha.
  injection Ha as Ha. symmetry. exact Ha.
Qed.
