(* Proofs/FpiContraction.v — convergence of the unaccelerated fixed-point iteration of Model/Fpi.v for sweeps that
   contract in the maximum norm.  Statements used by Props/C06X.v: conv_is_ninf, plain_iteration_converges.
   The definitions ninf / contracts / plain_mix are the same as the ones Props/C06X.v states (convertible). *)
From Coq Require Import List Arith Bool.
From mathcomp Require Import all_ssreflect all_algebra.
From AmiscV Require Import Field Fpi LagrDefs Lagr1d FpiProofs.
Set Implicit Arguments. Unset Strict Implicit. Unset Printing Implicit Defensive.
Import Order.TTheory GRing.Theory Num.Theory.
Local Open Scope ring_scope.

(* maximum norm of a vector *)
Definition ninf (F : realFieldType) (v : seq F) : F := foldr Num.max 0 [seq `|x| | x <- v].

(* the sweep maps vectors of n coupling values to vectors of n coupling values and contracts distances by L *)
Definition contracts (F : realFieldType) (n : nat) (L : F) (sweep : seq F -> seq F * seq F) : Prop :=
  forall a b, size a = n -> size b = n ->
    size (sweep a).1 = n /\
    ninf (vsub (mc_ops F) (sweep a).1 (sweep b).1) <= L * ninf (vsub (mc_ops F) a b).

(* the plain mixing rule: the next iterate is the most recent sweep result *)
Definition plain_mix (F : realFieldType) (mix : seq (seq F * seq F) -> seq F) : Prop :=
  forall h y r, mix (rcons h (y, r)) = y.

(* ------------------------------------------------------------------ the deque *)
Lemma skipnE (A : Type) (k : nat) (l : seq A) : skipn k l = drop k l.
Proof. by elim: k l => [|k IH] [|a l] //=. Qed.

Lemma drop_rcons_le (A : Type) (k : nat) (h : seq A) (x : A) :
  (k <= size h)%N -> drop k (rcons h x) = rcons (drop k h) x.
Proof. by elim: h k => [|a h IH] [|k] //= Hk; apply: IH. Qed.

Lemma push_rcons (A : Type) (mem : nat) (h : seq A) (x : A) :
  (0 < mem)%N -> exists h', push mem h x = rcons h' x.
Proof.
move=> Hm; exists (drop (size (rcons h x) - mem) h).
have -> : push mem h x = drop (size (rcons h x) - mem) (rcons h x).
  rewrite /push skipnE.
  have -> : (h ++ [:: x])%list = rcons h x by elim: h => [|a h IH] //=; rewrite IH.
  by [].
apply: drop_rcons_le.
by rewrite size_rcons leq_subLR -add1n leq_add2r.
Qed.

Section Contraction.
Variable F : realFieldType.
Local Notation K := (mc_ops F).

(* ------------------------------------------------------------------ the convergence test is the maximum norm *)
Lemma conv_is_ninf_sec (tol : F) (y c : seq F) :
  0 <= tol -> size y = size c ->
  conv K tol y c = (ninf (vsub K y c) <= tol).
Proof.
move=> Ht; rewrite /conv /ninf.
elim: y c => [|a y IH] [|b c] //.
case=> e.
have -> : vsub K (a :: y) (b :: c) = (a - b) :: vsub K y c by [].
rewrite [forallb _ _]/= [map _ _]/= [foldr _ _ _]/= le_maxl -andbA.
have -> : PeanoNat.Nat.eqb (length (a :: y)) (length (b :: c)) = PeanoNat.Nat.eqb (length y) (length c) by [].
by rewrite (IH c e) absF_mc.
Qed.

Variable tol L : F.
Variable max_iter mem n : nat.
Variable sweep : seq F -> seq F * seq F.
Variable mix : seq (seq F * seq F) -> seq F.
Hypothesis Htol : 0 <= tol.
Hypothesis HL : 0 <= L.
Hypothesis Hmem : (0 < mem)%N.
Hypothesis Hcontr : contracts n L sweep.
Hypothesis Hmix : plain_mix mix.

Local Notation fpi0 := (fpi K tol max_iter mem sweep mix).

Lemma fpiE f k c h :
  fpi0 f k c h =
  let (y, z) := sweep c in
  if conv K tol y c then Converged y z k
  else if PeanoNat.Nat.leb max_iter k then Failed k
  else match f with
       | O => OutOfFuel
       | S f' =>
           let hist' := push mem h (y, vsub K y c) in
           fpi0 f' (S k) (if PeanoNat.Nat.eqb k 0 then y else mix hist') hist'
       end.
Proof. by case: f. Qed.

Lemma fpi_contr (j fuel k : nat) (c : seq F) (h : seq (seq F * seq F)) :
  size c = n ->
  L ^+ j * ninf (vsub K (sweep c).1 c) <= tol ->
  (k + j <= max_iter)%N -> (j < fuel)%N ->
  exists y z k', fpi0 fuel k c h = Converged y z k' /\ (k' <= k + j)%N.
Proof.
elim: j fuel k c h => [|j IH] fuel k c h Hc Hres Hk Hf; rewrite fpiE;
  have [Hsy _] := Hcontr Hc Hc; move: Hres Hsy; case E: (sweep c) => [y z] /= Hres Hsy;
  rewrite conv_is_ninf_sec ?Hsy ?Hc //.
- rewrite expr0 mul1r in Hres; rewrite Hres.
  by exists y, z, k; split=> //; rewrite addn0.
- case: (lerP (ninf (vsub K y c)) tol) => Hcv.
    by exists y, z, k; split=> //; rewrite leq_addr.
  rewrite leb_ssr.
  have -> : (max_iter <= k)%N = false.
    by apply/negbTE; rewrite -ltnNge (leq_trans _ Hk) // addnS ltnS leq_addr.
  case: fuel Hf => [|fuel] // Hf.
  set h' := push mem h _.
  have -> : (if PeanoNat.Nat.eqb k 0 then y else mix h') = y.
    case: (PeanoNat.Nat.eqb k 0) => //.
    by rewrite /h'; have [h0 ->] := push_rcons h (y, vsub K y c) Hmem; rewrite Hmix.
  have [_ Hstep] := Hcontr Hsy Hc; rewrite E /= in Hstep.
  have Hres' : L ^+ j * ninf (vsub K (sweep y).1 y) <= tol.
    apply: le_trans Hres; rewrite exprSr -mulrA.
    by apply: ler_wpmul2l => //; apply: exprn_ge0.
  have [y' [z' [k' [Hrun Hk']]]] := IH fuel k.+1 y h' Hsy Hres' (eq_ind _ (fun t => (t <= max_iter)%N) Hk _ (esym (addSnnS k j))) Hf.
  by exists y', z', k'; split=> //; rewrite -addSnnS.
Qed.

Lemma plain_iteration_converges_sec (m : nat) (c0 : seq F) :
  size c0 = n ->
  L ^+ m * ninf (vsub K (sweep c0).1 c0) <= tol -> (m <= max_iter)%N ->
  exists y z k, run_sample K tol max_iter mem sweep mix c0 = Converged y z k /\ (k <= m)%N.
Proof.
move=> Hc Hres Hm.
by have := @fpi_contr m max_iter.+1 0%N c0 [::] Hc Hres Hm (Hm : (m < max_iter.+1)%N).
Qed.
End Contraction.

(* ------------------------------------------------------------------ the statements of Props/C06X.v *)
Theorem plain_iteration_converges (F : realFieldType) (tol L : F) (max_iter mem n m : nat)
    (sweep : seq F -> seq F * seq F) (mix : seq (seq F * seq F) -> seq F) (c0 : seq F) :
  0 <= tol -> 0 <= L -> (0 < mem)%N -> size c0 = n -> contracts n L sweep -> plain_mix mix ->
  L ^+ m * ninf (vsub (mc_ops F) (sweep c0).1 c0) <= tol -> (m <= max_iter)%N ->
  exists y z k, run_sample (mc_ops F) tol max_iter mem sweep mix c0 = Converged y z k /\ (k <= m)%N.
Proof. by move=> Ht HL Hmem Hc Hcontr Hmix Hres Hm; apply: (plain_iteration_converges_sec Ht HL Hmem Hcontr Hmix Hc Hres Hm). Qed.

Theorem conv_is_ninf (F : realFieldType) (tol : F) (y c : seq F) :
  0 <= tol -> size y = size c ->
  conv (mc_ops F) tol y c = (ninf (vsub (mc_ops F) y c) <= tol).
Proof. exact: conv_is_ninf_sec. Qed.
