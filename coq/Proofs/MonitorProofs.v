From Coq Require Import List Arith Bool Qcanon.
From AmiscV Require Import Refine Monitor.
Import ListNotations.

Section MonitorProofs.
Variables St L : Type.
Variable learned : St -> L.
Variable step : St -> option (St * option Qc).
Variable mon : St -> St.
(* monitoring does not touch what is learned *)
Hypothesis mon_frame : forall s, learned (mon s) = learned s.
(* a refinement step depends only on what is learned *)
Hypothesis step_respects : forall s1 s2, learned s1 = learned s2 ->
  match step s1, step s2 with
  | None, None => True
  | Some (a, e1), Some (b, e2) => learned a = learned b /\ e1 = e2
  | _, _ => False
  end.

Lemma frame_gen tol fuel : forall level max_iter s1 s2 hist,
  learned s1 = learned s2 ->
  learned (fst (fit_plain St step tol fuel level max_iter s1 hist)) =
  learned (fst (fit_monitored St step mon tol fuel level max_iter s2 hist)) /\
  snd (fit_plain St step tol fuel level max_iter s1 hist) =
  snd (fit_monitored St step mon tol fuel level max_iter s2 hist).
Proof.
  unfold fit_plain, fit_monitored.
  induction fuel as [|fuel IH]; intros level max_iter s1 s2 hist Hl; cbn [fit].
  - split; [exact Hl | reflexivity].
  - unfold step_mon. pose proof (step_respects s1 s2 Hl) as Hs.
    destruct (step s1) as [[a e1]|] eqn:E1; destruct (step s2) as [[b e2]|] eqn:E2; try contradiction.
    + destruct Hs as [Hab He]. subst e2.
      assert (Hab' : learned a = learned (mon b)) by (rewrite mon_frame; exact Hab).
      destruct (Nat.leb max_iter (S level)); [split; [exact Hab' | reflexivity]|].
      destruct e1 as [e|].
      * destruct (negb (QArith_base.Qle_bool (this tol) (this e))); [split; [exact Hab' | reflexivity]|].
        apply IH. exact Hab'.
      * apply IH. exact Hab'.
    + split; [exact Hl | reflexivity].
Qed.
End MonitorProofs.

Lemma monitor_frame : forall (St L : Type) (learned : St -> L) (step : St -> option (St * option Qc)) (mon : St -> St),
  (forall s, learned (mon s) = learned s) ->
  (forall s1 s2, learned s1 = learned s2 ->
     match step s1, step s2 with
     | None, None => True
     | Some (a, e1), Some (b, e2) => learned a = learned b /\ e1 = e2
     | _, _ => False
     end) ->
  forall tol fuel level max_iter s hist,
  learned (fst (fit_plain St step tol fuel level max_iter s hist)) =
  learned (fst (fit_monitored St step mon tol fuel level max_iter s hist)) /\
  snd (fit_plain St step tol fuel level max_iter s hist) =
  snd (fit_monitored St step mon tol fuel level max_iter s hist).
Proof. intros St L learned step mon Hm Hs tol fuel level max_iter s hist. apply (frame_gen St L learned step mon Hm Hs). reflexivity. Qed.

(* a monitoring branch that does touch what is learned (e.g. draws from the global random stream) breaks the frame:
   the hypothesis is necessary *)
Lemma monitor_frame_needs_hypothesis :
  exists (step : nat -> option (nat * option Qc)) (mon : nat -> nat),
    fst (fit_plain nat step (Q2Qc 0) 2 0 2 0%nat []) <> fst (fit_monitored nat step mon (Q2Qc 0) 2 0 2 0%nat []).
Proof.
  exists (fun s => Some (S s, None)), (fun s => S s). vm_compute. discriminate.
Qed.

(* any two monitoring configurations that respect the frame agree with each other (through the unmonitored run): the
   outcome is the same over the whole product of monitoring options, not only "with versus without" *)
Lemma monitor_frame_pair : forall (St L : Type) (learned : St -> L) (step : St -> option (St * option Qc))
    (mon1 mon2 : St -> St),
  (forall s, learned (mon1 s) = learned s) ->
  (forall s, learned (mon2 s) = learned s) ->
  (forall s1 s2, learned s1 = learned s2 ->
     match step s1, step s2 with
     | None, None => True
     | Some (a, e1), Some (b, e2) => learned a = learned b /\ e1 = e2
     | _, _ => False
     end) ->
  forall tol fuel level max_iter s hist,
  learned (fst (fit_monitored St step mon1 tol fuel level max_iter s hist)) =
  learned (fst (fit_monitored St step mon2 tol fuel level max_iter s hist)) /\
  snd (fit_monitored St step mon1 tol fuel level max_iter s hist) =
  snd (fit_monitored St step mon2 tol fuel level max_iter s hist).
Proof.
  intros St L learned step mon1 mon2 H1 H2 Hs tol fuel level max_iter s hist.
  destruct (monitor_frame St L learned step mon1 H1 Hs tol fuel level max_iter s hist) as [A1 B1].
  destruct (monitor_frame St L learned step mon2 H2 Hs tol fuel level max_iter s hist) as [A2 B2].
  split; [rewrite <- A1; exact A2 | rewrite <- B1; exact B2].
Qed.
