(* Proofs/FaultProofs.v — proofs about Model/Fault.v (C14): the error re-basing loop attributes every failure to the
   right index of the batch at the right local position; imputed values only replace missing values. *)
From Coq Require Import List Arith Bool Lia.
From AmiscV Require Import Fault.
Import ListNotations.

(* ---------- rebase ---------- *)

Lemma rebase_spec : forall sizes start errs,
  (forall g, In g errs -> start <= g < start + fold_right Nat.add 0 sizes) ->
  snd (rebase sizes start errs) = [] /\
  forall i j, In j (nth i (fst (rebase sizes start errs)) []) <->
              (i < length sizes /\ j < nth i sizes 0 /\ In (start + fold_right Nat.add 0 (firstn i sizes) + j) errs).
Proof.
  induction sizes as [|sz rest IH]; intros start errs H.
  - assert (errs = []) as ->.
    { destruct errs as [|g t]; auto. specialize (H g (or_introl eq_refl)). simpl in H. lia. }
    simpl. split; auto. intros i j. destruct i; simpl; split; intros; try tauto; lia.
  - simpl.
    specialize (IH (start + sz) (filter (fun idx => negb (idx <? start + sz)) errs)).
    destruct (rebase rest (start + sz) (filter (fun idx => negb (idx <? start + sz)) errs)) as [groups left] eqn:E.
    simpl in IH. simpl.
    assert (Hoth : forall g, In g (filter (fun idx => negb (idx <? start + sz)) errs) <-> In g errs /\ start + sz <= g).
    { intro g. rewrite filter_In, negb_true_iff, Nat.ltb_ge. tauto. }
    destruct IH as [IH1 IH2].
    { intros g Hg. apply Hoth in Hg. destruct Hg as [Hg1 Hg2]. specialize (H g Hg1). simpl in H. lia. }
    split; auto.
    intros i j. destruct i as [|i'].
    + simpl. rewrite in_map_iff. split.
      * intros [idx [Hidx Hin]]. apply filter_In in Hin. destruct Hin as [Hin Hlt].
        apply Nat.ltb_lt in Hlt. specialize (H idx Hin).
        split; [lia|]. split; [lia|].
        replace (start + 0 + j) with idx by lia. assumption.
      * intros [_ [Hj Hin]]. exists (start + 0 + j). split; [lia|].
        apply filter_In. split; auto. apply Nat.ltb_lt. lia.
    + simpl. rewrite IH2. rewrite Hoth.
      replace (start + sz + fold_right Nat.add 0 (firstn i' rest) + j)
        with (start + (sz + fold_right Nat.add 0 (firstn i' rest)) + j) by lia.
      split.
      * intros [Hi [Hj [Hin _]]]. split; [lia|]. split; assumption.
      * intros [Hi [Hj Hin]]. split; [lia|]. split; [assumption|]. split; [assumption|lia].
Qed.

Lemma rebase_fst_length : forall sizes start errs,
  length (fst (rebase sizes start errs)) = length sizes.
Proof.
  induction sizes as [|sz rest IH]; intros start errs; simpl; auto.
  specialize (IH (start + sz) (filter (fun idx => negb (idx <? start + sz)) errs)).
  destruct (rebase rest (start + sz) (filter (fun idx => negb (idx <? start + sz)) errs)) as [groups left].
  simpl in *. congruence.
Qed.

(* ---------- error records ---------- *)

Lemma length_concat_sum : forall (A : Type) (l : list (list A)),
  length (concat l) = fold_right Nat.add 0 (map (@length A) l).
Proof.
  induction l as [|x l IH]; simpl; auto. rewrite app_length, IH. reflexivity.
Qed.

Lemma raised_positions : forall (V : Type) (outcomes : list (outcome V)) s g,
  In g (map fst (filter (fun p : nat * outcome V => match snd p with Raised _ => true | _ => false end)
                        (combine (seq s (length outcomes)) outcomes))) <->
  (s <= g /\ nth_error outcomes (g - s) = Some (Raised V)).
Proof.
  induction outcomes as [|o os IH]; intros s g.
  - simpl. split; [tauto|]. intros [_ H]. destruct (g - s); discriminate.
  - simpl. destruct o as [|vals]; simpl.
    + rewrite IH. split.
      * intros [Hs | [Hs Hn]].
        -- subst. split; [lia|]. rewrite Nat.sub_diag. reflexivity.
        -- split; [lia|]. replace (g - s) with (S (g - S s)) by lia. assumption.
      * intros [Hs Hn]. destruct (Nat.eq_dec s g) as [Heq|Hne]; [left; assumption|right].
        split; [lia|]. replace (g - s) with (S (g - S s)) in Hn by lia. assumption.
    + rewrite IH. split.
      * intros [Hs Hn]. split; [lia|]. replace (g - s) with (S (g - S s)) by lia. assumption.
      * intros [Hs Hn]. destruct (Nat.eq_dec s g) as [Heq|Hne].
        -- subst. rewrite Nat.sub_diag in Hn. discriminate.
        -- split; [lia|]. replace (g - s) with (S (g - S s)) in Hn by lia. assumption.
Qed.

Lemma in_flat_map_keys : forall (K : Type) (d : list K) (grp : list nat) k j,
  In (k, j) (flat_map (fun j => match nth_error d j with Some k => [(k, j)] | None => [] end) grp) <->
  (In j grp /\ nth_error d j = Some k).
Proof.
  intros K d grp k j. rewrite in_flat_map. split.
  - intros [x [Hx Hin]]. destruct (nth_error d x) as [k'|] eqn:E; simpl in Hin; [|tauto].
    destruct Hin as [Heq|[]]. inversion Heq; subst. split; assumption.
  - intros [Hj Hn]. exists j. split; auto. rewrite Hn. left. reflexivity.
Qed.

Lemma errors_aligned : forall (K V : Type) (designs : list (list K)) (outcomes : list (outcome V)) i j k,
  length outcomes = length (concat designs) ->
  (In (k, j) (nth i (error_records K V designs outcomes) []) <->
   (nth_error (nth i designs []) j = Some k /\ i < length designs /\
    nth_error outcomes (length (concat (firstn i designs)) + j) = Some (Raised V))).
Proof.
  intros K V designs outcomes i j k Hlen. unfold error_records.
  set (errs := map fst (filter _ (combine (seq 0 (length outcomes)) outcomes))).
  assert (Herrs : forall g, In g errs <-> nth_error outcomes g = Some (Raised V)).
  { intro g. unfold errs. rewrite raised_positions. rewrite Nat.sub_0_r. split; [tauto|]. intro; split; [lia|assumption]. }
  destruct (rebase_spec (map (@length K) designs) 0 errs) as [_ Hspec].
  { intros g Hg. apply Herrs in Hg. rewrite <- length_concat_sum, <- Hlen. simpl.
    split; [lia|]. apply nth_error_Some. congruence. }
  set (groups := fst (rebase (map (@length K) designs) 0 errs)) in *.
  assert (Hgl : length groups = length designs).
  { unfold groups. rewrite rebase_fst_length, map_length. reflexivity. }
  set (f := fun dg : list K * list nat => flat_map _ (snd dg)).
  destruct (Nat.lt_ge_cases i (length designs)) as [Hi|Hi].
  - assert (Hnth : nth i (map f (combine designs groups)) [] = f (nth i designs [], nth i groups [])).
    { rewrite <- (combine_nth designs groups i [] []) by (symmetry; assumption).
      rewrite (nth_indep _ [] (f ([], []))).
      - apply map_nth.
      - rewrite map_length, combine_length, Hgl, Nat.min_id. assumption. }
    rewrite Hnth. unfold f. simpl. rewrite in_flat_map_keys. rewrite Hspec.
    rewrite map_length, firstn_map, <- length_concat_sum, <- Herrs.
    change 0 with (length (@nil K)) at 1. rewrite map_nth. simpl.
    split.
    + intros [[_ [_ Hin]] Hn]. tauto.
    + intros [Hn [_ Hin]]. split; [|assumption]. split; [assumption|]. split; [|assumption].
      apply nth_error_Some. congruence.
  - rewrite nth_overflow by (rewrite map_length, combine_length, Hgl, Nat.min_id; assumption).
    simpl. split; [tauto|]. intros [_ [Hi' _]]. lia.
Qed.

(* ---------- imputation ---------- *)

Lemma nth_error_combine : forall (A B : Type) (l : list A) (m : list B) n a b,
  nth_error l n = Some a -> nth_error m n = Some b -> nth_error (combine l m) n = Some (a, b).
Proof.
  induction l as [|x l IH]; intros m n a b Hl Hm.
  - destruct n; discriminate.
  - destruct m as [|y m]; [destruct n; discriminate|].
    destruct n as [|n]; simpl in *.
    + congruence.
    + apply IH; assumption.
Qed.

Lemma impute_only_missing : forall (K V : Type) (st iv : list (option V)) n v,
  length iv = length st -> nth_error st n = Some (Some v) ->
  nth_error (with_imputed V st (Some iv)) n = Some (Some v).
Proof.
  intros K V st iv n v Hlen Hst. unfold with_imputed.
  destruct (nth_error iv n) as [w|] eqn:Hiv.
  - rewrite (map_nth_error _ _ _ (nth_error_combine _ _ _ _ _ _ _ Hst Hiv)). reflexivity.
  - apply nth_error_None in Hiv. assert (n < length st) by (apply nth_error_Some; congruence). lia.
Qed.

Lemma impute_fills_missing : forall (K V : Type) (st iv : list (option V)) n w,
  length iv = length st -> nth_error st n = Some None -> nth_error iv n = Some w ->
  nth_error (with_imputed V st (Some iv)) n = Some w.
Proof.
  intros K V st iv n w _ Hst Hiv. unfold with_imputed.
  rewrite (map_nth_error _ _ _ (nth_error_combine _ _ _ _ _ _ _ Hst Hiv)). reflexivity.
Qed.

(* imputation never changes the number of stored points *)
Lemma impute_length : forall (V : Type) (st iv : list (option V)),
  length iv = length st -> length (with_imputed V st (Some iv)) = length st.
Proof.
  intros V st iv Hlen. unfold with_imputed.
  rewrite map_length, combine_length, Hlen. apply Nat.min_id.
Qed.

(* a store with no missing value is returned unchanged, whatever the imputed values are *)
Lemma impute_complete_unchanged : forall (V : Type) (st iv : list (option V)),
  length iv = length st -> (forall x, In x st -> x <> None) ->
  with_imputed V st (Some iv) = st.
Proof.
  intros V st. unfold with_imputed.
  induction st as [|x st IH]; intros iv Hlen Hall; [destruct iv; reflexivity|].
  destruct iv as [|y iv]; [discriminate Hlen|].
  cbn [combine map fst snd]. f_equal.
  - destruct x as [v|]; [reflexivity|]. exfalso. apply (Hall None); [left; reflexivity | reflexivity].
  - apply IH; [injection Hlen; auto | intros z Hz; apply Hall; right; exact Hz].
Qed.
