(* Proofs/BoundsProofs.v — proofs about Model/Bounds.v (statements used by Props/C04B.v) *)
From Coq Require Import List Bool QArith Qcanon Permutation.
From AmiscV Require Import Bounds BoundsDefs.
Import ListNotations.

Local Open Scope Qc_scope.

(* ---------- qle / qmin / qmax ---------- *)

Lemma qle_true : forall a b : Qc, qle a b = true -> a <= b.
Proof. intros a b H. unfold qle in H. unfold Qcle. apply Qle_bool_iff. exact H. Qed.

Lemma qle_false : forall a b : Qc, qle a b = false -> b <= a.
Proof.
  intros a b H. apply Qclt_le_weak. apply Qcnot_le_lt. intro H'.
  unfold Qcle in H'. apply Qle_bool_iff in H'. unfold qle in H. rewrite H' in H. discriminate.
Qed.

Lemma qmin_le_l : forall a b : Qc, qmin a b <= a.
Proof. intros a b. unfold qmin. destruct (qle a b) eqn:E; [apply Qcle_refl | apply qle_false; exact E]. Qed.

Lemma qmin_le_r : forall a b : Qc, qmin a b <= b.
Proof. intros a b. unfold qmin. destruct (qle a b) eqn:E; [apply qle_true; exact E | apply Qcle_refl]. Qed.

Lemma qmin_case : forall a b : Qc, qmin a b = a \/ qmin a b = b.
Proof. intros a b. unfold qmin. destruct (qle a b); [left | right]; reflexivity. Qed.

Lemma qmin_glb : forall a b c : Qc, c <= a -> c <= b -> c <= qmin a b.
Proof. intros a b c Ha Hb. unfold qmin. destruct (qle a b); assumption. Qed.

Lemma qmax_ge_l : forall a b : Qc, a <= qmax a b.
Proof. intros a b. unfold qmax. destruct (qle a b) eqn:E; [apply qle_true; exact E | apply Qcle_refl]. Qed.

Lemma qmax_ge_r : forall a b : Qc, b <= qmax a b.
Proof. intros a b. unfold qmax. destruct (qle a b) eqn:E; [apply Qcle_refl | apply qle_false; exact E]. Qed.

Lemma qmax_case : forall a b : Qc, qmax a b = a \/ qmax a b = b.
Proof. intros a b. unfold qmax. destruct (qle a b); [right | left]; reflexivity. Qed.

Lemma qmax_lub : forall a b c : Qc, a <= c -> b <= c -> qmax a b <= c.
Proof. intros a b c Ha Hb. unfold qmax. destruct (qle a b); assumption. Qed.

(* ---------- folds ---------- *)

Lemma fmin_spec : forall (r : list Qc) (v : Qc),
  fold_left qmin r v <= v /\ (forall x, In x r -> fold_left qmin r v <= x) /\ In (fold_left qmin r v) (v :: r).
Proof.
  induction r as [|a r IH]; intro v; simpl.
  - split; [apply Qcle_refl | split; [intros x [] | left; reflexivity]].
  - destruct (IH (qmin v a)) as (H1 & H2 & H3). split; [|split].
    + eapply Qcle_trans; [exact H1 | apply qmin_le_l].
    + intros x [Hx|Hx].
      * subst x. eapply Qcle_trans; [exact H1 | apply qmin_le_r].
      * apply H2; exact Hx.
    + destruct H3 as [H3|H3].
      * destruct (qmin_case v a) as [E|E].
        -- left. transitivity (qmin v a); [symmetry; exact E | exact H3].
        -- right; left. transitivity (qmin v a); [symmetry; exact E | exact H3].
      * right; right; exact H3.
Qed.

Lemma fmax_spec : forall (r : list Qc) (v : Qc),
  v <= fold_left qmax r v /\ (forall x, In x r -> x <= fold_left qmax r v) /\ In (fold_left qmax r v) (v :: r).
Proof.
  induction r as [|a r IH]; intro v; simpl.
  - split; [apply Qcle_refl | split; [intros x [] | left; reflexivity]].
  - destruct (IH (qmax v a)) as (H1 & H2 & H3). split; [|split].
    + eapply Qcle_trans; [apply qmax_ge_l | exact H1].
    + intros x [Hx|Hx].
      * subst x. eapply Qcle_trans; [apply qmax_ge_r | exact H1].
      * apply H2; exact Hx.
    + destruct H3 as [H3|H3].
      * destruct (qmax_case v a) as [E|E].
        -- left. transitivity (qmax v a); [symmetry; exact E | exact H3].
        -- right; left. transitivity (qmax v a); [symmetry; exact E | exact H3].
      * right; right; exact H3.
Qed.

(* ---------- finite / step_minmax ---------- *)

Lemma In_finite : forall (o : obs) (v : Qc), In (Some v) o <-> In v (finite o).
Proof.
  induction o as [|[w|] r IH]; intro v; simpl.
  - tauto.
  - split; intros [H|H].
    + injection H as H. left; exact H.
    + right; apply IH; exact H.
    + left; f_equal; exact H.
    + right; apply IH; exact H.
  - split.
    + intros [H|H]; [discriminate | apply IH; exact H].
    + intro H; right; apply IH; exact H.
Qed.

Lemma step_minmax_spec : forall (o : obs) (lo hi : Qc), step_minmax o = Some (lo, hi) ->
  In lo (finite o) /\ In hi (finite o) /\ forall x, In x (finite o) -> lo <= x /\ x <= hi.
Proof.
  intros o lo hi. unfold step_minmax. destruct (finite o) as [|v r]; [discriminate|].
  intro H. injection H as H1 H2. subst lo hi.
  destruct (fmin_spec r v) as (A1 & A2 & A3). destruct (fmax_spec r v) as (B1 & B2 & B3).
  split; [exact A3 | split; [exact B3|]].
  intros x [Hx|Hx].
  - subst x. split; assumption.
  - split; [apply A2 | apply B2]; exact Hx.
Qed.

Lemma step_minmax_none : forall o : obs, step_minmax o = None -> finite o = [].
Proof. intro o. unfold step_minmax. destruct (finite o); [reflexivity | discriminate]. Qed.

Lemma finite_perm : forall o o' : obs, Permutation o o' -> Permutation (finite o) (finite o').
Proof.
  intros o o' P. induction P.
  - apply Permutation_refl.
  - destruct x as [w|]; simpl; [apply perm_skip|]; exact IHP.
  - destruct x as [w|], y as [w'|]; simpl; try apply Permutation_refl.
    apply perm_swap.
  - eapply Permutation_trans; eassumption.
Qed.

Lemma step_minmax_perm : forall o o' : obs, Permutation (finite o) (finite o') -> step_minmax o = step_minmax o'.
Proof.
  intros o o' P.
  destruct (step_minmax o) as [[lo hi]|] eqn:E; destruct (step_minmax o') as [[lo' hi']|] eqn:E'.
  - apply step_minmax_spec in E. apply step_minmax_spec in E'.
    destruct E as (A1 & A2 & A3). destruct E' as (B1 & B2 & B3).
    assert (Hlo : lo = lo').
    { apply Qcle_antisym.
      - apply A3. apply (Permutation_in _ (Permutation_sym P)). exact B1.
      - apply B3. apply (Permutation_in _ P). exact A1. }
    assert (Hhi : hi = hi').
    { apply Qcle_antisym.
      - apply B3. apply (Permutation_in _ P). exact A2.
      - apply A3. apply (Permutation_in _ (Permutation_sym P)). exact B2. }
    subst. reflexivity.
  - apply step_minmax_spec in E. destruct E as (A1 & _).
    apply step_minmax_none in E'. apply (Permutation_in _ P) in A1. rewrite E' in A1. destruct A1.
  - apply step_minmax_spec in E'. destruct E' as (B1 & _).
    apply step_minmax_none in E. apply (Permutation_in _ (Permutation_sym P)) in B1. rewrite E in B1. destruct B1.
  - reflexivity.
Qed.

(* ---------- decoding ---------- *)

Lemma denorm_mono : forall (k : nkind) (cur : dom) (x y : Qc), kind_ok k -> dom_ok cur -> x <= y ->
  denorm k cur x <= denorm k cur y.
Proof.
  intros k cur x y Hk Hd Hxy. destruct k as [a b|]; simpl in *.
  - apply Qcplus_le_compat; [|apply Qcle_refl].
    rewrite (Qcmult_comm a x), (Qcmult_comm a y).
    apply Qcmult_le_compat_r; [exact Hxy | apply Qclt_le_weak; exact Hk].
  - apply Qcplus_le_compat; [|apply Qcle_refl].
    apply Qcmult_le_compat_r; [exact Hxy|].
    unfold dom_ok in Hd. apply Qclt_le_weak in Hd. apply Qcle_minus_iff in Hd. exact Hd.
Qed.

(* ---------- contains ---------- *)

Lemma contains_refl : forall d : dom, contains d d.
Proof. intro d. split; apply Qcle_refl. Qed.

Lemma contains_trans : forall d1 d2 d3 : dom, contains d1 d2 -> contains d2 d3 -> contains d1 d3.
Proof.
  intros d1 d2 d3 [A1 A2] [B1 B2]. split; eapply Qcle_trans; eassumption.
Qed.

(* ---------- one step ---------- *)

Lemma step_widens : forall (k : nkind) (cur : dom) (o : obs), contains (refine_step k cur o) cur.
Proof.
  intros k cur o. unfold refine_step. destruct (step_minmax o) as [[lo hi]|].
  - unfold contains; simpl. split; [apply qmin_le_r | apply qmax_ge_r].
  - apply contains_refl.
Qed.

Lemma step_valid : forall (k : nkind) (cur : dom) (o : obs), dom_ok cur -> dom_ok (refine_step k cur o).
Proof.
  intros k cur o Hd. unfold refine_step. destruct (step_minmax o) as [[lo hi]|]; [|exact Hd].
  unfold dom_ok in *; simpl.
  eapply Qcle_lt_trans; [apply qmin_le_r|].
  eapply Qclt_le_trans; [exact Hd | apply qmax_ge_r].
Qed.

Lemma step_covers_observed : forall (k : nkind) (cur : dom) (o : obs) (v : Qc), kind_ok k -> dom_ok cur ->
  In (Some v) o -> inside (refine_step k cur o) (denorm k cur v).
Proof.
  intros k cur o v Hk Hd Hin. apply In_finite in Hin.
  unfold refine_step. destruct (step_minmax o) as [[lo hi]|] eqn:E.
  - apply step_minmax_spec in E. destruct E as (_ & _ & A3). destruct (A3 v Hin) as [L H].
    unfold inside; simpl. split.
    + eapply Qcle_trans; [apply qmin_le_l | apply denorm_mono; assumption].
    + eapply Qcle_trans; [apply denorm_mono; eassumption | apply qmax_ge_l].
  - apply step_minmax_none in E. rewrite E in Hin. destruct Hin.
Qed.

Lemma step_is_hull : forall (k : nkind) (cur : dom) (o : obs) (d : dom), kind_ok k -> dom_ok cur ->
  contains d cur -> (forall v, In (Some v) o -> inside d (denorm k cur v)) -> contains d (refine_step k cur o).
Proof.
  intros k cur o d Hk Hd Hc Hall. unfold refine_step. destruct (step_minmax o) as [[lo hi]|] eqn:E; [|exact Hc].
  apply step_minmax_spec in E. destruct E as (A1 & A2 & _).
  apply In_finite in A1. apply In_finite in A2.
  destruct (Hall lo A1) as [L1 _]. destruct (Hall hi A2) as [_ H2]. destruct Hc as [C1 C2].
  unfold contains; simpl. split.
  - apply qmin_glb; assumption.
  - apply qmax_lub; assumption.
Qed.

Lemma all_nan_finite : forall o : obs, (forall x, In x o -> x = None) -> finite o = [].
Proof.
  induction o as [|[w|] r IH]; intro H; simpl.
  - reflexivity.
  - specialize (H (Some w) (or_introl eq_refl)). discriminate.
  - apply IH. intros x Hx. apply H. right; exact Hx.
Qed.

Lemma step_all_nan : forall (k : nkind) (cur : dom) (o : obs), (forall x, In x o -> x = None) -> refine_step k cur o = cur.
Proof.
  intros k cur o H. unfold refine_step, step_minmax. rewrite (all_nan_finite o H). reflexivity.
Qed.

Lemma step_order_independent : forall (k : nkind) (cur : dom) (o o' : obs), Permutation o o' ->
  refine_step k cur o = refine_step k cur o'.
Proof.
  intros k cur o o' P. unfold refine_step.
  rewrite (step_minmax_perm o o' (finite_perm o o' P)). reflexivity.
Qed.

(* ---------- runs ---------- *)

Lemma fixed_bounds_never_move : forall (k : nkind) (cur : dom) (steps : list obs) (d : dom),
  In d (run_bounds false k cur steps) -> d = cur.
Proof.
  intros k cur steps. revert cur. induction steps as [|o r IH]; intros cur d H; simpl in H.
  - destruct H.
  - destruct H as [H|H]; [symmetry; exact H | apply IH; exact H].
Qed.

Lemma run_monotone : forall (k : nkind) (cur : dom) (steps : list obs) (i : nat) (d d' : dom),
  nth_error (cur :: run_bounds true k cur steps) i = Some d ->
  nth_error (cur :: run_bounds true k cur steps) (S i) = Some d' -> contains d' d.
Proof.
  intros k cur steps. revert cur. induction steps as [|o r IH]; intros cur i d d' H1 H2.
  - simpl in H2. destruct i; discriminate.
  - simpl run_bounds in H1, H2. destruct i as [|j].
    + simpl in H1, H2. injection H1 as H1. injection H2 as H2. subst d d'. apply step_widens.
    + change (nth_error (refine_step k cur o :: run_bounds true k (refine_step k cur o) r) j = Some d) in H1.
      change (nth_error (refine_step k cur o :: run_bounds true k (refine_step k cur o) r) (S j) = Some d') in H2.
      exact (IH _ _ _ _ H1 H2).
Qed.

Lemma run_valid : forall (u : bool) (k : nkind) (cur : dom) (steps : list obs) (d : dom), dom_ok cur ->
  In d (run_bounds u k cur steps) -> dom_ok d /\ contains d cur.
Proof.
  intros u k cur steps. revert cur. induction steps as [|o r IH]; intros cur d Hd H; simpl in H.
  - destruct H.
  - set (d1 := if u then refine_step k cur o else cur) in *.
    assert (Hd1 : dom_ok d1 /\ contains d1 cur).
    { unfold d1. destruct u.
      - split; [apply step_valid; exact Hd | apply step_widens].
      - split; [exact Hd | apply contains_refl]. }
    destruct Hd1 as [V C]. destruct H as [H|H].
    + subst d. split; assumption.
    + destruct (IH d1 d V H) as [V' C']. split; [exact V' | eapply contains_trans; eassumption].
Qed.

(* ---------- estimate ---------- *)

Lemma estimate_covers : forall (k : nkind) (guess : dom) (t : obs) (v : Qc), kind_ok k -> dom_ok guess ->
  In (Some v) t -> inside (estimate k guess t) (denorm k guess v).
Proof.
  intros k guess t v Hk Hd Hin. apply In_finite in Hin.
  unfold estimate. destruct (step_minmax t) as [[lo hi]|] eqn:E.
  - apply step_minmax_spec in E. destruct E as (_ & _ & A3). destruct (A3 v Hin) as [L H].
    unfold inside; simpl. split; apply denorm_mono; assumption.
  - apply step_minmax_none in E. rewrite E in Hin. destruct Hin.
Qed.

Lemma estimate_tight : forall (k : nkind) (guess : dom) (t : obs) (v0 : Qc), In (Some v0) t ->
  (exists v, In (Some v) t /\ fst (estimate k guess t) = denorm k guess v) /\
  (exists v, In (Some v) t /\ snd (estimate k guess t) = denorm k guess v).
Proof.
  intros k guess t v0 Hin. apply In_finite in Hin.
  unfold estimate. destruct (step_minmax t) as [[lo hi]|] eqn:E.
  - apply step_minmax_spec in E. destruct E as (A1 & A2 & _).
    apply In_finite in A1. apply In_finite in A2. simpl. split.
    + exists lo. split; [exact A1 | reflexivity].
    + exists hi. split; [exact A2 | reflexivity].
  - apply step_minmax_none in E. rewrite E in Hin. destruct Hin.
Qed.

Lemma estimate_ignores_guess : forall (a b : Qc) (g g' : dom) (t : obs) (v0 : Qc), In (Some v0) t ->
  estimate (NAffine a b) g t = estimate (NAffine a b) g' t.
Proof.
  intros a b g g' t v0 Hin. apply In_finite in Hin.
  unfold estimate. destruct (step_minmax t) as [[lo hi]|] eqn:E.
  - reflexivity.
  - apply step_minmax_none in E. rewrite E in Hin. destruct Hin.
Qed.
