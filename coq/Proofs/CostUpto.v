(* Proofs/CostUpto.v — the allocation restricted to the first k calls (allocation_upto): proofs for Props/C09X.v *)
From Coq Require Import List Arith Bool ZArith QArith Qcanon Qround Lia.
From AmiscV Require Import Cost GridProofs.
Import ListNotations.

Lemma cost_history_length : forall calls old, length (fst (cost_history old calls)) = length calls.
Proof.
  induction calls as [|c rest IH]; intros old; [reflexivity|].
  rewrite cost_history_cons. cbv zeta.
  specialize (IH (match c with [] => old | _ :: _ => Some (update_cost old c) end)).
  destruct (cost_history (match c with [] => old | _ :: _ => Some (update_cost old c) end) rest) as [l fin].
  simpl in IH |- *. rewrite IH. reflexivity.
Qed.

Lemma alloc_upto_all : forall (calls : list (list Qc)) (k : nat),
  (length calls <= k)%nat -> allocation_upto k calls = allocation calls.
Proof.
  intros calls k Hk. unfold allocation_upto, allocation.
  pose proof (cost_history_length calls None) as HL.
  destruct (cost_history None calls) as [mcs fin]. simpl in HL.
  rewrite (firstn_all2 mcs) by lia. reflexivity.
Qed.

Lemma Forall_firstn_zero : forall (k : nat) (l : list nat),
  Forall (fun n => n = 0%nat) l -> Forall (fun n => n = 0%nat) (firstn k l).
Proof.
  induction k as [|k IH]; intros l H; [constructor|].
  destruct H as [|n l Hn Hl]; [constructor|].
  simpl. constructor; [exact Hn | apply IH; exact Hl].
Qed.

Lemma evals_all_zero (c : Qc) : forall l, Forall (fun n => n = 0%nat) l ->
  fold_right Z.add 0%Z (map (fun n => added_eval (c * qnat n)%Qc (Q2Qc 1)) l) =
  fold_right Z.add 0%Z (map Z.of_nat l).
Proof.
  intros l H. induction H as [|n l Hn Hl IH]; [reflexivity|].
  simpl. rewrite IH. subst n. rewrite added_eval_zero. reflexivity.
Qed.

Lemma alloc_upto_constant_cost : forall (c : Qc) (ns : list nat) (k : nat), (Q2Qc 0 < c)%Qc ->
  allocation_upto k (map (fun n => repeat c n) ns) = actual (firstn k (map (fun n => repeat c n) ns)).
Proof.
  intros c ns k Hpos. pose proof (Qc_pos_neq0 c Hpos) as Hc.
  unfold allocation_upto, actual.
  destruct (cost_history_const c ns None (or_introl eq_refl)) as [H1 H2].
  destruct (cost_history None (map (fun n => repeat c n) ns)) as [mcs fin] eqn:E.
  simpl in H1, H2. subst mcs. rewrite !firstn_map. f_equal.
  - apply qsum_misc.
  - rewrite length_concat_repeat. rewrite map_map.
    destruct H2 as [H2|[H2 [_ H3]]]; subst fin.
    + f_equal. apply map_ext. intros n. apply added_eval_const. exact Hc.
    + apply evals_all_zero. apply Forall_firstn_zero. exact H3.
Qed.

Lemma alloc_ignoring_k_refuted :
  exists (c : Qc) (ns : list nat),
    allocation (map (fun n => repeat c n) ns) <> actual (firstn 1 (map (fun n => repeat c n) ns)).
Proof.
  exists (Q2Qc 1), [1%nat; 2%nat]. intro H.
  apply (f_equal snd) in H. vm_compute in H. discriminate H.
Qed.
