(* Proofs/GraphProofs.v — proofs about Model/Graph.v for Props/C07X.v *)
From Coq Require Import List Arith Bool Lia.
From AmiscV Require Import Graph GraphDefs.
Import ListNotations.

(* ---------- boolean reflections ---------------------------------------------------------------------------- *)
Lemma nmem_In : forall v l, nmem v l = true <-> In v l.
Proof.
  intros v l. unfold nmem. rewrite existsb_exists. split.
  - intros [x [H1 H2]]. apply Nat.eqb_eq in H2. subst. auto.
  - intros H. exists v. split; auto. apply Nat.eqb_refl.
Qed.

Lemma nmem_nIn : forall v l, nmem v l = false <-> ~ In v l.
Proof.
  intros v l. rewrite <- not_true_iff_false. rewrite nmem_In. tauto.
Qed.

Lemma list_eqb_eq : forall a b, list_eqb a b = true -> a = b.
Proof.
  induction a as [|x a IH]; destruct b as [|y b]; simpl; intros H; try discriminate; auto.
  apply andb_prop in H. destruct H as [H1 H2]. apply Nat.eqb_eq in H1. subst. f_equal. auto.
Qed.

Lemma nodupb_NoDup : forall l, nodupb l = true -> NoDup l.
Proof.
  induction l as [|x l IH]; simpl; intros H.
  - constructor.
  - apply andb_prop in H. destruct H as [H1 H2]. constructor; auto.
    apply negb_true_iff in H1. apply nmem_nIn in H1. auto.
Qed.

(* ---------- producer / edges ------------------------------------------------------------------------------- *)
Lemma producer_from_spec : forall cs i v acc k,
  producer_from cs i v acc = Some k <->
  ((exists m c, nth_error cs m = Some c /\ In v (snd c) /\ k = i + m /\
      forall m' c', m < m' -> nth_error cs m' = Some c' -> ~ In v (snd c'))
   \/ ((forall m c, nth_error cs m = Some c -> ~ In v (snd c)) /\ acc = Some k)).
Proof.
  induction cs as [|c r IH]; intros i v acc k; simpl.
  - split.
    + intros H. right. split; auto. intros m c Hm. destruct m; discriminate.
    + intros [[m [c [Hm _]]]|[_ H]]; auto. destruct m; discriminate.
  - rewrite IH. clear IH. split.
    + intros [[m [c' [Hm [Hin [Hk Hlast]]]]]|[Hnone Hacc]].
      * left. exists (S m), c'. simpl. split; auto. split; auto. split. lia.
        intros m' c'' Hlt Hm'. destruct m' as [|m']. lia. simpl in Hm'.
        apply (Hlast m' c''). lia. auto.
      * destruct (nmem v (snd c)) eqn:Hc.
        -- left. exists 0, c. simpl. apply nmem_In in Hc. inversion Hacc.
           split; auto. split; auto. split. lia.
           intros m' c' Hlt Hm'. destruct m' as [|m']. lia. simpl in Hm'. eapply Hnone; eauto.
        -- right. split; auto. intros m c' Hm. destruct m as [|m].
           ++ simpl in Hm. inversion Hm. subst. apply nmem_nIn; auto.
           ++ simpl in Hm. eapply Hnone; eauto.
    + intros [[m [c' [Hm [Hin [Hk Hlast]]]]]|[Hnone Hacc]].
      * destruct m as [|m].
        -- simpl in Hm. inversion Hm; subst c'. right. split.
           ++ intros m c' Hm'. apply (Hlast (S m) c'). lia. simpl. auto.
           ++ apply nmem_In in Hin. rewrite Hin. f_equal. lia.
        -- simpl in Hm. left. exists m, c'. split; auto. split; auto. split. lia.
           intros m' c'' Hlt Hm'. apply (Hlast (S m') c''). lia. auto.
      * right. split.
        -- intros m c' Hm. apply (Hnone (S m) c'). auto.
        -- assert (H : ~ In v (snd c)) by (apply (Hnone 0 c); auto).
           apply nmem_nIn in H. rewrite H. auto.
Qed.

Lemma producer_spec : forall cs v i, producer cs v = Some i <-> last_producer cs v i.
Proof.
  intros cs v i. unfold producer, last_producer. rewrite producer_from_spec. split.
  - intros [[m [c [Hm [Hin [Hk Hl]]]]]|[_ H]]; [|discriminate].
    simpl in Hk. subst. split. exists c; auto. intros k c' Hlt Hk. eapply Hl; eauto.
  - intros [[c [Hc Hin]] Hl]. left. exists i, c. split; auto.
Qed.

Lemma in_edges_of : forall cs j c i j',
  In (i, j') (edges_of cs j c) <-> j' = j /\ exists v, In v (fst c) /\ producer cs v = Some i.
Proof.
  intros. unfold edges_of. rewrite in_flat_map. split.
  - intros [v [Hv H]]. destruct (producer cs v) eqn:Hp; simpl in H.
    + destruct H as [H|[]]. inversion H; subst. split; auto. exists v; auto.
    + destruct H.
  - intros [Hj [v [Hv Hp]]]. exists v. split; auto. rewrite Hp. left. subst; auto.
Qed.

Lemma in_edges_from : forall cs rest j0 i j,
  In (i, j) (edges_from cs rest j0) <->
  exists m c, nth_error rest m = Some c /\ j = j0 + m /\ exists v, In v (fst c) /\ producer cs v = Some i.
Proof.
  induction rest as [|a rest IH]; simpl; intros.
  - split. intros []. intros [m [c [Hm _]]]. destruct m; discriminate.
  - rewrite in_app_iff, in_edges_of, IH. split.
    + intros [[Hj Hv]|[m [c [Hm [Hj Hv]]]]].
      * exists 0, a. simpl. split; auto. split; auto. lia.
      * exists (S m), c. simpl. split; auto. split; auto. lia.
    + intros [m [c [Hm [Hj Hv]]]]. destruct m as [|m]; simpl in Hm.
      * inversion Hm; subst. left. split; [lia|auto].
      * right. exists m, c. split; auto. split; auto. lia.
Qed.

Lemma edges_spec : forall (cs : list cio) (i j : nat), In (i, j) (edges cs) <-> depends cs i j.
Proof.
  intros. unfold edges, depends. rewrite in_edges_from. split.
  - intros [m [c [Hm [Hj [v [Hv Hp]]]]]]. simpl in Hj; subst. exists c, v.
    rewrite <- producer_spec. auto.
  - intros [c [v [Hc [Hv Hp]]]]. exists j, c. split; auto. split; auto.
    exists v. rewrite producer_spec. auto.
Qed.

Lemma edges_in_range : forall (cs : list cio), edges_within (edges cs) (length cs).
Proof.
  intros cs a b H. apply edges_spec in H.
  destruct H as [c [v [Hc [_ [[c' [Hc' _]] _]]]]].
  split; apply nth_error_Some; congruence.
Qed.

(* ---------- reachability ----------------------------------------------------------------------------------- *)
Lemma in_succs : forall E a b, In b (succs E a) <-> In (a, b) E.
Proof.
  intros. unfold succs. rewrite in_map_iff. split.
  - intros [[x y] [H1 H2]]. simpl in H1. subst. apply filter_In in H2.
    destruct H2 as [H2 H3]. simpl in H3. apply Nat.eqb_eq in H3. subst; auto.
  - intros H. exists (a, b). split; auto. apply filter_In. split; auto. simpl. apply Nat.eqb_refl.
Qed.

Lemma in_add_new : forall l R x, In x (add_new R l) <-> In x R \/ In x l.
Proof.
  induction l as [|a l IH]; simpl; intros.
  - tauto.
  - destruct (nmem a R) eqn:H.
    + rewrite IH. apply nmem_In in H. intuition. subst; auto.
    + rewrite IH, in_app_iff. simpl. tauto.
Qed.

Lemma NoDup_snoc : forall (R : list nat) a, NoDup R -> ~ In a R -> NoDup (R ++ [a]).
Proof.
  induction R as [|x R IH]; simpl; intros a H Ha.
  - constructor; auto.
  - inversion H; subst. constructor.
    + rewrite in_app_iff. simpl. intuition.
    + apply IH; auto.
Qed.

Lemma add_new_NoDup : forall l R, NoDup R -> NoDup (add_new R l).
Proof.
  induction l as [|a l IH]; simpl; intros; auto.
  destruct (nmem a R) eqn:H'; auto.
  apply IH. apply NoDup_snoc; auto. apply nmem_nIn; auto.
Qed.

Lemma add_new_length : forall l R, length R <= length (add_new R l).
Proof.
  induction l as [|a l IH]; simpl; intros; auto.
  destruct (nmem a R); auto.
  specialize (IH (R ++ [a])). rewrite app_length in IH. simpl in IH. lia.
Qed.

Lemma add_new_length_eq : forall l R, length (add_new R l) = length R -> add_new R l = R /\ incl l R.
Proof.
  induction l as [|a l IH]; simpl; intros R H.
  - split; auto. intros x [].
  - destruct (nmem a R) eqn:H'.
    + destruct (IH R H) as [H1 H2]. split; auto. apply nmem_In in H'.
      intros x [Hx|Hx]; subst; auto.
    + exfalso. pose proof (add_new_length l (R ++ [a])) as HL.
      rewrite app_length in HL. simpl in HL. lia.
Qed.

Lemma in_grow : forall E R x, In x (grow E R) <-> In x R \/ exists y, In y R /\ In (y, x) E.
Proof.
  intros. unfold grow. rewrite in_add_new, in_flat_map.
  split; intros [H|[y [H1 H2]]]; auto; right; exists y; split; auto; apply in_succs; auto.
Qed.

Definition closed (E : list edge) (R : list nat) : Prop :=
  forall x y, In x R -> In (x, y) E -> In y R.

Lemma lt_list_length : forall n (R : list nat), NoDup R -> (forall x, In x R -> x < n) -> length R <= n.
Proof.
  intros n R H H0. rewrite <- (seq_length n 0). apply NoDup_incl_length; auto.
  intros x Hx. apply in_seq. specialize (H0 x Hx). lia.
Qed.

Lemma saturate_spec : forall E n, edges_within E n -> forall fuel R,
  NoDup R -> (forall x, In x R -> x < n) -> n - length R < fuel ->
  exists R', saturate E fuel R = Some R' /\ incl R R' /\
             (forall x, In x R' -> exists y, In y R /\ path E y x) /\ closed E R'.
Proof.
  intros E n HE. induction fuel as [|fuel IH]; intros R HN HR Hf. lia.
  simpl. destruct (Nat.eqb (length (grow E R)) (length R)) eqn:Hl.
  - apply Nat.eqb_eq in Hl. exists R. split; auto. split. apply incl_refl. split.
    + intros x Hx; exists x; split; auto; constructor.
    + unfold grow in Hl. apply add_new_length_eq in Hl. destruct Hl as [_ Hl].
      intros x y Hx Hxy. apply Hl. apply in_flat_map. exists x. split; auto. apply in_succs; auto.
  - apply Nat.eqb_neq in Hl.
    assert (HL : length R <= length (grow E R)) by apply add_new_length.
    assert (HN' : NoDup (grow E R)) by (apply add_new_NoDup; auto).
    assert (HR' : forall x, In x (grow E R) -> x < n).
    { intros x Hx. apply in_grow in Hx. destruct Hx as [Hx|[y [_ Hy]]]; auto. apply HE in Hy. tauto. }
    assert (HL' : length (grow E R) <= n) by (apply lt_list_length; auto).
    destruct (IH (grow E R) HN' HR') as [R' [H1 [H2 [H3 H4]]]]. lia.
    exists R'. split; auto. split.
    + intros x Hx. apply H2. apply in_grow; auto.
    + split; auto. intros x Hx. destruct (H3 x Hx) as [y [Hy Hp]].
      apply in_grow in Hy. destruct Hy as [Hy|[z [Hz Hzy]]].
      * exists y; auto.
      * exists z. split; auto. econstructor; eauto.
Qed.

Lemma closed_path : forall E R, closed E R -> forall a b, path E a b -> In a R -> In b R.
Proof.
  intros E R HC a b Hp. induction Hp; intros; auto. apply IHHp. eapply HC; eauto.
Qed.

Lemma reaches_spec : forall (E : list edge) (n a b : nat), edges_within E n -> a < n ->
  reaches E n a b = true <-> path E a b.
Proof.
  intros E n a b HE Ha. unfold reaches, reach_set.
  destruct (saturate_spec E n HE (S n) [a]) as [R' [H1 [H2 [H3 H4]]]].
  - constructor; [intros []|constructor].
  - intros x [<-|[]]; auto.
  - simpl; lia.
  - rewrite H1. rewrite nmem_In. split.
    + intros Hb. destruct (H3 b Hb) as [y [[<-|[]] Hp]]. auto.
    + intros Hp. eapply closed_path; eauto. apply H2. left; auto.
Qed.

Lemma path_trans : forall E a b c, path E a b -> path E b c -> path E a c.
Proof.
  intros E a b c H. induction H; intros; auto. econstructor; eauto.
Qed.

Lemma connected_refl : forall E a, connected E a a.
Proof. intros; split; constructor. Qed.

Lemma connected_sym : forall E a b, connected E a b -> connected E b a.
Proof. intros E a b [H1 H2]; split; auto. Qed.

Lemma connected_trans : forall E a b c, connected E a b -> connected E b c -> connected E a c.
Proof. intros E a b c [H1 H2] [H3 H4]; split; eapply path_trans; eauto. Qed.

Lemma mutual_spec : forall E n a b, edges_within E n -> a < n -> b < n ->
  mutual E n a b = true <-> connected E a b.
Proof.
  intros. unfold mutual, connected. rewrite andb_true_iff.
  rewrite !reaches_spec; auto. tauto.
Qed.

(* ---------- strongly connected components ------------------------------------------------------------------ *)
Lemma in_scc_of : forall E n a b, In b (scc_of E n a) <-> b < n /\ mutual E n a b = true.
Proof.
  intros. unfold scc_of. rewrite filter_In, in_seq. intuition lia.
Qed.

Lemma in_scc_of_conn : forall E n a b, edges_within E n -> a < n ->
  In b (scc_of E n a) <-> b < n /\ connected E a b.
Proof.
  intros. rewrite in_scc_of. split; intros [H1 H2]; split; auto; apply (mutual_spec E n a b); auto.
Qed.

Lemma scc_of_NoDup : forall E n a, NoDup (scc_of E n a).
Proof. intros. unfold scc_of. apply NoDup_filter. apply seq_NoDup. Qed.

Lemma scc_of_eq : forall E n a b, edges_within E n -> a < n -> b < n -> connected E a b ->
  scc_of E n a = scc_of E n b.
Proof.
  intros E n a b HE Ha Hb Hc. unfold scc_of. apply filter_ext_in. intros x Hx.
  apply in_seq in Hx. assert (Hx' : x < n) by lia.
  apply eq_iff_eq_true. rewrite !mutual_spec; auto. split; intros H.
  - eapply connected_trans; eauto. apply connected_sym; auto.
  - eapply connected_trans; eauto.
Qed.

Lemma self_in_scc : forall E n a, edges_within E n -> a < n -> In a (scc_of E n a).
Proof. intros. apply in_scc_of_conn; auto. split; auto. apply connected_refl. Qed.

Lemma in_sccs : forall E n g, In g (sccs E n) <-> exists l, l < n /\ is_leader E n l = true /\ g = scc_of E n l.
Proof.
  intros. unfold sccs. rewrite in_map_iff. split.
  - intros [l [H1 H2]]. apply filter_In in H2. destruct H2 as [H2 H3]. apply in_seq in H2.
    exists l. split. lia. split; auto.
  - intros [l [H1 [H2 H3]]]. exists l. split; auto. apply filter_In. split; auto. apply in_seq. lia.
Qed.

Lemma head_is_leader : forall E n a h t, edges_within E n -> a < n -> scc_of E n a = h :: t ->
  h < n /\ is_leader E n h = true /\ scc_of E n h = scc_of E n a.
Proof.
  intros E n a h t HE Ha Hs.
  assert (Hh : In h (scc_of E n a)) by (rewrite Hs; left; auto).
  apply in_scc_of_conn in Hh; auto. destruct Hh as [Hh Hc].
  assert (He : scc_of E n h = scc_of E n a) by (symmetry; apply scc_of_eq; auto).
  split; auto. split; auto. unfold is_leader. rewrite He, Hs. apply Nat.eqb_refl.
Qed.

Lemma scc_of_in_sccs : forall E n a, edges_within E n -> a < n -> In (scc_of E n a) (sccs E n).
Proof.
  intros E n a HE Ha. destruct (scc_of E n a) as [|h t] eqn:Hs.
  - pose proof (self_in_scc E n a HE Ha) as H. rewrite Hs in H. destruct H.
  - destruct (head_is_leader E n a h t HE Ha Hs) as [H1 [H2 H3]].
    apply in_sccs. exists h. split; auto. split; auto. rewrite H3. auto.
Qed.

Lemma sccs_partition : forall (E : list edge) (n a : nat), edges_within E n -> a < n ->
  exists g, In g (sccs E n) /\ In a g /\ forall g', In g' (sccs E n) -> In a g' -> g' = g.
Proof.
  intros E n a HE Ha. exists (scc_of E n a). split. apply scc_of_in_sccs; auto.
  split. apply self_in_scc; auto.
  intros g' Hg' Hin. apply in_sccs in Hg'. destruct Hg' as [l [Hl [_ ->]]].
  apply in_scc_of_conn in Hin; auto. destruct Hin as [_ Hc]. apply scc_of_eq; auto.
Qed.

Lemma sccs_are_components : forall (E : list edge) (n : nat) (g : list nat) (a b : nat), edges_within E n ->
  In g (sccs E n) -> In a g -> (In b g <-> b < n /\ connected E a b).
Proof.
  intros E n g a b HE Hg Ha. apply in_sccs in Hg. destruct Hg as [l [Hl [_ ->]]].
  apply in_scc_of_conn in Ha; auto. destruct Ha as [Ha Hc].
  rewrite in_scc_of_conn; auto. split; intros [H1 H2]; split; auto.
  - eapply connected_trans; eauto. apply connected_sym; auto.
  - eapply connected_trans; eauto.
Qed.

(* ---------- plans ------------------------------------------------------------------------------------------ *)
Lemma plan_ok_parts : forall E n plan, plan_ok E n plan = true ->
  length (concat plan) = n /\ NoDup (concat plan) /\ (forall a, In a (concat plan) -> a < n) /\
  (forall g, In g plan -> exists a t, g = a :: t /\ g = scc_of E n a) /\
  (forall e, In e E -> edge_forward plan e = true).
Proof.
  intros E n plan H. unfold plan_ok in H.
  apply andb_prop in H. destruct H as [H H5].
  apply andb_prop in H. destruct H as [H H4].
  apply andb_prop in H. destruct H as [H H3].
  apply andb_prop in H. destruct H as [H1 H2].
  split. apply Nat.eqb_eq; auto.
  split. apply nodupb_NoDup; auto.
  split. { intros a Ha. rewrite forallb_forall in H3. apply Nat.ltb_lt. apply H3; auto. }
  split.
  - intros g Hg. rewrite forallb_forall in H4. specialize (H4 g Hg).
    destruct g as [|a t]. discriminate. exists a, t. split; auto. apply list_eqb_eq; auto.
  - rewrite forallb_forall in H5. auto.
Qed.

Lemma plan_covers : forall E n plan, plan_ok E n plan = true -> forall a, a < n -> In a (concat plan).
Proof.
  intros E n plan H a Ha. destruct (plan_ok_parts E n plan H) as [H1 [H2 [H3 _]]].
  assert (Hi : incl (seq 0 n) (concat plan)).
  { apply NoDup_length_incl; auto.
    - rewrite seq_length. lia.
    - intros x Hx. apply in_seq. specialize (H3 x Hx). lia. }
  apply Hi. apply in_seq. lia.
Qed.

Lemma plan_once : forall (E : list edge) (n : nat) (plan : list (list nat)), edges_within E n ->
  plan_ok E n plan = true -> NoDup (concat plan) /\ forall a, In a (concat plan) <-> a < n.
Proof.
  intros E n plan HE H. destruct (plan_ok_parts E n plan H) as [H1 [H2 [H3 _]]].
  split; auto. intros a. split; auto. apply (plan_covers E n plan H).
Qed.

Lemma plan_groups : forall (E : list edge) (n : nat) (plan : list (list nat)), edges_within E n ->
  plan_ok E n plan = true -> forall g, In g plan <-> In g (sccs E n).
Proof.
  intros E n plan HE H g. destruct (plan_ok_parts E n plan H) as [H1 [H2 [H3 [H4 H5]]]]. split.
  - intros Hg. destruct (H4 g Hg) as [a [t [Hg1 Hg2]]].
    assert (Ha : In a (scc_of E n a)) by (rewrite <- Hg2, Hg1; left; auto).
    apply in_scc_of in Ha. destruct Ha as [Ha _].
    rewrite Hg2. apply scc_of_in_sccs; auto.
  - intros Hg. apply in_sccs in Hg. destruct Hg as [l [Hl [_ ->]]].
    pose proof (plan_covers E n plan H l Hl) as Hc. apply in_concat in Hc.
    destruct Hc as [g' [Hg' Hl']]. destruct (H4 g' Hg') as [a [t [Hg1 Hg2]]].
    assert (Ha : In a (scc_of E n a)) by (rewrite <- Hg2, Hg1; left; auto).
    apply in_scc_of in Ha. destruct Ha as [Ha _].
    rewrite Hg2 in Hl'. apply in_scc_of_conn in Hl'; auto. destruct Hl' as [_ Hc].
    assert (He : scc_of E n l = g').
    { rewrite Hg2. symmetry. apply scc_of_eq; auto. }
    rewrite He. auto.
Qed.

Lemma group_index_some : forall plan a i, group_index plan a = Some i ->
  exists g, nth_error plan i = Some g /\ In a g.
Proof.
  induction plan as [|g plan IH]; simpl; intros a i H. discriminate.
  destruct (nmem a g) eqn:Hm.
  - inversion H; subst. exists g. split; auto. apply nmem_In; auto.
  - destruct (group_index plan a) as [k|] eqn:Hk; try discriminate. inversion H; subst.
    destruct (IH a k Hk) as [g' [H1 H2]]. exists g'. split; auto.
Qed.

Lemma group_index_in : forall plan a, In a (concat plan) -> exists i, group_index plan a = Some i.
Proof.
  induction plan as [|g plan IH]; simpl; intros a H. destruct H.
  destruct (nmem a g) eqn:Hm. exists 0; auto.
  apply in_app_iff in H. destruct H as [H|H].
  - apply nmem_In in H. congruence.
  - destruct (IH a H) as [i Hi]. rewrite Hi. exists (S i); auto.
Qed.

Lemma same_group_connected : forall E n plan g a b, edges_within E n -> plan_ok E n plan = true ->
  In g plan -> In a g -> In b g -> connected E a b.
Proof.
  intros E n plan g a b HE H Hg Ha Hb. apply (plan_groups E n plan HE H) in Hg.
  apply (sccs_are_components E n g a b HE Hg Ha) in Hb. tauto.
Qed.

Lemma plan_dependency_order : forall (E : list edge) (n : nat) (plan : list (list nat)) (a b i j : nat), edges_within E n ->
  plan_ok E n plan = true -> path E a b -> group_index plan a = Some i -> group_index plan b = Some j ->
  i <= j /\ (i = j -> connected E a b).
Proof.
  intros E n plan a b i j HE H Hp. revert i j.
  destruct (plan_ok_parts E n plan H) as [H1 [H2 [H3 [H4 H5]]]].
  induction Hp as [a|a b c Hab Hbc IH]; intros i j Hi Hj.
  - rewrite Hi in Hj. inversion Hj; subst. split; auto. intros _. apply connected_refl.
  - pose proof (H5 _ Hab) as Hf. unfold edge_forward in Hf. simpl in Hf. rewrite Hi in Hf.
    destruct (group_index plan b) as [k|] eqn:Hk; try discriminate.
    apply Nat.leb_le in Hf. destruct (IH k j eq_refl Hj) as [Hkj Hc].
    split. lia. intros Hij. assert (k = j) by lia. assert (i = k) by lia. subst k. subst i.
    specialize (Hc eq_refl).
    destruct (group_index_some plan a j Hi) as [g [Hg Ha]].
    destruct (group_index_some plan b j Hk) as [g' [Hg' Hb]].
    rewrite Hg in Hg'. inversion Hg'; subst g'. apply nth_error_In in Hg.
    eapply connected_trans; eauto. eapply same_group_connected; eauto.
Qed.

(* ---------- the feedback test ------------------------------------------------------------------------------ *)
Lemma other_member : forall (l : list nat) a, 1 < length l -> NoDup l -> exists b, In b l /\ b <> a.
Proof.
  intros l a Hl Hn. destruct l as [|x [|y t]]; simpl in Hl; try lia.
  inversion Hn; subst. destruct (Nat.eq_dec x a) as [Hx|Hx].
  - exists y. split. right; left; auto. intros Hy. subst. apply H1. left; auto.
  - exists x. split; auto. left; auto.
Qed.

Lemma loop_members_on_cycle : forall (E : list edge) (n : nat) (g : list nat) (a : nat), edges_within E n ->
  In g (sccs E n) -> is_loop g = true -> In a g -> path1 E a a.
Proof.
  intros E n g a HE Hg Hl Ha. unfold is_loop in Hl. apply Nat.ltb_lt in Hl.
  assert (Hn : NoDup g).
  { apply in_sccs in Hg. destruct Hg as [l [_ [_ ->]]]. apply scc_of_NoDup. }
  destruct (other_member g a Hl Hn) as [b [Hb Hne]].
  apply (sccs_are_components E n g a b HE Hg Ha) in Hb. destruct Hb as [_ [Hab Hba]].
  inversion Hab; subst. congruence.
  exists b0. split; auto. eapply path_trans; eauto.
Qed.

Lemma two_members : forall (l : list nat) a b, In a l -> In b l -> a <> b -> 2 <= length l.
Proof.
  intros l a b Ha Hb Hne. destruct l as [|x [|y t]]; simpl in *; lia.
Qed.

Lemma single_call_no_cycle : forall (E : list edge) (n : nat) (g : list nat) (a b : nat), edges_within E n ->
  In g (sccs E n) -> is_loop g = false -> In a g -> b < n -> b <> a -> ~ connected E a b.
Proof.
  intros E n g a b HE Hg Hl Ha Hb Hne Hc. unfold is_loop in Hl. apply Nat.ltb_ge in Hl.
  assert (Hin : In b g) by (apply (sccs_are_components E n g a b HE Hg Ha); auto).
  pose proof (two_members g a b Ha Hin) as H2. assert (a <> b) by auto. specialize (H2 H). lia.
Qed.

Lemma acyclic_plan_is_topological : forall (E : list edge) (n : nat) (plan : list (list nat)), edges_within E n ->
  plan_ok E n plan = true -> (forall a, ~ path1 E a a) ->
  forall a b i j, In (a, b) E -> group_index plan a = Some i -> group_index plan b = Some j -> i < j.
Proof.
  intros E n plan HE H Hac a b i j Hab Hi Hj.
  assert (Hp : path E a b) by (econstructor; [eauto|constructor]).
  destruct (plan_dependency_order E n plan a b i j HE H Hp Hi Hj) as [Hle Hc].
  destruct (Nat.eq_dec i j) as [He|He]; [|lia].
  exfalso. destruct (Hc He) as [_ Hba]. apply (Hac a). exists b. split; auto.
Qed.

(* witness: one component reading the exogenous variable 0 and its own output 1 *)
Lemma self_feedback_is_a_single_call :
  exists (cs : list cio) (g : list nat) (a : nat),
    In g (system_sccs cs) /\ In a g /\ is_loop g = false /\ path1 (edges cs) a a.
Proof.
  exists [([0; 1], [1])], [0], 0.
  split; [vm_compute; left; reflexivity|].
  split; [left; reflexivity|].
  split; [reflexivity|].
  exists 0. split; [vm_compute; left; reflexivity | apply path_refl].
Qed.
