(* Proofs/TransfParams.v — the side condition chain_ok of the round-trip theorems follows from the parameters of the chain and
   the variable's own hyper-parameters (statements of Props/C16X.v).
   Every non-Log stage is an affine map x |-> c * x + d with c != 0 as soon as its parameters (or the hyper-parameters that
   override them) are non-degenerate; pushing the hyper-parameters through such a map keeps the domain bounds distinct and
   turns the standard deviation s into |c * s| > 0. *)
From mathcomp Require Import all_ssreflect all_algebra.
From mathcomp Require Import ring.
From AmiscV Require Import Field Transf LagrDefs TransfProofs.
Set Implicit Arguments. Unset Strict Implicit. Unset Printing Implicit Defensive.
Import Order.Theory GRing.Theory Num.Theory.
Local Open Scope ring_scope.

(* identical copies of the definitions of Props/C16X.v *)
Definition params_ok (F : realFieldType) (has_dom has_dist : bool) (t : tr (F:=F)) : bool :=
  match t with
  | Linear m _ => m != 0
  | Logt _ _ => false
  | Minmax lb ub lbn ubn => (has_dom || (ub - lb != 0)) && (ubn - lbn != 0)
  | Zscore _ std => has_dist || (std != 0)
  end.

Definition hyper_ok (F : realFieldType) (h : hyper (F:=F)) : bool :=
  (if h_dom h is Some (a, b) then a != b else true) && (if h_dist h is Some (_, s) then s != 0 else true).

Section Params.
Variable F : realFieldType.
Variables lg ex : F -> F.
Local Notation K := (mc_ops F).
Implicit Types (t : tr (F:=F)) (chain : seq (tr (F:=F))) (h : hyper (F:=F)) (x y : F).

Lemma absF_mc x : absF K x = `|x|.
Proof. by rewrite /absF /=; case: ger0P. Qed.

(* a non-degenerate stage is non-degenerate in the sense of stage_ok, and affine with a non-zero slope *)
Lemma stage_affine t h :
  params_ok (isSome (h_dom h)) (isSome (h_dist h)) t -> hyper_ok h ->
  stage_ok K lg t h /\
  exists2 c : F, c != 0 &
    forall x y, apply1 K lg ex t false h x - apply1 K lg ex t false h y = c * (x - y).
Proof.
case: t => [m b|base off|lb ub lbn ubn|mu std] //=; rewrite /hyper_ok /divF /=.
- move=> m0 _; split=> //; exists m => // x y; ring.
- case: (h_dom h) => [[a b]|] /=.
  + move=> n0 /andP[ab _].
    have d0 : b - a != 0 by rewrite subr_eq0 eq_sym.
    split; first by rewrite d0.
    exists ((ubn - lbn) / (b - a)); first by rewrite mulf_neq0 ?invr_neq0.
    by move=> x y; move: (b - a)^-1 => i; ring.
  + move=> /andP[d0 n0] _.
    split; first by rewrite d0.
    exists ((ubn - lbn) / (ub - lb)); first by rewrite mulf_neq0 ?invr_neq0.
    by move=> x y; move: (ub - lb)^-1 => i; ring.
- case: (h_dist h) => [[a s]|] /=.
  + move=> _ /andP[_ s0]; split=> //.
    exists s^-1; first by rewrite invr_neq0.
    by move=> x y; move: s^-1 => i; ring.
  + move=> s0 _; split=> //.
    exists std^-1; first by rewrite invr_neq0.
    by move=> x y; move: std^-1 => i; ring.
Qed.

(* pushing the hyper-parameters through a non-degenerate stage keeps them non-degenerate and keeps their presence *)
Lemma push_ok t h :
  params_ok (isSome (h_dom h)) (isSome (h_dist h)) t -> hyper_ok h ->
  [/\ stage_ok K lg t h,
      hyper_ok (push_hyper K lg ex t h),
      isSome (h_dom (push_hyper K lg ex t h)) = isSome (h_dom h) &
      isSome (h_dist (push_hyper K lg ex t h)) = isSome (h_dist h)].
Proof.
move=> pt ht; have [st [c c0 aff]] := stage_affine pt ht.
split=> //; rewrite /push_hyper /=; last 2 first.
- by case: (h_dom h) => [[a b]|].
- by case: (h_dist h) => [[a b]|].
move: ht; rewrite /hyper_ok /=.
case: (h_dom h) => [[a b]|]; case: (h_dist h) => [[mu s]|] //=.
- move=> /andP[ab s0]; apply/andP; split.
    by rewrite -subr_eq0 aff mulf_neq0 // subr_eq0.
  by rewrite absF_mc normr_eq0 aff mulf_neq0 // addrC addKr.
- by move=> /andP[ab _]; rewrite andbT -subr_eq0 aff mulf_neq0 // subr_eq0.
- by move=> s0; rewrite absF_mc normr_eq0 aff mulf_neq0 // addrC addKr.
Qed.

Lemma chain_ok_of_params chain h :
  all (params_ok (isSome (h_dom h)) (isSome (h_dist h))) chain -> hyper_ok h ->
  chain_ok K lg ex chain h.
Proof.
elim: chain h => [|t rest IH] h //= /andP[pt pr] ht.
have [st hp Ed Es] := push_ok pt ht.
by rewrite st /=; apply: IH => //; rewrite Ed Es.
Qed.

Lemma nolog_of_params (bd bs : bool) chain : all (params_ok bd bs) chain -> nolog chain.
Proof. by apply: sub_all; case. Qed.

Lemma roundtrip_of_params chain h x :
  all (params_ok (isSome (h_dom h)) (isSome (h_dist h))) chain -> hyper_ok h ->
  denormalize K lg ex chain h (normalize K lg ex chain h x) = x /\
  normalize K lg ex chain h (denormalize K lg ex chain h x) = x.
Proof.
move=> pc ht.
have nl := nolog_of_params pc.
have ok := chain_ok_of_params pc ht.
by split; [apply: denorm_norm | apply: norm_denorm].
Qed.

Lemma pushed_std_positive t h (mu s : F) :
  params_ok (isSome (h_dom h)) (isSome (h_dist h)) t -> hyper_ok h -> h_dist h = Some (mu, s) ->
  exists mu' s', h_dist (push_hyper K lg ex t h) = Some (mu', s') /\ 0 < s'.
Proof.
move=> pt ht E; have [_ [c c0 aff]] := stage_affine pt ht.
rewrite /push_hyper /= E.
exists (apply1 K lg ex t false h mu), (absF K (apply1 K lg ex t false h (mu + s) - apply1 K lg ex t false h mu)).
split=> //.
rewrite absF_mc normr_gt0 aff mulf_neq0 // addrC addKr.
by move: ht; rewrite /hyper_ok E => /andP[_].
Qed.

End Params.
