(* Proofs/GraphDefs.v — specification vocabulary for Model/Graph.v (no executable content) *)
From Coq Require Import List Arith Bool.
From AmiscV Require Import Graph.
Import ListNotations.

(* the edges stay inside the node range *)
Definition edges_within (E : list edge) (n : nat) : Prop := forall a b, In (a, b) E -> a < n /\ b < n.

(* a directed path of any length (possibly empty) *)
Inductive path (E : list edge) : nat -> nat -> Prop :=
| path_refl : forall a, path E a a
| path_step : forall a b c, In (a, b) E -> path E b c -> path E a c.

(* a directed path with at least one edge *)
Definition path1 (E : list edge) (a c : nat) : Prop := exists b, In (a, b) E /\ path E b c.

(* a and b lie in one strongly connected component *)
Definition connected (E : list edge) (a b : nat) : Prop := path E a b /\ path E b a.

(* the specification of System.graph: an edge i -> j iff component j consumes a variable whose last producer in the listing is i *)
Definition last_producer (cs : list cio) (v i : nat) : Prop :=
  (exists c, nth_error cs i = Some c /\ In v (snd c)) /\
  forall k c, i < k -> nth_error cs k = Some c -> ~ In v (snd c).
Definition depends (cs : list cio) (i j : nat) : Prop :=
  exists c v, nth_error cs j = Some c /\ In v (fst c) /\ last_producer cs v i.
