(* Proofs/RefineProofs.v — proofs for C08: the NaN-aware argmax scan of System.refine (Model/Refine.v), the outer loop
   of System.fit, and the index-set consequences taken from the C02 library (Proofs/MiscC02.v). *)
From Coq Require Import List Arith Bool Lia QArith Qcanon Permutation.
From AmiscV Require Import Misc MiscDefs MiscC02 Refine.
Import ListNotations.

(* ------------------------------------------------------------------ order reflection on Qc *)
Lemma qle_bool_true : forall a b : Qc, Qle_bool (this a) (this b) = true <-> (a <= b)%Qc.
Proof. intros a b. unfold Qcle. apply Qle_bool_iff. Qed.

Lemma qle_bool_false : forall a b : Qc, Qle_bool (this a) (this b) = false <-> (b < a)%Qc.
Proof.
  intros a b. split.
  - intro H. apply Qcnot_le_lt. intro L. apply qle_bool_true in L. rewrite L in H. discriminate.
  - intro H. destruct (Qle_bool (this a) (this b)) eqn:E; [|reflexivity].
    apply qle_bool_true in E. exfalso. exact (Qclt_not_le _ _ H E).
Qed.

Lemma gt_opt_spec : forall x best, gt_opt x best = true <->
  exists a, x = Some a /\ (best = None \/ exists b, best = Some b /\ (b < a)%Qc).
Proof.
  intros x best. unfold gt_opt. destruct x as [a|].
  - destruct best as [b|].
    + rewrite negb_true_iff, qle_bool_false. split.
      * intro H. exists a. split; [reflexivity|]. right. exists b. split; [reflexivity | exact H].
      * intros [a' [Ea [Hn | [b' [Eb Hlt]]]]]; [discriminate|].
        injection Ea as Ea. injection Eb as Eb. subst. exact Hlt.
    + split; [|reflexivity]. intros _. exists a. split; [reflexivity | left; reflexivity].
  - split; [discriminate|]. intros [a [Ea _]]. discriminate.
Qed.

Lemma gt_opt_false_some : forall x b, gt_opt x (Some b) = false ->
  x = None \/ exists a, x = Some a /\ (a <= b)%Qc.
Proof.
  intros x b H. destruct x as [a|]; [|left; reflexivity].
  right. exists a. split; [reflexivity|]. simpl in H. apply negb_false_iff in H.
  apply qle_bool_true. exact H.
Qed.

Lemma gt_opt_false_none : forall x, gt_opt x None = false -> x = None.
Proof. intros x H. destruct x as [a|]; [discriminate H | reflexivity]. Qed.

(* ------------------------------------------------------------------ the scan invariant *)
Definition below_lt (b : Qc) (c' : rcand) : Prop :=
  indicator c' = None \/ exists i', indicator c' = Some i' /\ (i' < b)%Qc.

Definition all_le (b : Qc) (cs : list rcand) : Prop :=
  forall c' i', In c' cs -> indicator c' = Some i' -> (i' <= b)%Qc.

(* what is known about the result of a scan of cs *)
Definition RInv (cs : list rcand) (r : option rcand) : Prop :=
  match r with
  | Some c0 => exists b pre post, indicator c0 = Some b /\ cs = pre ++ c0 :: post /\
                 all_le b cs /\ (forall c', In c' pre -> below_lt b c')
  | None => forall c', In c' cs -> indicator c' = None
  end.

(* the running state (best, star) after `scanned` *)
Definition SInv (scanned : list rcand) (best : option Qc) (star : option rcand) : Prop :=
  match star with
  | Some c0 => exists b pre post, best = Some b /\ indicator c0 = Some b /\ scanned = pre ++ c0 :: post /\
                 all_le b scanned /\ (forall c', In c' pre -> below_lt b c')
  | None => best = None /\ forall c', In c' scanned -> indicator c' = None
  end.

Lemma scan_spec : forall rest scanned best star, SInv scanned best star ->
  RInv (scanned ++ rest) (scan rest best star).
Proof.
  induction rest as [|c rest IH]; intros scanned best star HS.
  - simpl. rewrite app_nil_r. destruct star as [c0|].
    + destruct HS as [b [pre [post [Hb [Hi [Hsp [Hle Hlt]]]]]]].
      exists b, pre, post. repeat split; assumption.
    + destruct HS as [_ Hn]. exact Hn.
  - simpl.
    assert (Eapp : scanned ++ c :: rest = (scanned ++ [c]) ++ rest).
    { rewrite <- app_assoc. reflexivity. }
    rewrite Eapp.
    destruct (gt_opt (indicator c) best) eqn:G.
    + (* c becomes the new running maximum *)
      apply IH. apply gt_opt_spec in G. destruct G as [a [Ea Hbest]].
      exists a, scanned, []. split; [exact Ea|]. split; [exact Ea|]. split; [reflexivity|].
      destruct star as [c0|].
      * destruct HS as [b [pre [post [Hb [Hi [Hsp [Hle Hlt]]]]]]].
        assert (Hba : (b < a)%Qc).
        { destruct Hbest as [Hn | [b' [Eb Hl]]].
          - rewrite Hb in Hn. discriminate.
          - rewrite Hb in Eb. injection Eb as Eb. subst b'. exact Hl. }
        split.
        -- intros c' i' Hin Hi'. apply in_app_or in Hin. destruct Hin as [Hin | Hin].
           ++ apply Qclt_le_weak. apply (Qcle_lt_trans _ b); [|exact Hba].
              apply (Hle c' i' Hin Hi').
           ++ destruct Hin as [Hin | []]. subst c'. rewrite Ea in Hi'. injection Hi' as Hi'. subst i'.
              apply Qcle_refl.
        -- intros c' Hin. unfold below_lt. destruct (indicator c') as [i'|] eqn:Ei'; [|left; reflexivity].
           right. exists i'. split; [reflexivity|].
           apply (Qcle_lt_trans _ b); [|exact Hba]. apply (Hle c' i' Hin Ei').
      * destruct HS as [Hb Hn]. split.
        -- intros c' i' Hin Hi'. apply in_app_or in Hin. destruct Hin as [Hin | Hin].
           ++ rewrite (Hn c' Hin) in Hi'. discriminate.
           ++ destruct Hin as [Hin | []]. subst c'. rewrite Ea in Hi'. injection Hi' as Hi'. subst i'.
              apply Qcle_refl.
        -- intros c' Hin. left. apply Hn. exact Hin.
    + (* c does not beat the running maximum *)
      apply IH. destruct star as [c0|].
      * destruct HS as [b [pre [post [Hb [Hi [Hsp [Hle Hlt]]]]]]].
        exists b, pre, (post ++ [c]). split; [exact Hb|]. split; [exact Hi|]. split.
        { rewrite Hsp. rewrite <- app_assoc. reflexivity. }
        split; [|exact Hlt].
        intros c' i' Hin Hi'. apply in_app_or in Hin. destruct Hin as [Hin | Hin].
        -- apply (Hle c' i' Hin Hi').
        -- destruct Hin as [Hin | []]. subst c'. rewrite Hb in G.
           apply gt_opt_false_some in G. destruct G as [Gn | [a [Ga Hab]]].
           ++ rewrite Gn in Hi'. discriminate.
           ++ rewrite Ga in Hi'. injection Hi' as Hi'. subst i'. exact Hab.
      * destruct HS as [Hb Hn]. split; [exact Hb|].
        intros c' Hin. apply in_app_or in Hin. destruct Hin as [Hin | Hin].
        -- apply Hn. exact Hin.
        -- destruct Hin as [Hin | []]. subst c'. rewrite Hb in G. apply gt_opt_false_none. exact G.
Qed.

Lemma select_spec : forall cs, RInv cs (select cs).
Proof.
  intro cs. unfold select. change cs with ([] ++ cs) at 1. apply scan_spec.
  split; [reflexivity|]. intros c' [].
Qed.

(* ------------------------------------------------------------------ C08, selection *)
Lemma selected_is_argmax : forall cs c, select cs = Some c ->
  In c cs /\ exists i, indicator c = Some i /\
  forall c' i', In c' cs -> indicator c' = Some i' -> (i' <= i)%Qc.
Proof.
  intros cs c H. pose proof (select_spec cs) as R. rewrite H in R.
  destruct R as [b [pre [post [Hi [Hsp [Hle _]]]]]]. split.
  - rewrite Hsp. apply in_or_app. right. left. reflexivity.
  - exists b. split; [exact Hi | exact Hle].
Qed.

Lemma first_maximiser : forall cs c i, select cs = Some c -> indicator c = Some i ->
  exists pre post, cs = pre ++ c :: post /\
  forall c', In c' pre -> indicator c' = None \/ exists i', indicator c' = Some i' /\ (i' < i)%Qc.
Proof.
  intros cs c i H Hic. pose proof (select_spec cs) as R. rewrite H in R.
  destruct R as [b [pre [post [Hi [Hsp [_ Hlt]]]]]].
  rewrite Hic in Hi. injection Hi as Hi. subst b.
  exists pre, post. split; [exact Hsp|]. intros c' Hin. exact (Hlt c' Hin).
Qed.

Lemma none_iff_all_nan : forall cs, select cs = None <-> forall c, In c cs -> indicator c = None.
Proof.
  intro cs. split.
  - intro H. pose proof (select_spec cs) as R. rewrite H in R. exact R.
  - intro Hall. destruct (select cs) as [c0|] eqn:E; [|reflexivity].
    exfalso. apply selected_is_argmax in E. destruct E as [Hin [i [Hi _]]].
    rewrite (Hall c0 Hin) in Hi. discriminate.
Qed.

Lemma rcand_eq_dec : forall a b : rcand, {a = b} + {a <> b}.
Proof.
  intros [ac ap ae ak] [bc bp be bk].
  destruct (Nat.eq_dec ac bc) as [E1|N1]; [|right; intro E; injection E; intros; contradiction].
  destruct (Nat.eq_dec ap bp) as [E2|N2]; [|right; intro E; injection E; intros; contradiction].
  destruct (Qc_eq_dec ak bk) as [E4|N4]; [|right; intro E; injection E; intros; contradiction].
  assert (D : {ae = be} + {ae <> be}).
  { destruct ae as [x|]; destruct be as [y|].
    - destruct (Qc_eq_dec x y) as [E|N]; [left; subst; reflexivity | right; intro E; injection E; intros; contradiction].
    - right. discriminate.
    - right. discriminate.
    - left. reflexivity. }
  destruct D as [E3|N3]; [|right; intro E; injection E; intros; contradiction].
  left. subst. reflexivity.
Qed.

Lemma unique_max_selected : forall cs c i, In c cs -> indicator c = Some i ->
  (forall c', In c' cs -> c' <> c -> indicator c' = None \/ exists i', indicator c' = Some i' /\ (i' < i)%Qc) ->
  select cs = Some c.
Proof.
  intros cs c i Hin Hi Hoth. destruct (select cs) as [c0|] eqn:E.
  - pose proof (selected_is_argmax cs c0 E) as [Hin0 [i0 [Hi0 Hle]]].
    destruct (rcand_eq_dec c0 c) as [Eq|Nq]; [subst; reflexivity|].
    exfalso. destruct (Hoth c0 Hin0 Nq) as [Hn | [i' [Hi' Hlt]]].
    + rewrite Hn in Hi0. discriminate.
    + rewrite Hi0 in Hi'. injection Hi' as Hi'. subst i'.
      pose proof (Hle c i Hin Hi) as L. exact (Qclt_not_le _ _ Hlt L).
  - exfalso. pose proof (proj1 (none_iff_all_nan cs) E c Hin) as Hn.
    rewrite Hn in Hi. discriminate.
Qed.

Lemma choice_order_independent : forall cs cs' c i, Permutation cs cs' ->
  In c cs -> indicator c = Some i ->
  (forall c', In c' cs -> c' <> c -> indicator c' = None \/ exists i', indicator c' = Some i' /\ (i' < i)%Qc) ->
  select cs = Some c /\ select cs' = Some c.
Proof.
  intros cs cs' c i HP Hin Hi Hoth. split.
  - apply (unique_max_selected cs c i Hin Hi Hoth).
  - apply (unique_max_selected cs' c i).
    + apply (Permutation_in c HP Hin).
    + exact Hi.
    + intros c' Hin' Hne. apply Hoth; [|exact Hne].
      apply (Permutation_in c' (Permutation_sym HP) Hin').
Qed.

Lemma cost_floor : forall c e, c_err c = Some e ->
  ((c_cost c <= Q2Qc 1)%Qc -> indicator c = Some (e / Q2Qc 1)%Qc) /\
  ((Q2Qc 1 < c_cost c)%Qc -> indicator c = Some (e / c_cost c)%Qc).
Proof.
  intros c e He. unfold indicator. rewrite He. unfold qmax1.
  destruct (Qle_bool (this (Q2Qc 1)) (this (c_cost c))) eqn:E.
  - apply qle_bool_true in E. split.
    + intro L. assert (Eq : c_cost c = Q2Qc 1) by (apply Qcle_antisym; assumption).
      rewrite Eq. reflexivity.
    + intros _. reflexivity.
  - apply qle_bool_false in E. split.
    + intros _. reflexivity.
    + intro L. exfalso. apply (Qclt_not_le _ _ L). apply Qclt_le_weak. exact E.
Qed.

(* ------------------------------------------------------------------ C08, the outer loop *)
Lemma history_bound : forall (St : Type) (step : St -> option (St * option Qc)) tol fuel level max_iter s hist,
  (level < max_iter)%nat ->
  (length (snd (fit St step tol fuel level max_iter s hist)) <= length hist + (max_iter - level))%nat /\
  exists added, snd (fit St step tol fuel level max_iter s hist) = hist ++ added.
Proof.
  intros St step tol fuel. induction fuel as [|fuel IH]; intros level max_iter s hist Hlt.
  - simpl. split; [lia|]. exists []. rewrite app_nil_r. reflexivity.
  - simpl. destruct (step s) as [[s' err]|] eqn:Es.
    + assert (Stop : (length (hist ++ [err]) <= length hist + (max_iter - level))%nat /\
                     exists added, hist ++ [err] = hist ++ added).
      { split; [rewrite app_length; simpl; lia | exists [err]; reflexivity]. }
      assert (Rec : (max_iter <=? S level)%nat = false ->
                    (length (snd (fit St step tol fuel (S level) max_iter s' (hist ++ [err])))
                       <= length hist + (max_iter - level))%nat /\
                    exists added, snd (fit St step tol fuel (S level) max_iter s' (hist ++ [err])) = hist ++ added).
      { intro L. apply Nat.leb_gt in L.
        destruct (IH (S level) max_iter s' (hist ++ [err]) L) as [Hlen [added Hadd]]. split.
        - rewrite app_length in Hlen. simpl in Hlen. lia.
        - exists ([err] ++ added). rewrite Hadd. rewrite <- app_assoc. reflexivity. }
      destruct (max_iter <=? S level)%nat eqn:L.
      * simpl. exact Stop.
      * destruct err as [e|].
        -- destruct (negb (Qle_bool (this tol) (this e))) eqn:T.
           ++ simpl. exact Stop.
           ++ apply Rec. reflexivity.
        -- apply Rec. reflexivity.
    + simpl. split; [lia|]. exists []. rewrite app_nil_r. reflexivity.
Qed.

Lemma step_count : forall (St : Type) (step : St -> option (St * option Qc)) tol fuel level max_iter s hist,
  (level < max_iter)%nat -> (max_iter - level <= fuel)%nat ->
  (forall s', exists s'' e, step s' = Some (s'', e) /\ match e with Some v => (tol <= v)%Qc | None => True end) ->
  length (snd (fit St step tol fuel level max_iter s hist)) = (length hist + (max_iter - level))%nat.
Proof.
  intros St step tol fuel. induction fuel as [|fuel IH]; intros level max_iter s hist Hlt Hfuel Hstep.
  - exfalso. lia.
  - simpl. destruct (Hstep s) as [s'' [e [Es He]]]. rewrite Es.
    destruct (max_iter <=? S level)%nat eqn:L.
    + apply Nat.leb_le in L. simpl. rewrite app_length. simpl. lia.
    + apply Nat.leb_gt in L.
      assert (Rec : length (snd (fit St step tol fuel (S level) max_iter s'' (hist ++ [e])))
                    = (length hist + (max_iter - level))%nat).
      { rewrite (IH (S level) max_iter s'' (hist ++ [e]) L); [|lia|exact Hstep].
        rewrite app_length. simpl. lia. }
      destruct e as [v|].
      * apply qle_bool_true in He. rewrite He. simpl. exact Rec.
      * exact Rec.
Qed.

Lemma stops_when_none : forall (St : Type) (step : St -> option (St * option Qc)) tol fuel level max_iter s hist,
  step s = None -> fit St step tol (S fuel) level max_iter s hist = (s, hist).
Proof.
  intros St step tol fuel level max_iter s hist H. simpl. rewrite H. reflexivity.
Qed.

(* ------------------------------------------------------------------ C08, index sets (from C02) *)
Lemma activation_progress : forall mx reqs i, wf_reqs mx reqs -> length i = length mx ->
  accepts (run mx reqs) i = true ->
  length (active (activate mx (run mx reqs) i)) = S (length (active (run mx reqs))) /\
  (forall j, In j (active (activate mx (run mx reqs) i)) -> le_idx j mx).
Proof.
  intros mx reqs i Hw Hl Ha. split.
  - rewrite (activate_accepted_shape mx (run mx reqs) i Ha). simpl.
    apply accepts_true in Ha. destruct Ha as [Hm _].
    rewrite (add1_notin _ _ Hm). rewrite app_length. simpl. lia.
  - intros j Hj.
    pose proof (activate_inv mx (run mx reqs) i (run_inv mx reqs Hw) Hl) as HI.
    apply (inv_in_box mx _ HI). apply in_or_app. left. exact Hj.
Qed.

Lemma exhaustion_full_box : forall mx reqs, wf_reqs mx reqs ->
  active (run mx reqs) <> [] -> cand (run mx reqs) = [] ->
  forall i, le_idx i mx -> In i (active (run mx reqs)).
Proof.
  intros mx reqs Hw NA HC.
  destruct (exhaustion mx (run mx reqs) (run_inv mx reqs Hw) NA) as [H _].
  exact (H HC).
Qed.
