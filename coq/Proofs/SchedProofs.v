(* Proofs/SchedProofs.v — proofs for Props/C15.v about the executor model Model/Sched.v. *)
From Coq Require Import List Arith Bool Lia Permutation.
From AmiscV Require Import Sched.
Import ListNotations.

(* ---------- generic list facts ---------- *)

Lemma length_update : forall A i (v : A) l, length (update i v l) = length l.
Proof.
  intros A i v l; revert i; induction l as [|a r IH]; intros [|i]; simpl; auto.
Qed.

Lemma nth_error_update_same : forall A i (v : A) l,
  i < length l -> nth_error (update i v l) i = Some v.
Proof.
  intros A i v l; revert i; induction l as [|a r IH]; intros [|i] H; simpl in *; try lia; auto.
  apply IH; lia.
Qed.

Lemma nth_error_update_other : forall A i j (v : A) l,
  i <> j -> nth_error (update i v l) j = nth_error l j.
Proof.
  intros A i j v l; revert i j; induction l as [|a r IH]; intros [|i] [|j] H; simpl; auto; try congruence.
Qed.

Lemma list_eq_nth_error : forall A (l m : list A),
  (forall j, nth_error l j = nth_error m j) -> l = m.
Proof.
  intros A l; induction l as [|a l IH]; intros [|b m] H.
  - reflexivity.
  - specialize (H 0); discriminate.
  - specialize (H 0); discriminate.
  - f_equal.
    + specialize (H 0); simpl in H; congruence.
    + apply IH; intros j; exact (H (S j)).
Qed.

Lemma nth_error_map_Some : forall A B (g : A -> B) l j b,
  nth_error (map g l) j = Some b <-> exists a, nth_error l j = Some a /\ g a = b.
Proof.
  intros A B g l; induction l as [|a l IH]; intros [|j] b; simpl.
  - split; [discriminate | intros [a [H _]]; discriminate].
  - split; [discriminate | intros [a [H _]]; discriminate].
  - split.
    + intros H; exists a; split; congruence.
    + intros [a' [H1 H2]]; congruence.
  - apply IH.
Qed.

Lemma nth_error_repeat_lt : forall A (a : A) n i, i < n -> nth_error (repeat a n) i = Some a.
Proof.
  intros A a n; induction n as [|n IH]; intros [|i] H; simpl; try lia; auto.
  apply IH; lia.
Qed.

Lemma nth_error_repeat_inv : forall A (a b : A) n i, nth_error (repeat a n) i = Some b -> b = a.
Proof.
  intros A a b n i H. apply nth_error_In in H. eapply repeat_spec; eauto.
Qed.

Section SchedProofs.
Variables X Y : Type.
Variable f : X -> option Y.

Local Notation slot := (option (option Y)).
Local Notation run xs := (run_one X Y f xs).
Local Notation unslot := (fun s : slot => match s with Some r => r | None => None end).

(* ---------- one step ---------- *)

Lemma length_run_one : forall xs (slots : list slot) i,
  length (run xs slots i) = length slots.
Proof.
  intros xs slots i; unfold run_one; destruct (nth_error xs i); auto using length_update.
Qed.

Lemma length_fold_run : forall xs sigma (slots : list slot),
  length (fold_left (run xs) sigma slots) = length slots.
Proof.
  intros xs sigma; induction sigma as [|a sigma IH]; intros slots; simpl; auto.
  rewrite IH; apply length_run_one.
Qed.

Lemma run_one_other : forall xs (slots : list slot) i j,
  i <> j -> nth_error (run xs slots i) j = nth_error slots j.
Proof.
  intros xs slots i j H; unfold run_one; destruct (nth_error xs i); auto using nth_error_update_other.
Qed.

Lemma run_one_same : forall xs (slots : list slot) i x,
  nth_error xs i = Some x -> i < length slots ->
  nth_error (run xs slots i) i = Some (Some (f x)).
Proof.
  intros xs slots i x H Hl; unfold run_one; rewrite H; apply nth_error_update_same; exact Hl.
Qed.

(* untouched slots keep their contents *)
Lemma fold_run_untouched : forall xs sigma (slots : list slot) j,
  ~ In j sigma -> nth_error (fold_left (run xs) sigma slots) j = nth_error slots j.
Proof.
  intros xs sigma; induction sigma as [|a sigma IH]; intros slots j H; simpl; auto.
  rewrite IH by (intro; apply H; right; assumption).
  apply run_one_other. intro; apply H; left; assumption.
Qed.

(* every finished slot holds the serial result *)
Definition good (xs : list X) (slots : list slot) : Prop :=
  forall j r, nth_error slots j = Some (Some r) -> exists x, nth_error xs j = Some x /\ r = f x.

Lemma good_run_one : forall xs slots i, good xs slots -> good xs (run xs slots i).
Proof.
  intros xs slots i G j r H.
  destruct (Nat.eq_dec i j) as [->|Hne].
  - unfold run_one in H. destruct (nth_error xs j) as [x|] eqn:E.
    + destruct (lt_dec j (length slots)) as [Hl|Hl].
      * rewrite nth_error_update_same in H by exact Hl.
        exists x; split; congruence.
      * assert (Hn : nth_error (update j (Some (f x)) slots) j = None)
          by (apply nth_error_None; rewrite length_update; lia).
        congruence.
    + destruct (G j r H) as [x [Hx _]]; congruence.
  - rewrite run_one_other in H by exact Hne. exact (G j r H).
Qed.

Lemma good_fold_run : forall xs sigma slots, good xs slots -> good xs (fold_left (run xs) sigma slots).
Proof.
  intros xs sigma; induction sigma as [|a sigma IH]; intros slots G; simpl; auto using good_run_one.
Qed.

Lemma good_init : forall xs n, good xs (repeat None n).
Proof.
  intros xs n j r H. apply nth_error_repeat_inv in H. discriminate.
Qed.

(* a finished slot stays finished *)
Definition finished (slots : list slot) (j : nat) : Prop := exists r, nth_error slots j = Some (Some r).

Lemma finished_run_one : forall xs slots i j, finished slots j -> finished (run xs slots i) j.
Proof.
  intros xs slots i j [r H].
  destruct (Nat.eq_dec i j) as [->|Hne].
  - unfold run_one. destruct (nth_error xs j) as [x|]; [|exists r; exact H].
    exists (f x). apply nth_error_update_same. apply nth_error_Some. rewrite H; discriminate.
  - exists r. rewrite run_one_other by exact Hne. exact H.
Qed.

Lemma finished_fold_run : forall xs sigma slots j,
  finished slots j -> finished (fold_left (run xs) sigma slots) j.
Proof.
  intros xs sigma; induction sigma as [|a sigma IH]; intros slots j H; simpl; auto using finished_run_one.
Qed.

Lemma fold_run_touched : forall xs sigma slots j,
  length slots = length xs -> j < length xs -> In j sigma ->
  finished (fold_left (run xs) sigma slots) j.
Proof.
  intros xs sigma; induction sigma as [|a sigma IH]; intros slots j Hl Hj Hin; simpl in *; [tauto|].
  destruct (Nat.eq_dec a j) as [->|Hne].
  - apply finished_fold_run.
    destruct (nth_error xs j) as [x|] eqn:E; [|apply nth_error_None in E; lia].
    exists (f x). apply run_one_same; [exact E | lia].
  - apply IH; [rewrite length_run_one; exact Hl | exact Hj | destruct Hin; [contradiction | assumption]].
Qed.

(* the slot invariant for [complete] *)
Lemma length_complete : forall xs sigma, length (complete X Y f xs sigma) = length xs.
Proof.
  intros xs sigma; unfold complete; rewrite length_fold_run; apply repeat_length.
Qed.

Lemma complete_touched : forall xs sigma j x,
  In j sigma -> nth_error xs j = Some x ->
  nth_error (complete X Y f xs sigma) j = Some (Some (f x)).
Proof.
  intros xs sigma j x Hin Hx.
  assert (Hj : j < length xs) by (apply nth_error_Some; rewrite Hx; discriminate).
  destruct (fold_run_touched xs sigma (repeat None (length xs)) j (repeat_length _ _) Hj Hin) as [r Hr].
  fold (complete X Y f xs sigma) in Hr.
  destruct (good_fold_run xs sigma _ (good_init xs (length xs)) j r Hr) as [x' [Hx' ->]].
  rewrite Hr; congruence.
Qed.

Lemma complete_untouched : forall xs sigma j,
  j < length xs -> ~ In j sigma -> nth_error (complete X Y f xs sigma) j = Some None.
Proof.
  intros xs sigma j Hj Hn; unfold complete.
  rewrite fold_run_untouched by exact Hn. apply nth_error_repeat_lt; exact Hj.
Qed.

(* ---------- the C15 statements ---------- *)

Lemma gather_any_schedule_sec : forall (xs : list X) (sigma : list nat),
  (forall i, i < length xs -> In i sigma) ->
  executor_path X Y f xs sigma = Some (serial_path X Y f xs).
Proof.
  intros xs sigma Hall. unfold executor_path, gather, serial_path.
  assert (Hnth : forall j x, nth_error xs j = Some x ->
                 nth_error (complete X Y f xs sigma) j = Some (Some (f x))).
  { intros j x Hx. apply complete_touched; [|exact Hx].
    apply Hall. apply nth_error_Some. rewrite Hx; discriminate. }
  assert (Hdone : all_done Y (complete X Y f xs sigma) = true).
  { unfold all_done. apply forallb_forall. intros s Hs.
    apply In_nth_error in Hs. destruct Hs as [j Hj].
    assert (Hlt : j < length xs).
    { rewrite <- (length_complete xs sigma). apply nth_error_Some. rewrite Hj; discriminate. }
    destruct (nth_error xs j) as [x|] eqn:E; [|apply nth_error_None in E; lia].
    rewrite (Hnth j x E) in Hj. inversion Hj; reflexivity. }
  rewrite Hdone. f_equal.
  apply list_eq_nth_error. intros j.
  destruct (nth_error xs j) as [x|] eqn:E.
  - rewrite (map_nth_error _ _ _ (Hnth j x E)).
    rewrite (map_nth_error _ _ _ E). reflexivity.
  - pose proof E as E'. apply nth_error_None in E'.
    transitivity (@None (option Y)); [|symmetry]; apply nth_error_None; rewrite map_length;
      [rewrite length_complete|]; exact E'.
Qed.

Lemma gather_permutation_sec : forall (xs : list X) (sigma : list nat),
  Permutation sigma (seq 0 (length xs)) ->
  executor_path X Y f xs sigma = Some (serial_path X Y f xs).
Proof.
  intros xs sigma HP. apply gather_any_schedule_sec. intros i Hi.
  apply (Permutation_in i (Permutation_sym HP)). apply in_seq. lia.
Qed.

Lemma waits_for_all_sec : forall (xs : list X) (sigma : list nat) (i : nat),
  i < length xs -> ~ In i sigma -> executor_path X Y f xs sigma = None.
Proof.
  intros xs sigma i Hi Hn. unfold executor_path, gather.
  destruct (all_done Y (complete X Y f xs sigma)) eqn:E; [|reflexivity].
  exfalso. unfold all_done in E. rewrite forallb_forall in E.
  pose proof (complete_untouched xs sigma i Hi Hn) as H.
  apply nth_error_In in H. specialize (E _ H). discriminate.
Qed.

Lemma err_idx_gen : forall (rs : list (option Y)) s i,
  In i (map fst (filter (fun p : nat * option Y => match snd p with None => true | Some _ => false end)
                        (combine (seq s (length rs)) rs)))
  <-> s <= i /\ nth_error rs (i - s) = Some None.
Proof.
  induction rs as [|r rs IH]; intros s i.
  - simpl. split; [tauto|]. intros [_ H]. destruct (i - s); discriminate.
  - change (length (r :: rs)) with (S (length rs)).
    change (seq s (S (length rs))) with (s :: seq (S s) (length rs)).
    change (combine (s :: seq (S s) (length rs)) (r :: rs)) with ((s, r) :: combine (seq (S s) (length rs)) rs).
    destruct r as [y|]; cbn [filter snd map fst In].
    + rewrite IH. split.
      * intros [H1 H2]. split; [lia|]. replace (i - s) with (S (i - S s)) by lia. exact H2.
      * intros [H1 H2]. destruct (Nat.eq_dec s i) as [->|Hne].
        -- rewrite Nat.sub_diag in H2. discriminate.
        -- split; [lia|]. replace (i - s) with (S (i - S s)) in H2 by lia. exact H2.
    + rewrite IH. split.
      * intros [->|[H1 H2]].
        -- split; [lia|]. rewrite Nat.sub_diag. reflexivity.
        -- split; [lia|]. replace (i - s) with (S (i - S s)) by lia. exact H2.
      * intros [H1 H2]. destruct (Nat.eq_dec s i) as [->|Hne]; [left; reflexivity|right].
        split; [lia|]. replace (i - s) with (S (i - S s)) in H2 by lia. exact H2.
Qed.

Lemma errors_aligned_sec : forall (xs : list X) (i : nat),
  In i (error_indices Y (serial_path X Y f xs)) <-> exists x, nth_error xs i = Some x /\ f x = None.
Proof.
  intros xs i. unfold error_indices, serial_path.
  rewrite err_idx_gen. rewrite Nat.sub_0_r. rewrite nth_error_map_Some.
  split; [intros [_ H]; exact H | intros H; split; [lia | exact H]].
Qed.

Lemma vectorised_agrees_sec : forall (F : list X -> list (option Y)) (xs : list X),
  (forall l, F l = map f l) -> F xs = serial_path X Y f xs.
Proof. intros F xs H. unfold serial_path. apply H. Qed.

End SchedProofs.

Lemma gather_any_schedule : forall (X Y : Type) (f : X -> option Y) (xs : list X) (sigma : list nat),
  (forall i, i < length xs -> In i sigma) ->
  executor_path X Y f xs sigma = Some (serial_path X Y f xs).
Proof. exact gather_any_schedule_sec. Qed.

Lemma gather_permutation : forall (X Y : Type) (f : X -> option Y) (xs : list X) (sigma : list nat),
  Permutation sigma (seq 0 (length xs)) ->
  executor_path X Y f xs sigma = Some (serial_path X Y f xs).
Proof. exact gather_permutation_sec. Qed.

Lemma waits_for_all : forall (X Y : Type) (f : X -> option Y) (xs : list X) (sigma : list nat) (i : nat),
  i < length xs -> ~ In i sigma -> executor_path X Y f xs sigma = None.
Proof. exact waits_for_all_sec. Qed.

Lemma errors_aligned : forall (X Y : Type) (f : X -> option Y) (xs : list X) (i : nat),
  In i (error_indices Y (serial_path X Y f xs)) <-> exists x, nth_error xs i = Some x /\ f x = None.
Proof. exact errors_aligned_sec. Qed.

Lemma vectorised_agrees : forall (X Y : Type) (f : X -> option Y) (F : list X -> list (option Y)) (xs : list X),
  (forall l, F l = map f l) -> F xs = serial_path X Y f xs.
Proof. exact vectorised_agrees_sec. Qed.

(* any two schedules that let every task finish gather identical results (both equal the serial loop) *)
Lemma two_schedules_agree : forall (X Y : Type) (f : X -> option Y) (xs : list X) (s1 s2 : list nat),
  (forall i, i < length xs -> In i s1) -> (forall i, i < length xs -> In i s2) ->
  executor_path X Y f xs s1 = executor_path X Y f xs s2.
Proof.
  intros X Y f xs s1 s2 H1 H2.
  rewrite (gather_any_schedule X Y f xs s1 H1), (gather_any_schedule X Y f xs s2 H2). reflexivity.
Qed.
