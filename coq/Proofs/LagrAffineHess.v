(* Proofs/LagrAffineHess.v — C17 (extension): the coded Hessian under an affine change of input units x -> a*x + b (a > 0):
   the 1-d second-derivative values d2basis1 of the re-expressed grid are the original ones divided by a^2, and the tensor
   Hessian entry (m, n) is the original entry divided by a_m * a_n.  Statement used by Props/C17H.v: thess_affine. *)
From mathcomp Require Import all_ssreflect all_algebra.
From mathcomp Require Import ring.
From AmiscV Require Import Field Lagr LagrDefs Lagr1d LagrAffine.
Set Implicit Arguments. Unset Strict Implicit. Unset Printing Implicit Defensive.
Import GRing.Theory Num.Theory.
Local Open Scope ring_scope.

Section AffineHess.
Variable F : realFieldType.
Implicit Types (xs ws r : seq F) (x y a b tol : F).
Local Notation quotf := (@quotf F).
Local Notation squotf := (@squotf F).

Definition cquotf (w : F) (d : F * bool) : F := w / (d.1 * d.1 * d.1).

Lemma cquot_sc a ws (ds : seq (F * bool)) :
  map2 cquotf ws [seq sc a d | d <- ds] = [seq q / (a * a * a) | q <- map2 cquotf ws ds].
Proof.
rewrite map2_map_r map_map2; apply: map2_ext => w d.
rewrite /cquotf /= !invfM; ring.
Qed.

Lemma d2basis1E tol xs ws x : d2basis1 (mc_ops F) tol xs ws x =
  let ds := diffs1 (mc_ops F) tol xs x in
  let qsum := \sum_(q <- map2 quotf ws ds) q in
  let qp := - (\sum_(q <- map2 squotf ws ds) q) in
  let qpp := (1 + 1) * (\sum_(q <- map2 cquotf ws ds) q) in
  [seq (let wj := nth 0 ws j in let dj := nth (1, false) ds j in
        match [seq p <- iota 0 (size xs) | (p != j) && (nth (1, false) ds p).2] with
        | s :: _ =>
            (- (1 + 1) * (wj / nth 0 ws s) / (nth 0 xs s - nth 0 xs j)) *
            (\sum_(p <- iota 0 (size xs) | p != s) nth 0 ws p / nth 0 ws s / (nth 0 xs s - nth 0 xs p) +
             1 / (nth 0 xs s - nth 0 xs j))
        | [::] => if dj.2
                  then (1 + 1) * ((\sum_(p <- iota 0 (size xs) | p != j) nth 0 ws p / wj / (x - nth 0 xs p)) *
                                  (\sum_(p <- iota 0 (size xs) | p != j) nth 0 ws p / wj / (x - nth 0 xs p))) +
                       (1 + 1) * (\sum_(p <- iota 0 (size xs) | p != j)
                                     nth 0 ws p / wj / ((x - nth 0 xs p) * (x - nth 0 xs p)))
                  else wj / (qsum * dj.1) *
                       ((- (qpp / qsum) + (1 + 1) * (qp / qsum * (qp / qsum))) +
                        ((1 + 1) * (qp / (qsum * dj.1)) + (1 + 1) / (dj.1 * dj.1)))
        end) | j <- iota 0 (size xs)].
Proof.
rewrite /d2basis1 lmapE lseqE llengthE !sumF_mc /=; apply: eq_map => j.
rewrite !lfilterE !lnthE.
rewrite (@eq_filter _ _ (fun p => (p != j) && (nth (1, false) (diffs1 (mc_ops F) tol xs x) p).2));
  last by move=> p; rewrite nat_eqbE lnthE.
case: (filter _ _) => [|s r].
- case: ifP => // _; rewrite !sumF_mc !lmapE !big_map !big_filter.
  have e1 : \sum_(i <- iota 0 (size xs) | ~~ PeanoNat.Nat.eqb i j)
              divF (mc_ops F) (divF (mc_ops F) (List.nth i ws 0) (nth 0 ws j)) (x - List.nth i xs 0) =
            \sum_(p <- iota 0 (size xs) | p != j) nth 0 ws p / nth 0 ws j / (x - nth 0 xs p).
    by apply: eq_big => p; rewrite ?nat_eqbE ?lnthE.
  rewrite e1; congr (_ * _ + _ * _).
  by apply: eq_big => p; rewrite ?nat_eqbE ?lnthE.
- rewrite !lnthE sumF_mc lmapE big_map big_filter; congr (_ * (_ + _)).
  by apply: eq_big => p; rewrite ?nat_eqbE ?lnthE.
Qed.

Lemma div_affine2 a b x y (X : F) :
  X / ((a * x + b - (a * y + b)) * (a * x + b - (a * y + b))) = X / ((x - y) * (x - y)) / (a * a).
Proof.
have -> : a * x + b - (a * y + b) = a * (x - y) by ring.
rewrite !invfM; ring.
Qed.

Lemma d2basis1_affine a b tol xs ws x : 0 < a -> size ws = size xs ->
  d2basis1 (mc_ops F) (a * tol) (amap a b xs) ws (a * x + b) =
  [seq d / (a * a) | d <- d2basis1 (mc_ops F) tol xs ws x].
Proof.
move=> a0 sw; rewrite !d2basis1E /= diffs1_affine // size_map.
have an0 : a != 0 by exact: lt0r_neq0.
set ds := diffs1 _ tol xs x.
have sds : size ds = size xs by exact: size_diffs1.
rewrite -map_comp; apply/eq_in_map => j; rewrite mem_iota /= add0n => jlt.
have fl p : (p < size xs)%N -> (nth (1, false) [seq dmap a d | d <- ds] p).2 = (nth (1, false) ds p).2.
  by move=> plt; rewrite (nth_map (1, false)) ?sds.
have nx p : (p < size xs)%N -> nth 0 (amap a b xs) p = a * nth 0 xs p + b.
  by move=> plt; rewrite (nth_map 0).
rewrite (@eq_in_filter _ _ (fun p => (p != j) && (nth (1, false) ds p).2)); last first.
  by move=> p; rewrite mem_iota /= add0n => plt; rewrite fl.
rewrite fl // nx //.
case E: (filter _ _) => [|s r].
- case djE: (nth (1, false) ds j).2.
  + have -> : \sum_(p <- iota 0 (size xs) | p != j)
                nth 0 ws p / nth 0 ws j / (a * x + b - nth 0 (amap a b xs) p) =
              (\sum_(p <- iota 0 (size xs) | p != j) nth 0 ws p / nth 0 ws j / (x - nth 0 xs p)) / a.
      rewrite mulr_suml big_seq_cond [in RHS]big_seq_cond.
      apply: eq_bigr => p /andP[]; rewrite mem_iota /= add0n => plt _.
      by rewrite nx // div_affine.
    have -> : \sum_(p <- iota 0 (size xs) | p != j)
                nth 0 ws p / nth 0 ws j /
                  ((a * x + b - nth 0 (amap a b xs) p) * (a * x + b - nth 0 (amap a b xs) p)) =
              (\sum_(p <- iota 0 (size xs) | p != j)
                  nth 0 ws p / nth 0 ws j / ((x - nth 0 xs p) * (x - nth 0 xs p))) / (a * a).
      rewrite mulr_suml big_seq_cond [in RHS]big_seq_cond.
      apply: eq_bigr => p /andP[]; rewrite mem_iota /= add0n => plt _.
      by rewrite nx // div_affine2.
    move: (\sum_(p <- _ | _) _) (\sum_(p <- _ | _) _) => S1 S2.
    by field.
  + have hs : ~~ has snd ds.
      apply/hasPn => d din; set p := index d ds.
      have plt : (p < size xs)%N by rewrite -sds index_mem.
      have <- : nth (1, false) ds p = d by rewrite nth_index.
      case: (altP (p =P j)) => [->|ne]; first by rewrite djE.
      have : p \in [seq p <- iota 0 (size xs) | (p != j) && (nth (1, false) ds p).2] = false by rewrite E.
      by rewrite mem_filter mem_iota /= add0n plt ne /= andbT => ->.
    rewrite dmap_nosnap // quot_sc squot_sc cquot_sc !big_map -!mulr_suml (nth_map (1, false)) ?sds //=.
    set Q := \sum_(q <- map2 quotf _ _) q; set S := \sum_(q <- map2 squotf _ _) q.
    set T := \sum_(q <- map2 cquotf _ _) q.
    set d := (nth _ _ _).1; set wj := nth 0 ws j.
    case: (eqVneq Q 0) => [->|Q0]; first by rewrite !(mul0r, mulr0, invr0).
    case: (eqVneq d 0) => [->|d0]; first by rewrite !(mul0r, mulr0, invr0).
    by field; rewrite Q0 d0 an0.
- have slt : (s < size xs)%N.
    have : s \in [seq p <- iota 0 (size xs) | (p != j) && (nth (1, false) ds p).2] by rewrite E mem_head.
    by rewrite mem_filter mem_iota /= add0n => /andP[_].
  rewrite (nx s) //.
  have -> : \sum_(p <- iota 0 (size xs) | p != s)
              nth 0 ws p / nth 0 ws s / (a * nth 0 xs s + b - nth 0 (amap a b xs) p) =
            (\sum_(p <- iota 0 (size xs) | p != s) nth 0 ws p / nth 0 ws s / (nth 0 xs s - nth 0 xs p)) / a.
    rewrite mulr_suml big_seq_cond [in RHS]big_seq_cond.
    apply: eq_bigr => p /andP[]; rewrite mem_iota /= add0n => plt _.
    by rewrite nx // div_affine.
  rewrite !div_affine.
  move: (\sum_(p <- _ | _) _) (nth 0 ws j / nth 0 ws s) => S1 W.
  move: (nth 0 xs s - nth 0 xs j) => c.
  case: (eqVneq c 0) => [->|c0]; first by rewrite !(mul0r, mulr0, invr0, add0r, addr0).
  by field; rewrite c0 an0.
Qed.

Lemma sum_div_map2 (c : F) (l : seq F) : \sum_(y <- [seq y / c | y <- l]) y = (\sum_(y <- l) y) / c.
Proof. by rewrite big_map mulr_suml. Qed.

Theorem thess_affine (ab : seq (F * F)) (gs : seq (grid (F:=F))) (x ys : seq F) (m n : nat) :
  size ab = size gs -> size x = size gs -> (forall p, p \in ab -> 0 < p.1) ->
  (forall g, g \in gs -> size g.2.2 = size g.2.1) -> (m < size gs)%N -> (n < size gs)%N ->
  thess (mc_ops F) m n (gmap ab gs) (xmap ab x) ys =
  thess (mc_ops F) m n gs x ys / ((nth (1, 0) ab m).1 * (nth (1, 0) ab n).1).
Proof.
elim: gs ab x ys m n => [|[tol [xs ws]] gs IH] [|[a b] ab] [|x0 x] ys m n //= [sab] [sx] Hab Hgs mlt nlt.
have a0 : 0 < a by apply: (Hab (a, b)); rewrite inE eqxx.
have an0 : a != 0 by exact: lt0r_neq0.
have sw : size ws = size xs by apply: (Hgs (tol, (xs, ws))); rewrite inE eqxx.
have Hab' : forall p, p \in ab -> 0 < p.1 by move=> p pin; apply: Hab; rewrite inE pin orbT.
have Hgs' : forall g, g \in gs -> size g.2.2 = size g.2.1.
  by move=> g gin; apply: Hgs; rewrite inE gin orbT.
case: m mlt => [|m] mlt; case: n nlt => [|n] nlt;
  rewrite /= -/(gmap ab gs) -/(xmap ab x) gsizes_gmap // !llengthE /amap size_map -/(amap a b xs).
- rewrite d2basis1_affine // map2_map_l !sumF_mc -sum_div_map2 map_map2.
  congr (\sum_(y <- _) y); apply: map2_ext => d ch.
  by rewrite tpredict_affine // mulrAC.
- rewrite dbasis1_affine // map2_map_l !sumF_mc -sum_div_map2 map_map2.
  congr (\sum_(y <- _) y); apply: map2_ext => d ch.
  rewrite tgrad_affine // invfM.
  by rewrite mulrACA.
- rewrite dbasis1_affine // map2_map_l !sumF_mc -sum_div_map2 map_map2.
  congr (\sum_(y <- _) y); apply: map2_ext => d ch.
  rewrite tgrad_affine // invfM.
  by rewrite mulrACA [a^-1 * _]mulrC.
- rewrite basis1_affine // !sumF_mc -sum_div_map2 map_map2.
  congr (\sum_(y <- _) y); apply: map2_ext => d ch.
  by rewrite IH // mulrA.
Qed.
End AffineHess.
