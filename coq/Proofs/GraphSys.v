(* Proofs/GraphSys.v — bridge between Model/Graph.v (evaluation plans) and Model/Sys.v (order test) *)
From Coq Require Import List Arith Bool Lia.
From AmiscV Require Import Sys Graph GraphDefs GraphProofs.
Import ListNotations.

(* the components named by a list of listing positions; None when a position does not exist *)
Fixpoint order_of_plan (V : Type) (comps : list (Sys.comp V)) (pos : list nat) : option (list (Sys.comp V)) :=
  match pos with
  | [] => Some []
  | i :: r => match nth_error comps i, order_of_plan V comps r with
              | Some k, Some o => Some (k :: o)
              | _, _ => None
              end
  end.

(* ---------- the last producer exists as soon as some component outputs the variable ------------------------- *)
Lemma producer_from_some : forall cs i v x, exists k, producer_from cs i v (Some x) = Some k.
Proof.
  induction cs as [|c r IH]; intros i v x; simpl.
  - eauto.
  - destruct (nmem v (snd c)); apply IH.
Qed.

Lemma producer_from_exists : forall cs i v acc j c, nth_error cs j = Some c -> In v (snd c) ->
  exists k, producer_from cs i v acc = Some k.
Proof.
  induction cs as [|a r IH]; intros i v acc j c Hj Hv.
  - destruct j; discriminate.
  - destruct j as [|j]; simpl in *.
    + inversion Hj; subst. apply nmem_In in Hv. rewrite Hv. apply producer_from_some.
    + eapply IH; eauto.
Qed.

Lemma producer_exists : forall cs v j c, nth_error cs j = Some c -> In v (snd c) -> exists i, producer cs v = Some i.
Proof. intros. unfold producer. eapply producer_from_exists; eauto. Qed.

(* ---------- the flat plan lists the nodes by non-decreasing group index ------------------------------------- *)
Definition gle (plan : list (list nat)) (a b : nat) : Prop :=
  forall ga gb, group_index plan a = Some ga -> group_index plan b = Some gb -> ga <= gb.

Fixpoint gsorted (P : nat -> nat -> Prop) (l : list nat) : Prop :=
  match l with
  | [] => True
  | a :: r => (forall b, In b r -> P a b) /\ gsorted P r
  end.

Lemma gsorted_app : forall P l1 l2, gsorted P l1 -> gsorted P l2 ->
  (forall x y, In x l1 -> In y l2 -> P x y) -> gsorted P (l1 ++ l2).
Proof.
  induction l1 as [|a l1 IH]; simpl; intros l2 H1 H2 Hc. assumption.
  destruct H1 as [H1 H1']. split.
  - intros b Hb. apply in_app_iff in Hb. destruct Hb as [Hb|Hb]; auto.
  - apply IH; auto.
Qed.

Lemma gsorted_ext : forall (P Q : nat -> nat -> Prop) l, (forall x y, In x l -> In y l -> P x y -> Q x y) ->
  gsorted P l -> gsorted Q l.
Proof.
  induction l as [|a l IH]; simpl; intros Hx H. exact I.
  destruct H as [H1 H2]. split.
  - intros b Hb. apply Hx; auto.
  - apply IH; auto.
Qed.

Lemma gsorted_all : forall (P : nat -> nat -> Prop) l, (forall x y, In x l -> In y l -> P x y) -> gsorted P l.
Proof.
  induction l as [|a l IH]; simpl; intros Hx. exact I.
  split.
  - intros b Hb. apply Hx; auto.
  - apply IH. intros; apply Hx; auto.
Qed.

Lemma NoDup_app_disj : forall (l1 l2 : list nat) x, NoDup (l1 ++ l2) -> In x l1 -> In x l2 -> False.
Proof.
  induction l1 as [|a l1 IH]; simpl; intros l2 x Hn H1 H2. destruct H1.
  inversion Hn; subst. destruct H1 as [H1|H1].
  - subst. apply H3. apply in_app_iff. auto.
  - eapply IH; eauto.
Qed.

Lemma NoDup_app_right : forall (l1 l2 : list nat), NoDup (l1 ++ l2) -> NoDup l2.
Proof.
  induction l1 as [|a l1 IH]; simpl; intros l2 Hn. assumption.
  inversion Hn; subst. apply IH; assumption.
Qed.

Lemma concat_gsorted : forall plan, NoDup (concat plan) -> gsorted (gle plan) (concat plan).
Proof.
  induction plan as [|g r IH]; simpl; intros Hn. exact I.
  apply gsorted_app.
  - apply gsorted_all. intros x y Hx Hy ga gb Ha Hb. simpl in Ha.
    apply nmem_In in Hx. rewrite Hx in Ha. inversion Ha. lia.
  - apply gsorted_ext with (P := gle r).
    2:{ apply IH. eapply NoDup_app_right; eauto. }
    intros x y Hx Hy HP ga gb Ha Hb. simpl in Ha, Hb.
    assert (Hxg : nmem x g = false) by (apply nmem_nIn; intro; eapply NoDup_app_disj; eauto).
    assert (Hyg : nmem y g = false) by (apply nmem_nIn; intro; eapply NoDup_app_disj; eauto).
    rewrite Hxg in Ha. rewrite Hyg in Hb.
    destruct (group_index r x) as [ka|] eqn:Hka; try discriminate.
    destruct (group_index r y) as [kb|] eqn:Hkb; try discriminate.
    inversion Ha; inversion Hb; subst. specialize (HP _ _ Hka Hkb). lia.
  - intros x y Hx Hy ga gb Ha Hb. simpl in Ha.
    apply nmem_In in Hx. rewrite Hx in Ha. inversion Ha. lia.
Qed.

(* ---------- the order test ---------------------------------------------------------------------------------- *)
Lemma vmem_In : forall v l, Sys.vmem v l = true <-> In v l.
Proof. intros. apply (nmem_In v l). Qed.

Section Bridge.
Variable V : Type.

Lemma order_invariant : forall (cs : list cio) (comps : list (Sys.comp V)) (plan : list (list nat)),
  length comps = length cs ->
  (forall i c k, nth_error cs i = Some c -> nth_error comps i = Some k -> Sys.cin V k = fst c /\ Sys.cout V k = snd c) ->
  (forall i a gi ga, In (i, a) (edges cs) -> group_index plan i = Some gi -> group_index plan a = Some ga -> gi < ga) ->
  (forall a, a < length cs -> exists g, group_index plan a = Some g) ->
  forall (post : list nat) (done : list nat),
  (forall a, In a post -> a < length cs) ->
  gsorted (gle plan) post ->
  (forall i k, nth_error comps i = Some k -> In i post \/ forall v, In v (Sys.cout V k) -> Sys.vmem v done = true) ->
  exists order, order_of_plan V comps post = Some order /\ length order = length post /\
                Sys.is_topological V comps done order = true.
Proof.
  intros cs comps plan Hlen Hio Hedge Hgi.
  induction post as [|a post IH]; intros done Hlt Hs Hdone.
  - exists []. simpl. auto.
  - simpl in Hs. destruct Hs as [Hs1 Hs2].
    assert (Ha : a < length cs) by (apply Hlt; left; auto).
    destruct (nth_error comps a) as [k|] eqn:Hk.
    2:{ apply nth_error_None in Hk. lia. }
    destruct (nth_error cs a) as [c|] eqn:Hc.
    2:{ apply nth_error_None in Hc. lia. }
    destruct (Hio a c k Hc Hk) as [Hin Hout].
    destruct (IH (Sys.cout V k ++ done)) as [order [Ho [Hl Ht]]]; auto.
    { intros x Hx. apply Hlt. right; auto. }
    { intros i k' Hk'. destruct (Hdone i k' Hk') as [[Hi|Hi]|Hi].
      - subst i. rewrite Hk in Hk'. inversion Hk'; subst k'. right.
        intros v Hv. apply vmem_In. apply in_app_iff. auto.
      - auto.
      - right. intros v Hv. apply vmem_In. apply in_app_iff. right. apply vmem_In. auto. }
    exists (k :: order). simpl. rewrite Hk, Ho. split; auto. split. { simpl. lia. }
    rewrite Ht, andb_true_r. apply forallb_forall. intros v Hv.
    destruct (Sys.vmem v (Sys.produced V comps)) eqn:Hp; simpl; auto.
    apply vmem_In in Hp. unfold Sys.produced in Hp. apply in_flat_map in Hp.
    destruct Hp as [k' [Hk' Hv']]. apply In_nth_error in Hk'. destruct Hk' as [j Hj].
    assert (Hjl : j < length cs). { rewrite <- Hlen. apply nth_error_Some. congruence. }
    destruct (nth_error cs j) as [c'|] eqn:Hc'.
    2:{ apply nth_error_None in Hc'. lia. }
    destruct (Hio j c' k' Hc' Hj) as [_ Hout']. rewrite Hout' in Hv'.
    destruct (producer_exists cs v j c' Hc' Hv') as [i Hi].
    assert (He : In (i, a) (edges cs)).
    { apply edges_spec. exists c, v. split; auto. split. rewrite <- Hin; auto. apply producer_spec; auto. }
    destruct (edges_in_range cs i a He) as [Hil _].
    destruct (Hgi i Hil) as [gi Hgi']. destruct (Hgi a Ha) as [ga Hga].
    pose proof (Hedge i a gi ga He Hgi' Hga) as Hlt'.
    apply producer_spec in Hi. destruct Hi as [[ci [Hci Hvi]] _].
    destruct (nth_error comps i) as [ki|] eqn:Hki.
    2:{ apply nth_error_None in Hki. lia. }
    destruct (Hio i ci ki Hci Hki) as [_ Houti].
    destruct (Hdone i ki Hki) as [[Hi|Hi]|Hi].
    + subst i. rewrite Hgi' in Hga. inversion Hga. lia.
    + specialize (Hs1 i Hi ga gi Hga Hgi'). lia.
    + apply Hi. rewrite Houti. auto.
Qed.

Lemma plan_order_is_topological : forall (cs : list cio) (comps : list (Sys.comp V)) (exo : list nat) (plan : list (list nat)),
  length comps = length cs ->
  (forall i c k, nth_error cs i = Some c -> nth_error comps i = Some k -> Sys.cin V k = fst c /\ Sys.cout V k = snd c) ->
  (forall a, ~ path1 (edges cs) a a) ->
  system_plan_ok cs plan = true ->
  exists order, order_of_plan V comps (concat plan) = Some order /\ length order = length cs /\
                Sys.is_topological V comps exo order = true.
Proof.
  intros cs comps exo plan Hlen Hio Hac Hok. unfold system_plan_ok in Hok.
  pose proof (edges_in_range cs) as HE.
  destruct (plan_ok_parts _ _ _ Hok) as [Hl [Hn [Hr _]]].
  destruct (order_invariant cs comps plan Hlen Hio) with (post := concat plan) (done := exo) as [order [Ho [Hlo Ht]]]; auto.
  - intros i a gi ga He Hi Ha. eapply acyclic_plan_is_topological; eauto.
  - intros a Ha. apply group_index_in. eapply plan_covers; eauto.
  - apply concat_gsorted; auto.
  - intros i k Hk. left. eapply plan_covers; eauto. rewrite <- Hlen. apply nth_error_Some. congruence.
  - exists order. split; auto. split; auto. congruence.
Qed.
End Bridge.
