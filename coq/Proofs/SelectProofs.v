(* Proofs/SelectProofs.v — proofs of the statements of Props/C05X.v about Model/Select.v (plain Coq). *)
From Coq Require Import List Arith Bool.
From AmiscV Require Import Select.
Import ListNotations.

Section Proofs.
Variable V : Type.
Implicit Types (req : list nat) (r : row V) (rows : list (row V)).

(* usability is a function of the projection on the requested columns *)
Lemma usable_project req r : usable req r = forallb (fun v => match v with Some _ => true | None => false end) (project req r).
Proof.
unfold usable, project, present.
induction req as [|j req IH]; simpl; [reflexivity|].
rewrite IH; reflexivity.
Qed.

Lemma training_rows_depend_on_requested_only req rows rows' :
  map (project req) rows = map (project req) rows' -> training_rows req rows = training_rows req rows'.
Proof.
unfold training_rows.
revert rows'; induction rows as [|r rows IH]; intros [|r' rows'] H; simpl in H; try discriminate; [reflexivity|].
injection H as Hr Hrest.
simpl. rewrite (usable_project req r), (usable_project req r'), Hr.
destruct (forallb _ (project req r')); simpl; [rewrite Hr; f_equal|]; apply IH; exact Hrest.
Qed.

Lemma project_usable_complete req r : usable req r = true -> forall v, In v (project req r) -> v <> None.
Proof.
rewrite usable_project. intros H v Hv.
rewrite forallb_forall in H. specialize (H v Hv).
destruct v; [discriminate|discriminate].
Qed.

Lemma training_rows_complete req rows r : In r (training_rows req rows) -> forall v, In v r -> v <> None.
Proof.
unfold training_rows. intros H.
apply in_map_iff in H. destruct H as [r0 [E H0]]. subst r.
apply filter_In in H0. destruct H0 as [_ Hu].
exact (project_usable_complete req r0 Hu).
Qed.

Lemma training_rows_all_usable req rows :
  (forall r, In r rows -> usable req r = true) -> training_rows req rows = map (project req) rows.
Proof.
unfold training_rows. intros H. f_equal.
induction rows as [|r rows IH]; simpl; [reflexivity|].
rewrite (H r (or_introl eq_refl)). f_equal. apply IH. intros r0 Hr0. apply H. right; exact Hr0.
Qed.
End Proofs.

Lemma former_rule_refuted :
  map (project [0]) sel_rows_a = map (project [0]) sel_rows_b /\
  training_rows_former [0] sel_rows_a <> training_rows_former [0] sel_rows_b /\
  training_rows [0] sel_rows_a = training_rows [0] sel_rows_b.
Proof.
split; [reflexivity|]. split; [|reflexivity].
vm_compute. discriminate.
Qed.
