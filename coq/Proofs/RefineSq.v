(* Proofs/RefineSq.v — proofs for C08 (extension): the squared relative error, the NaN-ignoring maximum over the outputs and the
   equivalence of the scan over e / max(1, cost) with the scan over the squares (Model/Refine.v, second part). *)
From Coq Require Import List Arith Bool QArith Qcanon.
From AmiscV Require Import Refine.
Import ListNotations.

(* ------------------------------------------------------------------ order facts on Qc *)
Lemma sq_qle_bool_true : forall a b : Qc, Qle_bool (this a) (this b) = true <-> (a <= b)%Qc.
Proof. intros a b. unfold Qcle. apply Qle_bool_iff. Qed.

Lemma sq_qle_bool_false : forall a b : Qc, Qle_bool (this a) (this b) = false <-> (b < a)%Qc.
Proof.
  intros a b. split.
  - intro H. apply Qcnot_le_lt. intro L. apply sq_qle_bool_true in L. rewrite L in H. discriminate.
  - intro H. destruct (Qle_bool (this a) (this b)) eqn:E; [|reflexivity].
    apply sq_qle_bool_true in E. exfalso. exact (Qclt_not_le _ _ H E).
Qed.

Lemma Qc_0_lt_1 : (Q2Qc 0 < Q2Qc 1)%Qc.
Proof. unfold Qclt. simpl. unfold Qlt. simpl. reflexivity. Qed.

Lemma Qclt_neq : forall x : Qc, (Q2Qc 0 < x)%Qc -> x <> Q2Qc 0.
Proof. intros x H E. rewrite E in H. exact (Qclt_not_le _ _ H (Qcle_refl _)). Qed.

Lemma Qcmul_nonneg : forall a b : Qc, (Q2Qc 0 <= a)%Qc -> (Q2Qc 0 <= b)%Qc -> (Q2Qc 0 <= a * b)%Qc.
Proof.
  intros a b Ha Hb. pose proof (Qcmult_le_compat_r _ _ _ Ha Hb) as H.
  rewrite Qcmult_0_l in H. exact H.
Qed.

Lemma Qcsq_nonneg : forall x : Qc, (Q2Qc 0 <= x * x)%Qc.
Proof.
  intro x. destruct (Qclt_le_dec x (Q2Qc 0)) as [L | L].
  - assert (N : (Q2Qc 0 <= - x)%Qc).
    { apply Qclt_le_weak in L. apply Qcle_minus_iff in L. rewrite Qcplus_0_l in L. exact L. }
    replace (x * x)%Qc with ((- x) * (- x))%Qc by ring.
    apply Qcmul_nonneg; exact N.
  - apply Qcmul_nonneg; exact L.
Qed.

Lemma Qcdiv_nonneg : forall a d : Qc, (Q2Qc 0 <= a)%Qc -> (Q2Qc 0 < d)%Qc -> (Q2Qc 0 <= a / d)%Qc.
Proof.
  intros a d Ha Hd. apply (Qcmult_lt_0_le_reg_r _ _ d Hd).
  rewrite Qcmult_0_l. rewrite (test_field a d (Qclt_neq d Hd)). exact Ha.
Qed.

Lemma Qcsq_le : forall a b : Qc, (Q2Qc 0 <= a)%Qc -> (a <= b)%Qc -> (a * a <= b * b)%Qc.
Proof.
  intros a b Ha Hab.
  assert (Hb : (Q2Qc 0 <= b)%Qc) by (apply (Qcle_trans _ a); assumption).
  apply (Qcle_trans _ (b * a)%Qc).
  - apply Qcmult_le_compat_r; assumption.
  - rewrite (Qcmult_comm b a). apply Qcmult_le_compat_r; assumption.
Qed.

Lemma Qcsq_lt : forall a b : Qc, (Q2Qc 0 <= b)%Qc -> (b < a)%Qc -> (b * b < a * a)%Qc.
Proof.
  intros a b Hb Hba.
  assert (Ha : (Q2Qc 0 < a)%Qc) by (apply (Qcle_lt_trans _ b); assumption).
  apply (Qcle_lt_trans _ (a * b)%Qc).
  - apply Qcmult_le_compat_r; [apply Qclt_le_weak; exact Hba | exact Hb].
  - rewrite (Qcmult_comm a b). apply Qcmult_lt_compat_r; assumption.
Qed.

Lemma qle_bool_sq : forall a b : Qc, (Q2Qc 0 <= a)%Qc -> (Q2Qc 0 <= b)%Qc ->
  Qle_bool (this a) (this b) = Qle_bool (this (a * a)%Qc) (this (b * b)%Qc).
Proof.
  intros a b Ha Hb. destruct (Qle_bool (this a) (this b)) eqn:E.
  - symmetry. apply sq_qle_bool_true. apply sq_qle_bool_true in E. apply Qcsq_le; assumption.
  - symmetry. apply sq_qle_bool_false. apply sq_qle_bool_false in E. apply Qcsq_lt; assumption.
Qed.

(* ------------------------------------------------------------------ all_some, sumsq *)
Lemma all_some_map : forall p, all_some (map Some p) = Some p.
Proof. induction p as [|x p IH]; simpl; [reflexivity | rewrite IH; reflexivity]. Qed.

Lemma all_some_none : forall l, In None l -> all_some l = None.
Proof.
  induction l as [|a l IH]; intro H; [destruct H|].
  destruct H as [H | H].
  - subst a. reflexivity.
  - destruct a as [x|]; [|reflexivity]. simpl. rewrite (IH H). reflexivity.
Qed.

Lemma fold_sumsq : forall l a, fold_left (fun acc x => acc + x * x)%Qc l a = (a + sumsq l)%Qc.
Proof.
  induction l as [|x l IH]; intro a; unfold sumsq; simpl.
  - ring.
  - rewrite (IH (a + x * x)%Qc), (IH (Q2Qc 0 + x * x)%Qc). ring.
Qed.

Lemma sumsq_cons : forall x l, sumsq (x :: l) = (x * x + sumsq l)%Qc.
Proof.
  intros x l. unfold sumsq at 1. simpl. rewrite fold_sumsq. ring.
Qed.

Lemma sumsq_nonneg : forall l, (Q2Qc 0 <= sumsq l)%Qc.
Proof.
  induction l as [|x l IH].
  - unfold sumsq. simpl. apply Qcle_refl.
  - rewrite sumsq_cons. rewrite <- (Qcplus_0_l (Q2Qc 0)).
    apply Qcplus_le_compat; [apply Qcsq_nonneg | exact IH].
Qed.

Lemma qeq_bool_zero : forall d : Qc, Qeq_bool (this d) 0 = true -> d = Q2Qc 0.
Proof.
  intros d H. apply Qeq_bool_iff in H. apply Qc_is_canon. simpl. exact H.
Qed.

(* ------------------------------------------------------------------ rel_sq *)
Lemma rel_sq_spec : forall (p t : list Qc), sumsq t <> Q2Qc 0 ->
  rel_sq (map Some p) (map Some t) = Some (sumsq (diffs p t) / sumsq t)%Qc /\ (Q2Qc 0 <= sumsq (diffs p t) / sumsq t)%Qc.
Proof.
  intros p t Hne. split.
  - unfold rel_sq. rewrite !all_some_map. cbv zeta.
    destruct (Qeq_bool (this (sumsq t)) 0) eqn:E; [|reflexivity].
    exfalso. apply Hne. apply qeq_bool_zero. exact E.
  - apply Qcdiv_nonneg; [apply sumsq_nonneg|].
    destruct (Qcle_lt_or_eq _ _ (sumsq_nonneg t)) as [L | L]; [exact L|].
    exfalso. apply Hne. symmetry. exact L.
Qed.

Lemma rel_sq_nan : forall (pred targ : list (option Qc)),
  In None pred \/ In None targ \/ (exists t, targ = map Some t /\ sumsq t = Q2Qc 0) -> rel_sq pred targ = None.
Proof.
  intros pred targ [H | [H | [t [Ht Hz]]]]; unfold rel_sq.
  - rewrite (all_some_none pred H). reflexivity.
  - rewrite (all_some_none targ H). destruct (all_some pred); reflexivity.
  - subst targ. rewrite all_some_map. destruct (all_some pred) as [p|]; [|reflexivity].
    cbv zeta. rewrite Hz. reflexivity.
Qed.

(* ------------------------------------------------------------------ the NaN-ignoring maximum *)
Lemma qmaxq_spec : forall a b : Qc, (qmaxq a b = a \/ qmaxq a b = b) /\ (a <= qmaxq a b)%Qc /\ (b <= qmaxq a b)%Qc.
Proof.
  intros a b. unfold qmaxq. destruct (Qle_bool (this a) (this b)) eqn:E.
  - apply sq_qle_bool_true in E. split; [right; reflexivity|]. split; [exact E | apply Qcle_refl].
  - apply sq_qle_bool_false in E. split; [left; reflexivity|]. split; [apply Qcle_refl | apply Qclt_le_weak; exact E].
Qed.

Lemma max_opt_none : forall a b, max_opt a b = None <-> a = None /\ b = None.
Proof.
  intros [x|] [y|]; simpl; split; try discriminate; try (intros [A B]; discriminate); auto.
Qed.

Lemma max_opt_some : forall a b s, max_opt a b = Some s ->
  (a = Some s \/ b = Some s) /\ (forall x, a = Some x -> (x <= s)%Qc) /\ (forall x, b = Some x -> (x <= s)%Qc).
Proof.
  intros [x|] [y|] s H; simpl in H; try discriminate; injection H as H; subst s.
  - destruct (qmaxq_spec x y) as [[E | E] [L1 L2]].
    + split; [left; rewrite E; reflexivity|]. split; intros z Hz; injection Hz as Hz; subst z; assumption.
    + split; [right; rewrite E; reflexivity|]. split; intros z Hz; injection Hz as Hz; subst z; assumption.
  - split; [left; reflexivity|]. split; intros z Hz; [injection Hz as Hz; subst z; apply Qcle_refl | discriminate].
  - split; [right; reflexivity|]. split; intros z Hz; [discriminate | injection Hz as Hz; subst z; apply Qcle_refl].
Qed.

Definition fmax (outs : list (list (option Qc) * list (option Qc))) (m : option Qc) : option Qc :=
  fold_left (fun m pt => max_opt m (rel_sq (fst pt) (snd pt))) outs m.

Lemma fmax_some : forall outs m s, fmax outs m = Some s ->
  (m = Some s \/ exists o, In o outs /\ rel_sq (fst o) (snd o) = Some s) /\
  (forall x, m = Some x -> (x <= s)%Qc) /\
  (forall o s', In o outs -> rel_sq (fst o) (snd o) = Some s' -> (s' <= s)%Qc).
Proof.
  induction outs as [|o outs IH]; intros m s H.
  - simpl in H. subst m. split; [left; reflexivity|]. split.
    + intros x Hx. injection Hx as Hx. subst x. apply Qcle_refl.
    + intros o s' [].
  - unfold fmax in H. simpl in H. fold (fmax outs (max_opt m (rel_sq (fst o) (snd o)))) in H.
    destruct (IH _ _ H) as [Hatt [Hm Hb]].
    assert (Hup : forall x, m = Some x \/ rel_sq (fst o) (snd o) = Some x -> (x <= s)%Qc).
    { intros x Hx. destruct (max_opt m (rel_sq (fst o) (snd o))) as [y|] eqn:E.
      - destruct (max_opt_some _ _ _ E) as [_ [L1 L2]].
        apply (Qcle_trans _ y); [|apply Hm; reflexivity].
        destruct Hx as [Hx | Hx]; [apply L1 | apply L2]; exact Hx.
      - apply max_opt_none in E. destruct E as [E1 E2]. destruct Hx as [Hx | Hx].
        + rewrite E1 in Hx. discriminate.
        + rewrite E2 in Hx. discriminate. }
    split; [|split].
    + destruct Hatt as [Hatt | [o' [Hin Ho']]].
      * destruct (max_opt_some _ _ _ Hatt) as [[E | E] _].
        -- left. exact E.
        -- right. exists o. split; [left; reflexivity | exact E].
      * right. exists o'. split; [right; exact Hin | exact Ho'].
    + intros x Hx. apply Hup. left. exact Hx.
    + intros o' s' [Hin | Hin] Ho'.
      * subst o'. apply Hup. right. exact Ho'.
      * apply (Hb o' s' Hin Ho').
Qed.

Lemma fmax_none : forall outs m, fmax outs m = None <->
  m = None /\ forall o, In o outs -> rel_sq (fst o) (snd o) = None.
Proof.
  induction outs as [|o outs IH]; intro m.
  - simpl. split; [intro H; split; [exact H | intros o []] | intros [H _]; exact H].
  - unfold fmax. simpl. fold (fmax outs (max_opt m (rel_sq (fst o) (snd o)))).
    rewrite IH. rewrite max_opt_none. split.
    + intros [[Hm Ho] Hall]. split; [exact Hm|]. intros o' [Hin | Hin]; [subst o'; exact Ho | apply Hall; exact Hin].
    + intros [Hm Hall]. split; [split; [exact Hm | apply Hall; left; reflexivity]|].
      intros o' Hin. apply Hall. right. exact Hin.
Qed.

Lemma delta_nan_iff : forall (outs : list (list (option Qc) * list (option Qc))),
  delta_sq outs = None <-> forall o, In o outs -> rel_sq (fst o) (snd o) = None.
Proof.
  intro outs. change (delta_sq outs) with (fmax outs None). rewrite fmax_none.
  split; [intros [_ H]; exact H | intro H; split; [reflexivity | exact H]].
Qed.

Lemma delta_is_max : forall (outs : list (list (option Qc) * list (option Qc))) (s : Qc),
  delta_sq outs = Some s <->
  (exists o, In o outs /\ rel_sq (fst o) (snd o) = Some s) /\
  (forall o s', In o outs -> rel_sq (fst o) (snd o) = Some s' -> (s' <= s)%Qc).
Proof.
  intros outs s. split.
  - intro H. change (delta_sq outs) with (fmax outs None) in H.
    destruct (fmax_some _ _ _ H) as [[Hn | Hatt] [_ Hb]]; [discriminate|].
    split; [exact Hatt | exact Hb].
  - intros [[o [Hin Ho]] Hb]. destruct (delta_sq outs) as [s0|] eqn:E.
    + change (delta_sq outs) with (fmax outs None) in E.
      destruct (fmax_some _ _ _ E) as [[Hn | [o0 [Hin0 Ho0]]] [_ Hb0]]; [discriminate|].
      f_equal. apply Qcle_antisym.
      * apply (Hb o0 s0 Hin0 Ho0).
      * apply (Hb0 o s Hin Ho).
    + exfalso. rewrite delta_nan_iff in E. rewrite (E o Hin) in Ho. discriminate.
Qed.

(* ------------------------------------------------------------------ the two scans make the same choice *)
Definition agree_sq (c : rcand) (d : pcand) : Prop :=
  c_comp c = p_comp d /\ c_pos c = p_pos d /\ c_cost c = p_cost d /\
  match c_err c, delta_sq (p_outs d) with
  | Some e, Some s => (Q2Qc 0 <= e)%Qc /\ (e * e)%Qc = s
  | None, None => True
  | _, _ => False
  end.

Definition Rb (b b2 : option Qc) : Prop :=
  match b, b2 with
  | Some x, Some y => (Q2Qc 0 <= x)%Qc /\ (x * x)%Qc = y
  | None, None => True
  | _, _ => False
  end.

Definition Rs (s : option rcand) (s2 : option pcand) : Prop :=
  match s, s2 with
  | Some c, Some d => c_comp c = p_comp d /\ c_pos c = p_pos d
  | None, None => True
  | _, _ => False
  end.

Lemma qmax1_pos : forall x, (Q2Qc 0 < qmax1 x)%Qc.
Proof.
  intro x. unfold qmax1. destruct (Qle_bool (this (Q2Qc 1)) (this x)) eqn:E.
  - apply sq_qle_bool_true in E. apply (Qclt_le_trans _ (Q2Qc 1)); [exact Qc_0_lt_1 | exact E].
  - exact Qc_0_lt_1.
Qed.

Lemma indicator_rel : forall c d, agree_sq c d -> Rb (indicator c) (indicator_sq d).
Proof.
  intros c d [_ [_ [Hc Hm]]]. unfold indicator, indicator_sq. rewrite Hc.
  destruct (c_err c) as [e|]; destruct (delta_sq (p_outs d)) as [s|]; simpl; try exact Hm.
  destruct Hm as [He Hs]. pose proof (qmax1_pos (p_cost d)) as Hq.
  pose proof (Qclt_neq _ Hq) as Hn. split.
  - apply Qcdiv_nonneg; assumption.
  - subst s. field. exact Hn.
Qed.

Lemma gt_opt_rel : forall x x2 b b2, Rb x x2 -> Rb b b2 -> gt_opt x b = gt_opt x2 b2.
Proof.
  intros [a|] [a2|] [b|] [b2|] Hx Hb; simpl in *; try contradiction; try reflexivity.
  destruct Hx as [Ha Ea]. destruct Hb as [Hb Eb]. subst a2 b2. f_equal.
  apply qle_bool_sq; assumption.
Qed.

Lemma scan_rel : forall cs ds, Forall2 agree_sq cs ds ->
  forall b b2 s s2, Rb b b2 -> Rs s s2 -> Rs (scan cs b s) (scan_sq ds b2 s2).
Proof.
  intros cs ds HF. induction HF as [|c d cs ds Hcd HF IH]; intros b b2 s s2 Hb Hs.
  - simpl. exact Hs.
  - simpl. pose proof (indicator_rel c d Hcd) as Hi.
    rewrite (gt_opt_rel _ _ _ _ Hi Hb).
    destruct (gt_opt (indicator_sq d) b2).
    + apply IH; [exact Hi|]. destruct Hcd as [H1 [H2 _]]. simpl. split; assumption.
    + apply IH; assumption.
Qed.

Lemma squares_same_choice : forall (cs : list rcand) (ds : list pcand),
  Forall2 (fun c d => c_comp c = p_comp d /\ c_pos c = p_pos d /\ c_cost c = p_cost d /\
                      match c_err c, delta_sq (p_outs d) with
                      | Some e, Some s => (Q2Qc 0 <= e)%Qc /\ (e * e)%Qc = s
                      | None, None => True
                      | _, _ => False
                      end) cs ds ->
  match select cs, select_sq ds with
  | Some c, Some d => c_comp c = p_comp d /\ c_pos c = p_pos d
  | None, None => True
  | _, _ => False
  end.
Proof.
  intros cs ds H. unfold select, select_sq.
  exact (scan_rel cs ds H None None None None I I).
Qed.
