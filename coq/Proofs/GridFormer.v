(* Proofs/GridFormer.v — the level-zero rule of SparseGrid.refine before fix 516fd12 evaluates a point twice *)
From Coq Require Import List Arith Bool.
From AmiscV Require Import Grid.
Import ListNotations.

(* two scalar inputs; the data part of the index (0, 0) is requested in two different activations at the same model fidelity, as happens
   when the surrogate has a fidelity index of its own: ((0,), (0, 0, 0)) and later ((0,), (0, 0, 1)) share the data part (0, 0) *)
Lemma zero_level_rule_refuted :
  exists (kpl : nat) (latent : list nat) (batches : list (list (list nat * list nat))),
    ~ NoDup (snd (run_history_former (fun k : key => k) [] kpl false latent batches)) /\
    NoDup (snd (run_history (fun k : key => k) [] kpl false latent batches)).
Proof.
  exists 2, [0; 0], [[([0], [0; 0])]; [([0], [0; 0])]].
  split.
  - vm_compute. intros H. inversion H as [|x l Hn Hd]; subst. apply Hn. left; reflexivity.
  - vm_compute. constructor; [intros []|constructor].
Qed.
