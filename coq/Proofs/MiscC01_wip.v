From AmiscV Require Import Misc MiscDefs MiscIE.
Check upd_weights_ok. Check upd_tsum.
Print Assumptions upd_weights_ok.
