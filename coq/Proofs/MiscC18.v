(* Proofs/MiscC18.v — replaying the accepted history reproduces every intermediate state (C18). *)
From Coq Require Import List Arith ZArith Bool Lia.
From AmiscV Require Import Misc MiscDefs MiscC02 MiscIE MiscC01.
Import ListNotations.

(* ------------------------------------------------------------------ list helpers *)
Lemma flat_map_ext_in : forall (A B : Type) (f g : A -> list B) (l : list A),
  (forall a, In a l -> f a = g a) -> flat_map f l = flat_map g l.
Proof.
  intros A B f g l H. induction l as [|a l IH]; simpl; [reflexivity|].
  rewrite (H a) by (left; reflexivity). rewrite IH; [reflexivity|].
  intros b Hb. apply H. right. exact Hb.
Qed.

Lemma last_cons_default : forall (A : Type) (a d : A) (l : list A), last (a :: l) d = last l a.
Proof.
  intros A a d l. revert a d. induction l as [|b l IH]; intros a d; [reflexivity|].
  change (last (a :: b :: l) d) with (last (b :: l) d). rewrite (IH b d), (IH b a). reflexivity.
Qed.

(* ------------------------------------------------------------------ the first activation:
   the forward neighbours of an all-zero index do not depend on the active set consulted *)
Lemma back_ok_zero : forall act i k, isum i = 0 -> k < length i -> back_ok act i (inc k i) = true.
Proof.
  intros act i k Hz Hk. apply back_ok_spec. intros j Hj Hp. right.
  destruct (Nat.eq_dec j k) as [->|Hne].
  - apply dec_inc.
  - rewrite nth_inc_other in Hp by exact Hne. rewrite (isum0_nth i j Hz) in Hp. lia.
Qed.

Lemma neighbors_zero_any : forall mx act act' i, isum i = 0 ->
  neighbors mx act i = neighbors mx act' i.
Proof.
  intros mx act act' i Hz. unfold neighbors. apply flat_map_ext_in.
  intros k Hk. apply in_seq in Hk. cbv zeta.
  rewrite !back_ok_zero by (try exact Hz; lia). reflexivity.
Qed.

Lemma replay_step_activate : forall mx live s i, Inv mx s -> accepts s i = true ->
  replay_step mx live s i = activate mx s i.
Proof.
  intros mx live s i HI Hacc. rewrite (activate_accepted_shape mx s i Hacc).
  unfold replay_step. cbv zeta.
  destruct (active s) as [|a A] eqn:EA.
  - pose proof (first_accept_zero mx s i HI EA Hacc) as Hz.
    rewrite (neighbors_zero_any mx live [] i Hz). reflexivity.
  - reflexivity.
Qed.

(* ------------------------------------------------------------------ the C18 statements *)
Lemma replay_states_gen : forall mx live reqs s, Inv mx s -> wf_reqs mx reqs ->
  replay mx live s (accepted mx s reqs) = accepted_states mx s reqs.
Proof.
  intros mx live reqs. induction reqs as [|r reqs IH]; intros s HI Hw; [reflexivity|].
  inversion Hw as [|r' reqs' Hr Hrest]; subst.
  pose proof (activate_inv mx s r HI Hr) as HI'.
  cbn [accepted accepted_states]. destruct (accepts s r) eqn:Hacc.
  - cbn [replay]. cbv zeta. rewrite (replay_step_activate mx live s r HI Hacc).
    rewrite (IH _ HI' Hrest). reflexivity.
  - rewrite (reject_unchanged mx s r Hacc). apply IH; assumption.
Qed.

Lemma replay_states : forall mx live reqs, wf_reqs mx reqs ->
  replay mx live st0 (accepted mx st0 reqs) = accepted_states mx st0 reqs.
Proof. intros mx live reqs Hw. apply replay_states_gen; [apply inv_st0 | exact Hw]. Qed.

Lemma last_accepted_states : forall mx reqs s,
  last (accepted_states mx s reqs) s = fold_left (activate mx) reqs s.
Proof.
  intros mx reqs. induction reqs as [|r reqs IH]; intros s; [reflexivity|].
  cbn [accepted_states fold_left]. destruct (accepts s r) eqn:Hacc.
  - rewrite last_cons_default. apply IH.
  - rewrite (reject_unchanged mx s r Hacc). apply IH.
Qed.

Lemma last_is_live : forall mx live reqs, wf_reqs mx reqs -> accepted mx st0 reqs <> [] ->
  last (replay mx live st0 (accepted mx st0 reqs)) st0 = run mx reqs.
Proof.
  intros mx live reqs Hw _. rewrite (replay_states mx live reqs Hw).
  unfold run. apply last_accepted_states.
Qed.

Lemma accepted_length : forall mx reqs s,
  length (accepted_states mx s reqs) = length (accepted mx s reqs).
Proof.
  intros mx reqs. induction reqs as [|r reqs IH]; intros s; [reflexivity|].
  cbn [accepted accepted_states]. destruct (accepts s r); cbn [length]; rewrite IH; reflexivity.
Qed.

Lemma fold_accepted : forall mx reqs s,
  fold_left (activate mx) (accepted mx s reqs) s = fold_left (activate mx) reqs s.
Proof.
  intros mx reqs. induction reqs as [|r reqs IH]; intros s; [reflexivity|].
  cbn [accepted fold_left]. destruct (accepts s r) eqn:Hacc.
  - cbn [fold_left]. apply IH.
  - rewrite (reject_unchanged mx s r Hacc). apply IH.
Qed.

Lemma history_is_activations : forall mx reqs,
  length (accepted_states mx st0 reqs) = length (accepted mx st0 reqs) /\
  run mx (accepted mx st0 reqs) = run mx reqs.
Proof.
  intros mx reqs. split; [apply accepted_length | unfold run; apply fold_accepted].
Qed.

Lemma accepted_states_weights : forall mx reqs s, Winv mx s -> wf_reqs mx reqs ->
  Forall (fun s => weights_ok (active s) (ctrain s) /\ weights_ok (active s ++ cand s) (ctest s))
         (accepted_states mx s reqs).
Proof.
  intros mx reqs. induction reqs as [|r reqs IH]; intros s HW Hw; [constructor|].
  inversion Hw as [|r' reqs' Hr Hrest]; subst.
  pose proof (Winv_activate mx s r HW Hr) as HW'.
  cbn [accepted_states]. destruct (accepts s r).
  - constructor; [|apply IH; assumption].
    split; [apply (w_train mx) | apply (w_test mx)]; exact HW'.
  - apply IH; assumption.
Qed.

Lemma replayed_weights : forall mx live reqs, wf_reqs mx reqs ->
  Forall (fun s => weights_ok (active s) (ctrain s) /\ weights_ok (active s ++ cand s) (ctest s))
         (replay mx live st0 (accepted mx st0 reqs)).
Proof.
  intros mx live reqs Hw. rewrite (replay_states mx live reqs Hw).
  apply accepted_states_weights; [apply Winv_st0 | exact Hw].
Qed.

(* the replay does not look at the live active set: two replays with different fallbacks agree *)
Lemma replay_live_irrelevant : forall mx live1 live2 reqs, wf_reqs mx reqs ->
  replay mx live1 st0 (accepted mx st0 reqs) = replay mx live2 st0 (accepted mx st0 reqs).
Proof.
  intros mx live1 live2 reqs Hw.
  rewrite (replay_states mx live1 reqs Hw), (replay_states mx live2 reqs Hw). reflexivity.
Qed.

(* replaying is idempotent on the accepted history: filtering an already-accepted history keeps all of it *)
Lemma replay_length : forall mx live reqs, wf_reqs mx reqs ->
  length (replay mx live st0 (accepted mx st0 reqs)) = length (accepted mx st0 reqs).
Proof.
  intros mx live reqs Hw. rewrite (replay_states mx live reqs Hw).
  exact (proj1 (history_is_activations mx reqs)).
Qed.
