(* Proofs/C04Proofs.v — proofs of the statements of Props/C04.v: the weights of a refined Lagrange state belong to one
   barycentric formula whatever capacities were in force (weights_any_capacity, history_valid), the former incremental
   update is refuted on a concrete Qc instance (weights_refuted), and a feed-forward chain of exact surrogates predicts
   what the chain of the models predicts (chain_exact). *)
From Coq Require Import QArith Qcanon.
From mathcomp Require Import all_ssreflect all_algebra.
From AmiscV Require Import Field QcInst Lagr QcRun LagrDefs Lagr1d Sys SysProofs.
Set Implicit Arguments. Unset Strict Implicit. Unset Printing Implicit Defensive.
Import GRing.Theory Num.Theory.
Local Open Scope ring_scope.

(* ------------------------------------------------------------------ refinement under moving capacities *)
Lemma nat_lebE (n m : nat) : PeanoNat.Nat.leb n m = (n <= m)%N.
Proof. by elim: n m => [|n IH] [|m] //=; rewrite IH. Qed.

Lemma nat_ltbE (n m : nat) : PeanoNat.Nat.ltb n m = (n < m)%N.
Proof. by rewrite /PeanoNat.Nat.ltb nat_lebE. Qed.

Section Refine.
Variable F : realFieldType.
Implicit Types (xs ws pts : seq F) (C : F).

Lemma weights_any_capacity C xs ws pts :
  C != 0 -> uniq (extend_grid (mc_ops F) xs pts) ->
  let st := refine1 (mc_ops F) C (Some (xs, ws)) pts in
  ((size xs < size (extend_grid (mc_ops F) xs pts))%N ->
     st.1 = extend_grid (mc_ops F) xs pts /\ bary_weights (C ^+ (size st.1).-1) st.1 st.2) /\
  (~~ (size xs < size (extend_grid (mc_ops F) xs pts))%N -> st = (xs, ws)).
Proof.
move=> C0 U /=; rewrite /refine1 !llengthE nat_ltbE.
case: ifP => lt; split=> //= _.
by split=> //; apply: init_weights_ok.
Qed.

(* the invariant of a history: the weights are barycentric for some non-zero constant as soon as the nodes are distinct *)
Definition winv (st : seq F * seq F) : Prop :=
  uniq st.1 -> exists kappa, kappa != 0 /\ bary_weights kappa st.1 st.2.

Lemma winv_fresh C g : C != 0 -> winv (g, init_weights (mc_ops F) C g).
Proof.
move=> C0 /= U; exists (C ^+ (size g).-1); split; first exact: expf_neq0.
exact: init_weights_ok.
Qed.

Lemma winv_init C pts : C != 0 -> winv (refine1 (mc_ops F) C None pts).
Proof. by move=> C0; rewrite /refine1; apply: winv_fresh. Qed.

Lemma winv_step C st pts : C != 0 -> winv st -> winv (refine1 (mc_ops F) C (Some st) pts).
Proof.
case: st => xs ws C0 I; rewrite /refine1.
by case: ifP => _ //; apply: winv_fresh.
Qed.

Lemma history_valid (tol : F) (hist : seq (F * seq F)) (C0 : F) (pts0 : seq F) :
  C0 != 0 -> (forall h, h \in hist -> h.1 != 0) ->
  let final := foldl (fun st h => refine1 (mc_ops F) h.1 (Some st) h.2) (refine1 (mc_ops F) C0 None pts0) hist in
  uniq final.1 -> (0 < size final.1)%N ->
  valid_grid (tol, final).
Proof.
move=> C00 H /=.
have : winv (foldl (fun st h => refine1 (mc_ops F) h.1 (Some st) h.2) (refine1 (mc_ops F) C0 None pts0) hist).
  elim/last_ind: hist H => [|s h IH] H /=; first exact: winv_init.
  rewrite -cats1 foldl_cat /=; apply: winv_step.
    by apply: H; rewrite mem_rcons mem_head.
  by apply: IH => k kin; apply: H; rewrite mem_rcons inE kin orbT.
by case: (foldl _ _ _) => xs ws I /= U n0; split=> //; split=> //; apply: I.
Qed.
End Refine.

(* ------------------------------------------------------------------ the former incremental update is refuted *)
Lemma weights_refuted : c04_predict c04_incremental <> c04_true /\ c04_predict c04_recomputed = c04_true.
Proof.
split.
  by move=> H; have := f_equal qc_den H; vm_compute.
by apply: Qc_is_canon; vm_compute.
Qed.

(* ------------------------------------------------------------------ feed-forward chains of exact surrogates *)
Section Chain.
Variable V : Type.
Variable norm denorm : nat -> V -> V.
Hypothesis Hdn : forall v x, denorm v (norm v x) = x.
Hypothesis Hnd : forall v x, norm v (denorm v x) = x.

Local Notation env := (Sys.env V).
Local Notation comp := (Sys.comp V).
Local Notation lookup := (Sys.lookup V).
Local Notation gather := (Sys.gather V norm denorm).
Local Notation zip_out := (Sys.zip_out V).
Local Notation eval := (Sys.eval V norm denorm).
Local Notation canon := (Sys.canon V denorm).
Local Notation cin := (Sys.cin V).
Local Notation cout := (Sys.cout V).
Local Notation cmodel := (Sys.cmodel V).
Local Notation csurr := (Sys.csurr V).
Local Notation cid := (Sys.cid V).
Local Notation as_raw := (Sys.as_raw V denorm).
Local Notation as_norm := (Sys.as_norm V norm).
Local Notation ceq := (SysProofs.ceq V denorm).
Local Notation flag b c := (mkcomp V (cid c) (cin c) (cout c) (cmodel c) (csurr c) b).

Lemma gather_size (e : env) b vs l : gather e b vs = Some l -> size l = size vs.
Proof.
elim: vs l => [|v vs IH] l /=; first by case=> <-.
case: (lookup e v) => [t|] //; case: (gather e b vs) IH => [r|] // IH [<-] /=.
by rewrite (IH r).
Qed.

(* the normalised inputs are the normalised raw inputs *)
Lemma gather_norm_raw (e : env) vs :
  gather e true vs =
  match gather e false vs with Some l => Some [seq norm p.1 p.2 | p <- zip vs l] | None => None end.
Proof.
elim: vs => [|v vs IH] //=.
case: (lookup e v) => [t|] //; rewrite IH; case: (gather e false vs) => [l|] //=.
by rewrite (SysProofs.as_norm_raw V norm denorm Hnd).
Qed.

(* writing normalised surrogate outputs or raw model outputs is the same in physical units *)
Lemma zip_out_ceq vs ys (e e' : env) : ceq e e' ->
  ceq (zip_out true vs [seq norm p.1 p.2 | p <- zip vs ys] ++ e)%list (zip_out false vs ys ++ e')%list.
Proof.
move=> Hc; elim: vs ys => [|v vs IH] [|y ys] //= w.
move: (IH ys w); rewrite /Sys.canon /=.
case E: (PeanoNat.Nat.eqb w v) => //= _.
by move: E; rewrite nat_eqbE => /eqP ->; rewrite /Sys.as_raw /= Hdn.
Qed.

Lemma chain_gen (order : seq comp) (e0 e0' e1 : env) :
  (forall c, List.In c order -> forall xs, size xs = size (cin c) ->
     csurr c [seq norm p.1 p.2 | p <- zip (cin c) xs] =
     [seq norm p.1 p.2 | p <- zip (cout c) (cmodel c xs)] /\ size (cmodel c xs) = size (cout c)) ->
  ceq e0 e0' ->
  eval [seq flag false c | c <- order] e0 = Some e1 ->
  exists e2, eval [seq flag true c | c <- order] e0' = Some e2 /\ ceq e1 e2.
Proof.
elim: order e0 e0' e1 => [|c order IH] e0 e0' e1 H Hc /=.
  by case=> <-; exists e0'.
rewrite /Sys.comp_step /= gather_norm_raw (SysProofs.gather_ceq V norm denorm Hnd e0 e0' false (cin c) Hc).
case G: (gather e0' false (cin c)) => [xsr|] //.
have [-> _] := H c (or_introl erefl) xsr (gather_size G).
apply: IH; last exact: zip_out_ceq.
by move=> d din; apply: H; right.
Qed.
End Chain.

Lemma chain_exact (V : Type) (norm denorm : nat -> V -> V) (order : seq (comp V)) (e0 e1 : env V) :
  (forall v x, denorm v (norm v x) = x) -> (forall v x, norm v (denorm v x) = x) ->
  (forall c, List.In c order -> forall xs, size xs = size (cin V c) ->
     csurr V c [seq norm p.1 p.2 | p <- zip (cin V c) xs] =
     [seq norm p.1 p.2 | p <- zip (cout V c) (cmodel V c xs)] /\ size (cmodel V c xs) = size (cout V c)) ->
  eval V norm denorm [seq mkcomp V (cid V c) (cin V c) (cout V c) (cmodel V c) (csurr V c) false | c <- order] e0 = Some e1 ->
  exists e2, eval V norm denorm [seq mkcomp V (cid V c) (cin V c) (cout V c) (cmodel V c) (csurr V c) true | c <- order] e0 = Some e2 /\
             forall v, canon V denorm e1 v = canon V denorm e2 v.
Proof.
move=> Hdn Hnd H E.
by apply: (chain_gen Hdn Hnd H _ E).
Qed.
