(* Proofs/MiscIE.v — pure list / arithmetic lemmas behind C01 (inclusion-exclusion weights).
   Self-contained: depends only on the model and the vocabulary. *)
From Coq Require Import List Arith ZArith Bool Lia.
From AmiscV Require Import Misc MiscDefs.
Import ListNotations.

(* ------------------------------------------------------------------ idx_eqb / mem *)
Lemma idx_eqb_refl : forall a, idx_eqb a a = true.
Proof.
  induction a as [|x a IH]; simpl; [reflexivity|].
  rewrite Nat.eqb_refl, IH. reflexivity.
Qed.

Lemma idx_eqb_true : forall a b, idx_eqb a b = true -> a = b.
Proof.
  induction a as [|x a IH]; intros [|y b] H; simpl in H; try discriminate; [reflexivity|].
  apply andb_true_iff in H. destruct H as [H1 H2].
  apply Nat.eqb_eq in H1. apply IH in H2. subst. reflexivity.
Qed.

Lemma idx_eqb_iff : forall a b, idx_eqb a b = true <-> a = b.
Proof. intros a b. split; [apply idx_eqb_true | intros ->; apply idx_eqb_refl]. Qed.

Lemma idx_eqb_false : forall a b, idx_eqb a b = false <-> a <> b.
Proof.
  intros a b. split.
  - intros H E. subst. rewrite idx_eqb_refl in H. discriminate.
  - intros H. destruct (idx_eqb a b) eqn:E; [|reflexivity].
    apply idx_eqb_true in E. contradiction.
Qed.

Lemma idx_eqb_spec : forall a b, reflect (a = b) (idx_eqb a b).
Proof.
  intros a b. destruct (idx_eqb a b) eqn:E; constructor.
  - apply idx_eqb_true; assumption.
  - apply idx_eqb_false; assumption.
Qed.

Lemma idx_eqb_sym : forall a b, idx_eqb a b = idx_eqb b a.
Proof.
  intros a b. destruct (idx_eqb_spec a b) as [->|H].
  - symmetry. apply idx_eqb_refl.
  - symmetry. apply idx_eqb_false. intro E. apply H. symmetry. assumption.
Qed.

Lemma idx_eq_dec : forall a b : idx, {a = b} + {a <> b}.
Proof. intros a b. destruct (idx_eqb_spec a b); [left|right]; assumption. Qed.

Lemma mem_iff : forall i s, mem i s = true <-> In i s.
Proof.
  intros i s. induction s as [|j s IH]; simpl.
  - split; [discriminate | intros []].
  - rewrite orb_true_iff, IH, idx_eqb_iff. split; intros [H|H]; auto.
Qed.

Lemma mem_false_iff : forall i s, mem i s = false <-> ~ In i s.
Proof.
  intros i s. rewrite <- mem_iff. destruct (mem i s); split; intro H; try discriminate; auto.
  exfalso. apply H. reflexivity.
Qed.

Lemma mem_app : forall i a b, mem i (a ++ b) = mem i a || mem i b.
Proof.
  intros i a b. induction a as [|j a IH]; simpl; [reflexivity|].
  rewrite IH. apply orb_assoc.
Qed.

Lemma mem_same_set : forall A B, same_set A B -> forall x, mem x A = mem x B.
Proof.
  intros A B H x. destruct (mem x B) eqn:E.
  - apply mem_iff. apply H. apply mem_iff. assumption.
  - apply mem_false_iff. intro HA. apply H in HA. apply mem_iff in HA. congruence.
Qed.

(* ------------------------------------------------------------------ generic list facts *)
Lemma nodup_app : forall (l1 l2 : list idx),
  NoDup l1 -> NoDup l2 -> (forall x, In x l1 -> ~ In x l2) -> NoDup (l1 ++ l2).
Proof.
  induction l1 as [|a l1 IH]; intros l2 H1 H2 Hd; simpl; [assumption|].
  inversion H1 as [|a' l' Hna Hnd]; subst. constructor.
  - rewrite in_app_iff. intros [H|H]; [contradiction|].
    apply (Hd a); [left; reflexivity | assumption].
  - apply IH; try assumption. intros x Hx. apply Hd. right. assumption.
Qed.

Lemma nodup_app_l : forall (l1 l2 : list idx), NoDup (l1 ++ l2) -> NoDup l1.
Proof.
  induction l1 as [|a l1 IH]; intros l2 H; [constructor|].
  simpl in H. inversion H as [|a' l' Hna Hnd]; subst. constructor.
  - intro Hin. apply Hna. apply in_or_app. left. assumption.
  - apply (IH l2). assumption.
Qed.

Lemma nodup_app_r : forall (l1 l2 : list idx), NoDup (l1 ++ l2) -> NoDup l2.
Proof.
  induction l1 as [|a l1 IH]; intros l2 H; [assumption|].
  simpl in H. inversion H; subst. apply IH. assumption.
Qed.

Lemma nodup_app_disj : forall (l1 l2 : list idx) x, NoDup (l1 ++ l2) -> In x l1 -> ~ In x l2.
Proof.
  induction l1 as [|a l1 IH]; intros l2 x H Hx; [destruct Hx|].
  simpl in H. inversion H as [|a' l' Hna Hnd]; subst. destruct Hx as [->|Hx].
  - intro Hin. apply Hna. apply in_or_app. right. assumption.
  - apply IH; assumption.
Qed.

Lemma nodup_map_cons : forall (x : nat) (l : list idx), NoDup l -> NoDup (map (cons x) l).
Proof.
  intros x l H. induction H as [|a l Hna Hnd IH]; simpl; constructor; [|assumption].
  rewrite in_map_iff. intros [b [Hb Hin]]. inversion Hb; subst. contradiction.
Qed.

(* ------------------------------------------------------------------ zsum *)
Local Open Scope Z_scope.

Lemma zsum_app : forall l1 l2, zsum (l1 ++ l2) = zsum l1 + zsum l2.
Proof. induction l1 as [|a l1 IH]; intros l2; simpl; [reflexivity|]. rewrite IH. lia. Qed.

Lemma zsum_map_add : forall (A : Type) (f g : A -> Z) l,
  zsum (map (fun x => f x + g x) l) = zsum (map f l) + zsum (map g l).
Proof. intros A f g l. induction l as [|a l IH]; simpl; [reflexivity|]. rewrite IH. lia. Qed.

Lemma zsum_map_opp : forall (A : Type) (f : A -> Z) l,
  zsum (map (fun x => - f x) l) = - zsum (map f l).
Proof. intros A f l. induction l as [|a l IH]; simpl; [reflexivity|]. rewrite IH. lia. Qed.

Lemma zsum_map_ext : forall (A : Type) (f g : A -> Z) l,
  (forall x, In x l -> f x = g x) -> zsum (map f l) = zsum (map g l).
Proof.
  intros A f g l H. induction l as [|a l IH]; simpl; [reflexivity|].
  rewrite (H a), IH; [reflexivity | | left; reflexivity].
  intros x Hx. apply H. right. assumption.
Qed.

Lemma zsum_map_zero : forall (A : Type) (f : A -> Z) l,
  (forall x, In x l -> f x = 0) -> zsum (map f l) = 0.
Proof.
  intros A f l H. induction l as [|a l IH]; simpl; [reflexivity|].
  rewrite (H a), IH; [reflexivity | | left; reflexivity].
  intros x Hx. apply H. right. assumption.
Qed.

(* a sum over a duplicate-free list only sees the part where the summand is non-zero *)
Lemma zsum_sub : forall (f : idx -> Z) (M L : list idx),
  NoDup M -> NoDup L -> incl M L -> (forall o, In o L -> ~ In o M -> f o = 0) ->
  zsum (map f L) = zsum (map f M).
Proof.
  intros f. induction M as [|a M IH]; intros L HM HL Hincl Hz.
  - simpl. apply zsum_map_zero. intros o Ho. apply Hz; [assumption | intros []].
  - assert (Ha : In a L) by (apply Hincl; left; reflexivity).
    apply in_split in Ha. destruct Ha as [L1 [L2 ->]].
    inversion HM as [|a' M' Hna HMM]; subst.
    rewrite map_app, zsum_app. simpl.
    assert (E : zsum (map f (L1 ++ L2)) = zsum (map f M)).
    { apply IH.
      - assumption.
      - apply NoDup_remove_1 in HL. assumption.
      - intros m Hm. assert (Hm' : In m (L1 ++ a :: L2)) by (apply Hincl; right; assumption).
        apply in_app_iff in Hm'. apply in_app_iff. destruct Hm' as [H|[H|H]]; auto.
        subst. contradiction.
      - intros o Ho Hno. apply Hz.
        + apply in_app_iff in Ho. apply in_app_iff. destruct Ho; [left | right; right]; assumption.
        + intros [H|H]; [|contradiction]. subst.
          apply NoDup_remove_2 in HL. contradiction. }
    rewrite map_app, zsum_app in E. lia.
Qed.

(* picking out one element of a duplicate-free list *)
Lemma zsum_pick : forall (g : idx -> Z) (o : idx) (L : list idx), NoDup L ->
  zsum (map (fun a => if idx_eqb o a then g a else 0) L) = if mem o L then g o else 0.
Proof.
  intros g o L H. induction H as [|a L Hna Hnd IH]; simpl; [reflexivity|].
  rewrite IH. destruct (idx_eqb_spec o a) as [->|Hne]; simpl.
  - apply mem_false_iff in Hna. rewrite Hna. lia.
  - lia.
Qed.

(* ------------------------------------------------------------------ sign, contrib *)
Definition contrib (n o : idx) : Z := match diff01 n o with Some k => sign k | None => 0 end.

Lemma sign_S : forall k, sign (S k) = - sign k.
Proof.
  intros k. unfold sign. rewrite Nat.even_succ, <- Nat.negb_even.
  destruct (Nat.even k); reflexivity.
Qed.

Lemma contrib_cons : forall x n y o, contrib (x :: n) (y :: o) =
  if Nat.eqb x y then contrib n o else if Nat.eqb x (S y) then - contrib n o else 0.
Proof.
  intros x n y o. unfold contrib. simpl. destruct (Nat.eqb x y); [reflexivity|].
  destruct (Nat.eqb x (S y)); [|reflexivity].
  destruct (diff01 n o); simpl; [apply sign_S | reflexivity].
Qed.

Lemma diff01_refl : forall n, diff01 n n = Some 0%nat.
Proof. induction n as [|x n IH]; simpl; [reflexivity|]. rewrite Nat.eqb_refl. assumption. Qed.

Lemma contrib_refl : forall n, contrib n n = 1.
Proof. intros n. unfold contrib. rewrite diff01_refl. reflexivity. Qed.

Lemma diff01_le : forall n o, diff01 n o <> None -> leb_idx o n = true.
Proof.
  induction n as [|x n IH]; intros [|y o] H; simpl in *; try congruence.
  destruct (Nat.eqb_spec x y) as [->|Hxy].
  - rewrite Nat.leb_refl. simpl. apply IH. assumption.
  - destruct (Nat.eqb_spec x (S y)) as [->|Hxy'].
    + assert (E : (y <=? S y)%nat = true) by (apply Nat.leb_le; lia).
      rewrite E. simpl. apply IH. intro E'. rewrite E' in H. simpl in H. congruence.
    + congruence.
Qed.

Lemma contrib_nz : forall n o, contrib n o <> 0 -> diff01 n o <> None.
Proof. intros n o H E. unfold contrib in H. rewrite E in H. apply H. reflexivity. Qed.

Lemma contrib_none : forall n o, diff01 n o = None -> contrib n o = 0.
Proof. intros n o E. unfold contrib. rewrite E. reflexivity. Qed.

(* ------------------------------------------------------------------ the sub-cube below n *)
Fixpoint dn (n : idx) : list idx :=
  match n with
  | [] => [[]]
  | x :: r => map (cons x) (dn r) ++ match x with O => [] | S x' => map (cons x') (dn r) end
  end.

Lemma dn_In : forall n o, In o (dn n) <-> diff01 n o <> None.
Proof.
  induction n as [|x n IH]; intros o.
  - simpl. destruct o; split; intro H; try congruence; auto.
    + destruct H as [H|[]]. discriminate.
  - destruct o as [|y o].
    + simpl. split; [|congruence]. intro H. apply in_app_iff in H. destruct H as [H|H].
      * apply in_map_iff in H. destruct H as [b [Hb _]]. discriminate.
      * destruct x; [destruct H|]. apply in_map_iff in H. destruct H as [b [Hb _]]. discriminate.
    + simpl. rewrite in_app_iff. split.
      * intros [H|H].
        -- apply in_map_iff in H. destruct H as [b [Hb Hin]]. inversion Hb; subst.
           rewrite Nat.eqb_refl. apply IH. assumption.
        -- destruct x as [|x']; [destruct H|].
           apply in_map_iff in H. destruct H as [b [Hb Hin]]. inversion Hb; subst.
           destruct (Nat.eqb_spec (S y) y); [lia|]. rewrite Nat.eqb_refl.
           apply IH in Hin. destruct (diff01 n o); simpl; congruence.
      * intros H. destruct (Nat.eqb_spec x y) as [->|Hxy].
        -- left. apply in_map. apply IH. assumption.
        -- destruct (Nat.eqb_spec x (S y)) as [->|Hxy']; [|congruence].
           right. apply in_map. apply IH. intro E. rewrite E in H. simpl in H. congruence.
Qed.

Lemma dn_NoDup : forall n, NoDup (dn n).
Proof.
  induction n as [|x n IH]; simpl.
  - constructor; [intros [] | constructor].
  - apply nodup_app.
    + apply nodup_map_cons. assumption.
    + destruct x; [constructor | apply nodup_map_cons; assumption].
    + intros o H1 H2. destruct x as [|x']; [destruct H2|].
      apply in_map_iff in H1. destruct H1 as [b1 [Hb1 _]].
      apply in_map_iff in H2. destruct H2 as [b2 [Hb2 _]]. subst o. inversion Hb2. lia.
Qed.

Lemma dn_sum : forall n, zsum (map (contrib n) (dn n)) = if Nat.eqb (isum n) 0 then 1 else 0.
Proof.
  induction n as [|x n IH].
  - reflexivity.
  - simpl dn. rewrite map_app, zsum_app, map_map.
    assert (E1 : zsum (map (fun o => contrib (x :: n) (x :: o)) (dn n)) = zsum (map (contrib n) (dn n))).
    { apply zsum_map_ext. intros o _. rewrite contrib_cons, Nat.eqb_refl. reflexivity. }
    rewrite E1, IH. destruct x as [|x'].
    + simpl. lia.
    + rewrite map_map.
      assert (E2 : zsum (map (fun o => contrib (S x' :: n) (x' :: o)) (dn n))
                   = - zsum (map (contrib n) (dn n))).
      { rewrite <- zsum_map_opp. apply zsum_map_ext. intros o _. rewrite contrib_cons.
        destruct (Nat.eqb_spec (S x') x'); [lia|]. rewrite Nat.eqb_refl. reflexivity. }
      rewrite E2, IH. simpl. lia.
Qed.

(* the total contribution of one new index n to a duplicate-free set containing its sub-cube *)
Lemma contrib_total : forall n L, NoDup L -> (forall o, diff01 n o <> None -> In o L) ->
  zsum (map (contrib n) L) = if Nat.eqb (isum n) 0 then 1 else 0.
Proof.
  intros n L HL Hsub. rewrite <- dn_sum. apply zsum_sub.
  - apply dn_NoDup.
  - assumption.
  - intros o Ho. apply Hsub. apply dn_In. assumption.
  - intros o _ Hno. apply contrib_none. destruct (diff01 n o) eqn:E; [|reflexivity].
    exfalso. apply Hno. apply dn_In. congruence.
Qed.

(* ------------------------------------------------------------------ IE as a sum of contributions *)
Lemma zsum_cube_S : forall (f : idx -> Z) d,
  zsum (map f (cube (S d))) =
  zsum (map (fun e => f (0%nat :: e)) (cube d)) + zsum (map (fun e => f (1%nat :: e)) (cube d)).
Proof. intros f d. simpl. rewrite map_app, zsum_app, !map_map. reflexivity. Qed.

Lemma cube_sum : forall i j,
  zsum (map (fun e => if idx_eqb (addv i e) j then sign (isum e) else 0) (cube (length i))) = contrib j i.
Proof.
  induction i as [|x i IH]; intros j.
  - simpl. destruct j; reflexivity.
  - simpl length. rewrite zsum_cube_S. destruct j as [|y j].
    + rewrite !zsum_map_zero; [reflexivity | |]; intros e _; reflexivity.
    + rewrite contrib_cons.
      match goal with |- zsum (map ?f1 _) + zsum (map ?f2 _) = _ =>
        assert (E1 : zsum (map f1 (cube (length i))) = if Nat.eqb y x then contrib j i else 0);
        [| assert (E2 : zsum (map f2 (cube (length i))) = if Nat.eqb y (S x) then - contrib j i else 0)]
      end.
      * destruct (Nat.eqb_spec y x) as [->|Hne].
        -- rewrite <- IH. apply zsum_map_ext. intros e _. simpl.
           rewrite Nat.add_0_r, Nat.eqb_refl. reflexivity.
        -- apply zsum_map_zero. intros e _. simpl. rewrite Nat.add_0_r.
           destruct (Nat.eqb_spec x y); [congruence | reflexivity].
      * destruct (Nat.eqb_spec y (S x)) as [->|Hne].
        -- rewrite <- IH, <- zsum_map_opp. apply zsum_map_ext. intros e _. simpl.
           replace (x + 1)%nat with (S x) by lia. rewrite Nat.eqb_refl. simpl.
           destruct (idx_eqb (addv i e) j); [apply sign_S | reflexivity].
        -- apply zsum_map_zero. intros e _. simpl.
           destruct (Nat.eqb_spec (x + 1)%nat y); [lia | reflexivity].
      * rewrite E1, E2. destruct (Nat.eqb_spec y x); destruct (Nat.eqb_spec y (S x)); lia.
Qed.

Lemma IE_ext : forall S S' i, (forall x, mem x S = mem x S') -> IE S i = IE S' i.
Proof.
  intros S S' i H. unfold IE. apply zsum_map_ext. intros e _. rewrite H. reflexivity.
Qed.

Lemma IE_same_set : forall S S' i, same_set S S' -> IE S i = IE S' i.
Proof. intros S S' i H. apply IE_ext. apply mem_same_set. assumption. Qed.

Lemma IE_nil : forall i, IE [] i = 0.
Proof. intros i. unfold IE. apply zsum_map_zero. intros e _. reflexivity. Qed.

Lemma IE_cons : forall j S i, ~ In j S -> IE (j :: S) i = IE S i + contrib j i.
Proof.
  intros j S i Hn. rewrite <- cube_sum. unfold IE. rewrite <- zsum_map_add.
  apply zsum_map_ext. intros e _. simpl.
  destruct (idx_eqb_spec (addv i e) j) as [E|E]; simpl.
  - rewrite E. apply mem_false_iff in Hn. rewrite Hn. lia.
  - lia.
Qed.

Lemma IE_app_new : forall set news o, NoDup news -> (forall n, In n news -> ~ In n set) ->
  IE (set ++ news) o = IE set o + zsum (map (fun n => contrib n o) news).
Proof.
  intros set news o Hnd. induction Hnd as [|n news Hn Hnd IH]; intros Hd.
  - rewrite app_nil_r. simpl. lia.
  - rewrite (IE_same_set (set ++ n :: news) (n :: set ++ news)).
    + rewrite IE_cons.
      * rewrite IH; [simpl; lia|]. intros m Hm. apply Hd. right. assumption.
      * rewrite in_app_iff. intros [H|H]; [|contradiction].
        apply (Hd n); [left; reflexivity | assumption].
    + intros x. simpl. rewrite !in_app_iff. simpl. tauto.
Qed.

(* ------------------------------------------------------------------ weights_ok basics *)
Lemma weights_ok_same_set : forall S S' c, same_set S S' -> weights_ok S c -> weights_ok S' c.
Proof.
  intros S S' c H [H1 [H2 H3]]. split; [assumption|]. split.
  - intros i. rewrite H2. apply H.
  - intros i. rewrite H3. apply IE_same_set. assumption.
Qed.

Lemma weights_ok_nil : weights_ok [] [].
Proof.
  split; [constructor|]. split.
  - intros i. simpl. tauto.
  - intros i. rewrite IE_nil. reflexivity.
Qed.

(* ------------------------------------------------------------------ trees *)
Definition tsum (c : tree) : Z := zsum (map snd c).

Lemma tget_tset : forall c i v j,
  tget (tset c i v) j = if idx_eqb j i then Some v else tget c j.
Proof.
  induction c as [|[k w] c IH]; intros i v j; simpl.
  - reflexivity.
  - destruct (idx_eqb_spec i k) as [->|Hik]; simpl.
    + destruct (idx_eqb j k); reflexivity.
    + rewrite IH. destruct (idx_eqb_spec j k) as [->|Hjk]; [|reflexivity].
      destruct (idx_eqb_spec k i); [|reflexivity]. subst. contradiction.
Qed.

Lemma coeff_tset : forall c i v j,
  coeff (tset c i v) j = if idx_eqb j i then v else coeff c j.
Proof. intros c i v j. unfold coeff. rewrite tget_tset. destruct (idx_eqb j i); reflexivity. Qed.

Lemma keys_tset : forall c i v,
  keys (tset c i v) = if mem i (keys c) then keys c else keys c ++ [i].
Proof.
  induction c as [|[k w] c IH]; intros i v; simpl.
  - reflexivity.
  - destruct (idx_eqb i k); simpl; [reflexivity|].
    unfold keys in *. rewrite IH. destruct (mem i (map fst c)); reflexivity.
Qed.

Lemma tget_keys : forall c i, In i (keys c) <-> tget c i <> None.
Proof.
  induction c as [|[k w] c IH]; intros i; simpl.
  - split; [intros [] | congruence].
  - destruct (idx_eqb_spec i k) as [->|Hik].
    + split; [congruence | auto].
    + rewrite <- IH. split; [intros [H|H]; [congruence | assumption] | auto].
Qed.

Lemma coeff_not_key : forall c i, ~ In i (keys c) -> coeff c i = 0.
Proof.
  intros c i H. unfold coeff. destruct (tget c i) eqn:E; [|reflexivity].
  exfalso. apply H. apply tget_keys. congruence.
Qed.

Lemma tsum_tset : forall c i v, tsum (tset c i v) = tsum c - coeff c i + v.
Proof.
  unfold tsum. induction c as [|[k w] c IH]; intros i v.
  - unfold coeff. simpl. lia.
  - unfold coeff. simpl. destruct (idx_eqb i k) eqn:E; simpl.
    + lia.
    + rewrite IH. unfold coeff. lia.
Qed.

(* ------------------------------------------------------------------ one pass of update_misc_coeff *)
Definition step (n : idx) (c : tree) (o : idx) : tree :=
  match diff01 n o with Some k => bump c o (sign k) | None => c end.

Lemma upd1_fold : forall set c n, upd1 set c n = fold_left (step n) (set ++ [n]) c.
Proof. reflexivity. Qed.

Lemma coeff_step : forall n c a o,
  coeff (step n c a) o = coeff c o + (if idx_eqb o a then contrib n a else 0).
Proof.
  intros n c a o. unfold step, contrib. destruct (diff01 n a) as [k|].
  - unfold bump. rewrite coeff_tset. destruct (idx_eqb_spec o a) as [->|H]; lia.
  - destruct (idx_eqb o a); lia.
Qed.

Lemma keys_step_In : forall n c a o,
  In o (keys (step n c a)) <-> In o (keys c) \/ (o = a /\ diff01 n a <> None).
Proof.
  intros n c a o. unfold step. destruct (diff01 n a) as [k|].
  - unfold bump. rewrite keys_tset. destruct (mem a (keys c)) eqn:E.
    + apply mem_iff in E. split; [auto|]. intros [H|[-> _]]; assumption.
    + rewrite in_app_iff. simpl. split.
      * intros [H|[H|[]]]; [left; assumption | right]. split; [auto | congruence].
      * intros [H|[H _]]; [left; assumption | right; left; auto].
  - split; [auto|]. intros [H|[_ H]]; [assumption | congruence].
Qed.

Lemma keys_step_NoDup : forall n c a, NoDup (keys c) -> NoDup (keys (step n c a)).
Proof.
  intros n c a H. unfold step. destruct (diff01 n a) as [k|]; [|assumption].
  unfold bump. rewrite keys_tset. destruct (mem a (keys c)) eqn:E; [assumption|].
  apply mem_false_iff in E. apply nodup_app; [assumption | constructor; [intros [] | constructor] |].
  intros x Hx [Hx'|[]]. subst. contradiction.
Qed.

Lemma tsum_step : forall n c a, tsum (step n c a) = tsum c + contrib n a.
Proof.
  intros n c a. unfold step, contrib. destruct (diff01 n a) as [k|]; [|lia].
  unfold bump. rewrite tsum_tset. lia.
Qed.

Lemma coeff_fold : forall n L c o,
  coeff (fold_left (step n) L c) o =
  coeff c o + zsum (map (fun a => if idx_eqb o a then contrib n a else 0) L).
Proof.
  intros n. induction L as [|a L IH]; intros c o; simpl; [lia|].
  rewrite IH, coeff_step. lia.
Qed.

Lemma keys_fold_In : forall n L c o,
  In o (keys (fold_left (step n) L c)) <-> In o (keys c) \/ (In o L /\ diff01 n o <> None).
Proof.
  intros n. induction L as [|a L IH]; intros c o; simpl.
  - tauto.
  - rewrite IH, keys_step_In. split.
    + intros [[H|[-> H]]|[H1 H2]]; auto.
    + intros [H|[[H|H] H2]]; auto. subst. auto.
Qed.

Lemma keys_fold_NoDup : forall n L c, NoDup (keys c) -> NoDup (keys (fold_left (step n) L c)).
Proof.
  intros n. induction L as [|a L IH]; intros c H; simpl; [assumption|].
  apply IH. apply keys_step_NoDup. assumption.
Qed.

Lemma tsum_fold : forall n L c, tsum (fold_left (step n) L c) = tsum c + zsum (map (contrib n) L).
Proof.
  intros n. induction L as [|a L IH]; intros c; simpl; [lia|].
  rewrite IH, tsum_step. lia.
Qed.

Lemma coeff_upd1 : forall set c n o, NoDup (set ++ [n]) ->
  coeff (upd1 set c n) o = coeff c o + (if mem o (set ++ [n]) then contrib n o else 0).
Proof.
  intros set c n o H. rewrite upd1_fold, coeff_fold, (zsum_pick (contrib n) o _ H). reflexivity.
Qed.

(* ------------------------------------------------------------------ the batch update *)
Lemma coeff_upd : forall set news c o, (forall n, In n news -> NoDup (set ++ [n])) ->
  coeff (upd news set c) o =
  coeff c o + zsum (map (fun n => if mem o (set ++ [n]) then contrib n o else 0) news).
Proof.
  intros set. unfold upd. induction news as [|n news IH]; intros c o H; simpl; [lia|].
  rewrite IH.
  - rewrite coeff_upd1; [lia|]. apply H. left. reflexivity.
  - intros m Hm. apply H. right. assumption.
Qed.

Lemma keys_upd_In : forall set news c o,
  In o (keys (upd news set c)) <->
  In o (keys c) \/ exists n, In n news /\ In o (set ++ [n]) /\ diff01 n o <> None.
Proof.
  intros set. unfold upd. induction news as [|n news IH]; intros c o; simpl.
  - split; [auto|]. intros [H|[n [[] _]]]. assumption.
  - rewrite IH, upd1_fold, keys_fold_In. split.
    + intros [[H|H]|[m [H1 H2]]]; [auto | |].
      * right. exists n. split; [left; reflexivity | assumption].
      * right. exists m. split; [right; assumption | assumption].
    + intros [H|[m [[->|H1] H2]]]; [auto | auto |].
      right. exists m. split; assumption.
Qed.

Lemma keys_upd_NoDup : forall set news c, NoDup (keys c) -> NoDup (keys (upd news set c)).
Proof.
  intros set. unfold upd. induction news as [|n news IH]; intros c H; simpl; [assumption|].
  apply IH. rewrite upd1_fold. apply keys_fold_NoDup. assumption.
Qed.

Lemma tsum_upd : forall set news c,
  tsum (upd news set c) = tsum c + zsum (map (fun n => zsum (map (contrib n) (set ++ [n]))) news).
Proof.
  intros set. unfold upd. induction news as [|n news IH]; intros c; simpl; [lia|].
  rewrite IH, upd1_fold, tsum_fold. lia.
Qed.

(* ------------------------------------------------------------------ the main step:
   adding a batch of fresh, mutually unrelated indices whose sub-cubes lie in the old set *)
Lemma upd_weights_ok : forall set news c,
  NoDup set -> NoDup news -> (forall n, In n news -> ~ In n set) ->
  (forall n o, In n news -> diff01 n o <> None -> o = n \/ In o set) ->
  weights_ok set c ->
  weights_ok (set ++ news) (upd news set c).
Proof.
  intros set news c Hset Hnews Hdisj Hsub [Hk1 [Hk2 Hk3]].
  assert (Hnd1 : forall n, In n news -> NoDup (set ++ [n])).
  { intros n Hn. apply nodup_app; [assumption | constructor; [intros [] | constructor] |].
    intros x Hx [Hx'|[]]. subst. apply (Hdisj x); assumption. }
  split; [apply keys_upd_NoDup; assumption|]. split.
  - intros o. rewrite keys_upd_In, Hk2, in_app_iff. split.
    + intros [H|[n [Hn [Ho _]]]]; [left; assumption|].
      apply in_app_iff in Ho. destruct Ho as [Ho|[->|[]]]; [left | right]; assumption.
    + intros [H|H]; [left; assumption|]. right. exists o. split; [assumption|]. split.
      * apply in_app_iff. right. left. reflexivity.
      * rewrite diff01_refl. congruence.
  - intros o. rewrite coeff_upd by assumption. rewrite IE_app_new by assumption. rewrite Hk3.
    f_equal. apply zsum_map_ext. intros n Hn.
    destruct (mem o (set ++ [n])) eqn:E; [reflexivity|].
    apply mem_false_iff in E. destruct (diff01 n o) eqn:D.
    + exfalso. apply E. apply in_app_iff. destruct (Hsub n o Hn) as [->|H]; [congruence | |].
      * right. left. reflexivity.
      * left. assumption.
    + symmetry. apply contrib_none. assumption.
Qed.

Lemma upd_tsum : forall set news c,
  NoDup set -> (forall n, In n news -> ~ In n set) ->
  (forall n o, In n news -> diff01 n o <> None -> o = n \/ In o set) ->
  tsum (upd news set c) = tsum c + zsum (map (fun n => if Nat.eqb (isum n) 0 then 1 else 0) news).
Proof.
  intros set news c Hset Hdisj Hsub. rewrite tsum_upd. f_equal.
  apply zsum_map_ext. intros n Hn. apply contrib_total.
  - apply nodup_app; [assumption | constructor; [intros [] | constructor] |].
    intros x Hx [Hx'|[]]. subst. apply (Hdisj x); assumption.
  - intros o Ho. apply in_app_iff. destruct (Hsub n o Hn Ho) as [->|H]; [right; left; reflexivity | left; assumption].
Qed.
