(* Proofs/GridProofs.v — proofs for C09 (Props/C09.v) about Model/Grid.v and Model/Cost.v. *)
From Coq Require Import List Arith Bool Lia ZArith QArith Qcanon Qround Permutation.
From AmiscV Require Import Grid Cost.
Import ListNotations.
Local Close Scope Q_scope.
Local Close Scope Qc_scope.

(* ------------------------------------------------------------------ generic list facts *)
Lemma NoDup_app_intro {A} (l1 l2 : list A) :
  NoDup l1 -> NoDup l2 -> (forall x, In x l1 -> In x l2 -> False) -> NoDup (l1 ++ l2).
Proof.
  induction l1 as [|a l1 IH]; intros H1 H2 Hd; simpl; [exact H2|].
  inversion H1 as [|? ? Hna Hnd]; subst.
  constructor.
  - intro Hin. apply in_app_or in Hin. destruct Hin as [Hin|Hin].
    + exact (Hna Hin).
    + exact (Hd a (or_introl eq_refl) Hin).
  - apply IH; [exact Hnd | exact H2 |].
    intros x Hx1 Hx2. exact (Hd x (or_intror Hx1) Hx2).
Qed.

Lemma NoDup_app_l {A} (l1 l2 : list A) : NoDup (l1 ++ l2) -> NoDup l1.
Proof.
  induction l1 as [|a l1 IH]; intros H; [constructor|].
  simpl in H. inversion H as [|? ? Hna Hnd]; subst.
  constructor.
  - intro Hin. apply Hna. apply in_or_app. left. exact Hin.
  - apply IH. exact Hnd.
Qed.

Lemma NoDup_app_r {A} (l1 l2 : list A) : NoDup (l1 ++ l2) -> NoDup l2.
Proof.
  induction l1 as [|a l1 IH]; intros H; [exact H|].
  simpl in H. inversion H; subst. apply IH. assumption.
Qed.

Lemma NoDup_app_disj {A} (l1 l2 : list A) x : NoDup (l1 ++ l2) -> In x l1 -> In x l2 -> False.
Proof.
  induction l1 as [|a l1 IH]; intros H H1 H2; [destruct H1|].
  simpl in H. inversion H as [|? ? Hna Hnd]; subst.
  destruct H1 as [E|H1].
  - subst. apply Hna. apply in_or_app. right. exact H2.
  - exact (IH Hnd H1 H2).
Qed.

(* ------------------------------------------------------------------ keys *)
Lemma coord_eqb_eq a b : coord_eqb a b = true <-> a = b.
Proof.
  revert b. induction a as [|x a IH]; intros [|y b]; simpl; split; intro H;
    try reflexivity; try discriminate.
  - apply andb_prop in H. destruct H as [Hx Ha].
    apply Nat.eqb_eq in Hx. apply IH in Ha. subst. reflexivity.
  - inversion H; subst. rewrite Nat.eqb_refl. simpl. apply IH. reflexivity.
Qed.

Lemma key_eqb_eq k1 k2 : key_eqb k1 k2 = true <-> k1 = k2.
Proof.
  destruct k1 as [a1 c1], k2 as [a2 c2]. unfold key_eqb. simpl. split; intro H.
  - apply andb_prop in H. destruct H as [Ha Hc].
    apply coord_eqb_eq in Ha. apply coord_eqb_eq in Hc. subst. reflexivity.
  - inversion H; subst. apply andb_true_intro. split; apply coord_eqb_eq; reflexivity.
Qed.

Lemma kmem_In k l : kmem k l = true <-> In k l.
Proof.
  unfold kmem. rewrite existsb_exists. split.
  - intros [x [Hx Hk]]. apply key_eqb_eq in Hk. subst. exact Hx.
  - intro H. exists k. split; [exact H | apply key_eqb_eq; reflexivity].
Qed.

Lemma kmem_false k l : kmem k l = false <-> ~ In k l.
Proof.
  split.
  - intros H Hin. apply kmem_In in Hin. rewrite Hin in H. discriminate.
  - intro H. destruct (kmem k l) eqn:E; [|reflexivity].
    apply kmem_In in E. contradiction.
Qed.

(* ------------------------------------------------------------------ product *)
Lemma product_In sizes : forall c, In c (product sizes) <-> Forall2 lt c sizes.
Proof.
  induction sizes as [|s rest IH]; intros c; simpl.
  - split.
    + intros [E|[]]. subst. constructor.
    + intro H. inversion H. left. reflexivity.
  - rewrite in_flat_map. split.
    + intros [j [Hj Hc]]. apply in_map_iff in Hc. destruct Hc as [c' [E Hc']]. subst.
      apply in_seq in Hj. constructor; [lia | apply IH; exact Hc'].
    + intro H. inversion H as [|j s' c' rest' Hlt Hrest]; subst.
      exists j. split; [apply in_seq; lia|].
      apply in_map. apply IH. exact Hrest.
Qed.

Lemma NoDup_flat_map_cons (l : list nat) (P : list (list nat)) :
  NoDup l -> NoDup P -> NoDup (flat_map (fun j => map (cons j) P) l).
Proof.
  intros Hl HP. induction l as [|a l IH]; simpl; [constructor|].
  inversion Hl as [|? ? Hna Hnd]; subst.
  apply NoDup_app_intro.
  - apply FinFun.Injective_map_NoDup; [|exact HP].
    intros x y E. inversion E. reflexivity.
  - apply IH. exact Hnd.
  - intros x H1 H2. apply in_map_iff in H1. destruct H1 as [c1 [E1 _]].
    apply in_flat_map in H2. destruct H2 as [j [Hj H2]].
    apply in_map_iff in H2. destruct H2 as [c2 [E2 _]].
    subst x. inversion E2; subst. exact (Hna Hj).
Qed.

Lemma product_NoDup sizes : NoDup (product sizes).
Proof.
  induction sizes as [|s rest IH]; simpl.
  - constructor; [intros []|constructor].
  - apply NoDup_flat_map_cons; [apply seq_NoDup | exact IH].
Qed.

Lemma grid_coords_NoDup kpl rr latent beta : NoDup (grid_coords kpl rr latent beta).
Proof. unfold grid_coords. apply product_NoDup. Qed.

(* ------------------------------------------------------------------ batch_designs *)
Definition design_of (store : list key) kpl rr latent (alpha beta : list nat) (sofar : list key) : list key :=
  filter (fun k => negb (kmem k sofar))
         (map (fun c => (alpha, c)) (new_coords store alpha (grid_coords kpl rr latent beta))).

Lemma design_NoDup store kpl rr latent alpha beta sofar :
  NoDup (design_of store kpl rr latent alpha beta sofar).
Proof.
  unfold design_of, new_coords. apply NoDup_filter.
  apply FinFun.Injective_map_NoDup.
  - intros x y E. inversion E. reflexivity.
  - apply NoDup_filter. apply grid_coords_NoDup.
Qed.

Lemma design_In store kpl rr latent alpha beta sofar k :
  In k (design_of store kpl rr latent alpha beta sofar) <->
  exists c, k = (alpha, c) /\ In c (grid_coords kpl rr latent beta) /\ ~ In k store /\ ~ In k sofar.
Proof.
  unfold design_of, new_coords. rewrite filter_In, in_map_iff. split.
  - intros [[c [E Hc]] Hs]. apply filter_In in Hc. destruct Hc as [Hc Hst]. subst k.
    exists c. split; [reflexivity|]. split; [exact Hc|].
    apply negb_true_iff in Hs. apply negb_true_iff in Hst.
    split; apply kmem_false; assumption.
  - intros [c [E [Hc [Hst Hs]]]]. subst k. split.
    + exists c. split; [reflexivity|]. apply filter_In. split; [exact Hc|].
      apply negb_true_iff. apply kmem_false. exact Hst.
    + apply negb_true_iff. apply kmem_false. exact Hs.
Qed.

Lemma batch_designs_cons store kpl rr latent alpha beta rest sofar :
  batch_designs store kpl rr latent ((alpha, beta) :: rest) sofar =
  design_of store kpl rr latent alpha beta sofar ::
  batch_designs store kpl rr latent rest (sofar ++ design_of store kpl rr latent alpha beta sofar).
Proof. reflexivity. Qed.

Lemma batch_designs_NoDup store kpl rr latent : forall indices sofar,
  NoDup sofar -> NoDup (sofar ++ concat (batch_designs store kpl rr latent indices sofar)).
Proof.
  induction indices as [|[alpha beta] rest IH]; intros sofar Hs.
  - simpl. rewrite app_nil_r. exact Hs.
  - rewrite batch_designs_cons. simpl concat. rewrite app_assoc. apply IH.
    apply NoDup_app_intro; [exact Hs | apply design_NoDup |].
    intros x H1 H2. apply design_In in H2. destruct H2 as [c [_ [_ [_ Hn]]]]. exact (Hn H1).
Qed.

Lemma batch_designs_fresh store kpl rr latent : forall indices sofar k,
  In k (concat (batch_designs store kpl rr latent indices sofar)) -> ~ In k store.
Proof.
  induction indices as [|[alpha beta] rest IH]; intros sofar k Hk.
  - destruct Hk.
  - rewrite batch_designs_cons in Hk. simpl concat in Hk. apply in_app_or in Hk.
    destruct Hk as [Hk|Hk].
    + apply design_In in Hk. destruct Hk as [c [_ [_ [Hn _]]]]. exact Hn.
    + exact (IH _ _ Hk).
Qed.

Lemma batch_designs_covers store kpl rr latent alpha beta c : forall indices sofar,
  In (alpha, beta) indices -> In c (grid_coords kpl rr latent beta) ->
  In (alpha, c) (store ++ sofar ++ concat (batch_designs store kpl rr latent indices sofar)).
Proof.
  induction indices as [|[a b] rest IH]; intros sofar Hin Hc; [destruct Hin|].
  rewrite batch_designs_cons. simpl concat.
  destruct Hin as [E|Hin].
  - inversion E; subst a b.
    destruct (kmem (alpha, c) store) eqn:Es.
    { apply in_or_app. left. apply kmem_In. exact Es. }
    destruct (kmem (alpha, c) sofar) eqn:Ef.
    { apply in_or_app. right. apply in_or_app. left. apply kmem_In. exact Ef. }
    apply in_or_app. right. apply in_or_app. right. apply in_or_app. left.
    apply design_In. exists c. split; [reflexivity|]. split; [exact Hc|].
    split; apply kmem_false; assumption.
  - specialize (IH (sofar ++ design_of store kpl rr latent a b sofar) Hin Hc).
    rewrite <- app_assoc in IH. exact IH.
Qed.

(* ------------------------------------------------------------------ slice_back *)
Lemma combine_map_self {A B} (g : A -> B) (d : list A) :
  combine d (map g d) = map (fun k => (k, g k)) d.
Proof. induction d as [|a d IH]; simpl; [reflexivity | rewrite IH; reflexivity]. Qed.

Lemma firstn_map_app {A B} (g : A -> B) (d r : list A) :
  firstn (length d) (map g (d ++ r)) = map g d.
Proof. induction d as [|a d IH]; simpl; [reflexivity | rewrite IH; reflexivity]. Qed.

Lemma skipn_map_app {A B} (g : A -> B) (d r : list A) :
  skipn (length d) (map g (d ++ r)) = map g r.
Proof. induction d as [|a d IH]; simpl; [reflexivity | exact IH]. Qed.

Lemma slice_back_concat {A} (f : key -> A) : forall designs,
  concat (slice_back designs (map f (concat designs))) = map (fun k => (k, f k)) (concat designs).
Proof.
  induction designs as [|d rest IH]; [reflexivity|].
  simpl. rewrite firstn_map_app, skipn_map_app, IH, combine_map_self, map_app. reflexivity.
Qed.

Lemma map_fst_pair {A} (f : key -> A) l : map fst (map (fun k => (k, f k)) l) = l.
Proof. induction l as [|a l IH]; simpl; [reflexivity | rewrite IH; reflexivity]. Qed.

Lemma activate_batch_spec {A} (f : key -> A) store kpl rr latent indices :
  activate_batch f store kpl rr latent indices =
  (store ++ map (fun k => (k, f k)) (concat (batch_designs (map fst store) kpl rr latent indices [])),
   concat (batch_designs (map fst store) kpl rr latent indices [])).
Proof. unfold activate_batch. rewrite slice_back_concat. reflexivity. Qed.

(* ------------------------------------------------------------------ run_history *)
Lemma run_history_cons {A} (f : key -> A) store kpl rr latent b rest :
  run_history f store kpl rr latent (b :: rest) =
  let (store', ev) := activate_batch f store kpl rr latent b in
  let (store'', ev') := run_history f store' kpl rr latent rest in (store'', ev ++ ev').
Proof. reflexivity. Qed.

Lemma run_history_inv {A} (f : key -> A) kpl rr latent : forall batches store,
  NoDup (map fst store) -> (forall k v, In (k, v) store -> v = f k) ->
  let r := run_history f store kpl rr latent batches in
  map fst (fst r) = map fst store ++ snd r /\
  NoDup (map fst store ++ snd r) /\
  (forall k v, In (k, v) (fst r) -> v = f k).
Proof.
  induction batches as [|b rest IH]; intros store Hnd Hf.
  - simpl. rewrite app_nil_r. split; [reflexivity|]. split; assumption.
  - cbv zeta. rewrite run_history_cons, activate_batch_spec.
    set (ev := concat (batch_designs (map fst store) kpl rr latent b [])).
    set (store' := store ++ map (fun k => (k, f k)) ev).
    assert (Hk : map fst store' = map fst store ++ ev).
    { unfold store'. rewrite map_app, map_fst_pair. reflexivity. }
    assert (Hnd' : NoDup (map fst store')).
    { rewrite Hk. apply NoDup_app_intro; [exact Hnd | |].
      - apply (NoDup_app_r []). apply batch_designs_NoDup. constructor.
      - intros x H1 H2. exact (batch_designs_fresh _ _ _ _ _ _ _ H2 H1). }
    assert (Hf' : forall k v, In (k, v) store' -> v = f k).
    { intros k v Hin. unfold store' in Hin. apply in_app_or in Hin. destruct Hin as [Hin|Hin].
      - exact (Hf k v Hin).
      - apply in_map_iff in Hin. destruct Hin as [k' [E _]]. inversion E; subst. reflexivity. }
    specialize (IH store' Hnd' Hf'). cbv zeta in IH.
    destruct (run_history f store' kpl rr latent rest) as [store'' ev'] eqn:E.
    simpl in IH |- *. destruct IH as [I1 [I2 I3]].
    rewrite Hk in I1, I2. rewrite <- app_assoc in I1, I2.
    split; [exact I1|]. split; [exact I2 | exact I3].
Qed.

Lemma no_reeval : forall (A : Type) (f : key -> A) kpl rr latent batches,
  NoDup (snd (run_history f [] kpl rr latent batches)).
Proof.
  intros A f kpl rr latent batches.
  destruct (run_history_inv f kpl rr latent batches []) as [_ [H _]].
  - constructor.
  - intros k v [].
  - exact H.
Qed.

Lemma store_truthful : forall (A : Type) (f : key -> A) kpl rr latent batches,
  let r := run_history f [] kpl rr latent batches in
  map fst (fst r) = snd r /\ forall k v, In (k, v) (fst r) -> v = f k.
Proof.
  intros A f kpl rr latent batches r.
  destruct (run_history_inv f kpl rr latent batches []) as [H1 [_ H3]].
  - constructor.
  - intros k v [].
  - split; [exact H1 | exact H3].
Qed.

Lemma requested_covered : forall (A : Type) (f : key -> A) store kpl rr latent indices alpha beta c,
  In (alpha, beta) indices -> In c (grid_coords kpl rr latent beta) ->
  In (alpha, c) (map fst (fst (activate_batch f store kpl rr latent indices))).
Proof.
  intros A f store kpl rr latent indices alpha beta c Hin Hc.
  rewrite activate_batch_spec. simpl fst. rewrite map_app, map_fst_pair.
  exact (batch_designs_covers (map fst store) kpl rr latent alpha beta c indices [] Hin Hc).
Qed.

(* ------------------------------------------------------------------ nested grids *)
Lemma Forall2_le_map {A} (g1 g2 : A -> nat) (l : list A) :
  (forall x, In x l -> g1 x <= g2 x) -> Forall2 le (map g1 l) (map g2 l).
Proof.
  induction l as [|a l IH]; intros H; simpl; constructor.
  - apply H. left. reflexivity.
  - apply IH. intros x Hx. apply H. right. exact Hx.
Qed.

Lemma repeat_map_seq {A} (x : A) n s : repeat x n = map (fun _ => x) (seq s n).
Proof. revert s. induction n as [|n IH]; intros s; simpl; [reflexivity | rewrite <- IH; reflexivity]. Qed.

Lemma Forall2_le_repeat x y n : x <= y -> Forall2 le (repeat x n) (repeat y n).
Proof. intros H. induction n as [|n IH]; simpl; constructor; assumption. Qed.

Lemma Forall2_le_refl l : Forall2 le l l.
Proof. induction l as [|a l IH]; constructor; [apply le_n | exact IH]. Qed.

Lemma rr_entry_mono n a a' j : n <> 0 -> a <= a' ->
  (if Nat.leb j (a mod n) then a / n + 1 else a / n + 1 - 1) <=
  (if Nat.leb j (a' mod n) then a' / n + 1 else a' / n + 1 - 1).
Proof.
  intros Hn Hle.
  pose proof (Nat.div_le_mono a a' n Hn Hle) as Hq.
  pose proof (Nat.div_mod_eq a n) as Ea.
  pose proof (Nat.div_mod_eq a' n) as Ea'.
  destruct (Nat.eq_dec (a / n) (a' / n)) as [E|E].
  - rewrite E in Ea |- *.
    assert (Hr : a mod n <= a' mod n) by lia.
    destruct (Nat.leb j (a mod n)) eqn:L1; destruct (Nat.leb j (a' mod n)) eqn:L2; try lia.
    apply Nat.leb_le in L1. apply Nat.leb_gt in L2. lia.
  - destruct (Nat.leb j (a mod n)); destruct (Nat.leb j (a' mod n)); lia.
Qed.

Lemma knots_round_robin_mono kpl n b b' : n <> 0 -> b <= b' ->
  Forall2 le (knots_round_robin kpl n b) (knots_round_robin kpl n b').
Proof.
  intros Hn Hle. destruct b as [|a]; destruct b' as [|a']; try lia.
  - apply Forall2_le_refl.
  - unfold knots_round_robin. rewrite (repeat_map_seq 1 n 0).
    apply Forall2_le_map. intros j _. lia.
  - unfold knots_round_robin. apply Forall2_le_map. intros j _.
    assert (H : a <= a') by lia.
    pose proof (rr_entry_mono n a a' j Hn H) as Hm.
    apply Nat.add_le_mono_r. apply Nat.mul_le_mono_l. exact Hm.
Qed.

Lemma Forall2_le_concat (L L' : list (list nat)) :
  Forall2 (Forall2 le) L L' -> Forall2 le (concat L) (concat L').
Proof.
  induction 1 as [|x y l l' Hxy Hl IH]; simpl; [constructor|].
  apply Forall2_app; assumption.
Qed.

Lemma beta_to_knots_mono kpl rr : forall latent beta beta',
  Forall2 le beta beta' ->
  Forall2 (Forall2 le) (beta_to_knots kpl rr latent beta) (beta_to_knots kpl rr latent beta').
Proof.
  unfold beta_to_knots.
  induction latent as [|n latent IH]; intros beta beta' H; [constructor|].
  inversion H as [|b b' r r' Hb Hr]; subst; simpl; constructor.
  - destruct n as [|m].
    + constructor; [|constructor]. unfold knots_scalar.
      apply Nat.add_le_mono_r. apply Nat.mul_le_mono_l. exact Hb.
    + destruct rr.
      * apply knots_round_robin_mono; [discriminate | exact Hb].
      * unfold knots_tensor. apply Forall2_le_repeat.
        apply Nat.add_le_mono_r. apply Nat.mul_le_mono_l. exact Hb.
  - apply IH. exact Hr.
Qed.

Lemma Forall2_lt_le_trans : forall c s s', Forall2 lt c s -> Forall2 le s s' -> Forall2 lt c s'.
Proof.
  induction c as [|x c IH]; intros s s' H1 H2.
  - inversion H1; subst. inversion H2; subst. constructor.
  - inversion H1 as [|? y ? s0 Hxy Hc]; subst.
    inversion H2 as [|? y' ? s0' Hyy Hs]; subst.
    constructor; [lia | exact (IH _ _ Hc Hs)].
Qed.

Lemma nested : forall kpl rr latent beta beta',
  length beta = length latent -> Forall2 le beta beta' ->
  incl (grid_coords kpl rr latent beta) (grid_coords kpl rr latent beta').
Proof.
  intros kpl rr latent beta beta' _ Hle c Hc. unfold grid_coords in *.
  apply product_In. apply product_In in Hc.
  apply (Forall2_lt_le_trans _ _ _ Hc).
  apply Forall2_le_concat. apply beta_to_knots_mono. exact Hle.
Qed.

(* ------------------------------------------------------------------ cost accounts *)
Lemma this_Q2Qc (x : Q) : this (Q2Qc x) = Qred x.
Proof. reflexivity. Qed.

Lemma Q2Qc_plus (a b : Q) : (Q2Qc a + Q2Qc b)%Qc = Q2Qc (a + b)%Q.
Proof.
  apply Qc_is_canon. unfold Qcplus. rewrite !this_Q2Qc. rewrite !Qred_correct. reflexivity.
Qed.

Lemma qnat_0 : qnat 0 = Q2Qc 0.
Proof. reflexivity. Qed.

Lemma qnat_S n : qnat (S n) = (qnat n + Q2Qc 1)%Qc.
Proof.
  unfold qnat. rewrite Q2Qc_plus. apply Qc_is_canon. rewrite !this_Q2Qc. rewrite !Qred_correct.
  rewrite Nat2Z.inj_succ. unfold Z.succ. rewrite inject_Z_plus. reflexivity.
Qed.

Lemma qnat_S_neq0 n : qnat (S n) <> Q2Qc 0.
Proof.
  intro H. assert (E : (this (qnat (S n)) == this (Q2Qc 0))%Q) by (rewrite H; reflexivity).
  unfold qnat in E. rewrite !this_Q2Qc in E. rewrite !Qred_correct in E.
  unfold Qeq in E. simpl in E. lia.
Qed.

Lemma qsum_repeat c n : qsum (repeat c n) = (c * qnat n)%Qc.
Proof.
  induction n as [|n IH].
  - simpl. rewrite qnat_0. ring.
  - simpl repeat. unfold qsum in *. simpl fold_right. rewrite IH, qnat_S. ring.
Qed.

Lemma mean_repeat c n : mean (repeat c (S n)) = c.
Proof.
  unfold mean. rewrite qsum_repeat, repeat_length.
  pose proof (qnat_S_neq0 n) as Hn. field. exact Hn.
Qed.

Lemma update_cost_const c old n :
  (old = None \/ old = Some c) -> update_cost old (repeat c (S n)) = c.
Proof.
  intros [E|E]; subst old; unfold update_cost.
  - rewrite app_nil_r. apply mean_repeat.
  - change [c] with (repeat c 1). rewrite <- repeat_app.
    replace (S n + 1)%nat with (S (S n)) by lia. apply mean_repeat.
Qed.

Lemma cost_history_cons old c rest :
  cost_history old (c :: rest) =
  let m := match c with [] => old | _ => Some (update_cost old c) end in
  let (l, fin) := cost_history m rest in (misc_cost m (length c) :: l, fin).
Proof. reflexivity. Qed.

Lemma cost_history_const c : forall ns old, (old = None \/ old = Some c) ->
  fst (cost_history old (map (fun n => repeat c n) ns)) = map (fun n => (c * qnat n)%Qc) ns /\
  (snd (cost_history old (map (fun n => repeat c n) ns)) = Some c \/
   (snd (cost_history old (map (fun n => repeat c n) ns)) = None /\ old = None /\
    Forall (fun n => n = 0%nat) ns)).
Proof.
  induction ns as [|n ns IH]; intros old Hold.
  - simpl. split; [reflexivity|]. destruct Hold as [E|E]; subst old.
    + right. split; [reflexivity|]. split; [reflexivity | constructor].
    + left. reflexivity.
  - simpl map. rewrite cost_history_cons. cbv zeta.
    destruct n as [|n'].
    + simpl repeat. cbv iota.
      destruct (IH old Hold) as [I1 I2].
      destruct (cost_history old (map (fun n => repeat c n) ns)) as [l fin] eqn:E.
      simpl in I1, I2 |- *. split.
      * rewrite I1. f_equal. unfold misc_cost. rewrite qnat_0. ring.
      * destruct I2 as [I2|[I2 [I3 I4]]]; [left; exact I2 | right].
        split; [exact I2|]. split; [exact I3 | constructor; [reflexivity | exact I4]].
    + assert (Hm : match repeat c (S n') with [] => old | _ :: _ => Some (update_cost old (repeat c (S n'))) end = Some c).
      { rewrite (update_cost_const c old n' Hold). reflexivity. }
      rewrite Hm. rewrite repeat_length.
      destruct (IH (Some c) (or_intror eq_refl)) as [I1 I2].
      destruct (cost_history (Some c) (map (fun n => repeat c n) ns)) as [l fin] eqn:E.
      simpl in I1, I2 |- *. split.
      * rewrite I1. reflexivity.
      * left. destruct I2 as [I2|[_ [I3 _]]]; [exact I2 | discriminate I3].
Qed.

Lemma qround_qnat n : qround (qnat n) = Z.of_nat n.
Proof.
  unfold qround, qnat. rewrite this_Q2Qc. cbv zeta.
  assert (Ef : Qfloor (Qred (inject_Z (Z.of_nat n))) = Z.of_nat n).
  { rewrite Qred_correct. apply Qfloor_Z. }
  rewrite Ef.
  assert (Ec : ((Qred (inject_Z (Z.of_nat n)) - inject_Z (Z.of_nat n) ?= 1 # 2) = Lt)%Q).
  { rewrite Qred_correct.
    assert (E : (inject_Z (Z.of_nat n) - inject_Z (Z.of_nat n) == 0)%Q) by ring.
    rewrite E. reflexivity. }
  rewrite Ec. reflexivity.
Qed.

Lemma Qc_pos_neq0 (c : Qc) : (Q2Qc 0 < c)%Qc -> c <> Q2Qc 0.
Proof. intros H E. apply (Qclt_not_eq _ _ H). symmetry. exact E. Qed.

Lemma added_eval_const (c : Qc) n : c <> Q2Qc 0 -> added_eval (c * qnat n)%Qc c = Z.of_nat n.
Proof.
  intros Hc. unfold added_eval.
  replace (c * qnat n / c)%Qc with (qnat n) by (field; exact Hc).
  apply qround_qnat.
Qed.

Lemma added_eval_zero (c : Qc) : added_eval (c * qnat 0)%Qc (Q2Qc 1) = 0%Z.
Proof.
  unfold added_eval. rewrite qnat_0.
  replace (c * Q2Qc 0 / Q2Qc 1)%Qc with (qnat 0).
  - apply qround_qnat.
  - rewrite qnat_0. field. intro H. apply (f_equal this) in H. vm_compute in H. discriminate H.
Qed.

Lemma qsum_misc c ns :
  qsum (map (fun n => (c * qnat n)%Qc) ns) = qsum (map qsum (map (fun n => repeat c n) ns)).
Proof.
  induction ns as [|n ns IH]; [reflexivity|].
  simpl map. unfold qsum at 1 3. simpl fold_right. fold (qsum (map (fun n => (c * qnat n)%Qc) ns)).
  fold (qsum (map qsum (map (fun n => repeat c n) ns))).
  rewrite IH, qsum_repeat. reflexivity.
Qed.

Lemma length_concat_repeat {A} (c : A) ns :
  Z.of_nat (length (concat (map (fun n => repeat c n) ns))) = fold_right Z.add 0%Z (map Z.of_nat ns).
Proof.
  induction ns as [|n ns IH]; [reflexivity|].
  simpl. rewrite app_length, repeat_length, Nat2Z.inj_add, IH. reflexivity.
Qed.

Lemma alloc_constant_cost : forall (c : Qc) (ns : list nat), (Q2Qc 0 < c)%Qc ->
  allocation (map (fun n => repeat c n) ns) = actual (map (fun n => repeat c n) ns).
Proof.
  intros c ns Hpos. pose proof (Qc_pos_neq0 c Hpos) as Hc.
  unfold allocation, actual.
  destruct (cost_history_const c ns None (or_introl eq_refl)) as [H1 H2].
  destruct (cost_history None (map (fun n => repeat c n) ns)) as [mcs fin] eqn:E.
  simpl in H1, H2. subst mcs. f_equal.
  - apply qsum_misc.
  - rewrite length_concat_repeat. rewrite map_map.
    destruct H2 as [H2|[H2 [_ H3]]]; subst fin.
    + f_equal. apply map_ext. intros n. apply added_eval_const. exact Hc.
    + f_equal. clear E. induction H3 as [|n l Hn Hl IH]; [reflexivity|].
      simpl. rewrite IH. subst n. rewrite added_eval_zero. reflexivity.
Qed.

Definition qz (z : Z) : Qc := Q2Qc (inject_Z z).

Lemma alloc_varying_refuted :
  exists calls, snd (allocation calls) <> snd (actual calls) /\ fst (allocation calls) <> fst (actual calls).
Proof.
  exists [[qz 1; qz 2]; [qz 3; qz 4; qz 5]; [qz 6]].
  split; intro H.
  - vm_compute in H. discriminate H.
  - apply (f_equal this) in H. vm_compute in H. discriminate H.
Qed.

(* the store is single-valued: it never holds two entries for one (fidelity, coordinate) key, and two entries with the
   same key are the same entry *)
Lemma store_single_valued : forall (A : Type) (f : key -> A) kpl rr latent batches,
  let r := run_history f [] kpl rr latent batches in
  NoDup (map fst (fst r)) /\ forall k v w, In (k, v) (fst r) -> In (k, w) (fst r) -> v = w.
Proof.
  intros A f kpl rr latent batches r. subst r.
  destruct (store_truthful A f kpl rr latent batches) as [Hk Hv].
  split.
  - rewrite Hk. apply no_reeval.
  - intros k v w Hv1 Hw1. rewrite (Hv k v Hv1), (Hv k w Hw1). reflexivity.
Qed.
