(* Proofs/MiscC01.v — the combination-technique weights of every reachable state are the
   inclusion-exclusion weights of its index sets (C01). *)
From Coq Require Import List Arith ZArith Bool Lia.
From AmiscV Require Import Misc MiscDefs MiscC02 MiscIE.
Import ListNotations.

(* ------------------------------------------------------------------ two forward neighbours of the
   same index are never comparable *)
Lemma leb_inc_self_false : forall k i, k < length i -> leb_idx (inc k i) i = false.
Proof.
  intros k i. revert k. induction i as [|x r IH]; intros k Hk; cbn [length] in Hk; [lia|].
  destruct k as [|k]; cbn [inc leb_idx].
  - assert (E : Nat.leb (S x) x = false) by (apply Nat.leb_gt; lia). rewrite E. reflexivity.
  - rewrite IH by lia. apply andb_false_r.
Qed.

Lemma leb_inc_inc : forall k' k i, k' < length i ->
  leb_idx (inc k' i) (inc k i) = true -> inc k' i = inc k i.
Proof.
  intros k' k i. revert k' k. induction i as [|x r IH]; intros k' k Hk H; cbn [length] in Hk; [lia|].
  destruct k' as [|k']; destruct k as [|k]; cbn [inc leb_idx] in *.
  - reflexivity.
  - assert (E : Nat.leb (S x) x = false) by (apply Nat.leb_gt; lia). rewrite E in H. discriminate.
  - rewrite leb_inc_self_false in H by lia. rewrite andb_false_r in H. discriminate.
  - apply andb_true_iff in H. destruct H as [_ H]. f_equal. apply IH; [lia | assumption].
Qed.

(* ------------------------------------------------------------------ the weight invariant *)
Record Winv (mx : idx) (s : st) : Prop := mkWinv {
  w_inv : Inv mx s;
  w_train : weights_ok (active s) (ctrain s);
  w_test : weights_ok (active s ++ cand s) (ctest s);
  w_cand_pos : forall n, In n (cand s) -> 0 < isum n;
  w_sum : active s <> [] -> tsum (ctrain s) = 1%Z /\ tsum (ctest s) = 1%Z;
  w_empty : active s = [] -> ctrain s = [] /\ ctest s = []
}.

Lemma Winv_st0 : forall mx, Winv mx st0.
Proof.
  intros mx. constructor; simpl.
  - apply inv_st0.
  - apply weights_ok_nil.
  - apply weights_ok_nil.
  - intros n [].
  - intros H. exfalso. apply H. reflexivity.
  - intros _. split; reflexivity.
Qed.

Local Notation one i := (@cons idx i (@nil idx)).

Lemma Winv_activate : forall mx s i, Winv mx s -> length i = length mx -> Winv mx (activate mx s i).
Proof.
  intros mx s i HW Hl. destruct (accepts s i) eqn:Hacc.
  2:{ rewrite (reject_unchanged mx s i Hacc). exact HW. }
  destruct HW as [HI Wtr Wte Wpos Wsum Wemp].
  pose proof (activate_inv mx s i HI Hl) as HI'.
  pose proof (fun n => neighbors_fresh mx s i n HI Hacc Hl) as Hfresh.
  pose proof (accepts_cases mx s i HI Hl Hacc) as Hcases.
  assert (HiA : mem i (active s) = false) by (apply accepts_true in Hacc; tauto).
  rewrite (activate_accepted_shape mx s i Hacc) in HI'.
  rewrite (activate_accepted_shape mx s i Hacc).
  rewrite (add1_notin _ _ HiA) in HI'. rewrite (add1_notin _ _ HiA).
  rewrite cand1_eq in HI'. rewrite cand1_eq.
  pose proof (inv_nodup_active _ _ HI) as NA. pose proof (inv_nodup_cand _ _ HI) as NC.
  pose proof (inv_disjoint _ _ HI) as DJ. pose proof (inv_empty _ _ HI) as EM.
  pose proof (inv_nodup_active _ _ HI') as NA'. pose proof (inv_dclosed_active _ _ HI') as DA'.
  pose proof (inv_dclosed_union _ _ HI') as DU'.
  apply mem_false in HiA.
  destruct s as [A C ct ce]. cbn [active cand ctrain ctest] in *.
  (* the sub-cube below i lies in A + {i} *)
  assert (F1 : forall n o, In n (one i) -> diff01 n o <> None -> o = n \/ In o A).
  { intros n o [<-|[]] Hd. apply diff01_le in Hd.
    assert (Ho : In o (A ++ (one i))).
    { apply (DA' i o); [apply in_app_iff; right; left; reflexivity | exact Hd]. }
    apply in_app_iff in Ho. destruct Ho as [Ho|[Ho|[]]]; auto. }
  assert (Hd1 : forall n, In n (one i) -> ~ In n A).
  { intros n [<-|[]]. exact HiA. }
  assert (N1 : NoDup (one i)) by (constructor; [intros [] | constructor]).
  pose proof (upd_weights_ok A (one i) ct NA N1 Hd1 F1 Wtr) as Wtr'.
  pose proof (upd_tsum A (one i) ct NA Hd1 F1) as Ttr. cbn [map zsum] in Ttr.
  (* the evaluation-mode tree after the (possible) insertion of i itself *)
  assert (W1 : weights_ok ((A ++ (one i)) ++ remove_idx i C)
                          (if mem i C then ce else upd (one i) (A ++ C) ce) /\
               tsum (if mem i C then ce else upd (one i) (A ++ C) ce) = 1%Z).
  { destruct Hcases as [[EA Hz]|[NEA HiC]].
    - subst A. rewrite (EM eq_refl) in *. destruct (Wemp eq_refl) as [Ect Ece]. subst ct ce.
      cbn [mem remove_idx app]. split.
      + exact (upd_weights_ok [] (one i) [] NA N1 Hd1 F1 weights_ok_nil).
      + rewrite (upd_tsum [] (one i) [] NA Hd1 F1). cbn [map zsum].
        apply Nat.eqb_eq in Hz. rewrite Hz. reflexivity.
    - assert (E : mem i C = true) by (apply mem_In; exact HiC). rewrite E. split.
      + apply (weights_ok_same_set (A ++ C)); [|exact Wte].
        intros x. rewrite !in_app_iff, remove_idx_In. cbn [In]. split.
        * intros [H|H]; [left; left; exact H|].
          destruct (idx_eq_dec x i) as [->|Hne]; [left; right; left; reflexivity | right; split; assumption].
        * intros [[H|[<-|[]]]|[H _]]; auto.
      + apply (Wsum NEA). }
  destruct W1 as [W1 T1].
  (* the forward neighbours *)
  remember (neighbors mx A i) as nb eqn:Enb.
  assert (Hnb : forall n, In n nb -> exists k, k < length i /\ n = inc k i).
  { intros n Hn. subst nb. apply neighbors_In in Hn. destruct Hn as [k [Hk [En _]]].
    exists k. split; assumption. }
  assert (Hnbpos : forall n, In n nb -> 0 < isum n).
  { intros n Hn. destruct (Hnb n Hn) as [k [Hk ->]]. rewrite isum_inc by exact Hk. lia. }
  assert (NS1 : NoDup ((A ++ (one i)) ++ remove_idx i C)).
  { apply nodup_app; [exact NA' | apply remove_idx_NoDup; exact NC |].
    intros x Hx Hx'. apply remove_idx_In in Hx'. destruct Hx' as [HxC Hxi].
    apply in_app_iff in Hx. destruct Hx as [Hx|[Hx|[]]].
    - apply (DJ x Hx HxC).
    - apply Hxi. symmetry. exact Hx. }
  assert (Nnb : NoDup nb) by (subst nb; apply neighbors_NoDup).
  assert (Hd2 : forall n, In n nb -> ~ In n ((A ++ (one i)) ++ remove_idx i C)).
  { intros n Hn. destruct (Hfresh n Hn) as [Hf1 [Hf2 Hf3]].
    rewrite !in_app_iff, remove_idx_In. cbn [In]. intros [[H|[H|[]]]|[H _]].
    - exact (Hf1 H).
    - apply Hf3. symmetry. exact H.
    - exact (Hf2 H). }
  assert (F2 : forall n o, In n nb -> diff01 n o <> None ->
                           o = n \/ In o ((A ++ (one i)) ++ remove_idx i C)).
  { intros n o Hn Hd. apply diff01_le in Hd.
    assert (Ho : In o ((A ++ (one i)) ++ add_all (remove_idx i C) nb)).
    { apply (DU' n o); [|exact Hd]. apply in_app_iff. right. apply add_all_In. right. exact Hn. }
    apply in_app_iff in Ho. destruct Ho as [Ho|Ho].
    - right. apply in_app_iff. left. exact Ho.
    - apply add_all_In in Ho. destruct Ho as [Ho|Ho].
      + right. apply in_app_iff. right. exact Ho.
      + left. destruct (Hnb n Hn) as [k [Hk ->]]. destruct (Hnb o Ho) as [k' [Hk' ->]].
        apply leb_inc_inc; assumption. }
  pose proof (upd_weights_ok _ nb _ NS1 Nnb Hd2 F2 W1) as Wte'.
  pose proof (upd_tsum _ nb (if mem i C then ce else upd (one i) (A ++ C) ce) NS1 Hd2 F2) as Tte.
  assert (Z0 : zsum (map (fun n => if Nat.eqb (isum n) 0 then 1%Z else 0%Z) nb) = 0%Z).
  { apply zsum_map_zero. intros n Hn. apply Hnbpos in Hn.
    destruct (Nat.eqb_spec (isum n) 0); [lia | reflexivity]. }
  rewrite Z0, T1 in Tte.
  constructor; cbn [active cand ctrain ctest].
  - exact HI'.
  - exact Wtr'.
  - apply (weights_ok_same_set (((A ++ (one i)) ++ remove_idx i C) ++ nb)); [|exact Wte'].
    intros x. rewrite !in_app_iff, add_all_In. tauto.
  - intros n Hn. apply add_all_In in Hn. destruct Hn as [Hn|Hn].
    + apply remove_idx_In in Hn. apply Wpos. apply Hn.
    + apply Hnbpos. exact Hn.
  - intros _. split; [|transitivity (1 + 0)%Z; [exact Tte | reflexivity]].
    rewrite Ttr. destruct Hcases as [[EA Hz]|[NEA HiC]].
    + destruct (Wemp EA) as [-> _]. apply Nat.eqb_eq in Hz. rewrite Hz. reflexivity.
    + destruct (Wsum NEA) as [-> _]. apply Wpos in HiC.
      destruct (Nat.eqb_spec (isum i) 0); [lia | reflexivity].
  - intros E. destruct A; discriminate.
Qed.

Lemma Winv_fold : forall mx reqs s, Winv mx s -> wf_reqs mx reqs ->
  Winv mx (fold_left (activate mx) reqs s).
Proof.
  intros mx reqs. induction reqs as [|r reqs IH]; intros s HW Hw; simpl; [exact HW|].
  inversion Hw as [|r' reqs' Hr Hrest]; subst.
  apply IH; [|exact Hrest]. apply Winv_activate; assumption.
Qed.

Lemma Winv_run : forall mx reqs, wf_reqs mx reqs -> Winv mx (run mx reqs).
Proof. intros mx reqs Hw. unfold run. apply Winv_fold; [apply Winv_st0 | exact Hw]. Qed.

(* ------------------------------------------------------------------ the C01 statements *)
Lemma train_weights_ok : forall mx reqs, wf_reqs mx reqs ->
  let s := run mx reqs in weights_ok (active s) (ctrain s).
Proof. intros mx reqs Hw. apply (w_train mx). apply Winv_run. exact Hw. Qed.

Lemma test_weights_ok : forall mx reqs, wf_reqs mx reqs ->
  let s := run mx reqs in weights_ok (active s ++ cand s) (ctest s).
Proof. intros mx reqs Hw. apply (w_test mx). apply Winv_run. exact Hw. Qed.

Lemma sum_one : forall mx reqs, wf_reqs mx reqs ->
  let s := run mx reqs in active s <> [] ->
  zsum (map snd (ctrain s)) = 1%Z /\ zsum (map snd (ctest s)) = 1%Z.
Proof. intros mx reqs Hw. apply (w_sum mx). apply Winv_run. exact Hw. Qed.

(* candidates are a function of the active set (as sets) *)
Lemma same_active_same_union : forall mx s s', Inv mx s -> Inv mx s' ->
  same_set (active s) (active s') -> same_set (active s ++ cand s) (active s' ++ cand s').
Proof.
  intros mx s s' HI HI' Hs.
  destruct (active s) as [|a A] eqn:EA.
  - destruct (active s') as [|a' A'] eqn:EA'.
    + rewrite (inv_empty _ _ HI EA), (inv_empty _ _ HI' EA'). intros x. tauto.
    + exfalso. apply (proj2 (Hs a')). left. reflexivity.
  - assert (NE : active s <> []) by (rewrite EA; discriminate).
    assert (NE' : active s' <> []).
    { intros E. rewrite E in Hs. apply (proj1 (Hs a)). left. reflexivity. }
    rewrite <- EA in *. clear EA.
    assert (HM : forall n, margin mx (active s) n <-> margin mx (active s') n).
    { intros n. unfold margin, back_in. split; intros [H1 [H2 H3]]; (split; [|split; [exact H2|]]).
      - intros H. apply H1. apply Hs. exact H.
      - intros k Hk Hp. apply Hs. apply H3; assumption.
      - intros H. apply H1. apply Hs. exact H.
      - intros k Hk Hp. apply Hs. apply H3; assumption. }
    intros x. rewrite !in_app_iff.
    rewrite (inv_margin _ _ HI NE x), (inv_margin _ _ HI' NE' x), (HM x), (Hs x). tauto.
Qed.

Lemma order_independent : forall mx reqs reqs', wf_reqs mx reqs -> wf_reqs mx reqs' ->
  same_set (active (run mx reqs)) (active (run mx reqs')) ->
  forall i, coeff (ctrain (run mx reqs)) i = coeff (ctrain (run mx reqs')) i /\
            coeff (ctest (run mx reqs)) i = coeff (ctest (run mx reqs')) i.
Proof.
  intros mx reqs reqs' Hw Hw' Hs i.
  pose proof (Winv_run mx reqs Hw) as W. pose proof (Winv_run mx reqs' Hw') as W'.
  destruct (w_train _ _ W) as [_ [_ E1]]. destruct (w_train _ _ W') as [_ [_ E1']].
  destruct (w_test _ _ W) as [_ [_ E2]]. destruct (w_test _ _ W') as [_ [_ E2']].
  rewrite E1, E1', E2, E2'. split; apply IE_same_set.
  - exact Hs.
  - apply (same_active_same_union mx); [apply (w_inv _ _ W) | apply (w_inv _ _ W') | exact Hs].
Qed.

Lemma lookahead_ok : forall mx reqs c, wf_reqs mx reqs -> In c (cand (run mx reqs)) ->
  weights_ok (active (run mx reqs) ++ [c]) (lookahead (run mx reqs) [c]) /\
  lookahead (run mx reqs) [c] = ctrain (activate mx (run mx reqs) c).
Proof.
  intros mx reqs c Hw Hc.
  pose proof (Winv_run mx reqs Hw) as W. pose proof (w_inv _ _ W) as HI.
  pose proof (cand_accepts mx _ c HI Hc) as Hacc.
  assert (Hl : length c = length mx).
  { apply leb_idx_length. apply (inv_in_box _ _ HI). apply in_app_iff. right. exact Hc. }
  pose proof (w_train _ _ (Winv_activate mx _ c W Hl)) as Wtr.
  assert (HcA : mem c (active (run mx reqs)) = false) by (apply accepts_true in Hacc; tauto).
  rewrite (activate_accepted_shape mx _ c Hacc) in *. cbn [active ctrain] in *.
  rewrite (add1_notin _ _ HcA) in Wtr. unfold lookahead. split; [exact Wtr | reflexivity].
Qed.
