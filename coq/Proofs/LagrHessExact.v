(* Proofs/LagrHessExact.v — the second partials of the tensor-product Lagrange interpolant on product data, and the
   MISC Hessian as the weighted sum of the second partials of its terms.  Statements used by Props/C11HX.v:
   tlagrange_dd_exact_product, misc_hess_formula. *)
From mathcomp Require Import all_ssreflect all_algebra.
From AmiscV Require Import Field Lagr LagrDefs Lagr1d LagrTensor LagrDeriv LagrHess.
Set Implicit Arguments. Unset Strict Implicit. Unset Printing Implicit Defensive.
Import GRing.Theory Num.Theory.
Local Open Scope ring_scope.

Section TensorHX.
Variable F : realFieldType.
Implicit Types (xs ws ys zs : seq F) (x : seq F) (gs : seq (grid (F:=F))).
Local Notation K := (mc_ops F).
Local Notation chunk gs ys j := (take (gsizes gs) (drop (j * gsizes gs) ys)).
Local Notation g0 := (0 : F, ([::] : seq F, [::] : seq F)).

Lemma tlagrange_dd_scale m n gs x (c : F) ys :
  tlagrange_dd m n gs x [seq c * y | y <- ys] = c * tlagrange_dd m n gs x ys.
Proof.
elim: gs m n x ys => [|[tol [xs ws]] gs IH] m n x ys; first by case: m => [|m] /=; rewrite mulr0.
case: x => [|x0 x]; first by case: m => [|m] /=; rewrite mulr0.
case: m => [|m]; case: n => [|n] /=; rewrite mulr_sumr; apply: eq_bigr => j _; rewrite -map_drop -map_take.
- by rewrite tlagrange_scale mulrCA.
- by rewrite tlagrange_d_scale mulrCA.
- by rewrite tlagrange_d_scale mulrCA.
- by rewrite IH mulrCA.
Qed.

Lemma interp_poly_deriv2E xs ys (t : F) :
  ((interp_poly xs ys)^`(2)).[t] = \sum_(j < size xs) nth 0 ys j * ((lbase xs (nth 0 xs j))^`(2)).[t].
Proof.
by rewrite /interp_poly deriv2E !linear_sum /= horner_sum; apply: eq_bigr => j _; rewrite !derivZ hornerZ.
Qed.

Local Notation IP gs fs j :=
  (interp_poly (nth g0 gs j).2.1 [seq (nth (fun=> 0) fs j) t | t <- (nth g0 gs j).2.1]).

Lemma tlagrange_dd_product gs (fs : seq (F -> F)) x m n :
  (forall g, g \in gs -> uniq g.2.1) -> size fs = size gs -> size x = size gs ->
  (m < size gs)%N -> (n < size gs)%N ->
  tlagrange_dd m n gs x (tensor_data gs fs) =
  \prod_(j < size gs)
     (if ((j : nat) == m) && ((j : nat) == n) then ((IP gs fs j)^`(2)).[nth 0 x j]
      else if ((j : nat) == m) || ((j : nat) == n) then ((IP gs fs j)^`()).[nth 0 x j]
      else (IP gs fs j).[nth 0 x j]).
Proof.
elim: gs fs x m n => [|[tol [xs ws]] gs IH] fs x m n // Hu.
case: fs => [|f fs] //; case: x => [|x0 x] // [szf] [szx] mlt nlt.
have Hu' : forall g, g \in gs -> uniq g.2.1 by move=> g gin; apply: Hu; rewrite inE gin orbT.
have chunkE (j : 'I_(size xs)) :
    chunk gs (tensor_data ((tol, (xs, ws)) :: gs) (f :: fs)) j =
    [seq f (nth 0 xs j) * y | y <- tensor_data gs fs].
  rewrite /= take_drop_flatten ?size_map //; last first.
    by apply: In_map_all => xk; rewrite size_map size_tensor_data.
  by rewrite (nth_map 0).
rewrite big_ord_recl; case: m mlt => [|m] mlt; case: n nlt => [|n] nlt.
- rewrite [LHS]/= !eqxx [andb _ _]/= interp_poly_deriv2E mulr_suml.
  rewrite (eq_bigr (fun j : 'I_(size gs) => (IP gs fs j).[nth 0 x j])) //.
  rewrite -tlagrange_product //.
  apply: eq_bigr => j _; rewrite -/(tensor_data _ _) chunkE tlagrange_scale.
  by rewrite (nth_map 0) // mulrCA mulrA.
- rewrite [LHS]/= !eqxx [andb _ _]/= [orb _ _]/= interp_poly_derivE mulr_suml.
  rewrite (eq_bigr (fun j : 'I_(size gs) => if (j : nat) == n
      then ((IP gs fs j)^`()).[nth 0 x j] else (IP gs fs j).[nth 0 x j])) //.
  rewrite -tlagrange_d_product //.
  apply: eq_bigr => j _; rewrite -/(tensor_data _ _) chunkE tlagrange_d_scale.
  by rewrite (nth_map 0) // mulrCA mulrA.
- rewrite [LHS]/= !eqxx [andb _ _]/= [orb _ _]/= interp_poly_derivE mulr_suml.
  rewrite (eq_bigr (fun j : 'I_(size gs) => if (j : nat) == m
      then ((IP gs fs j)^`()).[nth 0 x j] else (IP gs fs j).[nth 0 x j])); last first.
    by move=> j _; rewrite [lift _ _ : nat]/= /bump /= add1n eqSS andbF orbF.
  rewrite -tlagrange_d_product //.
  apply: eq_bigr => j _; rewrite -/(tensor_data _ _) chunkE tlagrange_d_scale.
  by rewrite (nth_map 0) // mulrCA mulrA.
- rewrite [LHS]/= [andb _ _]/= [orb _ _]/= interp_poly_hornerE mulr_suml.
  rewrite (eq_bigr (fun j : 'I_(size gs) =>
      if ((j : nat) == m) && ((j : nat) == n) then ((IP gs fs j)^`(2)).[nth 0 x j]
      else if ((j : nat) == m) || ((j : nat) == n) then ((IP gs fs j)^`()).[nth 0 x j]
      else (IP gs fs j).[nth 0 x j])) //.
  rewrite -IH //.
  apply: eq_bigr => j _; rewrite -/(tensor_data _ _) chunkE tlagrange_dd_scale.
  by rewrite (nth_map 0) // mulrCA mulrA.
Qed.

Theorem tlagrange_dd_exact_product gs (ps : seq {poly F}) x m n :
  (forall g, g \in gs -> uniq g.2.1) -> size ps = size gs -> size x = size gs -> (m < size gs)%N -> (n < size gs)%N ->
  (forall j, (j < size gs)%N -> (size (nth 0%R ps j) <= size (nth (0%R, ([::], [::])) gs j).2.1)%N) ->
  tlagrange_dd m n gs x (tensor_data gs [seq horner p | p <- ps]) =
  \prod_(j < size gs) (if ((j : nat) == m) && ((j : nat) == n) then ((nth 0 ps j)^`(2)).[nth 0 x j]
                       else if ((j : nat) == m) || ((j : nat) == n) then ((nth 0 ps j)^`()).[nth 0 x j]
                       else (nth 0 ps j).[nth 0 x j]).
Proof.
move=> Hu sp sx mlt nlt Hdeg; rewrite tlagrange_dd_product ?size_map //.
apply: eq_bigr => j _; rewrite (nth_map 0) ?sp //.
rewrite interp_poly_exact //; last exact: Hdeg.
by apply: Hu; rewrite mem_nth.
Qed.

Theorem misc_hess_formula (terms : seq (F * (seq (grid (F:=F)) * seq F))) x m n :
  (forall t, t \in terms -> (forall g, g \in t.2.1 -> valid_grid g) /\ all_admissible t.2.1 x /\
                            size t.2.2 = gsizes t.2.1 /\ (m < size t.2.1)%N /\ (n < size t.2.1)%N) ->
  misc_hess K m n terms x = \sum_(t <- terms) t.1 * tlagrange_dd m n t.2.1 x t.2.2.
Proof.
move=> H; rewrite /misc_hess lfilter_filter lmap_map sumFE big_map big_filter big_mkcond /=.
rewrite big_seq [RHS]big_seq; apply: eq_bigr => t tin.
case: eqP => [->|_] /=; first by rewrite mul0r.
by have [Hv [Ha [Hs [Hm Hn]]]] := H t tin; rewrite thess_is_second_partial.
Qed.
End TensorHX.
