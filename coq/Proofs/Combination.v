(* Proofs/Combination.v — C03: the MISC combination of tensor Lagrange interpolants is exact on the
   monomials of the sparse polynomial space.  The algebraic core is Proofs/CombCore.v. *)
From mathcomp Require Import all_ssreflect all_algebra.
From AmiscV Require Import Misc MiscDefs Field Lagr LagrDefs Lagr1d LagrTensor.
From AmiscV Require CombCore.
Set Implicit Arguments. Unset Strict Implicit. Unset Printing Implicit Defensive.
Import GRing.Theory Num.Theory.
Local Open Scope ring_scope.

Lemma combination_product_exact (R : comRingType) (d : nat) (S : seq idx) (L : idx)
    (g : nat -> nat -> R) (v : nat -> R) :
  List.NoDup S -> (forall i, List.In i S -> size i = d) -> dclosed S -> List.In L S ->
  (forall k l, (k < d)%N -> (nth 0%N L k <= l)%N -> g k l = v k) ->
  \sum_(i <- S) z2r _ (IE S i) * \prod_(k < d) g k (nth 0%N i k) = \prod_(k < d) v k.
Proof. exact: CombCore.combination_product_exact. Qed.

Section Monomial.
Variable F : realFieldType.

(* a product over na ignored dimensions followed by nx input dimensions *)
Lemma prod_skip (na nx : nat) (f : nat -> F) :
  \prod_(k < na + nx) (if (k < na)%N then 1 else f k) = \prod_(k < nx) f (na + k)%N.
Proof.
rewrite big_split_ord /= big1 ?mul1r; last by move=> k _; rewrite ltn_ord.
by apply: eq_bigr => k _; rewrite ltnNge leq_addr.
Qed.

(* 1-d interpolation of t^e on enough distinct nodes reproduces x^e *)
Lemma interp_monomial (xs : seq F) (e : nat) (x0 : F) :
  uniq xs -> (e < size xs)%N -> (interp_poly xs [seq t ^+ e | t <- xs]).[x0] = x0 ^+ e.
Proof.
move=> U lt.
have -> : [seq t ^+ e | t <- xs] = [seq ('X^e : {poly F}).[t] | t <- xs].
  by apply: eq_map => t; rewrite hornerXn.
by rewrite interp_poly_exact ?hornerXn // size_polyXn.
Qed.

Lemma exact_monomial (na nx kpl : nat) (nodes : nat -> seq F) (tol : nat -> F)
    (wts : nat -> nat -> seq F) (S : seq idx) (bstar : idx) (m : seq nat) (x : seq F) :
  List.NoDup S -> (forall i, List.In i S -> size i = (na + nx)%N) -> dclosed S -> List.In bstar S ->
  size m = nx -> size x = nx ->
  (forall k, (k < nx)%N -> uniq (nodes k)) ->
  (forall k i, (k < nx)%N -> List.In i S -> (kpl * nth 0%N i (na + k) + 1 <= size (nodes k))%N) ->
  (forall k, (k < nx)%N -> (nth 0%N m k <= kpl * nth 0%N bstar (na + k))%N) ->
  \sum_(i <- S) z2r _ (IE S i) *
     tlagrange (index_grids na kpl nodes tol wts i) x
               (tensor_data (index_grids na kpl nodes tol wts i) [seq (fun t : F => t ^+ e) | e <- m])
  = \prod_(k < nx) nth 0 x k ^+ nth 0%N m k.
Proof.
move=> ndS szS dcS bS szm szx unodes szn Hm.
pose P k l : F :=
  (interp_poly (take (kpl * l + 1) (nodes k))
               [seq t ^+ nth 0%N m k | t <- take (kpl * l + 1) (nodes k)]).[nth 0 x k].
pose g k l : F := if (k < na)%N then 1 else P (k - na)%N l.
pose v k : F := if (k < na)%N then 1 else nth 0 x (k - na) ^+ nth 0%N m (k - na).
have tl i : i \in S ->
    tlagrange (index_grids na kpl nodes tol wts i) x
       (tensor_data (index_grids na kpl nodes tol wts i) [seq (fun t : F => t ^+ e) | e <- m])
    = \prod_(k < na + nx) g k (nth 0%N i k).
  move=> /CombCore.InP iS; have szi := szS _ iS.
  have szg : size (index_grids na kpl nodes tol wts i) = nx.
    by rewrite /index_grids size_map size_iota szi addKn.
  rewrite tlagrange_product; first 1 last.
  - move=> gr /mapP[k]; rewrite mem_iota add0n szi addKn /= => klt -> /=.
    exact/take_uniq/unodes.
  - by rewrite szg size_map.
  - by rewrite szg.
  rewrite szg.
  rewrite /g (prod_skip _ _ (fun k => P (k - na)%N (nth 0%N i k))); apply: eq_bigr => k _.
  rewrite addKn /P /index_grids (nth_map 0%N) ?size_iota ?szi ?addKn //.
  by rewrite nth_iota ?szi ?addKn // add0n /= (nth_map 0%N) ?szm.
rewrite (eq_big_seq _ (fun i iS => congr1 ( *%R _) (tl i iS))).
rewrite (@combination_product_exact _ (na + nx)%N S bstar g v) //.
  rewrite /v (prod_skip _ _ (fun k => nth 0 x (k - na) ^+ nth 0%N m (k - na))).
  by apply: eq_bigr => k _; rewrite addKn.
move=> k l klt le; rewrite /g /v; case: ltnP => // nak.
have klt' : (k - na < nx)%N by rewrite ltn_subLR.
move: le; rewrite -{1}(subnKC nak) => le.
apply: interp_monomial; first exact/take_uniq/unodes.
have mb := Hm _ klt'.
have := szn _ _ klt' bS; rewrite addn1 => sb.
rewrite size_take; case: ifP => _.
- by rewrite addn1 ltnS (leq_trans mb) // leq_mul2l le orbT.
- exact: leq_ltn_trans mb sb.
Qed.
End Monomial.
