(* C04 (extension) — over a whole training run with update_bounds the domain of a coupling variable ends up containing every finite
   coupling value any step produced (Model/Bounds.v), for the normalisations whose decoding does not depend on the domain (none / linear /
   zscore).  For minmax the decoding itself moves with the domain (finding F6), and only the per-step statement C04_step_covers_observed holds.
   Only theorem statements; proofs are in Proofs/BoundsRun.v. *)
From Coq Require Import List Bool QArith Qcanon Permutation.
From AmiscV Require Import Bounds BoundsDefs BoundsRun.
Import ListNotations.

(* the domain in force after the last step *)
Theorem C04_run_covers_history : forall (a b : Qc) (cur : dom) (steps : list obs) (o : obs) (v : Qc),
  (Q2Qc 0 < a)%Qc -> dom_ok cur -> In o steps -> In (Some v) o ->
  inside (last (run_bounds true (NAffine a b) cur steps) cur) (a * v + b)%Qc.
Proof. exact BoundsRun.run_covers_history. Qed.
Print Assumptions C04_run_covers_history.

(* ... and is the smallest interval doing so that contains the initial domain *)
Theorem C04_run_is_hull : forall (a b : Qc) (cur : dom) (steps : list obs) (d : dom),
  (Q2Qc 0 < a)%Qc -> dom_ok cur -> contains d cur ->
  (forall o v, In o steps -> In (Some v) o -> inside d (a * v + b)%Qc) ->
  contains d (last (run_bounds true (NAffine a b) cur steps) cur).
Proof. exact BoundsRun.run_is_hull. Qed.
Print Assumptions C04_run_is_hull.

(* the order in which the steps come is irrelevant for the final domain *)
Theorem C04_run_final_order_independent : forall (a b : Qc) (cur : dom) (s1 s2 : list obs),
  (Q2Qc 0 < a)%Qc -> dom_ok cur -> Permutation s1 s2 ->
  last (run_bounds true (NAffine a b) cur s1) cur = last (run_bounds true (NAffine a b) cur s2) cur.
Proof. exact BoundsRun.run_final_order_independent. Qed.
Print Assumptions C04_run_final_order_independent.
