(* C17 (extension) — the Hessian under a change of units: if every input is mapped by x -> a x + b (a > 0), the coded Hessian
   entry (m, n) of the re-expressed problem is the original entry divided by a_m * a_n.  Only the theorem statement; the proof is
   in Proofs/LagrAffineHess.v. *)
From mathcomp Require Import all_ssreflect all_algebra.
From AmiscV Require Import Field Lagr LagrDefs LagrAffine LagrAffineHess.
Set Implicit Arguments. Unset Strict Implicit. Unset Printing Implicit Defensive.
Import GRing.Theory Num.Theory.
Local Open Scope ring_scope.

Theorem C17_hess_equivariant (F : realFieldType) (ab : seq (F * F)) (gs : seq (grid (F:=F))) (x ys : seq F) (m n : nat) :
  size ab = size gs -> size x = size gs -> (forall p, p \in ab -> 0 < p.1) ->
  (forall g, g \in gs -> size g.2.2 = size g.2.1) -> (m < size gs)%N -> (n < size gs)%N ->
  thess (mc_ops F) m n (gmap ab gs) (xmap ab x) ys =
  thess (mc_ops F) m n gs x ys / ((nth (1, 0) ab m).1 * (nth (1, 0) ab n).1).
Proof. exact: LagrAffineHess.thess_affine. Qed.
Print Assumptions C17_hess_equivariant.
