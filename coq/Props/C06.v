(* C06 — feedback loops return a fixed point within tolerance or NaN, never stale data.
   Only theorem statements; proofs are in Proofs/FpiProofs.v.  Model/Fpi.v is the control logic of the fixed-point
   iteration of System.predict for one strongly connected component; the Anderson mixing step is an ORACLE `mix`
   (any function of the sample's own history), so every statement holds for every mixing rule.  Partial: that the
   accelerated iteration CONVERGES is numerics that are not proved; the statements say "if a value is returned, it is
   a fixed point within tolerance" and "otherwise everything is NaN". *)
From Coq Require Import List Arith Bool.
From mathcomp Require Import all_ssreflect all_algebra.
From AmiscV Require Import Field Fpi LagrDefs FpiProofs.
Set Implicit Arguments. Unset Strict Implicit. Unset Printing Implicit Defensive.
Import GRing.Theory Num.Theory.
Local Open Scope ring_scope.

(* the per-sample machine always terminates within max_iter + 1 sweeps *)
Theorem C06_total (F : realFieldType) (tol : F) (max_iter mem : nat) (sweep : seq F -> seq F * seq F)
    (mix : seq (seq F * seq F) -> seq F) (c0 : seq F) :
  run_sample (mc_ops F) tol max_iter mem sweep mix c0 <> OutOfFuel.
Proof. exact: FpiProofs.run_total. Qed.
Print Assumptions C06_total.

(* a returned (non-NaN) sample satisfies the coupled equations: its values are one sweep of the loop's components
   applied to coupling values that they reproduce within the tolerance, on every coupling variable *)
Theorem C06_returned_is_fixed_point (F : realFieldType) (tol : F) (max_iter mem : nat) (sweep : seq F -> seq F * seq F)
    (mix : seq (seq F * seq F) -> seq F) (c0 y z : seq F) (k : nat) :
  run_sample (mc_ops F) tol max_iter mem sweep mix c0 = Converged y z k ->
  exists c, sweep c = (y, z) /\ size y = size c /\
            forall i, (i < size y)%N -> `|nth 0 y i - nth 0 c i| <= tol.
Proof. exact: FpiProofs.returned_is_fixed_point. Qed.
Print Assumptions C06_returned_is_fixed_point.

(* a sample that does not converge within the limit returns no value at all (NaN in every output of the loop) and
   has used exactly max_iter + 1 sweeps; it is never a stale intermediate iterate *)
Theorem C06_failed_at_limit (F : realFieldType) (tol : F) (max_iter mem : nat) (sweep : seq F -> seq F * seq F)
    (mix : seq (seq F * seq F) -> seq F) (c0 : seq F) (k : nat) :
  run_sample (mc_ops F) tol max_iter mem sweep mix c0 = Failed k -> k = max_iter.
Proof. exact: FpiProofs.failed_at_limit. Qed.
Print Assumptions C06_failed_at_limit.

(* allowing more iterations never changes a sample that converged *)
Theorem C06_more_iterations_same (F : realFieldType) (tol : F) (max_iter max' mem : nat) (sweep : seq F -> seq F * seq F)
    (mix : seq (seq F * seq F) -> seq F) (c0 y z : seq F) (k : nat) :
  (max_iter <= max')%N ->
  run_sample (mc_ops F) tol max_iter mem sweep mix c0 = Converged y z k ->
  run_sample (mc_ops F) tol max' mem sweep mix c0 = Converged y z k.
Proof. exact: FpiProofs.more_iterations_same. Qed.
Print Assumptions C06_more_iterations_same.

(* the batched loop as coded (shared iteration counter, per-sample masks, histories appended for all samples)
   returns, for every sample, exactly what the sample alone returns: a sample never depends on the rest of the batch *)
Theorem C06_batch_independent (F : realFieldType) (tol : F) (max_iter mem : nat) (sweep : seq F -> seq F * seq F)
    (mix : seq (seq F * seq F) -> seq F) (c0s : seq (seq F)) :
  batch_values (bfpi (mc_ops F) tol max_iter mem sweep mix max_iter.+1 0 [seq init_sample c0 | c0 <- c0s]) =
  Some [seq (if run_sample (mc_ops F) tol max_iter mem sweep mix c0 is Converged y z _ then Some (y, z) else None)
       | c0 <- c0s].
Proof. exact: FpiProofs.batch_independent. Qed.
Print Assumptions C06_batch_independent.

(* every run with a mixing function is a run of the sequence-driven machine *)
Theorem C06_fpi_is_seq (F : realFieldType) (tol : F) (max_iter mem : nat) (sweep : seq F -> seq F * seq F)
    (mix : seq (seq F * seq F) -> seq F) (c0 : seq F) :
  exists nexts, fpi_seq (mc_ops F) tol max_iter sweep 0 c0 nexts = run_sample (mc_ops F) tol max_iter mem sweep mix c0.
Proof. exact: FpiProofs.fpi_is_seq. Qed.
Print Assumptions C06_fpi_is_seq.

(* soundness for the most general acceleration scheme (any sequence of iterates) *)
Theorem C06_seq_returned_is_fixed_point (F : realFieldType) (tol : F) (max_iter : nat) (sweep : seq F -> seq F * seq F)
    (nexts : seq (seq F)) (c0 y z : seq F) (k : nat) :
  fpi_seq (mc_ops F) tol max_iter sweep 0 c0 nexts = Converged y z k ->
  exists c, sweep c = (y, z) /\ size y = size c /\
            forall i, (i < size y)%N -> `|nth 0 y i - nth 0 c i| <= tol.
Proof. exact: FpiProofs.seq_returned_is_fixed_point. Qed.
Print Assumptions C06_seq_returned_is_fixed_point.

(* the checker used by the correspondence: an accepted recorded run (first iterate c0, every recorded evaluation a
   genuine sweep) is a run of the sequence-driven machine returning exactly what was returned *)
Theorem C06_checker_sound (F : realFieldType) (tol : F) (max_iter : nat) (sweep : seq F -> seq F * seq F)
    (c0 : seq F) (tr : seq (seq F * (seq F * seq F))) (ret : option (seq F * seq F)) :
  trace_ok (mc_ops F) tol max_iter 0 (Some c0) tr ret = true ->
  (forall c y z, (c, (y, z)) \in tr -> sweep c = (y, z)) ->
  exists nexts, sample_values (fpi_seq (mc_ops F) tol max_iter sweep 0 c0 nexts) = Some ret.
Proof. exact: FpiProofs.checker_sound. Qed.
Print Assumptions C06_checker_sound.

(* affine loops: if the sweep is c |-> A c + b and 1 - A is invertible, a returned sample is within
   A (1-A)^-1 (c - y) of the exact linear solve, where |c - y| <= tol componentwise *)
Theorem C06_affine_identity (F : realFieldType) (n : nat) (A : 'M[F]_n) (b c y cstar : 'cV[F]_n) :
  1%:M - A \in unitmx -> cstar = A *m cstar + b -> y = A *m c + b ->
  y - cstar = A *m invmx (1%:M - A) *m (c - y).
Proof. exact: FpiProofs.affine_identity. Qed.
Print Assumptions C06_affine_identity.
