(* C03 — component surrogates are exact on their sparse polynomial space.
   Only theorem statements; proofs are in Proofs/Combination.v and Proofs/LagrTensor.v.
   The MISC prediction is  sum_{i in S} w_i * interpolant_i(x)  with w = the inclusion-exclusion
   weights of C01 (Misc.IE) and interpolant_i the tensor-product Lagrange interpolant of C05 on the
   nested grids of index i.  A multi-index is  alpha ++ beta  (na = length alpha model-fidelity
   dimensions that the model ignores, then one dimension per input). *)
From mathcomp Require Import all_ssreflect all_algebra.
From AmiscV Require Import Misc MiscDefs Field Lagr LagrDefs Lagr1d LagrTensor Combination.
Set Implicit Arguments. Unset Strict Implicit. Unset Printing Implicit Defensive.
Import GRing.Theory Num.Theory.
Local Open Scope ring_scope.

(* algebraic core (any commutative ring): if the value attached to index i is a product of per-dimension
   factors g k (i_k), each factor is constant = v k from level L_k on, S is downward closed and contains L,
   then the combination-technique sum telescopes to the product of the limits *)
Theorem C03_combination_product_exact (R : comRingType) (d : nat) (S : seq idx) (L : idx)
    (g : nat -> nat -> R) (v : nat -> R) :
  List.NoDup S -> (forall i, List.In i S -> size i = d) -> dclosed S -> List.In L S ->
  (forall k l, (k < d)%N -> (nth 0%N L k <= l)%N -> g k l = v k) ->
  \sum_(i <- S) z2r _ (IE S i) * \prod_(k < d) g k (nth 0%N i k) = \prod_(k < d) v k.
Proof. exact: Combination.combination_product_exact. Qed.
Print Assumptions C03_combination_product_exact.

(* on product data the tensor interpolant factorises into 1-d interpolation polynomials *)
Theorem C03_tlagrange_product (F : realFieldType) (gs : seq (grid (F:=F))) (fs : seq (F -> F)) (x : seq F) :
  (forall g, g \in gs -> uniq g.2.1) -> size fs = size gs -> size x = size gs ->
  tlagrange gs x (tensor_data gs fs) =
  \prod_(k < size gs) (interp_poly (nth (0, ([::], [::])) gs k).2.1
                                   [seq (nth (fun=> 0) fs k) t | t <- (nth (0, ([::], [::])) gs k).2.1]).[nth 0 x k].
Proof. exact: LagrTensor.tlagrange_product. Qed.
Print Assumptions C03_tlagrange_product.

(* index_grids (Proofs/LagrDefs.v): input dimension k of index i uses the first kpl * beta_k + 1 points of
   the nested sequence nodes k *)

(* exactness on monomials of the sparse polynomial space, in training mode (S = active) and evaluation
   mode (S = active ++ cand) alike, however S was reached, with any number na of ignored model-fidelity
   dimensions: if some index bstar of S resolves every exponent (m_k <= kpl * bstar_k), the MISC sum of
   tensor interpolants of the monomial prod x_k^(m_k) is the monomial, at every point x *)
Theorem C03_exact_monomial (F : realFieldType) (na nx kpl : nat) (nodes : nat -> seq F) (tol : nat -> F)
    (wts : nat -> nat -> seq F) (S : seq idx) (bstar : idx) (m : seq nat) (x : seq F) :
  List.NoDup S -> (forall i, List.In i S -> size i = (na + nx)%N) -> dclosed S -> List.In bstar S ->
  size m = nx -> size x = nx ->
  (forall k, (k < nx)%N -> uniq (nodes k)) ->
  (forall k i, (k < nx)%N -> List.In i S -> (kpl * nth 0%N i (na + k) + 1 <= size (nodes k))%N) ->
  (forall k, (k < nx)%N -> (nth 0%N m k <= kpl * nth 0%N bstar (na + k))%N) ->
  \sum_(i <- S) z2r _ (IE S i) *
     tlagrange (index_grids na kpl nodes tol wts i) x
               (tensor_data (index_grids na kpl nodes tol wts i) [seq (fun t : F => t ^+ e) | e <- m])
  = \prod_(k < nx) nth 0 x k ^+ nth 0%N m k.
Proof. exact: Combination.exact_monomial. Qed.
Print Assumptions C03_exact_monomial.
