(* C05 (extension) — "one output's surrogate does not depend on which other outputs the model returns", at the place where the
   code decides which stored points an interpolant is built from (Model/Select.v = SparseGrid.get_by_coord with y_vars and
   skip_nan=True).  Only theorem statements; proofs are in Proofs/SelectProofs.v (plain Coq, lists). *)
From Coq Require Import List Arith Bool.
From AmiscV Require Import Select SelectProofs.
Import ListNotations.

(* the points handed out, and their values, depend only on the requested quantities: two tables of stored points that agree on
   the requested columns give the same training rows, whatever the other columns hold (missing, NaN, extra quantities, ...) *)
Theorem C05_training_rows_depend_on_requested_only :
  forall (V : Type) (req : list nat) (rows rows' : list (row V)),
    map (project req) rows = map (project req) rows' ->
    training_rows req rows = training_rows req rows'.
Proof. exact SelectProofs.training_rows_depend_on_requested_only. Qed.
Print Assumptions C05_training_rows_depend_on_requested_only.

(* every row handed out is complete in the requested quantities, and every stored point that is complete there is handed out, in
   the stored order *)
Theorem C05_training_rows_complete :
  forall (V : Type) (req : list nat) (rows : list (row V)) (r : row V),
    In r (training_rows req rows) -> forall v, In v r -> v <> None.
Proof. exact SelectProofs.training_rows_complete. Qed.
Print Assumptions C05_training_rows_complete.

Theorem C05_training_rows_all_usable :
  forall (V : Type) (req : list nat) (rows : list (row V)),
    (forall r, In r rows -> usable req r = true) -> training_rows req rows = map (project req) rows.
Proof. exact SelectProofs.training_rows_all_usable. Qed.
Print Assumptions C05_training_rows_all_usable.

(* the former rule (drop a point when ANY stored quantity is missing) made a requested output depend on an unrequested one:
   the two tables agree on the requested column 0, yet the former rule hands out different rows (finding F22) *)
Theorem C05_former_rule_refuted :
  map (project [0]) sel_rows_a = map (project [0]) sel_rows_b /\
  training_rows_former [0] sel_rows_a <> training_rows_former [0] sel_rows_b /\
  training_rows [0] sel_rows_a = training_rows [0] sel_rows_b.
Proof. exact SelectProofs.former_rule_refuted. Qed.
Print Assumptions C05_former_rule_refuted.
