(* C06 (extension) — convergence of the UNACCELERATED iteration for contractions.
   Props/C06.v leaves open whether the iteration converges (the Anderson step is an oracle there).  Here the mixing rule is the
   plain one (the next iterate is the latest sweep result: what the code does with anderson_mem = 1, where the constrained
   least-squares problem has the single solution alpha = [1]); if the loop's sweep is a contraction in the maximum norm with
   factor L and L^m * (first residual) <= tol with m <= max_iter, the sample is returned (not NaN), after at most m further sweeps.
   With the affine loops of C04 (|A|_inf < 1) this gives convergence of the unaccelerated scheme; for the accelerated scheme
   the statement stays "whatever is returned is a fixed point within tolerance".
   Only theorem statements; proofs are in Proofs/FpiContraction.v. *)
From Coq Require Import List Arith Bool.
From mathcomp Require Import all_ssreflect all_algebra.
From AmiscV Require Import Field Fpi LagrDefs FpiProofs FpiContraction.
Set Implicit Arguments. Unset Strict Implicit. Unset Printing Implicit Defensive.
Import GRing.Theory Num.Theory.
Local Open Scope ring_scope.

(* maximum norm of a vector *)
Definition ninf (F : realFieldType) (v : seq F) : F := foldr Num.max 0 [seq `|x| | x <- v].

(* the sweep maps vectors of n coupling values to vectors of n coupling values and contracts distances by L *)
Definition contracts (F : realFieldType) (n : nat) (L : F) (sweep : seq F -> seq F * seq F) : Prop :=
  forall a b, size a = n -> size b = n ->
    size (sweep a).1 = n /\
    ninf (vsub (mc_ops F) (sweep a).1 (sweep b).1) <= L * ninf (vsub (mc_ops F) a b).

(* the plain mixing rule: the next iterate is the most recent sweep result *)
Definition plain_mix (F : realFieldType) (mix : seq (seq F * seq F) -> seq F) : Prop :=
  forall h y r, mix (rcons h (y, r)) = y.

Theorem C06_plain_iteration_converges (F : realFieldType) (tol L : F) (max_iter mem n m : nat)
    (sweep : seq F -> seq F * seq F) (mix : seq (seq F * seq F) -> seq F) (c0 : seq F) :
  0 <= tol -> 0 <= L -> (0 < mem)%N -> size c0 = n -> contracts n L sweep -> plain_mix mix ->
  L ^+ m * ninf (vsub (mc_ops F) (sweep c0).1 c0) <= tol -> (m <= max_iter)%N ->
  exists y z k, run_sample (mc_ops F) tol max_iter mem sweep mix c0 = Converged y z k /\ (k <= m)%N.
Proof. exact: FpiContraction.plain_iteration_converges. Qed.
Print Assumptions C06_plain_iteration_converges.

(* the convergence test of the code is the maximum norm of the residual against the tolerance *)
Theorem C06_conv_is_ninf (F : realFieldType) (tol : F) (y c : seq F) :
  0 <= tol -> size y = size c ->
  conv (mc_ops F) tol y c = (ninf (vsub (mc_ops F) y c) <= tol).
Proof. exact: FpiContraction.conv_is_ninf. Qed.
Print Assumptions C06_conv_is_ninf.
