(* C09 (extension) — the allocation "up to iteration k" (System.get_allocation(idx), repaired by fix 34567c7: the iteration number
   used to be ignored).  Only theorem statements; proofs are in Proofs/CostUpto.v. *)
From Coq Require Import List Arith ZArith QArith Qcanon.
From AmiscV Require Import Cost CostUpto Grid GridFormer.
Import ListNotations.

(* asking for the whole history gives the full account *)
Theorem C09_alloc_upto_all : forall (calls : list (list Qc)) (k : nat),
  (length calls <= k)%nat -> allocation_upto k calls = allocation calls.
Proof. exact CostUpto.alloc_upto_all. Qed.
Print Assumptions C09_alloc_upto_all.

(* if every evaluation of a fidelity reports one and the same positive cost, the allocation up to iteration k equals the
   evaluations made and the costs reported in the first k calls - for every k *)
Theorem C09_alloc_upto_constant_cost : forall (c : Qc) (ns : list nat) (k : nat), (Q2Qc 0 < c)%Qc ->
  allocation_upto k (map (fun n => repeat c n) ns) = actual (firstn k (map (fun n => repeat c n) ns)).
Proof. exact CostUpto.alloc_upto_constant_cost. Qed.
Print Assumptions C09_alloc_upto_constant_cost.

(* the former code ignored k: reporting the full account for k = 1 is wrong as soon as a later call evaluated something *)
Theorem C09_alloc_ignoring_k_refuted :
  exists (c : Qc) (ns : list nat), allocation (map (fun n => repeat c n) ns) <> actual (firstn 1 (map (fun n => repeat c n) ns)).
Proof. exact CostUpto.alloc_ignoring_k_refuted. Qed.
Print Assumptions C09_alloc_ignoring_k_refuted.

(* the level-zero rule of SparseGrid.refine before fix 516fd12 (its grid point handed out whether or not an evaluation is stored; only
   duplicates inside one batch removed) evaluates a point twice as soon as two activations share a level-zero data part at one model
   fidelity - which is what indices differing only in a surrogate-fidelity coordinate do; the repaired rule does not *)
Theorem C09_zero_level_rule_refuted :
  exists (kpl : nat) (latent : list nat) (batches : list (list (list nat * list nat))),
    ~ NoDup (snd (run_history_former (fun k : key => k) [] kpl false latent batches)) /\
    NoDup (snd (run_history (fun k : key => k) [] kpl false latent batches)).
Proof. exact GridFormer.zero_level_rule_refuted. Qed.
Print Assumptions C09_zero_level_rule_refuted.

