(* C12 (extension) — how a loaded system finds the side files of its components (Model/Search.v: amisc.utils.search_for_file), the step
   behind "read back from any working directory, also after the save directory has been moved as a unit".
   Only theorem statements; proofs are in Proofs/SearchProofs.v. *)
From Coq Require Import List Arith Bool.
From AmiscV Require Import Search SearchProofs.
Import ListNotations.

(* a recorded path that still exists is used as it is *)
Theorem C12_existing_path_untouched : forall (nparts : nat) (sfx : bool) (holds : list bool) (cwd : bool),
  1 < nparts -> search nparts sfx true holds cwd = Unchanged.
Proof. exact SearchProofs.existing_path_untouched. Qed.
Print Assumptions C12_existing_path_untouched.

Theorem C12_searched_iff : forall (nparts : nat) (sfx ex : bool),
  need_to_search nparts sfx ex = true <-> (nparts = 1 /\ sfx = true) \/ (1 < nparts /\ ex = false).
Proof. exact SearchProofs.searched_iff. Qed.
Print Assumptions C12_searched_iff.

(* after the directory was moved (the recorded path is gone) the file beside the YAML file is the one that is found: the first
   directory given by the caller that holds the name wins, whatever the working directory contains *)
Theorem C12_given_directory_wins : forall (nparts : nat) (sfx ex : bool) (holds : list bool) (cwd : bool) (k : nat),
  need_to_search nparts sfx ex = true ->
  nth_error holds k = Some true -> (forall j, j < k -> nth_error holds j = Some false) ->
  search nparts sfx ex holds cwd = InGiven k.
Proof. exact SearchProofs.given_directory_wins. Qed.
Print Assumptions C12_given_directory_wins.

Theorem C12_independent_of_cwd : forall (nparts : nat) (sfx ex : bool) (holds : list bool) (c1 c2 : bool),
  In true holds -> search nparts sfx ex holds c1 = search nparts sfx ex holds c2.
Proof. exact SearchProofs.independent_of_cwd. Qed.
Print Assumptions C12_independent_of_cwd.

(* the working directory is a last resort only *)
Theorem C12_cwd_only_as_last_resort : forall (nparts : nat) (sfx ex : bool) (holds : list bool) (cwd : bool),
  search nparts sfx ex holds cwd = InCwd ->
  need_to_search nparts sfx ex = true /\ cwd = true /\ forall b, In b holds -> b = false.
Proof. exact SearchProofs.cwd_only_as_last_resort. Qed.
Print Assumptions C12_cwd_only_as_last_resort.

Theorem C12_not_found_unchanged : forall (nparts : nat) (sfx ex : bool) (holds : list bool),
  (forall b, In b holds -> b = false) -> search nparts sfx ex holds false = Unchanged.
Proof. exact SearchProofs.not_found_unchanged. Qed.
Print Assumptions C12_not_found_unchanged.

(* premises are satisfiable: a moved save directory (second given directory holds the file) and a stale copy in the working directory *)
Example C12_search_example :
  search 4 true false [false; true] true = InGiven 1 /\ search 4 true false [false; false] true = InCwd /\
  search 1 true false [true] false = InGiven 0 /\ search 1 false false [true] true = Unchanged.
Proof. repeat split. Qed.
