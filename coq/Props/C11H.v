(* C11 (Hessian part) — the reported Hessian is the matrix of second partial derivatives of the prediction.
   Only theorem statements; proofs are in Proofs/LagrHess.v.  Kept in a file of its own so that the gradient theorems of
   Props/C11.v do not depend on it. *)
From mathcomp Require Import all_ssreflect all_algebra.
From AmiscV Require Import Field Lagr LagrDefs Lagr1d LagrTensor LagrDeriv LagrHess.
Set Implicit Arguments. Unset Strict Implicit. Unset Printing Implicit Defensive.
Import GRing.Theory Num.Theory.
Local Open Scope ring_scope.

(* 1-d: the coded second-derivative values (generic branch front*(first+second); exactly on this node; exactly on another
   node) are the second derivatives of the Lagrange basis polynomials *)
Theorem C11_d2basis_is_second_derivative (F : realFieldType) (tol kappa : F) (xs ws : seq F) (x : F) :
  uniq xs -> kappa != 0 -> bary_weights kappa xs ws -> admissible tol xs x ->
  d2basis1 (mc_ops F) tol xs ws x = [seq ((lbase xs xk)^`(2)).[x] | xk <- xs].
Proof. exact: LagrHess.d2basis_is_second_derivative. Qed.
Print Assumptions C11_d2basis_is_second_derivative.

(* tensor product: the coded Hessian entry (m, n) is the second partial of the tensor interpolant *)
Theorem C11_thess_is_second_partial (F : realFieldType) (gs : seq (grid (F:=F))) (x ys : seq F) (m n : nat) :
  (forall g, g \in gs -> valid_grid g) -> all_admissible gs x -> size ys = gsizes gs -> (m < size gs)%N -> (n < size gs)%N ->
  thess (mc_ops F) m n gs x ys = tlagrange_dd m n gs x ys.
Proof. exact: LagrHess.thess_is_second_partial. Qed.
Print Assumptions C11_thess_is_second_partial.

(* the Hessian is symmetric *)
Theorem C11_hessian_symmetric (F : realFieldType) (gs : seq (grid (F:=F))) (x ys : seq F) (m n : nat) :
  tlagrange_dd m n gs x ys = tlagrange_dd n m gs x ys.
Proof. exact: LagrHess.tlagrange_dd_sym. Qed.
Print Assumptions C11_hessian_symmetric.
