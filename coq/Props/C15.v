(* C15 — serial, vectorised and parallel execution agree under every schedule.
   Only theorem statements; proofs are in Proofs/SchedProofs.v.  Partial: real thread/process interleavings, pickling and
   data races inside user models are runtime behaviour the model cannot exhibit; what is proved is that the way amisc
   collects results makes them independent of the completion order. *)
From Coq Require Import List Arith Bool Permutation.
From AmiscV Require Import Sched SchedProofs.
Import ListNotations.

(* whatever order the pool completes the tasks in, the gathered results are those of the serial loop, position by position *)
Theorem C15_gather_any_schedule : forall (X Y : Type) (f : X -> option Y) (xs : list X) (sigma : list nat),
  (forall i, i < length xs -> In i sigma) ->
  executor_path X Y f xs sigma = Some (serial_path X Y f xs).
Proof. exact SchedProofs.gather_any_schedule. Qed.
Print Assumptions C15_gather_any_schedule.

(* in particular for every permutation of the submission order *)
Theorem C15_gather_permutation : forall (X Y : Type) (f : X -> option Y) (xs : list X) (sigma : list nat),
  Permutation sigma (seq 0 (length xs)) ->
  executor_path X Y f xs sigma = Some (serial_path X Y f xs).
Proof. exact SchedProofs.gather_permutation. Qed.
Print Assumptions C15_gather_permutation.

(* any two schedules that let every task finish gather identical results: the outcome is a function of the submitted
   batch alone, never of the completion order, duplicated completion notices included *)
Theorem C15_two_schedules_agree : forall (X Y : Type) (f : X -> option Y) (xs : list X) (s1 s2 : list nat),
  (forall i, i < length xs -> In i s1) -> (forall i, i < length xs -> In i s2) ->
  executor_path X Y f xs s1 = executor_path X Y f xs s2.
Proof. exact SchedProofs.two_schedules_agree. Qed.
Print Assumptions C15_two_schedules_agree.

(* results are only read when every task has finished *)
Theorem C15_waits_for_all : forall (X Y : Type) (f : X -> option Y) (xs : list X) (sigma : list nat) (i : nat),
  i < length xs -> ~ In i sigma -> executor_path X Y f xs sigma = None.
Proof. exact SchedProofs.waits_for_all. Qed.
Print Assumptions C15_waits_for_all.

(* a failing task is recorded at its submission index, independently of the schedule *)
Theorem C15_errors_aligned : forall (X Y : Type) (f : X -> option Y) (xs : list X) (i : nat),
  In i (error_indices Y (serial_path X Y f xs)) <-> exists x, nth_error xs i = Some x /\ f x = None.
Proof. exact SchedProofs.errors_aligned. Qed.
Print Assumptions C15_errors_aligned.

(* a vectorised call with a batch function that is pointwise equals the serial loop *)
Theorem C15_vectorised_agrees : forall (X Y : Type) (f : X -> option Y) (F : list X -> list (option Y)) (xs : list X),
  (forall l, F l = map f l) -> F xs = serial_path X Y f xs.
Proof. exact SchedProofs.vectorised_agrees. Qed.
Print Assumptions C15_vectorised_agrees.

Example C15_nonvacuous :
  executor_path nat nat (fun x => if Nat.eqb x 3 then None else Some (x * x)) [1; 3; 5] [2; 0; 2; 1] = Some [Some 1; None; Some 25] /\
  error_indices nat [Some 1; None; Some 25] = [1].
Proof. vm_compute. split; reflexivity. Qed.
