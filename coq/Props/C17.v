(* C17 — surrogates are equivariant under affine changes of input units.
   Only theorem statements; proofs are in Proofs/LagrAffine.v.  An input is rescaled by x -> a*x + b (a > 0):
   nodes and evaluation point are mapped, the snapping tolerance scales with a (it is 1e-8 times the node spread
   in the code: C17_node_tol), the weights refine() computes are unchanged because the interval capacity scales
   with the domain width (C17_weights). *)
From mathcomp Require Import all_ssreflect all_algebra.
From AmiscV Require Import Field QcInst Lagr QcRun LagrDefs LagrAffine.
Set Implicit Arguments. Unset Strict Implicit. Unset Printing Implicit Defensive.
Import GRing.Theory Num.Theory.
Local Open Scope ring_scope.

(* the tolerance the code derives from the nodes scales with the unit *)
Theorem C17_node_tol (F : realFieldType) (rel a b : F) (xs : seq F) :
  0 < a -> span (mc_ops F) xs != 0 ->
  node_tol (mc_ops F) rel (amap a b xs) = a * node_tol (mc_ops F) rel xs.
Proof. exact: LagrAffine.node_tol_affine. Qed.
Print Assumptions C17_node_tol.

(* the weights are unchanged when the interval capacity scales with the domain *)
Theorem C17_weights (F : realFieldType) (C a b : F) (xs ws news : seq F) :
  a != 0 -> size ws = size xs ->
  init_weights (mc_ops F) (a * C) (amap a b xs) = init_weights (mc_ops F) C xs /\
  (extend_weights (mc_ops F) (a * C) (amap a b xs) ws (amap a b news)).2 = (extend_weights (mc_ops F) C xs ws news).2.
Proof. exact: LagrAffine.weights_affine. Qed.
Print Assumptions C17_weights.

(* 1-d basis values and their derivatives *)
Theorem C17_basis (F : realFieldType) (tol a b : F) (xs ws : seq F) (x : F) :
  0 < a -> size ws = size xs ->
  basis1 (mc_ops F) (a * tol) (amap a b xs) ws (a * x + b) = basis1 (mc_ops F) tol xs ws x /\
  dbasis1 (mc_ops F) (a * tol) (amap a b xs) ws (a * x + b) = [seq d / a | d <- dbasis1 (mc_ops F) tol xs ws x].
Proof. exact: LagrAffine.basis_affine. Qed.
Print Assumptions C17_basis.

(* the surrogate on the mapped training points at the mapped evaluation point is the original surrogate;
   its gradient picks up the chain-rule factor 1/a_k *)
Theorem C17_predict_equivariant (F : realFieldType) (ab : seq (F * F)) (gs : seq (grid (F:=F))) (x ys : seq F) :
  size ab = size gs -> size x = size gs -> (forall p, p \in ab -> 0 < p.1) ->
  (forall g, g \in gs -> size g.2.2 = size g.2.1) ->
  tpredict (mc_ops F) (gmap ab gs) (xmap ab x) ys = tpredict (mc_ops F) gs x ys.
Proof. exact: LagrAffine.tpredict_affine. Qed.
Print Assumptions C17_predict_equivariant.

Theorem C17_grad_equivariant (F : realFieldType) (ab : seq (F * F)) (gs : seq (grid (F:=F))) (x ys : seq F) (k : nat) :
  size ab = size gs -> size x = size gs -> (forall p, p \in ab -> 0 < p.1) ->
  (forall g, g \in gs -> size g.2.2 = size g.2.1) -> (k < size gs)%N ->
  tgrad (mc_ops F) k (gmap ab gs) (xmap ab x) ys = tgrad (mc_ops F) k gs x ys / (nth (1, 0) ab k).1.
Proof. exact: LagrAffine.tgrad_affine. Qed.
Print Assumptions C17_grad_equivariant.

(* with an ABSOLUTE tolerance (the code before the repair recorded in known_findings.json) equivariance fails:
   two nodes 0 and 1, evaluation at 1/2, unit scaled by 1/100 with absolute tolerance 1/10
   (the instances c17_unit and c17_scaled are written out in Model/QcRun.v) *)
Theorem C17_abs_tol_refuted : c17_scaled <> c17_unit.
Proof. exact: LagrAffine.abs_tol_refuted. Qed.
Print Assumptions C17_abs_tol_refuted.
