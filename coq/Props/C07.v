(* C07 — feed-forward prediction is the composition of components in dependency order.
   Only theorem statements; proofs are in Proofs/SysProofs.v.  Model/Sys.v evaluates components one at a time over
   a pool of tagged values (raw / normalised), converting inputs to the form each call needs.  `is_topological`
   is the (decidable) condition the correspondence check verifies on the evaluation order observed in the code. *)
From Coq Require Import List Arith Bool Permutation.
From AmiscV Require Import Sys SysProofs.
Import ListNotations.

(* any two dependency-respecting orders of the same components give the same pool: the result does not depend on the
   order in which components were listed or inserted (nor on which topological order the graph library picks) *)
Theorem C07_order_independent : forall (V : Type) (norm denorm : nat -> V -> V) (cs o1 o2 : list (comp V)) (e0 e1 : env V),
  Permutation o1 cs -> Permutation o2 cs -> NoDup (produced V cs) ->
  (forall v, In v (produced V cs) -> lookup V e0 v = None) ->
  is_topological V cs (map fst e0) o1 = true -> is_topological V cs (map fst e0) o2 = true ->
  eval V norm denorm o1 e0 = Some e1 ->
  exists e2, eval V norm denorm o2 e0 = Some e2 /\ forall v, lookup V e1 v = lookup V e2 v.
Proof. exact SysProofs.order_independent. Qed.
Print Assumptions C07_order_independent.

(* the pool is a solution of the component equations: every component's j-th output is the j-th value of its function
   (model or surrogate, as selected) applied to the pool's values of its inputs in the form that call takes *)
Theorem C07_is_solution : forall (V : Type) (norm denorm : nat -> V -> V) (cs order : list (comp V)) (e0 e : env V),
  Permutation order cs -> NoDup (produced V cs) ->
  (forall v, In v (produced V cs) -> lookup V e0 v = None) ->
  is_topological V cs (map fst e0) order = true ->
  eval V norm denorm order e0 = Some e ->
  forall c, In c order ->
  exists xs, gather V norm denorm e (negb (use_model V c)) (cin V c) = Some xs /\
    forall j v yv, nth_error (cout V c) j = Some v ->
      nth_error (if use_model V c then cmodel V c xs else csurr V c xs) j = Some yv ->
      lookup V e v = Some (negb (use_model V c), yv).
Proof. exact SysProofs.is_solution. Qed.
Print Assumptions C07_is_solution.

(* asking for a subset of outputs (early exit) returns the same values for those outputs *)
Theorem C07_targets : forall (V : Type) (norm denorm : nat -> V -> V) (cs order : list (comp V)) (targets : list var)
    (e0 e e' : env V),
  Permutation order cs -> NoDup (produced V cs) ->
  (forall v, In v (produced V cs) -> lookup V e0 v = None) ->
  eval V norm denorm order e0 = Some e ->
  eval_targets V norm denorm targets order e0 = Some e' ->
  forall t, In t targets -> lookup V e' t = lookup V e t.
Proof. exact SysProofs.targets_same. Qed.
Print Assumptions C07_targets.

(* a per-component override (other function, model instead of surrogate) leaves untouched everything evaluated before
   that component in a dependency order — by C07_order_independent every component that does not depend on it can be
   placed before it *)
Theorem C07_override_local : forall (V : Type) (norm denorm : nat -> V -> V) (pre post : list (comp V)) (c c' : comp V)
    (e0 e e' : env V),
  cin V c' = cin V c -> cout V c' = cout V c ->
  NoDup (produced V (pre ++ c :: post)) ->
  (forall v, In v (produced V (pre ++ c :: post)) -> lookup V e0 v = None) ->
  eval V norm denorm (pre ++ c :: post) e0 = Some e ->
  eval V norm denorm (pre ++ c' :: post) e0 = Some e' ->
  forall v, ~ In v (produced V (c :: post)) -> lookup V e' v = lookup V e v.
Proof. exact SysProofs.override_local. Qed.
Print Assumptions C07_override_local.

(* inputs given raw or normalised produce the same result (in canonical, i.e. raw, units) *)
Theorem C07_raw_or_normalised : forall (V : Type) (norm denorm : nat -> V -> V) (order : list (comp V)) (e0 e0' e1 : env V),
  (forall v x, denorm v (norm v x) = x) -> (forall v x, norm v (denorm v x) = x) ->
  (forall v, canon V denorm e0 v = canon V denorm e0' v) ->
  eval V norm denorm order e0 = Some e1 ->
  exists e2, eval V norm denorm order e0' = Some e2 /\ forall v, canon V denorm e1 v = canon V denorm e2 v.
Proof. exact SysProofs.raw_or_normalised. Qed.
Print Assumptions C07_raw_or_normalised.
