(* C01 — combination-technique weights equal the inclusion-exclusion formula.
   Only theorem statements; proofs are in Proofs/MiscC01.v. *)
From Coq Require Import List Arith ZArith Bool.
From AmiscV Require Import Misc MiscDefs MiscC01.
Import ListNotations.

(* training-mode weights: keys = active set, values = inclusion-exclusion over the active set *)
Theorem C01_train_is_IE : forall mx reqs, wf_reqs mx reqs ->
  let s := run mx reqs in weights_ok (active s) (ctrain s).
Proof. exact MiscC01.train_weights_ok. Qed.
Print Assumptions C01_train_is_IE.

(* evaluation-mode weights: keys = active + candidate, values = inclusion-exclusion over that set *)
Theorem C01_test_is_IE : forall mx reqs, wf_reqs mx reqs ->
  let s := run mx reqs in weights_ok (active s ++ cand s) (ctest s).
Proof. exact MiscC01.test_weights_ok. Qed.
Print Assumptions C01_test_is_IE.

(* each mode's weights sum to exactly 1 once something is active *)
Theorem C01_sum_one : forall mx reqs, wf_reqs mx reqs ->
  let s := run mx reqs in active s <> [] ->
  zsum (map snd (ctrain s)) = 1%Z /\ zsum (map snd (ctest s)) = 1%Z.
Proof. exact MiscC01.sum_one. Qed.
Print Assumptions C01_sum_one.

(* the weights depend on the set alone, never on the order in which it was built *)
Theorem C01_order_independent : forall mx reqs reqs', wf_reqs mx reqs -> wf_reqs mx reqs' ->
  same_set (active (run mx reqs)) (active (run mx reqs')) ->
  forall i, coeff (ctrain (run mx reqs)) i = coeff (ctrain (run mx reqs')) i /\
            coeff (ctest (run mx reqs)) i = coeff (ctest (run mx reqs')) i.
Proof. exact MiscC01.order_independent. Qed.
Print Assumptions C01_order_independent.

(* the look-ahead weights used to score a candidate are the weights its activation would give *)
Theorem C01_lookahead : forall mx reqs c, wf_reqs mx reqs -> In c (cand (run mx reqs)) ->
  weights_ok (active (run mx reqs) ++ [c]) (lookahead (run mx reqs) [c]) /\
  lookahead (run mx reqs) [c] = ctrain (activate mx (run mx reqs) c).
Proof. exact MiscC01.lookahead_ok. Qed.
Print Assumptions C01_lookahead.

(* non-vacuity *)
Example C01_nonvacuous :
  let s := run [1; 2] [[0; 0]; [0; 1]; [1; 0]] in
  ctrain s = [([0; 0], (-1)%Z); ([0; 1], 1%Z); ([1; 0], 1%Z)] /\
  IE (active s) [0; 0] = (-1)%Z /\ IE (active s ++ cand s) [0; 1] = (-1)%Z.
Proof. vm_compute. repeat split; reflexivity. Qed.
