(* C07 (extension, bridge) — the plan System.predict walks meets the hypothesis of the order theorems of Props/C07.v:
   for a system without cycles, the components taken in the order of an accepted evaluation plan (Model/Graph.v) pass the
   order test `is_topological` of Model/Sys.v, whatever the values are and whatever exogenous inputs are supplied.  So
   C07_order_independent / C07_is_solution / C07_targets apply to the order the code really uses.
   Only theorem statements; proofs are in Proofs/GraphSys.v. *)
From Coq Require Import List Arith Bool.
From AmiscV Require Import Sys Graph GraphDefs GraphSys.
Import ListNotations.

(* the components of a listing as Model/Sys.v components (functions arbitrary), and the order a plan induces *)
Theorem C07_plan_order_is_topological : forall (V : Type) (cs : list cio) (comps : list (Sys.comp V)) (exo : list nat) (plan : list (list nat)),
  length comps = length cs ->
  (forall i c k, nth_error cs i = Some c -> nth_error comps i = Some k -> Sys.cin V k = fst c /\ Sys.cout V k = snd c) ->
  (forall a, ~ path1 (edges cs) a a) ->
  system_plan_ok cs plan = true ->
  exists order, order_of_plan V comps (concat plan) = Some order /\ length order = length cs /\
                Sys.is_topological V comps exo order = true.
Proof. exact GraphSys.plan_order_is_topological. Qed.
Print Assumptions C07_plan_order_is_topological.

(* premises are satisfiable: a diamond listed out of order *)
Example C07_plan_order_example :
  let cs := [([1; 2], [3]); ([0], [1]); ([0], [2])] in
  let comps := map (fun c : cio => Sys.mkcomp nat 0 (fst c) (snd c) (fun x => x) (fun x => x) true) cs in
  system_plan_ok cs [[1]; [2]; [0]] = true /\
  (exists order, order_of_plan nat comps (concat [[1]; [2]; [0]]) = Some order /\ Sys.is_topological nat comps [0] order = true).
Proof. split; [reflexivity|]. eexists; split; reflexivity. Qed.
