(* C04 (extension) — the executable system model that the C04/C07 correspondences run (Model/SysRun.v: polynomial components,
   the variables' normalisation chains of Model/Transf.v, surrogates that resolve their polynomial) is an instance of the
   theorems: with non-degenerate normalisation parameters, the system of EXACT surrogates, evaluated on normalised values,
   predicts in physical units what the system of the models predicts.  This composes C16 (round trip of every chain, from
   the parameters alone: Props/C16X.v) with C04_chain_exact (Props/C04.v) on the very functions that are extracted.
   Only theorem statements; proofs are in Proofs/SysRunProofs.v. *)
From Coq Require Import QArith Qcanon.
From mathcomp Require Import all_ssreflect all_algebra.
From AmiscV Require Import Field QcInst Transf Sys QcRun SysRun LagrDefs QcField TransfProofs TransfParams SysRunProofs.
Set Implicit Arguments. Unset Strict Implicit. Unset Printing Implicit Defensive.

(* a component description: id, inputs, outputs, one polynomial per output *)
Definition cspec := (nat * seq nat * seq nat * seq (seq mono))%type.
Definition build (tab : seq vnorm) (um : bool) (s : cspec) : comp Qc :=
  let '(i, ins, outs, polys) := s in poly_comp tab i ins outs polys um.

(* every variable's chain is Log-free with non-degenerate parameters, on non-degenerate hyper-parameters (Props/C16X.v) *)
Definition tab_ok (tab : seq vnorm) : Prop :=
  forall v, all (@TransfParams.params_ok Qc_realFieldType (isSome (h_dom (vn_hyper (vlookup tab v)))) (isSome (h_dist (vn_hyper (vlookup tab v)))))
                (vn_chain (vlookup tab v)) /\
            @TransfParams.hyper_ok Qc_realFieldType (vn_hyper (vlookup tab v)).

(* the per-variable normalisation of the executable model is invertible in both directions *)
Theorem C04_tab_roundtrip (tab : seq vnorm) :
  tab_ok tab -> (forall v x, q_vdenorm tab v (q_vnorm tab v x) = x) /\ (forall v x, q_vnorm tab v (q_vdenorm tab v x) = x).
Proof. exact: SysRunProofs.tab_roundtrip. Qed.
Print Assumptions C04_tab_roundtrip.

(* the surrogate function of poly_comp is the model conjugated with the normalisations: the hypothesis of C04_chain_exact *)
Theorem C04_poly_comp_surrogate_exact (tab : seq vnorm) (s : cspec) (xs : seq Qc) :
  tab_ok tab -> size s.2 = size s.1.2 -> size xs = size (cin Qc (build tab true s)) ->
  csurr Qc (build tab true s) [seq q_vnorm tab p.1 p.2 | p <- zip (cin Qc (build tab true s)) xs] =
  [seq q_vnorm tab p.1 p.2 | p <- zip (cout Qc (build tab true s)) (cmodel Qc (build tab true s) xs)].
Proof. exact: SysRunProofs.poly_comp_surrogate_exact. Qed.
Print Assumptions C04_poly_comp_surrogate_exact.

(* the system of exact surrogates equals the system of the models, variable by variable in physical units, from any pool of
   (raw or normalised) values *)
Theorem C04_poly_system_exact (tab : seq vnorm) (specs : seq cspec) (e0 e1 : env Qc) :
  tab_ok tab -> (forall s, s \in specs -> size s.2 = size s.1.2) ->
  eval Qc (q_vnorm tab) (q_vdenorm tab) [seq build tab false s | s <- specs] e0 = Some e1 ->
  exists e2, eval Qc (q_vnorm tab) (q_vdenorm tab) [seq build tab true s | s <- specs] e0 = Some e2 /\
             forall v, canon Qc (q_vdenorm tab) e1 v = canon Qc (q_vdenorm tab) e2 v.
Proof. exact: SysRunProofs.poly_system_exact. Qed.
Print Assumptions C04_poly_system_exact.
