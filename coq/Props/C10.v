(* C10 — prediction is pointwise: batching, shape and ordering never change a sample.
   Only theorem statements; proofs are in Proofs/ShapeProofs.v.  The evaluators themselves (predict,
   gradient, hessian, FPI, topological evaluation) are per-sample functions in their models (Lagr.v, Sys.v,
   Fpi.v); what is proved here is that the batch plumbing around them (format_inputs / format_outputs)
   delivers to every loop position exactly the sample at that (broadcast) position and puts the result
   back at the same position, for every loop shape. *)
From Coq Require Import List Arith Bool Lia.
From AmiscV Require Import Shape ShapeProofs.
Import ListNotations.

(* all inputs of one shape S (a bare scalar counts as shape (1,)): the loop shape is S *)
Theorem C10_loop_shape_equal : forall (s : shape) (n : nat),
  loop_shape (repeat s (S n)) = atleast_1d s.
Proof. exact ShapeProofs.loop_shape_equal. Qed.
Print Assumptions C10_loop_shape_equal.

(* equal-rank inputs that broadcast axis by axis to B: the loop shape is B *)
Theorem C10_loop_shape_broadcast : forall (shapes : list shape) (B : shape),
  shapes <> [] -> B <> [] ->
  Forall (fun s => Forall2 (fun a b => a = b \/ a = 1) s B) shapes ->
  (forall k, k < length B -> exists s, In s shapes /\ nth k s 0 = nth k B 0) ->
  loop_shape shapes = B.
Proof. exact ShapeProofs.loop_shape_broadcast. Qed.
Print Assumptions C10_loop_shape_broadcast.

(* row-major indexing is a bijection between valid multi-indices and 0..prod-1 *)
Theorem C10_ravel_unravel : forall (L : shape) (m : list nat),
  Forall2 (fun i d => i < d) m L -> ravel L m < nprod L /\ unravel L (ravel L m) = m.
Proof. exact ShapeProofs.ravel_unravel. Qed.
Print Assumptions C10_ravel_unravel.

(* two valid loop positions never share a flat position: no two samples collide in the batch buffers *)
Theorem C10_ravel_injective : forall (L : shape) (m1 m2 : list nat),
  Forall2 (fun i d => i < d) m1 L -> Forall2 (fun i d => i < d) m2 L ->
  ravel L m1 = ravel L m2 -> m1 = m2.
Proof. exact ShapeProofs.ravel_injective. Qed.
Print Assumptions C10_ravel_injective.

(* the row handed to the evaluator at loop position m is the sample at the broadcast position of m *)
Theorem C10_input_row : forall (A : Type) (L lead trail : shape) (data : list A) (m : list nat),
  length lead = length L -> broadcastable_to L lead = true -> length data = nprod (lead ++ trail) ->
  Forall2 (fun i d => i < d) m L ->
  nth (ravel L m) (fmt_input L (lead ++ trail) data) [] =
  slice data (ravel lead (bidx lead m) * nprod trail) (nprod trail).
Proof. exact ShapeProofs.input_row. Qed.
Print Assumptions C10_input_row.

(* end to end: for a per-sample function f returning o values, the batch result at loop position m is f of the
   rows at m; nothing else influences it (batch composition, other samples, order) *)
Theorem C10_pointwise : forall (A B : Type) (f : list (list A) -> list B) (o : nat)
    (arrays : list (shape * list A)) (m : list nat) (j : nat) (d : B),
  (forall r, length (f r) = o) -> j < o ->
  let L := loop_shape (map fst arrays) in
  Forall2 (fun i dd => i < dd) m L ->
  fst (batch_eval f arrays) = L /\
  nth (ravel L m * o + j) (snd (batch_eval f arrays)) d =
  nth j (f (map (fun a => nth (ravel L m) (fmt_input L (atleast_1d (fst a)) (snd a)) []) arrays)) d.
Proof. exact ShapeProofs.pointwise. Qed.
Print Assumptions C10_pointwise.

(* outputs come back in exactly the loop shape: scalar-per-sample outputs (trailing shape () or (1,)) get the
   loop shape itself, a one-sample loop (1,) is squeezed away in front of a trailing shape *)
Theorem C10_output_shape : forall (L o : shape), L <> [] ->
  (o = [] \/ o = [1] -> fmt_output_shape L o = L) /\
  (o <> [] -> o <> [1] -> L <> [1] -> fmt_output_shape L o = L ++ o) /\
  (o <> [] -> o <> [1] -> L = [1] -> fmt_output_shape L o = o).
Proof. exact ShapeProofs.output_shape. Qed.
Print Assumptions C10_output_shape.

Example C10_nonvacuous :
  loop_shape [[3; 1]; [1; 4]; [3; 4]] = [3; 4] /\
  fmt_input [2; 2] [2; 1] [10; 20] = [[10]; [10]; [20]; [20]] /\
  batch_eval (fun r => [fold_right Nat.add 0 (map (fun x => hd 0 x) r)]) [([2; 1], [10; 20]); ([1; 2], [1; 2])]
    = ([2; 2], [11; 12; 21; 22]).
Proof. vm_compute. repeat split; reflexivity. Qed.
