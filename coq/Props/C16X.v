(* C16 (extension) — the side condition chain_ok of the round-trip theorems follows from the parameters alone.
   Only theorem statements; proofs are in Proofs/TransfParams.v.
   chain_ok (Props/C16.v) asks that no stage is degenerate WITH THE HYPER-PARAMETERS IN FORCE AT THAT STAGE, which are the
   variable's domain and Normal (mu, std) pushed through the earlier stages.  With the standard deviation carried as a length
   (fix d904001; the former code pushed it as a location and could make it 0), a chain without Log is non-degenerate as soon as
   its own parameters and the variable's own hyper-parameters are: so the round trip holds for every such variable. *)
From mathcomp Require Import all_ssreflect all_algebra.
From AmiscV Require Import Field Transf LagrDefs TransfProofs TransfParams.
Set Implicit Arguments. Unset Strict Implicit. Unset Printing Implicit Defensive.
Import GRing.Theory Num.Theory.
Local Open Scope ring_scope.

(* the transform's own parameters are non-degenerate; arguments that the variable's hyper-parameters override do not matter *)
Definition params_ok (F : realFieldType) (has_dom has_dist : bool) (t : tr (F:=F)) : bool :=
  match t with
  | Linear m _ => m != 0
  | Logt _ _ => false
  | Minmax lb ub lbn ubn => (has_dom || (ub - lb != 0)) && (ubn - lbn != 0)
  | Zscore _ std => has_dist || (std != 0)
  end.

(* the variable's own hyper-parameters are non-degenerate: a domain of non-zero width, a non-zero standard deviation *)
Definition hyper_ok (F : realFieldType) (h : hyper (F:=F)) : bool :=
  (if h_dom h is Some (a, b) then a != b else true) && (if h_dist h is Some (_, s) then s != 0 else true).

Theorem C16_chain_ok_of_params (F : realFieldType) (lg ex : F -> F) (chain : seq (tr (F:=F))) (h : hyper (F:=F)) :
  all (params_ok (isSome (h_dom h)) (isSome (h_dist h))) chain -> hyper_ok h ->
  chain_ok (mc_ops F) lg ex chain h.
Proof. exact: TransfParams.chain_ok_of_params. Qed.
Print Assumptions C16_chain_ok_of_params.

(* hence: denormalising a normalised value returns the value for every Log-free chain with non-degenerate parameters on every
   variable with a non-degenerate domain / Normal distribution - no condition on intermediate quantities is left *)
Theorem C16_roundtrip_of_params (F : realFieldType) (lg ex : F -> F) (chain : seq (tr (F:=F))) (h : hyper (F:=F)) (x : F) :
  all (params_ok (isSome (h_dom h)) (isSome (h_dist h))) chain -> hyper_ok h ->
  denormalize (mc_ops F) lg ex chain h (normalize (mc_ops F) lg ex chain h x) = x /\
  normalize (mc_ops F) lg ex chain h (denormalize (mc_ops F) lg ex chain h x) = x.
Proof. exact: TransfParams.roundtrip_of_params. Qed.
Print Assumptions C16_roundtrip_of_params.

(* the pushed standard deviation is the length |slope| * std of the affine map accumulated so far: it is never 0 and never
   negative (what the former code violated: N(0,1) under linear(3,-3) had pushed std 3*1-3 = 0) *)
Theorem C16_pushed_std_positive (F : realFieldType) (lg ex : F -> F) (t : tr (F:=F)) (h : hyper (F:=F)) (mu s : F) :
  params_ok (isSome (h_dom h)) (isSome (h_dist h)) t -> hyper_ok h -> h_dist h = Some (mu, s) ->
  exists mu' s', h_dist (push_hyper (mc_ops F) lg ex t h) = Some (mu', s') /\ 0 < s'.
Proof. exact: TransfParams.pushed_std_positive. Qed.
Print Assumptions C16_pushed_std_positive.
