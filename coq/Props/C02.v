(* C02 — index sets stay downward-closed; candidates are exactly the admissible margin.
   Only theorem statements; proofs are in Proofs/MiscC02.v. *)
From Coq Require Import List Arith ZArith Bool.
From AmiscV Require Import Misc MiscDefs MiscC02.
Import ListNotations.

(* every reachable state, for every box and every (admissible or inadmissible) request history *)
Theorem C02_invariant : forall mx reqs, wf_reqs mx reqs -> Inv mx (run mx reqs).
Proof. exact MiscC02.run_inv. Qed.
Print Assumptions C02_invariant.

(* the empty state accepts exactly the all-zero index *)
Theorem C02_initial : forall i, accepts st0 i = true <-> isum i = 0.
Proof. exact MiscC02.accepts_st0. Qed.
Print Assumptions C02_initial.

(* a request that is already active, or neither a candidate nor all-zero, changes nothing *)
Theorem C02_reject : forall mx s i, accepts s i = false -> activate mx s i = s.
Proof. exact MiscC02.reject_unchanged. Qed.
Print Assumptions C02_reject.

(* an accepted request becomes active and nothing else does *)
Theorem C02_accept : forall mx s i, accepts s i = true ->
  forall j, In j (active (activate mx s i)) <-> (In j (active s) \/ j = i).
Proof. exact MiscC02.accept_active. Qed.
Print Assumptions C02_accept.

(* the active set only grows: no request, accepted or not, deactivates an index, and whatever the history is continued
   with, everything active stays active (no hypothesis on the continuation: inadmissible requests included) *)
Theorem C02_active_monotone_step : forall mx s i j, In j (active s) -> In j (active (activate mx s i)).
Proof. exact MiscC02.active_monotone_step. Qed.
Print Assumptions C02_active_monotone_step.

Theorem C02_active_monotone : forall mx reqs more j,
  In j (active (run mx reqs)) -> In j (active (run mx (reqs ++ more))).
Proof. exact MiscC02.active_monotone. Qed.
Print Assumptions C02_active_monotone.

(* activation stops being possible precisely when the whole box is active *)
Theorem C02_exhaustion : forall mx s, Inv mx s -> active s <> [] ->
  (cand s = [] <-> forall i, le_idx i mx -> In i (active s)).
Proof. exact MiscC02.exhaustion. Qed.
Print Assumptions C02_exhaustion.

(* in a non-empty reachable state the accepted requests (of the box's dimension) are exactly the
   candidates; without the length guard an all-zero index of the wrong length is accepted by the
   model's guard although it is no candidate -- such requests are outside wf_reqs *)
Theorem C02_accepts_iff_candidate : forall mx s i, Inv mx s -> active s <> [] -> length i = length mx ->
  (accepts s i = true <-> In i (cand s)).
Proof. exact MiscC02.accepts_iff_cand. Qed.
Print Assumptions C02_accepts_iff_candidate.

(* the model of Component.is_downward_closed decides downward-closedness *)
Theorem C02_is_downward_closed_spec : forall S, is_downward_closed S = true <-> dclosed S.
Proof. exact MiscC02.is_downward_closed_spec. Qed.
Print Assumptions C02_is_downward_closed_spec.

(* non-vacuity: a concrete non-trivial reachable state *)
Example C02_nonvacuous :
  let s := run [1; 2] [[0; 0]; [0; 1]; [5; 5]; [1; 0]; [0; 1]] in
  active s = [[0; 0]; [0; 1]; [1; 0]] /\ cand s = [[0; 2]; [1; 1]].
Proof. vm_compute. split; reflexivity. Qed.
