(* C04 (extension) — how coupling-variable bounds move during training (Model/Bounds.v: Variable.update_domain, the update_bounds
   branch of System.refine, the estimate_bounds branch of System.fit).  Only theorem statements; proofs are in Proofs/BoundsProofs.v. *)
From Coq Require Import List Bool QArith Qcanon Permutation.
From AmiscV Require Import Bounds BoundsDefs BoundsProofs.
Import ListNotations.

(* a refinement step never shrinks a domain (whatever the normalisation, whatever was observed) ... *)
Theorem C04_step_widens : forall (k : nkind) (cur : dom) (o : obs), contains (refine_step k cur o) cur.
Proof. exact BoundsProofs.step_widens. Qed.
Print Assumptions C04_step_widens.

(* ... and never makes a valid domain degenerate *)
Theorem C04_step_valid : forall (k : nkind) (cur : dom) (o : obs), dom_ok cur -> dom_ok (refine_step k cur o).
Proof. exact BoundsProofs.step_valid. Qed.
Print Assumptions C04_step_valid.

(* after the step the domain holds the physical value of every finite coupling value the surrogate produced at that step *)
Theorem C04_step_covers_observed : forall (k : nkind) (cur : dom) (o : obs) (v : Qc), kind_ok k -> dom_ok cur ->
  In (Some v) o -> inside (refine_step k cur o) (denorm k cur v).
Proof. exact BoundsProofs.step_covers_observed. Qed.
Print Assumptions C04_step_covers_observed.

(* it is the smallest such interval: the hull of the old domain and the observed values *)
Theorem C04_step_is_hull : forall (k : nkind) (cur : dom) (o : obs) (d : dom), kind_ok k -> dom_ok cur ->
  contains d cur -> (forall v, In (Some v) o -> inside d (denorm k cur v)) -> contains d (refine_step k cur o).
Proof. exact BoundsProofs.step_is_hull. Qed.
Print Assumptions C04_step_is_hull.

(* a step in which the surrogate produced nothing finite for the variable leaves its domain alone *)
Theorem C04_step_all_nan : forall (k : nkind) (cur : dom) (o : obs), (forall x, In x o -> x = None) -> refine_step k cur o = cur.
Proof. exact BoundsProofs.step_all_nan. Qed.
Print Assumptions C04_step_all_nan.

(* the order of the step's samples is irrelevant *)
Theorem C04_step_order_independent : forall (k : nkind) (cur : dom) (o o' : obs), Permutation o o' ->
  refine_step k cur o = refine_step k cur o'.
Proof. exact BoundsProofs.step_order_independent. Qed.
Print Assumptions C04_step_order_independent.

(* bounds that are left fixed stay fixed over a whole training run *)
Theorem C04_fixed_bounds_never_move : forall (k : nkind) (cur : dom) (steps : list obs) (d : dom),
  In d (run_bounds false k cur steps) -> d = cur.
Proof. exact BoundsProofs.fixed_bounds_never_move. Qed.
Print Assumptions C04_fixed_bounds_never_move.

(* updated bounds form an increasing chain of valid domains, each containing the initial one *)
Theorem C04_run_monotone : forall (k : nkind) (cur : dom) (steps : list obs) (i : nat) (d d' : dom),
  nth_error (cur :: run_bounds true k cur steps) i = Some d ->
  nth_error (cur :: run_bounds true k cur steps) (S i) = Some d' -> contains d' d.
Proof. exact BoundsProofs.run_monotone. Qed.
Print Assumptions C04_run_monotone.

Theorem C04_run_valid : forall (u : bool) (k : nkind) (cur : dom) (steps : list obs) (d : dom), dom_ok cur ->
  In d (run_bounds u k cur steps) -> dom_ok d /\ contains d cur.
Proof. exact BoundsProofs.run_valid. Qed.
Print Assumptions C04_run_valid.

(* bounds estimated from a test set replace the guess, whatever it was, by the tight range of the test values *)
Theorem C04_estimate_covers : forall (k : nkind) (guess : dom) (t : obs) (v : Qc), kind_ok k -> dom_ok guess ->
  In (Some v) t -> inside (estimate k guess t) (denorm k guess v).
Proof. exact BoundsProofs.estimate_covers. Qed.
Print Assumptions C04_estimate_covers.

Theorem C04_estimate_tight : forall (k : nkind) (guess : dom) (t : obs) (v0 : Qc), In (Some v0) t ->
  (exists v, In (Some v) t /\ fst (estimate k guess t) = denorm k guess v) /\
  (exists v, In (Some v) t /\ snd (estimate k guess t) = denorm k guess v).
Proof. exact BoundsProofs.estimate_tight. Qed.
Print Assumptions C04_estimate_tight.

(* without normalisation the estimate does not depend on the guess at all *)
Theorem C04_estimate_ignores_guess : forall (a b : Qc) (g g' : dom) (t : obs) (v0 : Qc), In (Some v0) t ->
  estimate (NAffine a b) g t = estimate (NAffine a b) g' t.
Proof. exact BoundsProofs.estimate_ignores_guess. Qed.
Print Assumptions C04_estimate_ignores_guess.

(* the premises are satisfiable *)
Definition qq (n : Z) (d : positive) : Qc := Q2Qc (n # d).
Arguments qq n%Z d%positive.
Example C04_bounds_example :
  fit_bounds None true (NAffine (qq 2 1) (qq 1 1)) (qq 0 1, qq 1 1) [[Some (qq 1 2); None; Some (qq (-1) 1)]; [None]; [Some (qq 3 1)]]
  = ((qq 0 1, qq 1 1), [(qq (-1) 1, qq 2 1); (qq (-1) 1, qq 2 1); (qq (-1) 1, qq 7 1)]) /\
  fit_bounds (Some [Some (qq 1 4); Some (qq 3 4)]) false NMinmax (qq 2 1, qq 6 1) [[Some (qq 9 1)]]
  = ((qq 3 1, qq 5 1), [(qq 3 1, qq 5 1)]).
Proof. vm_compute. split; reflexivity. Qed.
