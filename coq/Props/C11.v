(* C11 — reported gradients are the exact derivatives of the prediction.
   Only theorem statements; proofs are in Proofs/LagrDeriv.v.  The prediction is the tensor-product Lagrange
   interpolant (C05); its partial derivative in x_k is obtained by replacing, in dimension k, every basis polynomial
   by its formal derivative (tlagrange_d, shown to be the derivative of the prediction as a polynomial in x_k). The
   code's three branches (generic point; point exactly on this node; point exactly on another node) all compute it.
   The Hessian formulas are covered by the correspondence check and the exact oracle only (see DESIGN.md). *)
From mathcomp Require Import all_ssreflect all_algebra.
From AmiscV Require Import Field Lagr LagrDefs Lagr1d LagrTensor LagrDeriv.
Set Implicit Arguments. Unset Strict Implicit. Unset Printing Implicit Defensive.
Import GRing.Theory Num.Theory.
Local Open Scope ring_scope.

(* 1-d: the coded derivative values are the derivatives of the Lagrange basis polynomials, at generic points and
   exactly on nodes *)
Theorem C11_dbasis_is_derivative (F : realFieldType) (tol kappa : F) (xs ws : seq F) (x : F) :
  uniq xs -> kappa != 0 -> bary_weights kappa xs ws -> admissible tol xs x ->
  dbasis1 (mc_ops F) tol xs ws x = [seq ((lbase xs xk)^`()).[x] | xk <- xs].
Proof. exact: LagrDeriv.dbasis_is_derivative. Qed.
Print Assumptions C11_dbasis_is_derivative.

(* tensor product: the coded gradient component k is the k-th partial of the tensor interpolant *)
Theorem C11_tgrad_is_partial (F : realFieldType) (gs : seq (grid (F:=F))) (x ys : seq F) (k : nat) :
  (forall g, g \in gs -> valid_grid g) -> all_admissible gs x -> size ys = gsizes gs -> (k < size gs)%N ->
  tgrad (mc_ops F) k gs x ys = tlagrange_d k gs x ys.
Proof. exact: LagrDeriv.tgrad_is_partial. Qed.
Print Assumptions C11_tgrad_is_partial.

(* tlagrange_d k is the derivative in x_k of the prediction: the prediction is a polynomial P in x_k
   (other coordinates fixed) and tlagrange_d k is P' at x_k *)
Theorem C11_partial_is_derivative (F : realFieldType) (gs : seq (grid (F:=F))) (x ys : seq F) (k : nat) :
  (k < size gs)%N -> size x = size gs ->
  exists P : {poly F}, (forall t, P.[t] = tlagrange gs (set_nth 0 x k t) ys) /\
                       tlagrange_d k gs x ys = (P^`()).[nth 0 x k].
Proof. exact: LagrDeriv.partial_is_derivative. Qed.
Print Assumptions C11_partial_is_derivative.

(* for polynomial models within the surrogate's polynomial space the gradient is the analytic derivative *)
Theorem C11_exact_on_products (F : realFieldType) (gs : seq (grid (F:=F))) (ps : seq {poly F}) (x : seq F) (k : nat) :
  (forall g, g \in gs -> uniq g.2.1) -> size ps = size gs -> size x = size gs -> (k < size gs)%N ->
  (forall j, (j < size gs)%N -> (size (nth 0%R ps j) <= size (nth (0%R, ([::], [::])) gs j).2.1)%N) ->
  tlagrange_d k gs x (tensor_data gs [seq horner p | p <- ps]) =
  \prod_(j < size gs) (if (j : nat) == k then ((nth 0 ps j)^`()).[nth 0 x j] else (nth 0 ps j).[nth 0 x j]).
Proof. exact: LagrDeriv.tlagrange_d_exact_product. Qed.
Print Assumptions C11_exact_on_products.

(* the MISC gradient is the weighted sum of the partials *)
Theorem C11_misc_grad_formula (F : realFieldType) (terms : seq (F * (seq (grid (F:=F)) * seq F))) (x : seq F) (k : nat) :
  (forall t, t \in terms -> (forall g, g \in t.2.1 -> valid_grid g) /\ all_admissible t.2.1 x /\
                            size t.2.2 = gsizes t.2.1 /\ (k < size t.2.1)%N) ->
  misc_grad (mc_ops F) k terms x = \sum_(t <- terms) t.1 * tlagrange_d k t.2.1 x t.2.2.
Proof. exact: LagrDeriv.misc_grad_formula. Qed.
Print Assumptions C11_misc_grad_formula.
