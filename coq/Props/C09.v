(* C09 — no point is evaluated twice; stored data and cost accounts are truthful.
   Only theorem statements; proofs are in Proofs/GridProofs.v.  Model/Grid.v is the bookkeeping of SparseGrid.refine and
   of the batch loop of Component.activate_index (which coordinates are requested, the removal of duplicates inside a
   batch, slicing the concatenated model output back and storing it); Model/Cost.v is the cost accounting.  The model
   function f : (alpha, coordinate) -> output and the location of the grid points (Leja optimisation) are oracles. *)
From Coq Require Import List Arith Bool ZArith QArith Qcanon.
From AmiscV Require Import Grid Cost GridProofs.
Import ListNotations.
Local Close Scope Q_scope.
Local Close Scope Qc_scope.

(* across an entire history of activation batches no (fidelity, coordinate) pair is evaluated twice *)
Theorem C09_no_reeval : forall (A : Type) (f : key -> A) kpl rr latent batches,
  NoDup (snd (run_history f [] kpl rr latent batches)).
Proof. exact GridProofs.no_reeval. Qed.
Print Assumptions C09_no_reeval.

(* the store holds exactly the evaluations made, each with the model's output at that fidelity and coordinate *)
Theorem C09_store_truthful : forall (A : Type) (f : key -> A) kpl rr latent batches,
  let r := run_history f [] kpl rr latent batches in
  map fst (fst r) = snd r /\ forall k v, In (k, v) (fst r) -> v = f k.
Proof. exact GridProofs.store_truthful. Qed.
Print Assumptions C09_store_truthful.

(* the store is single-valued: never two entries for one (fidelity, coordinate) key *)
Theorem C09_store_single_valued : forall (A : Type) (f : key -> A) kpl rr latent batches,
  let r := run_history f [] kpl rr latent batches in
  NoDup (map fst (fst r)) /\ forall k v w, In (k, v) (fst r) -> In (k, w) (fst r) -> v = w.
Proof. exact GridProofs.store_single_valued. Qed.
Print Assumptions C09_store_single_valued.

(* after a batch every coordinate of every index of the batch has stored data at that index's fidelity *)
Theorem C09_requested_covered : forall (A : Type) (f : key -> A) store kpl rr latent indices alpha beta c,
  In (alpha, beta) indices -> In c (grid_coords kpl rr latent beta) ->
  In (alpha, c) (map fst (fst (activate_batch f store kpl rr latent indices))).
Proof. exact GridProofs.requested_covered. Qed.
Print Assumptions C09_requested_covered.

(* grids are nested: the coordinates of a coarser index are a subset of those of any finer index (scalar inputs and
   latent inputs under both expansion methods), and coordinates never change meaning because grids only grow at the end *)
Theorem C09_nested : forall kpl rr latent beta beta',
  length beta = length latent -> Forall2 le beta beta' ->
  incl (grid_coords kpl rr latent beta) (grid_coords kpl rr latent beta').
Proof. exact GridProofs.nested. Qed.
Print Assumptions C09_nested.

(* cost accounts: if every evaluation of a fidelity reports one and the same positive cost, the reported allocation
   equals the evaluations actually made and the cost actually reported *)
Theorem C09_alloc_constant_cost : forall (c : Qc) (ns : list nat), (Q2Qc 0 < c)%Qc ->
  allocation (map (fun n => repeat c n) ns) = actual (map (fun n => repeat c n) ns).
Proof. exact GridProofs.alloc_constant_cost. Qed.
Print Assumptions C09_alloc_constant_cost.

(* with costs that vary from call to call the accounts are not truthful (recorded finding F9): three calls reporting
   1,2 / 3,4,5 / 6 *)
Theorem C09_alloc_varying_refuted :
  exists calls, snd (allocation calls) <> snd (actual calls) /\ fst (allocation calls) <> fst (actual calls).
Proof. exact GridProofs.alloc_varying_refuted. Qed.
Print Assumptions C09_alloc_varying_refuted.

Example C09_nonvacuous :
  grid_coords 2 true [0; 2] [1; 3] <> [] /\
  snd (run_history (fun k => k) [] 1 true [0] [[([], [0]); ([], [1])]; [([], [2]); ([1], [1])]]) =
    [([], [0]); ([], [1]); ([], [2]); ([1], [0]); ([1], [1])].
Proof. vm_compute. split; [discriminate | reflexivity]. Qed.
