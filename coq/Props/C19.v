(* C19 — monitoring and bookkeeping options never influence what is learned.
   Only theorem statements; proofs are in Proofs/MonitorProofs.v.  Partial by nature: the theorem is a frame lemma about
   the training loop of System.fit (Model/Refine.v fit with monitoring branches between steps, Model/Monitor.v). Its two
   hypotheses - the monitoring branches do not touch what is learned (history, index sets, stored data, domains, position
   of the global random stream) and a refinement step depends only on that - are exactly what the correspondence check
   validates on the implementation for the full product of monitoring options; side effects through global state
   (matplotlib, logging, the file system, a model that reads output_path) are not modelled. *)
From Coq Require Import List Arith Bool Qcanon.
From AmiscV Require Import Refine Monitor MonitorProofs.
Import ListNotations.

Theorem C19_frame : forall (St L : Type) (learned : St -> L) (step : St -> option (St * option Qc)) (mon : St -> St),
  (forall s, learned (mon s) = learned s) ->
  (forall s1 s2, learned s1 = learned s2 ->
     match step s1, step s2 with
     | None, None => True
     | Some (a, e1), Some (b, e2) => learned a = learned b /\ e1 = e2
     | _, _ => False
     end) ->
  forall tol fuel level max_iter s hist,
  learned (fst (fit_plain St step tol fuel level max_iter s hist)) =
  learned (fst (fit_monitored St step mon tol fuel level max_iter s hist)) /\
  snd (fit_plain St step tol fuel level max_iter s hist) =
  snd (fit_monitored St step mon tol fuel level max_iter s hist).
Proof. exact MonitorProofs.monitor_frame. Qed.
Print Assumptions C19_frame.

(* any two monitoring configurations that respect the frame give the same learned state and the same training history:
   the outcome is constant over the whole product of monitoring options *)
Theorem C19_frame_pair : forall (St L : Type) (learned : St -> L) (step : St -> option (St * option Qc))
    (mon1 mon2 : St -> St),
  (forall s, learned (mon1 s) = learned s) ->
  (forall s, learned (mon2 s) = learned s) ->
  (forall s1 s2, learned s1 = learned s2 ->
     match step s1, step s2 with
     | None, None => True
     | Some (a, e1), Some (b, e2) => learned a = learned b /\ e1 = e2
     | _, _ => False
     end) ->
  forall tol fuel level max_iter s hist,
  learned (fst (fit_monitored St step mon1 tol fuel level max_iter s hist)) =
  learned (fst (fit_monitored St step mon2 tol fuel level max_iter s hist)) /\
  snd (fit_monitored St step mon1 tol fuel level max_iter s hist) =
  snd (fit_monitored St step mon2 tol fuel level max_iter s hist).
Proof. exact MonitorProofs.monitor_frame_pair. Qed.
Print Assumptions C19_frame_pair.

(* the first hypothesis is necessary: a monitoring branch that touches the learned state (for instance by drawing from
   the global random stream) changes the outcome *)
Theorem C19_frame_needs_hypothesis :
  exists (step : nat -> option (nat * option Qc)) (mon : nat -> nat),
    fst (fit_plain nat step (Q2Qc 0) 2 0 2 0%nat []) <> fst (fit_monitored nat step mon (Q2Qc 0) 2 0 2 0%nat []).
Proof. exact MonitorProofs.monitor_frame_needs_hypothesis. Qed.
Print Assumptions C19_frame_needs_hypothesis.
