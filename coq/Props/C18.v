(* C18 — replaying the training history reproduces every intermediate surrogate structure.
   Only theorem statements; proofs are in Proofs/MiscC18.v. *)
From Coq Require Import List Arith ZArith Bool.
From AmiscV Require Import Misc MiscDefs MiscC18.
Import ListNotations.

(* the replay of the recorded history yields, iteration by iteration, exactly the index sets and both
   weight trees the component had after that activation; `live` (the live active set the replay falls
   back to while its shadow set is empty) is arbitrary *)
Theorem C18_replay_states : forall mx live reqs, wf_reqs mx reqs ->
  replay mx live st0 (accepted mx st0 reqs) = accepted_states mx st0 reqs.
Proof. exact MiscC18.replay_states. Qed.
Print Assumptions C18_replay_states.

(* the last replayed state is the live state *)
Theorem C18_last_is_live : forall mx live reqs, wf_reqs mx reqs -> accepted mx st0 reqs <> [] ->
  last (replay mx live st0 (accepted mx st0 reqs)) st0 = run mx reqs.
Proof. exact MiscC18.last_is_live. Qed.
Print Assumptions C18_last_is_live.

(* one history entry per accepted activation, in order *)
Theorem C18_history_is_activations : forall mx reqs,
  length (accepted_states mx st0 reqs) = length (accepted mx st0 reqs) /\
  run mx (accepted mx st0 reqs) = run mx reqs.
Proof. exact MiscC18.history_is_activations. Qed.
Print Assumptions C18_history_is_activations.

(* every replayed state carries the inclusion-exclusion weights of its own sets (C01 at each iteration) *)
Theorem C18_replayed_weights : forall mx live reqs, wf_reqs mx reqs ->
  Forall (fun s => weights_ok (active s) (ctrain s) /\ weights_ok (active s ++ cand s) (ctest s))
         (replay mx live st0 (accepted mx st0 reqs)).
Proof. exact MiscC18.replayed_weights. Qed.
Print Assumptions C18_replayed_weights.

(* the live active set the replay falls back to never shows in the result *)
Theorem C18_replay_live_irrelevant : forall mx live1 live2 reqs, wf_reqs mx reqs ->
  replay mx live1 st0 (accepted mx st0 reqs) = replay mx live2 st0 (accepted mx st0 reqs).
Proof. exact MiscC18.replay_live_irrelevant. Qed.
Print Assumptions C18_replay_live_irrelevant.

(* the replay has exactly one state per recorded history entry *)
Theorem C18_replay_length : forall mx live reqs, wf_reqs mx reqs ->
  length (replay mx live st0 (accepted mx st0 reqs)) = length (accepted mx st0 reqs).
Proof. exact MiscC18.replay_length. Qed.
Print Assumptions C18_replay_length.

Example C18_nonvacuous :
  let reqs := [[0; 0]; [5; 5]; [0; 1]; [1; 0]] in
  accepted [1; 2] st0 reqs = [[0; 0]; [0; 1]; [1; 0]] /\
  length (replay [1; 2] [[9; 9]] st0 (accepted [1; 2] st0 reqs)) = 3.
Proof. vm_compute. split; reflexivity. Qed.
