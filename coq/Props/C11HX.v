(* C11 (Hessian, continued) — for polynomial models within the surrogate's polynomial space the Hessian is the analytic one, and the
   MISC Hessian is the weighted sum of the second partials.  Only theorem statements; proofs are in Proofs/LagrHessExact.v. *)
From mathcomp Require Import all_ssreflect all_algebra.
From AmiscV Require Import Field Lagr LagrDefs Lagr1d LagrTensor LagrDeriv LagrHess LagrHessExact.
Set Implicit Arguments. Unset Strict Implicit. Unset Printing Implicit Defensive.
Import GRing.Theory Num.Theory.
Local Open Scope ring_scope.

(* data that are a product of univariate polynomials p_j (deg p_j < number of nodes in dimension j): the second partial (m, n) of the
   tensor interpolant is the product with p_m and p_n differentiated (twice the same factor when m = n) *)
Theorem C11_hess_exact_on_products (F : realFieldType) (gs : seq (grid (F:=F))) (ps : seq {poly F}) (x : seq F) (m n : nat) :
  (forall g, g \in gs -> uniq g.2.1) -> size ps = size gs -> size x = size gs -> (m < size gs)%N -> (n < size gs)%N ->
  (forall j, (j < size gs)%N -> (size (nth 0%R ps j) <= size (nth (0%R, ([::], [::])) gs j).2.1)%N) ->
  tlagrange_dd m n gs x (tensor_data gs [seq horner p | p <- ps]) =
  \prod_(j < size gs) (if ((j : nat) == m) && ((j : nat) == n) then ((nth 0 ps j)^`(2)).[nth 0 x j]
                       else if ((j : nat) == m) || ((j : nat) == n) then ((nth 0 ps j)^`()).[nth 0 x j]
                       else (nth 0 ps j).[nth 0 x j]).
Proof. exact: LagrHessExact.tlagrange_dd_exact_product. Qed.
Print Assumptions C11_hess_exact_on_products.

(* the MISC Hessian is the weighted sum of the second partials of its terms *)
Theorem C11_misc_hess_formula (F : realFieldType) (terms : seq (F * (seq (grid (F:=F)) * seq F))) (x : seq F) (m n : nat) :
  (forall t, t \in terms -> (forall g, g \in t.2.1 -> valid_grid g) /\ all_admissible t.2.1 x /\
                            size t.2.2 = gsizes t.2.1 /\ (m < size t.2.1)%N /\ (n < size t.2.1)%N) ->
  misc_hess (mc_ops F) m n terms x = \sum_(t <- terms) t.1 * tlagrange_dd m n t.2.1 x t.2.2.
Proof. exact: LagrHessExact.misc_hess_formula. Qed.
Print Assumptions C11_misc_hess_formula.
