(* C08 (extension) — from the look-ahead predictions to the choice (Model/Refine.v: rel_sq / delta_sq / indicator_sq / select_sq model
   utils.relative_error, the NaN-ignoring maximum over the requested outputs and the division by max(1, cost), all in squares).
   Only theorem statements; proofs are in Proofs/RefineSq.v. *)
From Coq Require Import List Arith Bool QArith Qcanon.
From AmiscV Require Import Refine RefineSq.
Import ListNotations.

(* the squared relative error is what the formula says: finite inputs and a non-zero target give sum (p - t)^2 / sum t^2 >= 0 *)
Theorem C08_rel_sq_spec : forall (p t : list Qc), sumsq t <> Q2Qc 0 ->
  rel_sq (map Some p) (map Some t) = Some (sumsq (diffs p t) / sumsq t)%Qc /\ (Q2Qc 0 <= sumsq (diffs p t) / sumsq t)%Qc.
Proof. exact RefineSq.rel_sq_spec. Qed.
Print Assumptions C08_rel_sq_spec.

(* NaN anywhere in the candidate's or the current prediction of an output, or a target that is identically zero, makes that output's error NaN *)
Theorem C08_rel_sq_nan : forall (pred targ : list (option Qc)),
  In None pred \/ In None targ \/ (exists t, targ = map Some t /\ sumsq t = Q2Qc 0) -> rel_sq pred targ = None.
Proof. exact RefineSq.rel_sq_nan. Qed.
Print Assumptions C08_rel_sq_nan.

(* the error credited to a candidate is the largest over the outputs that have one; NaN only when no output has one *)
Theorem C08_delta_is_max : forall (outs : list (list (option Qc) * list (option Qc))) (s : Qc),
  delta_sq outs = Some s <->
  (exists o, In o outs /\ rel_sq (fst o) (snd o) = Some s) /\
  (forall o s', In o outs -> rel_sq (fst o) (snd o) = Some s' -> (s' <= s)%Qc).
Proof. exact RefineSq.delta_is_max. Qed.
Print Assumptions C08_delta_is_max.

Theorem C08_delta_nan_iff : forall (outs : list (list (option Qc) * list (option Qc))),
  delta_sq outs = None <-> forall o, In o outs -> rel_sq (fst o) (snd o) = None.
Proof. exact RefineSq.delta_nan_iff. Qed.
Print Assumptions C08_delta_nan_iff.

(* working with squares does not change the choice: if every candidate's error e (as System.refine computes it, with the square root) is
   non-negative and squares to the model's delta_sq, the scan over e / max(1, cost) and the scan over the squares select the same candidate *)
Definition agree (c : rcand) (d : pcand) : Prop :=
  c_comp c = p_comp d /\ c_pos c = p_pos d /\ c_cost c = p_cost d /\
  match c_err c, delta_sq (p_outs d) with
  | Some e, Some s => (Q2Qc 0 <= e)%Qc /\ (e * e)%Qc = s
  | None, None => True
  | _, _ => False
  end.
Theorem C08_squares_same_choice : forall (cs : list rcand) (ds : list pcand), Forall2 agree cs ds ->
  match select cs, select_sq ds with
  | Some c, Some d => c_comp c = p_comp d /\ c_pos c = p_pos d
  | None, None => True
  | _, _ => False
  end.
Proof. exact RefineSq.squares_same_choice. Qed.
Print Assumptions C08_squares_same_choice.
