(* C20 — seeded training is reproducible across processes and hash randomisation.
   Only theorem statements; proofs are in Proofs/OrderProofs.v.  What the random stream is used for is decided by
   the ORDER of System.inputs(): sample_inputs draws one block per variable in that order.  The model distinguishes
   ordered containers (dict, ChainMap: deterministic) from sets (iteration order chosen by an adversary pi). *)
From Coq Require Import List Arith Bool Permutation.
From AmiscV Require Import Order OrderProofs.
Import ListNotations.

(* inputs(): each exogenous variable once, in the deterministic ChainMap order *)
Theorem C20_inputs_spec : forall cs,
  NoDup (inputs_ordered cs) /\
  (forall k, In k (inputs_ordered cs) <->
             (exists c, In c cs /\ In k (fst c)) /\ ~ (exists c, In c cs /\ In k (snd c))).
Proof. exact OrderProofs.inputs_spec. Qed.
Print Assumptions C20_inputs_spec.

Theorem C20_coupling_spec : forall cs,
  NoDup (coupling_ordered cs) /\
  (forall k, In k (coupling_ordered cs) <->
             (exists c, In c cs /\ In k (snd c)) /\ (exists c, In c cs /\ In k (fst c))).
Proof. exact OrderProofs.coupling_spec. Qed.
Print Assumptions C20_coupling_spec.

(* variable number j of inputs() gets the stream block starting at j*n: the assignment is a function of the order *)
Theorem C20_stream_positions : forall order n,
  map fst (stream_assignment order n) = order /\
  map snd (stream_assignment order n) = map (fun j => j * n) (seq 0 (length order)).
Proof. exact OrderProofs.stream_positions. Qed.
Print Assumptions C20_stream_positions.

(* the stream assignment and the input order determine each other: two processes use the random stream the same way
   exactly when inputs() lists the variables in the same order, so reproducibility is exactly order stability *)
Theorem C20_stream_iff_order : forall (o1 o2 : list var) n,
  stream_assignment o1 n = stream_assignment o2 n <-> o1 = o2.
Proof. exact OrderProofs.stream_iff_order. Qed.
Print Assumptions C20_stream_iff_order.

(* the ordered form consults no set (no adversarial permutation appears in inputs_ordered at all); as a SET its
   result does not depend on the listing order of the components either *)
Theorem C20_listing_independent : forall cs c', Permutation c' cs ->
  forall k, In k (inputs_ordered c') <-> In k (inputs_ordered cs).
Proof. exact OrderProofs.ordered_independent. Qed.
Print Assumptions C20_listing_independent.

(* the set-difference form of inputs() (recorded as a fixed defect in known_findings.json) is refuted: two
   admissible iteration orders of the same set give different stream assignments *)
Theorem C20_setdiff_refuted :
  exists (cs : list comp) (pi pi' : list var -> list var) (n : nat),
    (forall l, Permutation (pi l) l) /\ (forall l, Permutation (pi' l) l) /\
    stream_assignment (inputs_setdiff pi cs) n <> stream_assignment (inputs_setdiff pi' cs) n.
Proof. exact OrderProofs.setdiff_refuted. Qed.
Print Assumptions C20_setdiff_refuted.

Example C20_nonvacuous :
  inputs_ordered [([0; 1; 5], [5; 6]); ([2; 6; 0], [7])] = [2; 0; 1] /\
  coupling_ordered [([0; 1; 5], [5; 6]); ([2; 6; 0], [7])] = [5; 6].
Proof. vm_compute. split; reflexivity. Qed.
