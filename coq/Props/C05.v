(* C05 — prediction = weighted sum of the tensor-product Lagrange interpolants of the stored data.
   Only theorem statements; proofs are in Proofs/Lagr1d.v and Proofs/LagrTensor.v.
   Every statement is for an arbitrary MathComp realFieldType F; Proofs/QcField.v shows that the
   extracted instance (stdlib Qc with Qcplus, Qcmult, ...) is one, definitionally (C05_runs_on_Qc). *)
From mathcomp Require Import all_ssreflect all_algebra.
From AmiscV Require Import Field QcInst Lagr LagrDefs Lagr1d LagrTensor QcField.
Set Implicit Arguments. Unset Strict Implicit. Unset Printing Implicit Defensive.
Import GRing.Theory Num.Theory.
Local Open Scope ring_scope.

(* the record of operations that is extracted and run is the MathComp instance, by computation *)
Theorem C05_runs_on_Qc : mc_ops QcField.Qc_realFieldType = qc_ops.
Proof. exact QcField.mc_ops_Qc. Qed.
Print Assumptions C05_runs_on_Qc.

(* 1-d: the basis values the code computes (quotient/qsum with the node-snapping overrides) are the
   values of the Lagrange basis polynomials, at every admissible point *)
Theorem C05_basis_is_lagrange (F : realFieldType) (tol kappa : F) (xs ws : seq F) (x : F) :
  uniq xs -> kappa != 0 -> bary_weights kappa xs ws -> admissible tol xs x ->
  basis1 (mc_ops F) tol xs ws x = [seq (lbase xs xk).[x] | xk <- xs].
Proof. exact: Lagr1d.basis_is_lagrange. Qed.
Print Assumptions C05_basis_is_lagrange.

(* the weights refine() produces: initial formula, then any number of incremental refinements with
   one and the same interval capacity C keep the form C^(n-1) / prod (x_j - x_i); with a capacity that
   changes between refinements the form is lost (C04_weights_refuted) *)
Theorem C05_init_weights (F : realFieldType) (C : F) (xs : seq F) :
  uniq xs -> C != 0 -> bary_weights (C ^+ (size xs).-1) xs (init_weights (mc_ops F) C xs).
Proof. exact: Lagr1d.init_weights_ok. Qed.
Print Assumptions C05_init_weights.

Theorem C05_extend_weights (F : realFieldType) (C : F) (xs ws news : seq F) :
  uniq (xs ++ news) -> C != 0 -> bary_weights (C ^+ (size xs).-1) xs ws ->
  (extend_weights (mc_ops F) C xs ws news).1 = xs ++ news /\
  bary_weights (C ^+ (size (xs ++ news)).-1) (xs ++ news) (extend_weights (mc_ops F) C xs ws news).2.
Proof. exact: Lagr1d.extend_weights_ok. Qed.
Print Assumptions C05_extend_weights.

(* the interpolation polynomial: passes through the data, has degree < number of nodes, is unique *)
Theorem C05_interp_poly_spec (F : realFieldType) (xs ys : seq F) :
  uniq xs -> size ys = size xs ->
  (forall j, (j < size xs)%N -> (interp_poly xs ys).[nth 0 xs j] = nth 0 ys j) /\
  (size (interp_poly xs ys) <= size xs)%N /\
  (forall p : {poly F}, (size p <= size xs)%N ->
     (forall j, (j < size xs)%N -> p.[nth 0 xs j] = nth 0 ys j) -> p = interp_poly xs ys).
Proof. exact: Lagr1d.interp_poly_spec. Qed.
Print Assumptions C05_interp_poly_spec.

(* tensor product: the coded evaluation is the tensor-product Lagrange interpolant *)
Theorem C05_tpredict_is_lagrange (F : realFieldType) (gs : seq (grid (F:=F))) (x ys : seq F) :
  (forall g, g \in gs -> valid_grid g) -> all_admissible gs x -> size ys = gsizes gs ->
  tpredict (mc_ops F) gs x ys = tlagrange gs x ys.
Proof. exact: LagrTensor.tpredict_is_lagrange. Qed.
Print Assumptions C05_tpredict_is_lagrange.

(* each term passes through all of its training data *)
Theorem C05_interpolates (F : realFieldType) (gs : seq (grid (F:=F))) (f : seq F -> F) (x : seq F) :
  (forall g, g \in gs -> uniq g.2.1) -> size x = size gs ->
  (forall k, (k < size gs)%N -> nth 0 x k \in (nth (0, ([::], [::])) gs k).2.1) ->
  tlagrange gs x (grid_data gs f) = f x.
Proof. exact: LagrTensor.tlagrange_interpolates. Qed.
Print Assumptions C05_interpolates.

(* it is the tensor-product polynomial: products of univariate polynomials of degree < grid size are
   reproduced at every point (hence, by linearity, every polynomial of coordinate degree < grid size) *)
Theorem C05_tensor_exact (F : realFieldType) (gs : seq (grid (F:=F))) (ps : seq {poly F}) (x : seq F) :
  (forall g, g \in gs -> uniq g.2.1) -> size ps = size gs -> size x = size gs ->
  (forall k, (k < size gs)%N -> (size (nth 0%R ps k) <= size (nth (0%R, ([::], [::])) gs k).2.1)%N) ->
  tlagrange gs x (tensor_data gs [seq horner p | p <- ps]) = \prod_(k < size gs) (nth 0 ps k).[nth 0 x k].
Proof. exact: LagrTensor.tlagrange_exact_product. Qed.
Print Assumptions C05_tensor_exact.

(* linear in the model's outputs *)
Theorem C05_linear (F : realFieldType) (gs : seq (grid (F:=F))) (x ys zs : seq F) (a : F) :
  size ys = gsizes gs -> size zs = gsizes gs ->
  tpredict (mc_ops F) gs x [seq a * y.1 + y.2 | y <- zip ys zs] =
  a * tpredict (mc_ops F) gs x ys + tpredict (mc_ops F) gs x zs.
Proof. exact: LagrTensor.tpredict_linear. Qed.
Print Assumptions C05_linear.

(* the MISC prediction is the weighted sum of the interpolants (zero weights may be skipped) *)
Theorem C05_misc_formula (F : realFieldType) (terms : seq (F * (seq (grid (F:=F)) * seq F))) (x : seq F) :
  (forall t, t \in terms -> (forall g, g \in t.2.1 -> valid_grid g) /\ all_admissible t.2.1 x /\
                            size t.2.2 = gsizes t.2.1) ->
  misc_predict (mc_ops F) terms x = \sum_(t <- terms) t.1 * tlagrange t.2.1 x t.2.2.
Proof. exact: LagrTensor.misc_predict_formula. Qed.
Print Assumptions C05_misc_formula.
