(* C08 — each refinement step activates the best candidate; training stops when it must.
   Only theorem statements; proofs are in Proofs/RefineProofs.v.  Model/Refine.v is the selection scan of
   System.refine (indicator = error / max(1, cost), strict >, NaN never selected) and the outer loop of System.fit;
   the index-set part (never beyond the maxima, exhaustion = full box) is Model/Misc.v (C02). *)
From Coq Require Import List Arith Bool QArith Qcanon Permutation.
From AmiscV Require Import Misc MiscDefs Refine RefineProofs.
Import ListNotations.

(* the selected candidate is one of the scanned candidates, its indicator is a number, and no candidate has a larger one *)
Theorem C08_selected_is_argmax : forall cs c, select cs = Some c ->
  In c cs /\ exists i, indicator c = Some i /\
  forall c' i', In c' cs -> indicator c' = Some i' -> (i' <= i)%Qc.
Proof. exact RefineProofs.selected_is_argmax. Qed.
Print Assumptions C08_selected_is_argmax.

(* among maximisers it is the first in scan order: everything before it has a NaN or strictly smaller indicator *)
Theorem C08_first_maximiser : forall cs c i, select cs = Some c -> indicator c = Some i ->
  exists pre post, cs = pre ++ c :: post /\
  forall c', In c' pre -> indicator c' = None \/ exists i', indicator c' = Some i' /\ (i' < i)%Qc.
Proof. exact RefineProofs.first_maximiser. Qed.
Print Assumptions C08_first_maximiser.

(* nothing is selected exactly when every indicator is NaN (in particular when there is no candidate) *)
Theorem C08_none_iff_all_nan : forall cs, select cs = None <-> forall c, In c cs -> indicator c = None.
Proof. exact RefineProofs.none_iff_all_nan. Qed.
Print Assumptions C08_none_iff_all_nan.

(* with a unique maximiser the choice does not depend on the scan order (set iteration order, component listing) *)
Theorem C08_choice_order_independent : forall cs cs' c i, Permutation cs cs' ->
  In c cs -> indicator c = Some i ->
  (forall c', In c' cs -> c' <> c -> indicator c' = None \/ exists i', indicator c' = Some i' /\ (i' < i)%Qc) ->
  select cs = Some c /\ select cs' = Some c.
Proof. exact RefineProofs.choice_order_independent. Qed.
Print Assumptions C08_choice_order_independent.

(* the cost enters as max(1, cost) *)
Theorem C08_cost_floor : forall c e, c_err c = Some e ->
  ((c_cost c <= Q2Qc 1)%Qc -> indicator c = Some (e / Q2Qc 1)%Qc) /\
  ((Q2Qc 1 < c_cost c)%Qc -> indicator c = Some (e / c_cost c)%Qc).
Proof. exact RefineProofs.cost_floor. Qed.
Print Assumptions C08_cost_floor.

(* outer loop: exactly one history entry per successful step, never more than max_iter - level of them, stop at the first
   step that selects nothing *)
Theorem C08_history_bound : forall (St : Type) (step : St -> option (St * option Qc)) tol fuel level max_iter s hist,
  (level < max_iter)%nat ->
  (length (snd (fit St step tol fuel level max_iter s hist)) <= length hist + (max_iter - level))%nat /\
  exists added, snd (fit St step tol fuel level max_iter s hist) = hist ++ added.
Proof. exact RefineProofs.history_bound. Qed.
Print Assumptions C08_history_bound.

(* exactly the requested number of steps when no exit condition fires: every step selects something and no recorded
   error is below the tolerance (NaN counts as not below) *)
Theorem C08_step_count : forall (St : Type) (step : St -> option (St * option Qc)) tol fuel level max_iter s hist,
  (level < max_iter)%nat -> (max_iter - level <= fuel)%nat ->
  (forall s', exists s'' e, step s' = Some (s'', e) /\ match e with Some v => (tol <= v)%Qc | None => True end) ->
  length (snd (fit St step tol fuel level max_iter s hist)) = (length hist + (max_iter - level))%nat.
Proof. exact RefineProofs.step_count. Qed.
Print Assumptions C08_step_count.

Theorem C08_stops_when_nothing_selected : forall (St : Type) (step : St -> option (St * option Qc)) tol fuel level max_iter s hist,
  step s = None -> fit St step tol (S fuel) level max_iter s hist = (s, hist).
Proof. exact RefineProofs.stops_when_none. Qed.
Print Assumptions C08_stops_when_nothing_selected.

(* index sets: every accepted activation adds exactly one active index inside the box, so at most (number of cells) steps
   can select something; and when no candidate is left the whole box is active (C02_exhaustion) *)
Theorem C08_activation_progress : forall mx reqs i, wf_reqs mx reqs -> length i = length mx ->
  accepts (run mx reqs) i = true ->
  length (active (activate mx (run mx reqs) i)) = S (length (active (run mx reqs))) /\
  (forall j, In j (active (activate mx (run mx reqs) i)) -> le_idx j mx).
Proof. exact RefineProofs.activation_progress. Qed.
Print Assumptions C08_activation_progress.

Theorem C08_exhaustion_full_box : forall mx reqs, wf_reqs mx reqs ->
  active (run mx reqs) <> [] -> cand (run mx reqs) = [] ->
  forall i, le_idx i mx -> In i (active (run mx reqs)).
Proof. exact RefineProofs.exhaustion_full_box. Qed.
Print Assumptions C08_exhaustion_full_box.

Example C08_nonvacuous :
  option_map c_pos (select [mkcand 0 0 (Some (Q2Qc (1#2))) (Q2Qc 4); mkcand 0 1 None (Q2Qc 1);
                            mkcand 1 0 (Some (Q2Qc (1#4))) (Q2Qc (1#2)); mkcand 1 1 (Some (Q2Qc (1#4))) (Q2Qc 1)]) = Some 0%nat /\
  option_map c_comp (select [mkcand 0 0 (Some (Q2Qc (1#2))) (Q2Qc 4); mkcand 0 1 None (Q2Qc 1);
                             mkcand 1 0 (Some (Q2Qc (1#4))) (Q2Qc (1#2)); mkcand 1 1 (Some (Q2Qc (1#4))) (Q2Qc 1)]) = Some 1%nat.
Proof. vm_compute. split; reflexivity. Qed.
