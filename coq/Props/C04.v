(* C04 — trained systems reproduce coupled polynomial systems exactly as bounds move.
   Only theorem statements; proofs are in Proofs/C04Proofs.v (and the C03 / C06 / C07 / C08 developments).  The argument:
   (1) moving bounds only enter the interpolants through the interval capacity used by Lagrange.refine: with the code as it
       is now, whatever capacities were in force along the history, the weights of a state belong to ONE barycentric
       formula (C04_weights_any_capacity), so every interpolant is the interpolation polynomial (C05) and components are
       exact on their polynomial space wherever the bounds are (C03: exactness holds at every point, inside or outside any
       domain);
   (2) a feed-forward system of exact component surrogates equals the system of the models (C04_chain_exact, with C07);
   (3) affine feedback loops: a returned sample is within A (1-A)^-1 tol of the exact solve (C06_affine_identity);
   (4) training to exhaustion activates the whole box (C08_exhaustion_full_box).
   Partial: convergence of the accelerated iteration, and time-stability of the normalisation of stored data
   (C16_time_stable; it fails for minmax: recorded finding).  The former incremental weight update is refuted. *)
From mathcomp Require Import all_ssreflect all_algebra.
From AmiscV Require Import Field QcInst Lagr QcRun LagrDefs Lagr1d Sys C04Proofs.
Set Implicit Arguments. Unset Strict Implicit. Unset Printing Implicit Defensive.
Import GRing.Theory Num.Theory.
Local Open Scope ring_scope.

(* one refinement step of an existing state, with ANY old weights and ANY current capacity C <> 0: if the grid grows its
   weights are barycentric with constant C^(n-1); if it does not grow the state is unchanged *)
Theorem C04_weights_any_capacity (F : realFieldType) (C : F) (xs ws pts : seq F) :
  C != 0 -> uniq (extend_grid (mc_ops F) xs pts) ->
  let st := refine1 (mc_ops F) C (Some (xs, ws)) pts in
  ((size xs < size (extend_grid (mc_ops F) xs pts))%N ->
     st.1 = extend_grid (mc_ops F) xs pts /\ bary_weights (C ^+ (size st.1).-1) st.1 st.2) /\
  (~~ (size xs < size (extend_grid (mc_ops F) xs pts))%N -> st = (xs, ws)).
Proof. exact: C04Proofs.weights_any_capacity. Qed.
Print Assumptions C04_weights_any_capacity.

(* hence along any history of refinements with arbitrary non-zero capacities the state stays a valid grid *)
Theorem C04_history_valid (F : realFieldType) (tol : F) (hist : seq (F * seq F)) (C0 : F) (pts0 : seq F) :
  C0 != 0 -> (forall h, h \in hist -> h.1 != 0) ->
  let final := foldl (fun st h => refine1 (mc_ops F) h.1 (Some st) h.2) (refine1 (mc_ops F) C0 None pts0) hist in
  uniq final.1 -> (0 < size final.1)%N ->
  valid_grid (tol, final).
Proof. exact: C04Proofs.history_valid. Qed.
Print Assumptions C04_history_valid.

(* the former incremental update mixes capacities: grid [0, 1] built with capacity 1, refined with the node 1/2 under
   capacity 2, data of t^2, evaluated at 1/4: it predicts 1/7, the recomputed weights give the true 1/16 *)
Theorem C04_weights_refuted : c04_predict c04_incremental <> c04_true /\ c04_predict c04_recomputed = c04_true.
Proof. exact: C04Proofs.weights_refuted. Qed.
Print Assumptions C04_weights_refuted.

(* a feed-forward system whose component surrogates are exact (each surrogate function is its model conjugated with the
   per-variable normalisation) predicts what the system of the models predicts, in physical units, for any evaluation order *)
Theorem C04_chain_exact (V : Type) (norm denorm : nat -> V -> V) (order : seq (comp V)) (e0 e1 : env V) :
  (forall v x, denorm v (norm v x) = x) -> (forall v x, norm v (denorm v x) = x) ->
  (forall c, List.In c order -> forall xs, size xs = size (cin V c) ->
     csurr V c [seq norm p.1 p.2 | p <- zip (cin V c) xs] =
     [seq norm p.1 p.2 | p <- zip (cout V c) (cmodel V c xs)] /\ size (cmodel V c xs) = size (cout V c)) ->
  eval V norm denorm [seq mkcomp V (cid V c) (cin V c) (cout V c) (cmodel V c) (csurr V c) false | c <- order] e0 = Some e1 ->
  exists e2, eval V norm denorm [seq mkcomp V (cid V c) (cin V c) (cout V c) (cmodel V c) (csurr V c) true | c <- order] e0 = Some e2 /\
             forall v, canon V denorm e1 v = canon V denorm e2 v.
Proof. exact: C04Proofs.chain_exact. Qed.
Print Assumptions C04_chain_exact.
