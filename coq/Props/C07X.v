(* C07 / C06 (extension) — the dependency structure System.predict evaluates (Model/Graph.v): System.graph, the grouping into
   strongly connected components that nx.condensation performs, the order nx.topological_sort yields, and the `len(scc) == 1`
   test that decides between one feed-forward call and the fixed-point iteration.  networkx itself is not modelled: `sccs`
   computes the groups, `plan_ok` accepts or rejects an observed plan, and the theorems say what acceptance means.
   Only theorem statements; proofs are in Proofs/GraphProofs.v. *)
From Coq Require Import List Arith Bool.
From AmiscV Require Import Graph GraphDefs GraphProofs.
Import ListNotations.

(* System.graph: the coded edge list is the dependency relation (last producer of a name wins, as in a dict) *)
Theorem C07_edges_spec : forall (cs : list cio) (i j : nat), In (i, j) (edges cs) <-> depends cs i j.
Proof. exact GraphProofs.edges_spec. Qed.
Print Assumptions C07_edges_spec.

Theorem C07_edges_within : forall (cs : list cio), edges_within (edges cs) (length cs).
Proof. exact GraphProofs.edges_in_range. Qed.
Print Assumptions C07_edges_within.

(* the saturation never runs out of fuel and computes reachability exactly *)
Theorem C07_reaches_spec : forall (E : list edge) (n a b : nat), edges_within E n -> a < n ->
  reaches E n a b = true <-> path E a b.
Proof. exact GraphProofs.reaches_spec. Qed.
Print Assumptions C07_reaches_spec.

(* the computed groups partition the components, and two components share a group iff each depends on the other *)
Theorem C07_sccs_partition : forall (E : list edge) (n a : nat), edges_within E n -> a < n ->
  exists g, In g (sccs E n) /\ In a g /\ forall g', In g' (sccs E n) -> In a g' -> g' = g.
Proof. exact GraphProofs.sccs_partition. Qed.
Print Assumptions C07_sccs_partition.

Theorem C07_sccs_are_components : forall (E : list edge) (n : nat) (g : list nat) (a b : nat), edges_within E n ->
  In g (sccs E n) -> In a g -> (In b g <-> b < n /\ connected E a b).
Proof. exact GraphProofs.sccs_are_components. Qed.
Print Assumptions C07_sccs_are_components.

(* an accepted plan: its groups are exactly the strongly connected components (members in listing order) ... *)
Theorem C07_plan_groups : forall (E : list edge) (n : nat) (plan : list (list nat)), edges_within E n ->
  plan_ok E n plan = true -> forall g, In g plan <-> In g (sccs E n).
Proof. exact GraphProofs.plan_groups. Qed.
Print Assumptions C07_plan_groups.

(* ... each evaluated once ... *)
Theorem C07_plan_once : forall (E : list edge) (n : nat) (plan : list (list nat)), edges_within E n ->
  plan_ok E n plan = true -> NoDup (concat plan) /\ forall a, In a (concat plan) <-> a < n.
Proof. exact GraphProofs.plan_once. Qed.
Print Assumptions C07_plan_once.

(* ... in dependency order: whatever a group depends on, directly or not, outside itself was evaluated strictly before it *)
Theorem C07_plan_dependency_order : forall (E : list edge) (n : nat) (plan : list (list nat)) (a b i j : nat), edges_within E n ->
  plan_ok E n plan = true -> path E a b -> group_index plan a = Some i -> group_index plan b = Some j ->
  i <= j /\ (i = j -> connected E a b).
Proof. exact GraphProofs.plan_dependency_order. Qed.
Print Assumptions C07_plan_dependency_order.

(* the feedback test: a group of more than one member consists of components lying on a cycle; a component evaluated by a
   single feed-forward call lies on no cycle through another component *)
Theorem C06_loop_members_on_cycle : forall (E : list edge) (n : nat) (g : list nat) (a : nat), edges_within E n ->
  In g (sccs E n) -> is_loop g = true -> In a g -> path1 E a a.
Proof. exact GraphProofs.loop_members_on_cycle. Qed.
Print Assumptions C06_loop_members_on_cycle.

Theorem C06_single_call_no_cycle : forall (E : list edge) (n : nat) (g : list nat) (a b : nat), edges_within E n ->
  In g (sccs E n) -> is_loop g = false -> In a g -> b < n -> b <> a -> ~ connected E a b.
Proof. exact GraphProofs.single_call_no_cycle. Qed.
Print Assumptions C06_single_call_no_cycle.

(* the one cycle the size test does not see: a component that consumes its own output forms a group of one, which the code
   evaluates by a single call (System.predict then stops with "Missing input variable": nothing is returned, nothing is iterated) *)
Theorem C06_self_feedback_is_a_single_call :
  exists (cs : list cio) (g : list nat) (a : nat),
    In g (system_sccs cs) /\ In a g /\ is_loop g = false /\ path1 (edges cs) a a.
Proof. exact GraphProofs.self_feedback_is_a_single_call. Qed.
Print Assumptions C06_self_feedback_is_a_single_call.

(* a plan for a system without cycles, flattened, is accepted by the order test of Model/Sys.v exactly as C07 uses it:
   here stated on the graph: no edge points backwards or stays inside a group *)
Theorem C07_acyclic_plan_is_topological : forall (E : list edge) (n : nat) (plan : list (list nat)), edges_within E n ->
  plan_ok E n plan = true -> (forall a, ~ path1 E a a) ->
  forall a b i j, In (a, b) E -> group_index plan a = Some i -> group_index plan b = Some j -> i < j.
Proof. exact GraphProofs.acyclic_plan_is_topological. Qed.
Print Assumptions C07_acyclic_plan_is_topological.

(* the premises are satisfiable: a chain into a two-member loop into a sink, and a plan for it *)
Example C07_plan_example :
  let cs := [([0], [1]); ([1; 3], [2]); ([2], [3]); ([3], [4])] in
  edges cs = [(0, 1); (2, 1); (1, 2); (2, 3)] /\ system_sccs cs = [[0]; [1; 2]; [3]] /\
  system_plan_ok cs [[0]; [1; 2]; [3]] = true /\ system_plan_ok cs [[0]; [3]; [1; 2]] = false /\
  system_plan_ok cs [[0]; [1]; [2]; [3]] = false.
Proof. vm_compute. repeat split. Qed.
