(* C03 (composition) — the theorem that puts the pieces together: for the index sets and weights that ANY accepted
   activation history produces (Model/Misc.v, C01/C02), the prediction as the code computes it (Model/Lagr.v misc_predict:
   quotient/qsum basis values with snapping overrides, nested tensor sums, zero weights skipped) of a monomial resolvable by
   some index of the set in use is the monomial, in training mode and in evaluation mode.
   Only theorem statements; proofs are in Proofs/ComponentExact.v. *)
From mathcomp Require Import all_ssreflect all_algebra.
From AmiscV Require Import Misc MiscDefs Field Lagr LagrDefs ComponentExact.
Set Implicit Arguments. Unset Strict Implicit. Unset Printing Implicit Defensive.
Import GRing.Theory Num.Theory.
Local Open Scope ring_scope.

(* misc_terms (Proofs/LagrDefs.v): the terms Component.predict sums, one per index of the set in use, weight from the tree *)

Theorem C03_component_exact_train (F : realFieldType) (na nx kpl : nat) (nodes : nat -> seq F) (tol : nat -> F)
    (wts : nat -> nat -> seq F) (mx : idx) (reqs : seq idx) (bstar : idx) (m : seq nat) (x : seq F) :
  wf_reqs mx reqs -> size mx = (na + nx)%N -> List.In bstar (active (run mx reqs)) ->
  size m = nx -> size x = nx ->
  (forall k, (k < nx)%N -> uniq (nodes k)) ->
  (forall k i, (k < nx)%N -> List.In i (active (run mx reqs)) -> (kpl * nth 0%N i (na + k) + 1 <= size (nodes k))%N) ->
  (forall k, (k < nx)%N -> (nth 0%N m k <= kpl * nth 0%N bstar (na + k))%N) ->
  (forall i, List.In i (active (run mx reqs)) ->
     (forall g, g \in index_grids na kpl nodes tol wts i -> valid_grid g) /\
     all_admissible (index_grids na kpl nodes tol wts i) x) ->
  misc_predict (mc_ops F) (misc_terms na kpl nodes tol wts m (active (run mx reqs)) (ctrain (run mx reqs))) x
  = \prod_(k < nx) nth 0 x k ^+ nth 0%N m k.
Proof. exact: ComponentExact.component_exact_train. Qed.
Print Assumptions C03_component_exact_train.

Theorem C03_component_exact_test (F : realFieldType) (na nx kpl : nat) (nodes : nat -> seq F) (tol : nat -> F)
    (wts : nat -> nat -> seq F) (mx : idx) (reqs : seq idx) (bstar : idx) (m : seq nat) (x : seq F) :
  let S := (active (run mx reqs) ++ cand (run mx reqs))%list in
  wf_reqs mx reqs -> size mx = (na + nx)%N -> List.In bstar S ->
  size m = nx -> size x = nx ->
  (forall k, (k < nx)%N -> uniq (nodes k)) ->
  (forall k i, (k < nx)%N -> List.In i S -> (kpl * nth 0%N i (na + k) + 1 <= size (nodes k))%N) ->
  (forall k, (k < nx)%N -> (nth 0%N m k <= kpl * nth 0%N bstar (na + k))%N) ->
  (forall i, List.In i S ->
     (forall g, g \in index_grids na kpl nodes tol wts i -> valid_grid g) /\
     all_admissible (index_grids na kpl nodes tol wts i) x) ->
  misc_predict (mc_ops F) (misc_terms na kpl nodes tol wts m S (ctest (run mx reqs))) x
  = \prod_(k < nx) nth 0 x k ^+ nth 0%N m k.
Proof. exact: ComponentExact.component_exact_test. Qed.
Print Assumptions C03_component_exact_test.
