(* C12 — save/load preserves a system exactly and training can resume from it.
   Only theorem statements; proofs are in Proofs/CodecProofs.v.  Model/Codec.v is the textual encoding of multi-indices,
   index sets and weight/cost/state trees in the saved file.  Partial: PyYAML's float round trip, pickle and base64 blobs
   and the path resolution of the saved .pkl files are trusted codecs, exercised by the correspondence check (save, move
   the directory, load from another working directory, compare every field, resume training).  That equal abstract
   states make equal refinement choices up to ties is C08_choice_order_independent. *)
From Coq Require Import List Arith Bool Ascii String Permutation.
From AmiscV Require Import Codec CodecProofs.
Import ListNotations.

(* str(tuple) read back gives the multi-index, for every length (incl. the empty tuple and the 1-tuple with its comma)
   and every level *)
Theorem C12_multiindex_roundtrip : forall t : list nat, parse_tuple (show_tuple t) = Some t.
Proof. exact CodecProofs.tuple_roundtrip. Qed.
Print Assumptions C12_multiindex_roundtrip.

Theorem C12_multiindex_injective : forall t u : list nat, show_tuple t = show_tuple u -> t = u.
Proof. exact CodecProofs.show_tuple_inj. Qed.
Print Assumptions C12_multiindex_injective.

(* index-set elements and whole index sets *)
Theorem C12_pair_roundtrip : forall ab : list nat * list nat, parse_pair (show_pair ab) = Some ab.
Proof. exact CodecProofs.pair_roundtrip. Qed.
Print Assumptions C12_pair_roundtrip.

Theorem C12_index_set_roundtrip : forall s, load_index_set (save_index_set s) = Some s.
Proof. exact CodecProofs.index_set_roundtrip. Qed.
Print Assumptions C12_index_set_roundtrip.

(* distinct index-set elements and distinct index sets never save to the same text *)
Theorem C12_pair_injective : forall ab cd : list nat * list nat, show_pair ab = show_pair cd -> ab = cd.
Proof. exact CodecProofs.show_pair_inj. Qed.
Print Assumptions C12_pair_injective.

Theorem C12_index_set_injective : forall s s', save_index_set s = save_index_set s' -> s = s'.
Proof. exact CodecProofs.save_index_set_inj. Qed.
Print Assumptions C12_index_set_injective.

(* a tree keyed by (alpha, beta) saved as  str(alpha) -> str(beta) -> value  and loaded again holds exactly the same
   entries (grouped by alpha) *)
Theorem C12_tree_roundtrip : forall (V : Type) (t : list ((list nat * list nat) * V)),
  exists t', load_tree V (save_tree V t) = Some t' /\ Permutation t' t.
Proof. exact CodecProofs.tree_roundtrip. Qed.
Print Assumptions C12_tree_roundtrip.

Example C12_nonvacuous :
  string_of_list_ascii (show_tuple [0; 12; 3]) = "(0, 12, 3)"%string /\ string_of_list_ascii (show_tuple [7]) = "(7,)"%string /\
  string_of_list_ascii (show_pair ([], [2; 3])) = "((), (2, 3))"%string.
Proof. vm_compute. repeat split; reflexivity. Qed.
