(* C16 — normalisation, compression and dataset conversion are inverse and time-stable.
   Only theorem statements; proofs are in Proofs/TransfProofs.v.  Model/Transf.v is Variable.normalize/denormalize with
   the hyper-parameter propagation as coded (domain and Normal (mu, std) pushed through every transform and overriding
   Minmax / Zscore arguments).  Log transforms are covered algebraically only through explicit hypotheses on lg/ex. *)
From mathcomp Require Import all_ssreflect all_algebra.
From AmiscV Require Import Field QcInst QcRun Transf LagrDefs TransfProofs.
Set Implicit Arguments. Unset Strict Implicit. Unset Printing Implicit Defensive.
Import GRing.Theory Num.Theory.
Local Open Scope ring_scope.

Definition nolog (F : Type) (chain : seq (tr (F:=F))) : bool := all (fun t => if t is Logt _ _ then false else true) chain.
Definition nominmax (F : Type) (chain : seq (tr (F:=F))) : bool := all (fun t => if t is Minmax _ _ _ _ then false else true) chain.

(* denormalising a normalised value returns the value, for every chain of linear / minmax / zscore transforms whose
   stages are invertible with the hyper-parameters in force at that stage *)
Theorem C16_denorm_norm (F : realFieldType) (lg ex : F -> F) (chain : seq (tr (F:=F))) (h : hyper (F:=F)) (x : F) :
  nolog chain -> chain_ok (mc_ops F) lg ex chain h ->
  denormalize (mc_ops F) lg ex chain h (normalize (mc_ops F) lg ex chain h x) = x.
Proof. exact: TransfProofs.denorm_norm. Qed.
Print Assumptions C16_denorm_norm.

Theorem C16_norm_denorm (F : realFieldType) (lg ex : F -> F) (chain : seq (tr (F:=F))) (h : hyper (F:=F)) (y : F) :
  nolog chain -> chain_ok (mc_ops F) lg ex chain h ->
  normalize (mc_ops F) lg ex chain h (denormalize (mc_ops F) lg ex chain h y) = y.
Proof. exact: TransfProofs.norm_denorm. Qed.
Print Assumptions C16_norm_denorm.

(* a Log stage is inverse to itself wherever exp and log are (x + offset > 0 in the code) *)
Theorem C16_log_roundtrip (F : realFieldType) (lg ex : F -> F) (base off : F) (h : hyper (F:=F)) (x : F) :
  lg base != 0 -> ex (lg (x + off)) = x + off ->
  apply1 (mc_ops F) lg ex (Logt base off) true h (apply1 (mc_ops F) lg ex (Logt base off) false h x) = x.
Proof. exact: TransfProofs.log_roundtrip. Qed.
Print Assumptions C16_log_roundtrip.

(* order-preserving chains map the domain onto the normalised domain: a value inside the domain is normalised to a
   value inside the normalised domain reported by get_domains *)
Theorem C16_samples_inside (F : realFieldType) (lg ex : F -> F) (chain : seq (tr (F:=F))) (h : hyper (F:=F)) (lb ub x : F) :
  chain_increasing (mc_ops F) lg ex chain h -> h_dom h = Some (lb, ub) -> lb <= x <= ub ->
  exists a b, norm_domain (mc_ops F) lg ex chain h = Some (a, b) /\
              a <= normalize (mc_ops F) lg ex chain h x <= b.
Proof. exact: TransfProofs.samples_inside. Qed.
Print Assumptions C16_samples_inside.

(* time stability: without a Minmax stage the encoding does not depend on the variable's domain, so a stored value
   decodes to the same physical value after any domain update *)
Theorem C16_time_stable (F : realFieldType) (lg ex : F -> F) (chain : seq (tr (F:=F))) (h h' : hyper (F:=F)) (x : F) :
  nolog chain -> nominmax chain -> h_dist h' = h_dist h -> chain_ok (mc_ops F) lg ex chain h ->
  denormalize (mc_ops F) lg ex chain h' (normalize (mc_ops F) lg ex chain h x) = x.
Proof. exact: TransfProofs.time_stable. Qed.
Print Assumptions C16_time_stable.

(* with a Minmax stage on a variable that has a domain, a stored value is re-interpreted after a domain update
   (recorded finding F6): 3 stored under domain (0,10) decodes to something else under (-10,20) *)
Theorem C16_minmax_deferred_refuted : c16_decoded_later <> c16_original.
Proof. exact: TransfProofs.minmax_deferred_refuted. Qed.
Print Assumptions C16_minmax_deferred_refuted.

(* latent coefficients: with a projection matrix with orthonormal columns, compressing the reconstruction of a
   coefficient vector returns it (to_surrogate_dataset o to_model_dataset = id on latent coefficients) *)
Theorem C16_latent_roundtrip (F : realFieldType) (n k : nat) (P : 'M[F]_(n, k)) (c : 'cV[F]_k) :
  P^T *m P = 1%:M -> P^T *m (P *m c) = c.
Proof. exact: TransfProofs.latent_roundtrip. Qed.
Print Assumptions C16_latent_roundtrip.
