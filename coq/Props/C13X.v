(* C13 (extension) — interruption at any request of any history, on the combined machine of Model/Train.v (index sets and
   weights of Model/Misc.v + data store of Model/Grid.v + interruption of Model/Crash.v):
   the saved state carries the sets and weights of the completed requests (so every C01/C02 invariant holds for it) and a
   truthful store; resuming from it with the remaining requests ends in the same sets, weights and stored data as the run that
   was never interrupted.  Cost accounts are not part of this machine (recorded finding F5a).
   Only theorem statements; proofs are in Proofs/TrainProofs.v. *)
From Coq Require Import List Arith Bool ZArith.
From AmiscV Require Import Misc Grid Crash Train TrainProofs.
Import ListNotations.

Definition truthful (A : Type) (f : key -> A) (s : list (key * A)) : Prop :=
  NoDup (map fst s) /\ forall k v, In (k, v) s -> v = f k.

(* every reachable state holds only true model outputs, each key once *)
Theorem C13_run_store_truthful : forall (A : Type) (f : key -> A) mx na kpl rr latent (reqs : list idx),
  truthful A f (store A (trun A f mx na kpl rr latent reqs (t0 A))).
Proof. exact TrainProofs.run_store_truthful. Qed.
Print Assumptions C13_run_store_truthful.

(* the state saved at an interruption: sets and weights are those of the completed requests; the store is truthful *)
Theorem C13_saved_state : forall (A : Type) (f : key -> A) mx na kpl rr latent (reqs : list idx) (i : idx) (j : nat),
  let t := trun A f mx na kpl rr latent reqs (t0 A) in
  ms A (tcrash A f mx na kpl rr latent t i j) = ms A t /\
  ms A t = Misc.run mx reqs /\
  truthful A f (store A (tcrash A f mx na kpl rr latent t i j)).
Proof. exact TrainProofs.saved_state. Qed.
Print Assumptions C13_saved_state.

(* resuming: same sets and weights, same stored data (as a set of (key, value) pairs), for every interruption point *)
Theorem C13_resume_same_result : forall (A : Type) (f : key -> A) mx na kpl rr latent (reqs : list idx) (n j : nat),
  ms A (trun_interrupted A f mx na kpl rr latent reqs n j) = ms A (trun A f mx na kpl rr latent reqs (t0 A)) /\
  forall k v, In (k, v) (store A (trun_interrupted A f mx na kpl rr latent reqs n j)) <->
              In (k, v) (store A (trun A f mx na kpl rr latent reqs (t0 A))).
Proof. exact TrainProofs.resume_same_result. Qed.
Print Assumptions C13_resume_same_result.
