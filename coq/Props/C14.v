(* C14 — failed evaluations are contained: recorded, imputed, never corrupting other data.
   Only theorem statements; proofs are in Proofs/FaultProofs.v.  Model/Fault.v is the attribution of failures inside one
   activation batch (the error re-basing loop), what is stored for a failed evaluation and the substitution of imputed
   values; index sets and weights are functions of the activation requests alone (Model/Misc.v: `activate` takes no
   evaluation outcome), and the data plumbing of successful evaluations is C09.  The imputed VALUE (ridge regression) is an
   oracle.  Recorded finding F4: when the first evaluation of a component fails there is no data to impute from and the
   next refinement raises. *)
From Coq Require Import List Arith Bool.
From AmiscV Require Import Fault FaultProofs.
Import ListNotations.

(* every failure is attributed to exactly the index of the batch whose design contains its global position, at the local
   position inside that design: errors at ascending global positions below the total size are all attributed, group i gets
   exactly the positions offset_i <= g < offset_i + size_i, re-based by offset_i *)
Theorem C14_rebase_spec : forall sizes start errs,
  (forall g, In g errs -> start <= g < start + fold_right Nat.add 0 sizes) ->
  snd (rebase sizes start errs) = [] /\
  forall i j, In j (nth i (fst (rebase sizes start errs)) []) <->
              (i < length sizes /\ j < nth i sizes 0 /\ In (start + fold_right Nat.add 0 (firstn i sizes) + j) errs).
Proof. exact FaultProofs.rebase_spec. Qed.
Print Assumptions C14_rebase_spec.

(* an error record exists at (key, local index) iff the evaluation at exactly that key raised *)
Theorem C14_errors_aligned : forall (K V : Type) (designs : list (list K)) (outcomes : list (outcome V)) i j k,
  length outcomes = length (concat designs) ->
  (In (k, j) (nth i (error_records K V designs outcomes) []) <->
   (nth_error (nth i designs []) j = Some k /\ i < length designs /\
    nth_error outcomes (length (concat (firstn i designs)) + j) = Some (Raised V))).
Proof. exact FaultProofs.errors_aligned. Qed.
Print Assumptions C14_errors_aligned.

(* imputed values are used only where a value is missing; present values (incl. the other outputs at a failed point) are kept *)
Theorem C14_impute_only_missing : forall (K V : Type) (st iv : list (option V)) n v,
  length iv = length st -> nth_error st n = Some (Some v) ->
  nth_error (with_imputed V st (Some iv)) n = Some (Some v).
Proof. exact FaultProofs.impute_only_missing. Qed.
Print Assumptions C14_impute_only_missing.

Theorem C14_impute_fills_missing : forall (K V : Type) (st iv : list (option V)) n w,
  length iv = length st -> nth_error st n = Some None -> nth_error iv n = Some w ->
  nth_error (with_imputed V st (Some iv)) n = Some w.
Proof. exact FaultProofs.impute_fills_missing. Qed.
Print Assumptions C14_impute_fills_missing.

(* imputation never changes the number of stored points, and a store without a missing value is returned unchanged
   whatever the imputed values are: the data of failure-free evaluations cannot be corrupted by the imputation path *)
Theorem C14_impute_length : forall (V : Type) (st iv : list (option V)),
  length iv = length st -> length (with_imputed V st (Some iv)) = length st.
Proof. exact FaultProofs.impute_length. Qed.
Print Assumptions C14_impute_length.

Theorem C14_impute_complete_unchanged : forall (V : Type) (st iv : list (option V)),
  length iv = length st -> (forall x, In x st -> x <> None) ->
  with_imputed V st (Some iv) = st.
Proof. exact FaultProofs.impute_complete_unchanged. Qed.
Print Assumptions C14_impute_complete_unchanged.

Example C14_nonvacuous :
  rebase [2; 0; 3; 1] 0 [1; 2; 4; 5] = ([[1]; []; [0; 2]; [0]], []).
Proof. vm_compute. reflexivity. Qed.
