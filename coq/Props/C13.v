(* C13 — interrupted training saves a consistent state that resumes to the same result.
   Only theorem statements; proofs are in Proofs/CrashProofs.v.  Model/Crash.v describes the data state after an
   interruption of an activation batch at any point of its store phase (j = number of indices whose outputs were
   stored; j = 0 covers every interruption before or inside the model call) and the resumed activation.  Index sets and
   weights are updated last in activate_index, so the saved sets/weights are those of a reachable state (C01, C02 apply).
   Partial: asynchronous signals delivered inside the final bookkeeping statements or inside C extensions are not modelled.
   Recorded finding F5a: cost accounts and num_evals differ after a store-phase interruption (C13_costs_differ_refuted). *)
From Coq Require Import List Arith Bool Permutation QArith Qcanon.
From AmiscV Require Import Grid Cost Crash CrashProofs.
Import ListNotations.
Local Close Scope Q_scope.
Local Close Scope Qc_scope.

(* whatever was stored when the interruption happened is a true model output, and no key is stored twice *)
Theorem C13_crash_store_truthful : forall (A : Type) (f : key -> A) store kpl rr latent indices j,
  NoDup (map fst store) -> (forall k v, In (k, v) store -> v = f k) ->
  NoDup (map fst (crash_store A f store kpl rr latent indices j)) /\
  forall k v, In (k, v) (crash_store A f store kpl rr latent indices j) -> v = f k.
Proof. exact CrashProofs.crash_store_truthful. Qed.
Print Assumptions C13_crash_store_truthful.

(* resuming from ANY interruption point reaches exactly the stored data of the uninterrupted activation *)
Theorem C13_resume_same_data : forall (A : Type) (f : key -> A) store kpl rr latent indices j,
  NoDup (map fst store) -> (forall k v, In (k, v) store -> v = f k) ->
  forall k v, In (k, v) (fst (resume A f store kpl rr latent indices j)) <->
              In (k, v) (fst (activate_batch f store kpl rr latent indices)).
Proof. exact CrashProofs.resume_same_data. Qed.
Print Assumptions C13_resume_same_data.

(* and evaluates exactly the points whose outputs were lost: nothing already stored is evaluated again *)
Theorem C13_resume_evaluates_only_lost : forall (A : Type) (f : key -> A) store kpl rr latent indices j,
  NoDup (map fst store) ->
  forall k, In k (snd (resume A f store kpl rr latent indices j)) <->
            (In k (snd (activate_batch f store kpl rr latent indices)) /\
             ~ In k (map fst (crash_store A f store kpl rr latent indices j))).
Proof. exact CrashProofs.resume_evaluates_only_lost. Qed.
Print Assumptions C13_resume_evaluates_only_lost.

(* an interruption before anything was stored leaves the data state untouched: the resumed run IS the uninterrupted run *)
Theorem C13_resume_equiv_pre_store : forall (A : Type) (f : key -> A) store kpl rr latent indices,
  resume A f store kpl rr latent indices 0 = activate_batch f store kpl rr latent indices.
Proof. exact CrashProofs.resume_equiv_pre_store. Qed.
Print Assumptions C13_resume_equiv_pre_store.

(* recorded finding F5a: after a store-phase interruption the resumed activation asks for fewer new points for the indices
   already stored, so the recorded misc costs (model cost x number of new points) differ from the uninterrupted run *)
Theorem C13_costs_differ_refuted :
  exists store kpl rr latent indices j,
    new_points (map fst (crash_store nat (fun _ => 0) store kpl rr latent indices j)) kpl rr latent indices <>
    new_points (map fst store) kpl rr latent indices.
Proof. exact CrashProofs.costs_differ_refuted. Qed.
Print Assumptions C13_costs_differ_refuted.
