(* Extraction of the executable models to OCaml.  Only ExtrOcamlBasic is used:
   bool, option, unit, list, prod, sumbool, sumor map to OCaml's own types and
   andb/orb are inlined; nat, positive, Z, Q, Qc stay the extracted inductives. *)
Require Extraction.
Require Import ExtrOcamlBasic.
From AmiscV Require Import Misc.
Extraction Language OCaml.
Separate Extraction
  Misc.run_trace Misc.st0 Misc.lookahead Misc.is_downward_closed Misc.replay Misc.accepted
  Misc.IE Misc.neighbors Misc.activate.
