(* Extraction of the executable models to OCaml.  Only ExtrOcamlBasic is used:
   bool, option, unit, list, prod, sumbool, sumor map to OCaml's own types and
   andb/orb are inlined; nat, positive, Z, Q, Qc stay the extracted inductives. *)
Require Extraction.
Require Import ExtrOcamlBasic.
From AmiscV Require Import Misc Shape Order Sys Refine Grid Cost Sched Codec Fault Field QcInst Lagr Transf QcRun SysRun Select Train Graph Bounds Search.
Extraction Language OCaml.
Separate Extraction
  Misc.run_trace Misc.st0 Misc.lookahead Misc.is_downward_closed Misc.replay Misc.accepted
  Misc.IE Misc.neighbors Misc.activate
  Shape.loop_shape Shape.fmt_input Shape.fmt_output_shape Shape.batch_eval Shape.broadcastable_to Shape.atleast_1d
  Order.inputs_ordered Order.coupling_ordered Order.outputs Order.stream_assignment
  Sys.is_topological Sys.eval Sys.eval_targets
  Refine.select Refine.indicator Refine.select_sq Refine.indicator_sq Refine.rel_sq Refine.delta_sq
  Grid.run_history Grid.beta_to_knots Grid.grid_coords Cost.allocation Cost.allocation_upto Cost.actual
  Sched.executor_path Sched.serial_path Sched.error_indices
  Codec.show_tuple Codec.parse_tuple Codec.show_pair Codec.parse_pair Codec.save_tree Codec.load_tree Codec.save_index_set Codec.load_index_set
  Fault.rebase Fault.error_records Fault.with_imputed
  QcInst.qc_make QcInst.qc_num QcInst.qc_den
  QcRun.q_refine1 QcRun.q_basis1 QcRun.q_dbasis1 QcRun.q_tpredict QcRun.q_tpredict_abs QcRun.q_tgrad
  QcRun.q_misc_predict QcRun.q_misc_grad QcRun.q_thess QcRun.q_misc_hess QcRun.q_mk_grid QcRun.q_trace_ok QcRun.q_normalize QcRun.q_denormalize QcRun.q_norm_domain
  SysRun.poly_comp SysRun.q_sys_eval SysRun.mkvnorm
  Select.training_rows Select.training_rows_former
  Train.trun Train.tcrash Train.tstep Train.trun_interrupted Train.t0 Train.batch_of Train.split_idx Crash.crash_store
  Graph.edges Graph.system_sccs Graph.system_plan_ok Graph.reaches Graph.is_loop
  Bounds.fit_bounds Bounds.refine_step Bounds.estimate Bounds.upd
  Search.search Search.need_to_search.
