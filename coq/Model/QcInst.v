(* Model/QcInst.v — the instance of the field operations that is extracted and run: stdlib Qc. *)
From Coq Require Import QArith Qcanon.
From AmiscV Require Import Field.

Definition qc_ops : ops Qc :=
  mkops Qc (Q2Qc 0) (Q2Qc 1) Qcplus Qcmult Qcminus Qcopp Qcinv
        (fun x y => Qeq_bool x y) (fun x y => Qle_bool x y).

Definition qc_make (n : Z) (d : positive) : Qc := Q2Qc (Qmake n d).
Definition qc_num (x : Qc) : Z := Qnum x.
Definition qc_den (x : Qc) : positive := Qden x.
