(* Model/Bounds.v — executable model of how the domain of a scalar coupling variable moves during training (src/amisc):
     Variable.update_domain (variable.py:296-324): override -> the new bounds; otherwise (min of the lower bounds, max of the upper
       bounds) with the current domain                                                                       -> upd
     System.refine (system.py:793-797, 828-830, 848-858): with update_bounds, the nan-ignoring minimum and maximum of the coupling
       values that the current surrogate and every candidate surrogate of the step produce on the step's samples (in normalised
       units; one observation list per step), decoded with the variable's *current* normalisation, widen the domain; a variable
       none of whose values is finite at that step is left alone                                             -> step_minmax / refine_step
     System.fit (system.py:642-661): with estimate_bounds and a test set, the same decoded extremes of the test outputs *replace* the
       current domain before the first step                                                                    -> estimate
   Normalisations are the order-preserving rational ones: none / linear / zscore (x_raw = a * x_norm + b, a > 0) and minmax
   (x_raw = x_norm * (hi - lo) + lo with the domain in force when decoding).  Values are exact rationals (Qc); None is NaN.
   No proofs in this file. *)
From Coq Require Import List Bool QArith Qcanon.
Import ListNotations.

Definition dom := (Qc * Qc)%type.
Definition qle (a b : Qc) : bool := Qle_bool (this a) (this b).
Definition qmin (a b : Qc) : Qc := if qle a b then a else b.
Definition qmax (a b : Qc) : Qc := if qle a b then b else a.

Definition upd (override : bool) (new cur : dom) : dom :=
  if override then new else (qmin (fst new) (fst cur), qmax (snd new) (snd cur)).

Inductive nkind := NAffine (a b : Qc) | NMinmax.
Definition denorm (k : nkind) (cur : dom) (x : Qc) : Qc :=
  match k with
  | NAffine a b => (a * x + b)%Qc
  | NMinmax => (x * (snd cur - fst cur) + fst cur)%Qc
  end.

(* np.nanmin / np.nanmax over one step's samples: NaN entries are ignored; nothing finite -> NaN (the update is skipped) *)
Definition obs := list (option Qc).
Fixpoint finite (o : obs) : list Qc :=
  match o with
  | [] => []
  | Some v :: r => v :: finite r
  | None :: r => finite r
  end.
Definition step_minmax (o : obs) : option dom :=
  match finite o with
  | [] => None
  | v :: r => Some (fold_left qmin r v, fold_left qmax r v)
  end.

Definition refine_step (k : nkind) (cur : dom) (o : obs) : dom :=
  match step_minmax o with
  | None => cur
  | Some (lo, hi) => upd false (denorm k cur lo, denorm k cur hi) cur
  end.

Definition estimate (k : nkind) (cur : dom) (test : obs) : dom :=
  match step_minmax test with
  | None => cur
  | Some (lo, hi) => upd true (denorm k cur lo, denorm k cur hi) cur
  end.

(* the domain after every step of a training run *)
Fixpoint run_bounds (update : bool) (k : nkind) (cur : dom) (steps : list obs) : list dom :=
  match steps with
  | [] => []
  | o :: r => let d := if update then refine_step k cur o else cur in d :: run_bounds update k d r
  end.

Definition fit_bounds (est : option obs) (update : bool) (k : nkind) (guess : dom) (steps : list obs) : dom * list dom :=
  let start := match est with Some t => estimate k guess t | None => guess end in
  (start, run_bounds update k start steps).
