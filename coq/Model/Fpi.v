(* Model/Fpi.v — executable model of the fixed-point iteration of System.predict for one strongly connected
   component (src/amisc/system.py:1053-1176), control logic only.
     coupling_prev initial guess (mid-domain)            -> c0
     Jacobi sweep over the members of the SCC            -> sweep : coupling values -> (new coupling values, other outputs)
     _end_conditions_met (1076-1110)                     -> conv / iteration limit / NaN marking
     Anderson mixing via constrained_lls (1147-1176)     -> mix : an ORACLE (any function of the sample's own history)
   `fpi` is the per-sample machine; `bfpi` is the batched machine as coded (shared iteration counter k, per-sample
   masks valid/converged, history rows appended for every sample); `trace_ok` checks a recorded run.
   No proofs in this file. *)
From Coq Require Import List Arith Bool.
From AmiscV Require Import Field.
Import ListNotations.

Section Fpi.
Context {F : Type} (K : ops F).
Variable tol : F.
Variable max_iter : nat.        (* max_fpi_iter *)
Variable mem : nat.             (* anderson_mem (deque maxlen) *)
(* one Jacobi sweep of the loop's components for one sample: coupling values in, (coupling values out, other outputs) *)
Variable sweep : list F -> list F * list F.
(* Anderson mixing: the sample's history [(y_i, y_i - c_i)] (most recent last, at most mem entries) -> next iterate *)
Variable mix : list (list F * list F) -> list F.

Definition vsub (a b : list F) : list F := map2 (sub K) a b.
Definition conv (y c : list F) : bool :=
  forallb (fun r => leb K (absF K r) tol) (vsub y c) && Nat.eqb (length y) (length c).

(* deque(maxlen=mem).append *)
Definition push {A} (h : list A) (x : A) : list A :=
  let h' := h ++ [x] in skipn (length h' - mem) h'.

Inductive result :=
| Converged (y z : list F) (k : nat)      (* fixed point within tolerance reached at iteration k *)
| Failed (k : nat)                         (* iteration limit: every output of the loop is NaN *)
| OutOfFuel.

(* per-sample machine.  At iteration k: sweep from the current iterate c; converged -> stop; k >= max_iter -> NaN;
   otherwise c := y after the first sweep (no mixing), mix(history) afterwards *)
Fixpoint fpi (fuel k : nat) (c : list F) (hist : list (list F * list F)) : result :=
  let (y, z) := sweep c in
  if conv y c then Converged y z k
  else if Nat.leb max_iter k then Failed k
  else match fuel with
       | O => OutOfFuel
       | S fuel' =>
           let hist' := push hist (y, vsub y c) in
           fpi fuel' (S k) (if Nat.eqb k 0 then y else mix hist') hist'
       end.

Definition run_sample (c0 : list F) : result := fpi (S max_iter) 0 c0 [].

(* the same machine driven by an arbitrary SEQUENCE of next iterates instead of a mixing function (the most general
   acceleration scheme: the k-th element is used as the iterate after sweep k, k >= 1; after sweep 0 the iterate is y) *)
Fixpoint fpi_seq (k : nat) (c : list F) (nexts : list (list F)) : result :=
  let (y, z) := sweep c in
  if conv y c then Converged y z k
  else if Nat.leb max_iter k then Failed k
  else match nexts with
       | [] => OutOfFuel
       | n :: rest => fpi_seq (S k) (if Nat.eqb k 0 then y else n) rest
       end.

(* ------------------------------------------------------------------ the batched machine as coded *)
Record sample := mksample {
  s_conv : bool;                       (* samples.converged_idx *)
  s_c : list F;                        (* coupling_prev row *)
  s_y : list F;                        (* y rows of the coupling variables *)
  s_z : list F;                        (* y rows of the other outputs of the loop members *)
  s_hist : list (list F * list F)      (* this sample's rows of (coupling_hist, residual_hist) *)
}.

(* sweep for the current samples only: y[var][curr_idx] = arr *)
Definition eval1 (s : sample) : sample :=
  if s_conv s then s else let (y, z) := sweep (s_c s) in mksample false (s_c s) y z (s_hist s).
(* _end_conditions_met, first part: convergence flags, coupling_prev := y for the still-current samples, history *)
Definition mark1 (s : sample) : sample :=
  let cv := s_conv s || conv (s_y s) (s_c s) in
  let r := vsub (s_y s) (s_c s) in
  let c' := if cv then s_c s else s_y s in
  mksample cv c' (s_y s) (s_z s) (push (s_hist s) (c', r)).
(* Anderson step for the current samples *)
Definition mix1 (s : sample) : sample :=
  if s_conv s then s else mksample false (mix (s_hist s)) (s_y s) (s_z s) (s_hist s).

Definition out1 (k : nat) (s : sample) : result :=
  if s_conv s then Converged (s_y s) (s_z s) k else Failed k.

Fixpoint bfpi (fuel k : nat) (ss : list sample) : option (list sample * nat) :=
  let ss1 := map mark1 (map eval1 ss) in
  if forallb s_conv ss1 then Some (ss1, k)
  else if Nat.leb max_iter k then Some (ss1, k)
  else match fuel with
       | O => None
       | S fuel' => bfpi fuel' (S k) (if Nat.eqb k 0 then ss1 else map mix1 ss1)
       end.

Definition init_sample (c0 : list F) : sample := mksample false c0 [] [] [].

(* per-sample view of the batch result: converged -> its values, else NaN; the iteration at which a converged sample
   stopped is not observable from the batch, only its values *)
Definition batch_values (r : option (list sample * nat)) : option (list (option (list F * list F))) :=
  match r with
  | None => None
  | Some (ss, _) => Some (map (fun s => if s_conv s then Some (s_y s, s_z s) else None) ss)
  end.
Definition sample_values (r : result) : option (option (list F * list F)) :=
  match r with
  | Converged y z _ => Some (Some (y, z))
  | Failed _ => Some None
  | OutOfFuel => None
  end.

(* ------------------------------------------------------------------ checker for a recorded run of one sample *)
(* trace: the successive (c_k, y_k, z_k) the implementation evaluated for this sample; ret: what it returned
   (Some (y, z) or None = NaN).  Accepts iff the run follows the machine for SOME mixing oracle. *)
Fixpoint trace_ok (k : nat) (c_expected : option (list F)) (tr : list (list F * (list F * list F)))
                  (ret : option (list F * list F)) : bool :=
  match tr with
  | [] => false
  | (c, (y, z)) :: rest =>
      (match c_expected with Some ce => forallb (fun r => eqb K r (zero K)) (vsub c ce) && Nat.eqb (length c) (length ce)
                        | None => true end) &&
      (if conv y c
       then match rest, ret with
            | [], Some (ry, rz) => forallb (fun r => eqb K r (zero K)) (vsub ry y ++ vsub rz z)
                                   && Nat.eqb (length ry) (length y) && Nat.eqb (length rz) (length z)
            | _, _ => false
            end
       else if Nat.leb max_iter k
            then match rest, ret with [], None => true | _, _ => false end
            else match rest with
                 | [] => false
                 | _ => trace_ok (S k) (if Nat.eqb k 0 then Some y else None) rest ret
                 end)
  end.
End Fpi.
