(* Model/Order.v — ordered containers of amisc's System (src/amisc/system.py):
     System.inputs / outputs / coupling_variables (325-351): dict comprehensions over ChainMap views
     System.sample_inputs (464-525): the global random stream is consumed variable by variable in the order of inputs()
   Python dict / ChainMap / OrderedDict iterate in a deterministic (insertion) order; a `set` or a key-view set
   operation iterates in an order that depends on string hashing, modelled here by an adversarial permutation pi.
   Variables are numbered by the harness.  No proofs in this file. *)
From Coq Require Import List Arith Bool.
Import ListNotations.

Definition var := nat.
Definition comp := (list var * list var)%type.      (* (inputs, outputs) in declaration order *)

Definition vmem (k : var) (l : list var) : bool := existsb (Nat.eqb k) l.

(* d.update(dict.fromkeys(keys)): new keys are appended, existing ones keep their place *)
Definition dict_update (d keys : list var) : list var :=
  fold_left (fun d k => if vmem k d then d else d ++ [k]) keys d.

(* iter(ChainMap( *maps )): d = {}; for m in reversed(maps): d.update(dict.fromkeys(m)); iter(d) *)
Definition chain_keys (maps : list (list var)) : list var := fold_left dict_update (rev maps) [].

Definition outputs (cs : list comp) : list var := chain_keys (map snd cs).
Definition all_inputs (cs : list comp) : list var := chain_keys (map fst cs).

(* System.inputs() as coded now: {k: ... for k in all_inputs if k not in outputs} *)
Definition inputs_ordered (cs : list comp) : list var :=
  filter (fun k => negb (vmem k (outputs cs))) (all_inputs cs).
(* System.coupling_variables(): {k: ... for k in all_outputs if k in all_inputs} *)
Definition coupling_ordered (cs : list comp) : list var :=
  filter (fun k => vmem k (all_inputs cs)) (outputs cs).

(* the form recorded as a fixed defect: iteration over the set  all_inputs.keys() - outputs.keys() *)
Definition inputs_setdiff (pi : list var -> list var) (cs : list comp) : list var := pi (inputs_ordered cs).

(* sample_inputs: variable number j of the order gets the stream positions [j*n, (j+1)*n) *)
Definition stream_assignment (order : list var) (n : nat) : list (var * nat) :=
  combine order (map (fun j => j * n) (seq 0 (length order))).
