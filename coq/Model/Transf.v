(* Model/Transf.v — executable model of amisc's normalisation (src/amisc/transform.py, src/amisc/variable.py):
     Linear / Minmax / Zscore / Log ._transform (153-211)                      -> apply1
     Variable.normalize / denormalize (362-422): a chain of transforms applied in order; the variable's current
       domain (lb, ub) and, for a Normal distribution, (mu, std) are carried along as "hyper-parameters", are
       themselves pushed through every transform (std as the length |T(mu+std) - T(mu)|), and OVERRIDE the first two arguments of a Minmax resp. the
       arguments of a Zscore at each stage                                      -> normalize / denormalize
   The logarithm and exponential are parameters of the model (lg, ex); the extracted instance is only run on chains
   without Log.  No proofs in this file. *)
From Coq Require Import List Bool.
From AmiscV Require Import Field.
Import ListNotations.

Section Transf.
Context {F : Type} (K : ops F).
Variable lg ex : F -> F.       (* natural logarithm and exponential: oracles *)
Local Notation "x + y" := (add K x y).
Local Notation "x * y" := (mul K x y).
Local Notation "x - y" := (sub K x y).
Local Notation "x / y" := (divF K x y).

Inductive tr :=
| Linear (slope offset : F)
| Logt (base offset : F)
| Minmax (lb ub lb_norm ub_norm : F)
| Zscore (mu std : F).

(* hyper-parameters: the variable's domain (if it has one) and the (mu, std) of a Normal distribution (if any) *)
Record hyper := mkhyper { h_dom : option (F * F); h_dist : option (F * F) }.

(* one transform on one value, with the overrides of _normalize_single *)
Definition apply1 (t : tr) (inverse : bool) (h : hyper) (x : F) : F :=
  match t with
  | Linear m b => if inverse then (x - b) / m else m * x + b
  | Logt base off => if inverse then ex (x * lg base) - off else lg (x + off) / lg base
  | Minmax lb ub lbn ubn =>
      let (lb', ub') := match h_dom h with Some d => d | None => (lb, ub) end in
      if inverse then (x - lbn) / (ubn - lbn) * (ub' - lb') + lb'
      else (x - lb') / (ub' - lb') * (ubn - lbn) + lbn
  | Zscore mu std =>
      let (mu', std') := match h_dist h with Some d => d | None => (mu, std) end in
      if inverse then x * std' + mu' else (x - mu') / std'
  end.

(* the hyper-parameters are transformed like values (forward direction), every entry with the same overrides; the standard
   deviation is a length, not a location: it becomes |f (mu + std) - f mu| (_normalize_hyperparams) *)
Definition push_hyper (t : tr) (h : hyper) : hyper :=
  let f := apply1 t false h in
  mkhyper (match h_dom h with Some (a, b) => Some (f a, f b) | None => None end)
          (match h_dist h with Some (a, b) => Some (f a, absF K (f (a + b) - f a)) | None => None end).

Fixpoint normalize (chain : list tr) (h : hyper) (x : F) : F :=
  match chain with
  | [] => x
  | t :: rest => normalize rest (push_hyper t h) (apply1 t false h x)
  end.

(* denormalize: hyper-parameters are pushed forward through the chain, then the inverses are applied in reverse order
   with the hyper-parameters of their own stage *)
Fixpoint denormalize (chain : list tr) (h : hyper) (y : F) : F :=
  match chain with
  | [] => y
  | t :: rest => apply1 t true h (denormalize rest (push_hyper t h) y)
  end.

(* the normalised domain as get_domains reports it: the images of the two bounds *)
Definition norm_domain (chain : list tr) (h : hyper) : option (F * F) :=
  match h_dom h with
  | Some (a, b) => Some (normalize chain h a, normalize chain h b)
  | None => None
  end.

(* parameters under which a stage is invertible / increasing *)
Definition stage_ok (t : tr) (h : hyper) : bool :=
  match t with
  | Linear m _ => negb (eqb K m (zero K))
  | Logt base _ => negb (eqb K (lg base) (zero K))
  | Minmax lb ub lbn ubn =>
      let (lb', ub') := match h_dom h with Some d => d | None => (lb, ub) end in
      negb (eqb K (ub' - lb') (zero K)) && negb (eqb K (ubn - lbn) (zero K))
  | Zscore mu std =>
      let (_, std') := match h_dist h with Some d => d | None => (mu, std) end in
      negb (eqb K std' (zero K))
  end.
Fixpoint chain_ok (chain : list tr) (h : hyper) : bool :=
  match chain with
  | [] => true
  | t :: rest => stage_ok t h && chain_ok rest (push_hyper t h)
  end.

Definition stage_increasing (t : tr) (h : hyper) : bool :=
  match t with
  | Linear m _ => ltbF K (zero K) m
  | Logt _ _ => false          (* monotonicity of the logarithm is outside the algebraic model *)
  | Minmax lb ub lbn ubn =>
      let (lb', ub') := match h_dom h with Some d => d | None => (lb, ub) end in
      ltbF K lb' ub' && ltbF K lbn ubn
  | Zscore mu std =>
      let (_, std') := match h_dist h with Some d => d | None => (mu, std) end in
      ltbF K (zero K) std'
  end.
Fixpoint chain_increasing (chain : list tr) (h : hyper) : bool :=
  match chain with
  | [] => true
  | t :: rest => stage_increasing t h && chain_increasing rest (push_hyper t h)
  end.
End Transf.
