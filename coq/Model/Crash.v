(* Model/Crash.v — interruption of one activation batch and resumption (src/amisc/component.py:1129-1220, system.py:293-307).
   An activation first generates design points for every index of the batch (training_data.refine), makes ONE model call on
   the concatenation, then, index by index, stores errors and outputs, imputes, records the cost and builds the interpolator
   state; only after all of that are the index sets and weights updated.  An interruption (any BaseException) leaves:
     - before / inside the model call: nothing of the batch stored (grids may already hold the new points);
     - in the store phase: the outputs of the first j indices stored, the rest lost;
   in both cases the index sets and weights are those before the activation (they are touched last).  Resuming repeats the
   activation from the saved state.  No proofs in this file. *)
From Coq Require Import List Arith Bool QArith Qcanon.
From AmiscV Require Import Grid Cost.
Import ListNotations.

Section Crash.
Variable A : Type.
Variable f : key -> A.

(* the store after an interruption that happened when the outputs of the first j indices of the batch had been stored *)
Definition crash_store (store : list (key * A)) (kpl : nat) (rr : bool) (latent : list nat)
                       (indices : list (list nat * list nat)) (j : nat) : list (key * A) :=
  let designs := batch_designs (map fst store) kpl rr latent indices [] in
  store ++ concat (firstn j (slice_back designs (map f (concat designs)))).

(* resuming: the same activation from the saved store *)
Definition resume (store : list (key * A)) (kpl : nat) (rr : bool) (latent : list nat)
                  (indices : list (list nat * list nat)) (j : nat) : list (key * A) * list key :=
  activate_batch f (crash_store store kpl rr latent indices j) kpl rr latent indices.
End Crash.

(* number of NEW points each index of the batch asks for: what misc_costs multiplies the model cost with *)
Definition new_points (store : list key) (kpl : nat) (rr : bool) (latent : list nat)
                      (indices : list (list nat * list nat)) : list nat :=
  map (@length key) (batch_designs store kpl rr latent indices []).
