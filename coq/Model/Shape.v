(* Model/Shape.v — executable model of amisc's batch-shape arithmetic (src/amisc/utils.py):
     format_inputs  (336-402): _common_shape, loop shape, broadcast + flatten
     format_outputs (405-433): reshape to loop shape, squeeze rules
   An array is (shape, row-major flat data).  Variables are scalars per sample unless they carry
   trailing per-sample axes (everything after the common leading axes stays attached to the sample).
   No proofs in this file. *)
From Coq Require Import List Arith Bool.
Import ListNotations.

Definition shape := list nat.
Definition nprod (s : shape) : nat := fold_right Nat.mul 1 s.

(* _common_shape: common leading dims under numpy broadcasting rules, stopping at the first clash *)
Fixpoint common_shape (s1 s2 : shape) : shape :=
  match s1, s2 with
  | a :: r1, b :: r2 =>
      if Nat.eqb a b then a :: common_shape r1 r2
      else if Nat.eqb a 1 then b :: common_shape r1 r2
      else if Nat.eqb b 1 then a :: common_shape r1 r2
      else []
  | _, _ => []
  end.

(* np.atleast_1d on the shape: a scalar becomes (1,) *)
Definition atleast_1d (s : shape) : shape := match s with [] => [1] | _ => s end.

(* loop_shape = fold of _common_shape over all (at-least-1d) input shapes, starting from the first;
   the loop stops as soon as it is empty (which does not change the result) *)
Definition loop_shape (shapes : list shape) : shape :=
  match map atleast_1d shapes with
  | [] => []
  | s0 :: rest => fold_left common_shape (s0 :: rest) s0
  end.

(* row-major index arithmetic *)
Fixpoint ravel (s : shape) (m : list nat) : nat :=
  match s, m with
  | d :: s', i :: m' => i * nprod s' + ravel s' m'
  | _, _ => 0
  end.
Fixpoint unravel (s : shape) (n : nat) : list nat :=
  match s with
  | [] => []
  | d :: s' => (n / nprod s') mod d :: unravel s' (n mod nprod s')
  end.

(* broadcasting: an axis of extent 1 is read at position 0 *)
Fixpoint bidx (s : shape) (m : list nat) : list nat :=
  match s, m with
  | d :: s', i :: m' => (if Nat.eqb d 1 then 0 else i) :: bidx s' m'
  | _, _ => []
  end.

Definition slice {A} (l : list A) (start len : nat) : list A := firstn len (skipn start l).

(* np.broadcast_to(array, loop ++ trailing).reshape(N, *trailing): one row per loop position *)
Definition fmt_input {A} (L : shape) (s : shape) (data : list A) : list (list A) :=
  let c := length L in
  let lead := firstn c s in
  let t := nprod (skipn c s) in
  map (fun n => slice data (ravel lead (bidx lead (unravel L n)) * t) t) (seq 0 (nprod L)).

(* whether np.broadcast_shapes(loop, lead) succeeds and gives loop *)
Fixpoint broadcastable_to (L lead : shape) : bool :=
  match L, lead with
  | [], [] => true
  | a :: L', b :: l' => (Nat.eqb a b || Nat.eqb b 1) && broadcastable_to L' l'
  | _, _ => false
  end.

(* format_outputs: shape arithmetic (the data are not moved) *)
Definition fmt_output_shape (L : shape) (out_shape : shape) : shape :=
  let s1 := match out_shape with [1] => L | _ => L ++ out_shape end in
  let s1 := match out_shape with [1] => atleast_1d s1 | _ => s1 end in
  match L with
  | [1] => atleast_1d (tl s1)
  | _ => s1
  end.

(* the whole pipeline for a pointwise function f of the per-sample rows (one row per input variable) *)
Fixpoint transpose_rows {A} (n : nat) (cols : list (list (list A))) : list (list (list A)) :=
  match n with
  | 0 => []
  | S n' => map (fun col => hd [] col) cols :: transpose_rows n' (map (fun col => tl col) cols)
  end.

Definition batch_eval {A B} (f : list (list A) -> list B) (arrays : list (shape * list A)) : shape * list B :=
  let L := loop_shape (map fst arrays) in
  let cols := map (fun a => fmt_input L (atleast_1d (fst a)) (snd a)) arrays in
  let rows := transpose_rows (nprod L) cols in
  (L, flat_map f rows).
