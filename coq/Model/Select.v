(* Model/Select.v — executable model of which stored training points SparseGrid.get_by_coord hands out
   (src/amisc/training.py:181-224, with y_vars given and skip_nan=True, as activate_index / get_training_data /
   impute_missing_data call it):
     a stored point is a row of per-quantity values (None = NaN or not returned), already with imputed values
     substituted (Model/Fault.v with_imputed);  the point is handed out iff every REQUESTED quantity is present, and only the
     requested quantities are returned;  quantities that were not requested have no say.
   The former code dropped a point when ANY stored numeric quantity was missing (finding F22, repaired): usable_any.
   No proofs in this file. *)
From Coq Require Import List Arith Bool.
Import ListNotations.

Section Select.
Variable V : Type.
Definition row := list (option V).

Definition entry (r : row) (j : nat) : option V := match nth_error r j with Some v => v | None => None end.
Definition present (r : row) (j : nat) : bool := match entry r j with Some _ => true | None => false end.
Definition usable (req : list nat) (r : row) : bool := forallb (present r) req.
Definition project (req : list nat) (r : row) : row := map (entry r) req.
Definition training_rows (req : list nat) (rows : list row) : list row := map (project req) (filter (usable req) rows).

(* the former rule *)
Definition usable_any (r : row) : bool := forallb (fun v => match v with Some _ => true | None => false end) r.
Definition training_rows_former (req : list nat) (rows : list row) : list row := map (project req) (filter usable_any rows).
End Select.
Arguments entry {V}. Arguments present {V}. Arguments usable {V}. Arguments project {V}. Arguments training_rows {V}.
Arguments usable_any {V}. Arguments training_rows_former {V}.

(* a concrete instance for the refutation: two stored points with quantities (y, extra); the extra quantity is missing at the
   second point in one table and present in the other; only y (column 0) is requested *)
Definition sel_rows_a : list (row nat) := [[Some 1; Some 7]; [Some 2; None]].
Definition sel_rows_b : list (row nat) := [[Some 1; Some 7]; [Some 2; Some 9]].
