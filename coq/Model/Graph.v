(* Model/Graph.v — executable model of the dependency structure System.predict evaluates (src/amisc/system.py):
     System.graph (278-291): `model_deps[output] = comp.name` for every component in listing order (a dict: a later
       producer of the same name overwrites an earlier one), then an edge producer -> consumer for every input of every
       component that some component produces                                                     -> producer / edges
     nx.condensation + nx.topological_sort (1011-1015): the strongly connected components of that graph, evaluated in an
       order in which every edge between two different groups points forward; inside a group the members are taken in
       listing order (`scc = [comp.name for comp in self.components if comp.name in members]`)    -> sccs / plan_ok
     `len(scc) == 1` decides between a single feed-forward call and the fixed-point iteration      -> is_loop
   Components are numbered by their position in the listing; variables are numbered by the harness.  networkx is not
   modelled: `sccs` computes the groups from reachability, `plan_ok` checks an observed evaluation plan.
   No proofs in this file. *)
From Coq Require Import List Arith Bool.
Import ListNotations.

Definition cio := (list nat * list nat)%type.          (* (inputs, outputs) of one component *)
Definition edge := (nat * nat)%type.

Definition nmem (v : nat) (l : list nat) : bool := existsb (Nat.eqb v) l.

(* model_deps after the first loop of System.graph *)
Fixpoint producer_from (cs : list cio) (i : nat) (v : nat) (acc : option nat) : option nat :=
  match cs with
  | [] => acc
  | c :: r => producer_from r (S i) v (if nmem v (snd c) then Some i else acc)
  end.
Definition producer (cs : list cio) (v : nat) : option nat := producer_from cs 0 v None.

(* the add_edge calls of the second loop, in call order (a DiGraph keeps one copy of a repeated edge) *)
Definition edges_of (cs : list cio) (j : nat) (c : cio) : list edge :=
  flat_map (fun v => match producer cs v with Some i => [(i, j)] | None => [] end) (fst c).
Fixpoint edges_from (cs rest : list cio) (j : nat) : list edge :=
  match rest with
  | [] => []
  | c :: r => edges_of cs j c ++ edges_from cs r (S j)
  end.
Definition edges (cs : list cio) : list edge := edges_from cs cs 0.

(* ---- reachability by saturation --------------------------------------------------------------------------- *)
Definition succs (E : list edge) (a : nat) : list nat :=
  map snd (filter (fun e => Nat.eqb (fst e) a) E).

(* add to R the successors of members of R that are not yet in it *)
Fixpoint add_new (R : list nat) (l : list nat) : list nat :=
  match l with
  | [] => R
  | b :: r => if nmem b R then add_new R r else add_new (R ++ [b]) r
  end.
Definition grow (E : list edge) (R : list nat) : list nat := add_new R (flat_map (succs E) R).

(* iterate `grow` until nothing is added; None when the fuel runs out first *)
Fixpoint saturate (E : list edge) (fuel : nat) (R : list nat) : option (list nat) :=
  match fuel with
  | O => None
  | S f => let R' := grow E R in
           if Nat.eqb (length R') (length R) then Some R else saturate E f R'
  end.

(* nodes reachable from a (a itself included) in a graph with n nodes *)
Definition reach_set (E : list edge) (n : nat) (a : nat) : list nat :=
  match saturate E (S n) [a] with Some R => R | None => [] end.
Definition reaches (E : list edge) (n : nat) (a b : nat) : bool := nmem b (reach_set E n a).
Definition mutual (E : list edge) (n : nat) (a b : nat) : bool := reaches E n a b && reaches E n b a.

(* ---- strongly connected components -------------------------------------------------------------------------- *)
(* the component of a, members in listing order *)
Definition scc_of (E : list edge) (n : nat) (a : nat) : list nat := filter (mutual E n a) (seq 0 n).
Definition is_leader (E : list edge) (n : nat) (a : nat) : bool :=
  match scc_of E n a with b :: _ => Nat.eqb a b | [] => false end.
(* all components, each listed once (by its first member) *)
Definition sccs (E : list edge) (n : nat) : list (list nat) :=
  map (scc_of E n) (filter (is_leader E n) (seq 0 n)).

(* a group is iterated as a feedback loop iff it has more than one member *)
Definition is_loop (g : list nat) : bool := Nat.ltb 1 (length g).

(* ---- an observed evaluation plan: the groups in the order they were evaluated ------------------------------ *)
Fixpoint list_eqb (a b : list nat) : bool :=
  match a, b with
  | [], [] => true
  | x :: a', y :: b' => Nat.eqb x y && list_eqb a' b'
  | _, _ => false
  end.
Fixpoint nodupb (l : list nat) : bool :=
  match l with
  | [] => true
  | x :: r => negb (nmem x r) && nodupb r
  end.
(* position of the group containing a *)
Fixpoint group_index (plan : list (list nat)) (a : nat) : option nat :=
  match plan with
  | [] => None
  | g :: r => if nmem a g then Some 0 else match group_index r a with Some k => Some (S k) | None => None end
  end.
Definition edge_forward (plan : list (list nat)) (e : edge) : bool :=
  match group_index plan (fst e), group_index plan (snd e) with
  | Some i, Some j => Nat.leb i j
  | _, _ => false
  end.
Definition plan_ok (E : list edge) (n : nat) (plan : list (list nat)) : bool :=
  let all := concat plan in
  Nat.eqb (length all) n && nodupb all && forallb (fun a => Nat.ltb a n) all &&
  forallb (fun g => match g with a :: _ => list_eqb g (scc_of E n a) | [] => false end) plan &&
  forallb (edge_forward plan) E.

(* the whole of it from the listing *)
Definition system_sccs (cs : list cio) : list (list nat) := sccs (edges cs) (length cs).
Definition system_plan_ok (cs : list cio) (plan : list (list nat)) : bool := plan_ok (edges cs) (length cs) plan.
