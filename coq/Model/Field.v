(* Model/Field.v — the record of field operations over which the real-valued models are polymorphic.
   The models contain no axioms and no structure dictionaries; they are instantiated at stdlib Qc for
   extraction (Model/QcInst.v) and at every MathComp realFieldType in the proofs. *)
From Coq Require Import List Bool.
Import ListNotations.

Record ops (F : Type) := mkops {
  zero : F; one : F;
  add : F -> F -> F; mul : F -> F -> F; sub : F -> F -> F;
  opp : F -> F; inv : F -> F;
  eqb : F -> F -> bool; leb : F -> F -> bool
}.
Arguments zero {F}. Arguments one {F}. Arguments add {F}. Arguments mul {F}. Arguments sub {F}.
Arguments opp {F}. Arguments inv {F}. Arguments eqb {F}. Arguments leb {F}.

Section Derived.
Context {F : Type} (O : ops F).

Definition absF (x : F) : F := if leb O (zero O) x then x else opp O x.
Definition divF (x y : F) : F := mul O x (inv O y).
Definition sumF (l : list F) : F := fold_right (add O) (zero O) l.
Definition prodF (l : list F) : F := fold_right (mul O) (one O) l.
Definition ltbF (x y : F) : bool := negb (leb O y x).
Definition maxF (x y : F) : F := if leb O x y then y else x.
Definition minF (x y : F) : F := if leb O x y then x else y.
Fixpoint powF (x : F) (n : nat) : F := match n with 0 => one O | S m => mul O x (powF x m) end.
Fixpoint of_nat (n : nat) : F := match n with 0 => zero O | S m => add O (one O) (of_nat m) end.

Fixpoint map2 {A B C} (f : A -> B -> C) (l : list A) (m : list B) : list C :=
  match l, m with
  | a :: l', b :: m' => f a b :: map2 f l' m'
  | _, _ => []
  end.
End Derived.
