(* Model/QcRun.v — the real-valued models instantiated at the extracted field (stdlib Qc). *)
From Coq Require Import List QArith Qcanon.
From AmiscV Require Import Field QcInst Lagr.

Definition q_refine1 := @refine1 Qc qc_ops.
Definition q_basis1 := @basis1 Qc qc_ops.
Definition q_dbasis1 := @dbasis1 Qc qc_ops.
Definition q_tpredict := @tpredict Qc qc_ops.
Definition q_tpredict_abs := @tpredict_abs Qc qc_ops.
Definition q_tgrad := @tgrad Qc qc_ops.
Definition q_misc_predict := @misc_predict Qc qc_ops.
Definition q_misc_grad := @misc_grad Qc qc_ops.
