(* Model/QcRun.v — the real-valued models instantiated at the extracted field (stdlib Qc). *)
From Coq Require Import List QArith Qcanon.
From AmiscV Require Import Field QcInst Lagr Fpi Transf.

Definition q_refine1 := @refine1 Qc qc_ops.
Definition q_refine1_incremental := @refine1_incremental Qc qc_ops.
Definition q_basis1 := @basis1 Qc qc_ops.
Definition q_dbasis1 := @dbasis1 Qc qc_ops.
Definition q_tpredict := @tpredict Qc qc_ops.
Definition q_tpredict_abs := @tpredict_abs Qc qc_ops.
Definition q_tgrad := @tgrad Qc qc_ops.
Definition q_misc_predict := @misc_predict Qc qc_ops.
Definition q_misc_grad := @misc_grad Qc qc_ops.
Definition q_thess := @thess Qc qc_ops.
Definition q_misc_hess := @misc_hess Qc qc_ops.
Definition q_mk_grid := @mk_grid Qc qc_ops.
Definition q_trace_ok := @trace_ok Qc qc_ops.

(* normalisation chains at Qc; the Log transform is not executable here (lg, ex are dummies and the driver never builds a Logt) *)
Definition q_normalize := @normalize Qc qc_ops (fun x => x) (fun x => x).
Definition q_denormalize := @denormalize Qc qc_ops (fun x => x) (fun x => x).
Definition q_norm_domain := @norm_domain Qc qc_ops (fun x => x) (fun x => x).

(* concrete instances used by refutation theorems (written here, under stdlib scopes) *)
Import ListNotations.
Open Scope Z_scope.
(* C17: two nodes 0 and 1, weights 1 and -1, evaluation at 1/2, absolute tolerance 1/10;
   the same configuration with the unit scaled by 1/100 *)
Definition c17_unit := q_basis1 (qc_make 1 10) [qc_make 0 1; qc_make 1 1] [qc_make 1 1; qc_make (-1) 1] (qc_make 1 2).
Definition c17_scaled := q_basis1 (qc_make 1 10) [qc_make 0 1; qc_make 1 100] [qc_make 1 1; qc_make (-1) 1] (qc_make 1 200).
(* C16: a value stored in minmax-normalised form under the domain (0,10) and decoded after the domain was
   updated to (-10,20): the transform minmax(2,4) defers to the variable's CURRENT domain *)
Definition c16_stored := q_normalize [Minmax (qc_make 2 1) (qc_make 4 1) (qc_make 0 1) (qc_make 1 1)]
                           (mkhyper (Some (qc_make 0 1, qc_make 10 1)) None) (qc_make 3 1).
Definition c16_decoded_later := q_denormalize [Minmax (qc_make 2 1) (qc_make 4 1) (qc_make 0 1) (qc_make 1 1)]
                           (mkhyper (Some (qc_make (-10) 1, qc_make 20 1)) None) c16_stored.
Definition c16_original := qc_make 3 1.
(* C04: a 1-d grid [0, 1] built under the domain (0, 4) (capacity 1) and refined with the node 1/2 after the domain became
   (0, 8) (capacity 2), data of t^2 on the three nodes, evaluated at 1/4: the former incremental update versus the
   recomputation the code does now; the interpolation polynomial gives 1/16 *)
Definition c04_grid0 := q_refine1 (qc_make 1 1) None [qc_make 0 1; qc_make 1 1].
Definition c04_incremental := q_refine1_incremental (qc_make 2 1) (Some c04_grid0) [qc_make 0 1; qc_make 1 1; qc_make 1 2].
Definition c04_recomputed := q_refine1 (qc_make 2 1) (Some c04_grid0) [qc_make 0 1; qc_make 1 1; qc_make 1 2].
Definition c04_predict (st : list Qc * list Qc) : Qc :=
  q_tpredict [(qc_make 0 1, st)] [qc_make 1 4] [qc_make 0 1; qc_make 1 1; qc_make 1 4].
Definition c04_true := qc_make 1 16.
Close Scope Z_scope.
