(* Model/Search.v — executable model of amisc.utils.search_for_file (src/amisc/utils.py:302-336), the step by which a loaded
   system finds the pickled side files (training data, compression data) of its components:
     a recorded name is searched for iff it is a bare file name with a suffix, or a path of several parts that does not exist
       as given (the save directory was moved, or the process runs from another working directory)       -> need_to_search
     the directories given by the caller (the directory of the YAML file being loaded) are tried in order, the current working
       directory last; the first directory holding a file of that name wins; if none does, the recorded name is returned
       unchanged                                                                                              -> search
   The file system is abstracted to booleans supplied by the harness: does the recorded path exist as given, which of the
   directories hold a file of that name.  No proofs in this file. *)
From Coq Require Import List Arith Bool.
Import ListNotations.

Definition need_to_search (nparts : nat) (has_suffix exists_as_given : bool) : bool :=
  (Nat.eqb nparts 1 && has_suffix) || (Nat.ltb 1 nparts && negb exists_as_given).

(* position of the first `true` *)
Fixpoint first_true (l : list bool) : option nat :=
  match l with
  | [] => None
  | b :: r => if b then Some 0 else match first_true r with Some k => Some (S k) | None => None end
  end.

Inductive found := Unchanged | InGiven (k : nat) | InCwd.

(* holds : one boolean per caller-supplied directory; cwd_holds : the current working directory *)
Definition search (nparts : nat) (has_suffix exists_as_given : bool) (holds : list bool) (cwd_holds : bool) : found :=
  if need_to_search nparts has_suffix exists_as_given then
    match first_true (holds ++ [cwd_holds]) with
    | None => Unchanged
    | Some k => if Nat.ltb k (length holds) then InGiven k else InCwd
    end
  else Unchanged.
