(* Model/Fault.v — executable model of how Component.activate_index attributes failed evaluations
   (src/amisc/component.py:1172-1206) and of what is stored for them (src/amisc/training.py:181-247):
     one concatenated model call per activation batch; call_model returns an `errors` dict keyed by the global position
     of every evaluation that raised (ascending); the unpacking loop walks the indices of the batch, keeps
     start_idx/end_idx, and pops every remaining error with idx < end_idx, re-basing it to idx - start_idx and
     recording it at design_list[i][idx - start_idx];
     a failed evaluation stores NaN for every output, an evaluation that returned NaN in some outputs stores those NaN;
     get_by_coord substitutes an imputed value only where the stored value is NaN.
   No proofs in this file. *)
From Coq Require Import List Arith Bool.
Import ListNotations.

(* the re-basing loop on design sizes: returns, per index of the batch, the local positions of its failed evaluations,
   and the errors that were not attributed *)
Fixpoint rebase (sizes : list nat) (start : nat) (errs : list nat) : list (list nat) * list nat :=
  match sizes with
  | [] => ([], errs)
  | sz :: rest =>
      let e := start + sz in
      let mine := filter (fun idx => Nat.ltb idx e) errs in
      let others := filter (fun idx => negb (Nat.ltb idx e)) errs in
      let (groups, left) := rebase rest e others in
      (map (fun idx => idx - start) mine :: groups, left)
  end.

Section Store.
Variables K V : Type.
(* outcome of one evaluation: raised, or a list of per-output values (None = NaN) *)
Inductive outcome := Raised | Returned (vals : list (option V)).

(* what yi_map holds for an evaluation with `nout` outputs *)
Definition stored (nout : nat) (o : outcome) : list (option V) :=
  match o with
  | Raised => repeat None nout
  | Returned vals => vals
  end.
(* get_by_coord: a missing value is replaced by the imputed one (if any); present values are never replaced *)
Definition with_imputed (st : list (option V)) (imp : option (list (option V))) : list (option V) :=
  match imp with
  | None => st
  | Some iv => map (fun p => match fst p with Some v => Some v | None => snd p end) (combine st iv)
  end.
(* error records of a batch: (key, local index) for the evaluations that raised *)
Definition error_records (designs : list (list K)) (outcomes : list outcome) : list (list (K * nat)) :=
  let errs := map fst (filter (fun p => match snd p with Raised => true | _ => false end)
                              (combine (seq 0 (length outcomes)) outcomes)) in
  let groups := fst (rebase (map (@length K) designs) 0 errs) in
  map (fun dg => flat_map (fun j => match nth_error (fst dg) j with Some k => [(k, j)] | None => [] end) (snd dg))
      (combine designs groups).
End Store.
