(* Model/Cost.v — executable model of amisc's cost accounts:
     Component.call_model (component.py:944-952): model_costs[a] = nanmean(hstack((costs of this call for a, previous value)))
     Component.activate_index (1200): misc_costs[a, b] = model_costs.get(a, 1.) * number of new training points
     System.get_allocation (system.py:1479-1531): evaluations of an index = round(added_cost / model_cost)   (Python round:
       nearest integer, ties to even), with the model cost known at the time of the query
   Costs are exact rationals.  No proofs in this file. *)
From Coq Require Import List Arith Bool ZArith QArith Qcanon Qround.
Import ListNotations.

Definition qsum (l : list Qc) : Qc := fold_right Qcplus (Q2Qc 0) l.
Definition qnat (n : nat) : Qc := Q2Qc (inject_Z (Z.of_nat n)).
Definition mean (l : list Qc) : Qc := (qsum l / qnat (length l))%Qc.

(* the running value kept per model fidelity *)
Definition update_cost (old : option Qc) (news : list Qc) : Qc :=
  mean (news ++ match old with Some m => [m] | None => [] end).

Definition misc_cost (mc : option Qc) (npts : nat) : Qc :=
  ((match mc with Some c => c | None => Q2Qc 1 end) * qnat npts)%Qc.

(* Python round(): nearest integer, ties to the even one *)
Definition qround (x : Qc) : Z :=
  let f := Qfloor (this x) in
  let r := (this x - inject_Z f)%Q in
  match Qcompare r (1 # 2) with
  | Lt => f
  | Gt => (f + 1)%Z
  | Eq => if Z.even f then f else (f + 1)%Z
  end.

Definition added_eval (added_cost model_cost : Qc) : Z := qround (added_cost / model_cost)%Qc.

(* one fidelity over a training history: the k-th call evaluates npts_k points, each reporting a cost; returns the
   misc cost recorded for each call and the final running value *)
Fixpoint cost_history (old : option Qc) (calls : list (list Qc)) : list Qc * option Qc :=
  match calls with
  | [] => ([], old)
  | c :: rest =>
      let m := match c with [] => old | _ => Some (update_cost old c) end in
      let (l, fin) := cost_history m rest in
      (misc_cost m (length c) :: l, fin)
  end.

(* what get_allocation reports for this fidelity: (total cost, total evaluations) *)
Definition allocation (calls : list (list Qc)) : Qc * Z :=
  let (mcs, fin) := cost_history None calls in
  let mc := match fin with Some c => c | None => Q2Qc 1 end in
  (qsum mcs, fold_right Z.add 0%Z (map (fun a => added_eval a mc) mcs)).
(* get_allocation(idx): the same account restricted to the first k calls of the history (the model cost used to turn costs into
   evaluation counts is still the value known at the time of the query) *)
Definition allocation_upto (k : nat) (calls : list (list Qc)) : Qc * Z :=
  let (mcs, fin) := cost_history None calls in
  let mc := match fin with Some c => c | None => Q2Qc 1 end in
  (qsum (firstn k mcs), fold_right Z.add 0%Z (map (fun a => added_eval a mc) (firstn k mcs))).
(* what actually happened: (sum of reported costs, number of evaluations) *)
Definition actual (calls : list (list Qc)) : Qc * Z :=
  (qsum (map qsum calls), Z.of_nat (length (concat calls))).
