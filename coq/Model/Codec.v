(* Model/Codec.v — executable model of the textual encoding of multi-indices in saved systems
   (src/amisc/component.py: IndexSet.serialize/deserialize 151-158, MiscTree.serialize/_validate_data 184-258,
    Component.serialize 1400-1414; src/amisc/typing.py MultiIndex):
     a multi-index is written with Python's str(tuple):  ()   (3,)   (0, 1, 2)
     an index-set element is str((alpha, beta)):          ((0,), (1, 2))
     a MiscTree is a dict  str(alpha) -> dict  str(beta) -> value
   and read back with ast.literal_eval / MultiIndex(str).  Values (floats, pickled/base64 states) are abstract.
   No proofs in this file. *)
From Coq Require Import List Arith Bool Ascii String DecimalString Decimal.
Import ListNotations.
Local Open Scope char_scope.

Definition show_nat (n : nat) : list ascii := list_ascii_of_string (NilZero.string_of_uint (Nat.to_uint n)).

Fixpoint show_items (l : list nat) : list ascii :=
  match l with
  | [] => []
  | [a] => show_nat a
  | a :: rest => show_nat a ++ [","; " "] ++ show_items rest
  end.
(* str(tuple) *)
Definition show_tuple (l : list nat) : list ascii :=
  match l with
  | [] => ["("; ")"]
  | [a] => ["("] ++ show_nat a ++ [","; ")"]
  | _ => ["("] ++ show_items l ++ [")"]
  end.
Definition show_pair (ab : list nat * list nat) : list ascii :=
  ["("] ++ show_tuple (fst ab) ++ [","; " "] ++ show_tuple (snd ab) ++ [")"].

Definition is_digit (c : ascii) : bool := (Nat.leb 48 (nat_of_ascii c)) && (Nat.leb (nat_of_ascii c) 57).
Fixpoint span_digits (s : list ascii) : list ascii * list ascii :=
  match s with
  | c :: r => if is_digit c then let (d, rest) := span_digits r in (c :: d, rest) else ([], s)
  | [] => ([], [])
  end.
Definition parse_nat (ds : list ascii) : option nat :=
  match ds with
  | [] => None
  | _ => option_map Nat.of_uint (NilZero.uint_of_string (string_of_list_ascii ds))
  end.

(* items after the first number: either ")" or ",)" (only directly after the first item) or ", n" ... ")" *)
Fixpoint parse_rest (fuel : nat) (s : list ascii) (acc : list nat) : option (list nat * list ascii) :=
  match fuel with
  | O => None
  | S fuel' =>
      match s with
      | ")" :: r => Some (List.rev acc, r)
      | "," :: ")" :: r => Some (List.rev acc, r)
      | "," :: " " :: r =>
          let (ds, r') := span_digits r in
          match parse_nat ds with
          | Some n => parse_rest fuel' r' (n :: acc)
          | None => None
          end
      | _ => None
      end
  end.
Definition parse_tuple_prefix (s : list ascii) : option (list nat * list ascii) :=
  match s with
  | "(" :: ")" :: r => Some ([], r)
  | "(" :: r =>
      let (ds, r') := span_digits r in
      match parse_nat ds with
      | Some n => parse_rest (S (List.length r')) r' [n]
      | None => None
      end
  | _ => None
  end.
Definition parse_tuple (s : list ascii) : option (list nat) :=
  match parse_tuple_prefix s with
  | Some (l, []) => Some l
  | _ => None
  end.
Definition parse_pair (s : list ascii) : option (list nat * list nat) :=
  match s with
  | "(" :: r =>
      match parse_tuple_prefix r with
      | Some (a, "," :: " " :: r') =>
          match parse_tuple_prefix r' with
          | Some (b, [")"]) => Some (a, b)
          | _ => None
          end
      | _ => None
      end
  | _ => None
  end.

(* IndexSet: list of element strings *)
Definition save_index_set (s : list (list nat * list nat)) : list (list ascii) := map show_pair s.
Definition load_index_set (l : list (list ascii)) : option (list (list nat * list nat)) :=
  fold_right (fun x acc => match parse_pair x, acc with Some p, Some r => Some (p :: r) | _, _ => None end) (Some []) l.

(* MiscTree: alpha string -> (beta string -> value); the flat tree is an association list on (alpha, beta) *)
Section Tree.
Variable V : Type.
Fixpoint list_ascii_eqb (a b : list ascii) : bool :=
  match a, b with
  | [], [] => true
  | x :: a', y :: b' => Ascii.eqb x y && list_ascii_eqb a' b'
  | _, _ => false
  end.
Definition nested := list (list ascii * list (list ascii * V)).
Fixpoint nested_insert (t : nested) (ka kb : list ascii) (v : V) : nested :=
  match t with
  | [] => [(ka, [(kb, v)])]
  | (k, inner) :: rest => if list_ascii_eqb k ka then (k, inner ++ [(kb, v)]) :: rest else (k, inner) :: nested_insert rest ka kb v
  end.
Definition save_tree (t : list ((list nat * list nat) * V)) : nested :=
  fold_left (fun acc e => nested_insert acc (show_tuple (fst (fst e))) (show_tuple (snd (fst e))) (snd e)) t [].
Definition load_tree (t : nested) : option (list ((list nat * list nat) * V)) :=
  fold_right (fun e acc =>
     match parse_tuple (fst e), acc with
     | Some a, Some r =>
         match fold_right (fun kv acc2 => match parse_tuple (fst kv), acc2 with
                                          | Some b, Some r2 => Some (((a, b), snd kv) :: r2) | _, _ => None end) (Some []) (snd e) with
         | Some inner => Some (inner ++ r)
         | None => None
         end
     | _, _ => None
     end) (Some []) t.
End Tree.
