(* Model/SysRun.v — Model/Sys.v instantiated at the extracted field with polynomial components and the normalisation
   chains of Model/Transf.v, so that the feed-forward evaluation model can be RUN against System.predict:
     values                       : Qc
     per-variable norm / denorm   : q_normalize / q_denormalize of the variable's chain and hyper-parameters (Variable.normalize)
     component model              : a polynomial per output in the component's raw inputs (the harness' polynomial models)
     component surrogate          : the EXACT surrogate of that model: normalised inputs -> normalised outputs,
                                    norm_out o model o denorm_in  (what a surrogate that resolves the polynomial computes;
                                    used by the C04 correspondence on systems trained to exhaustion)
   No proofs in this file. *)
From Coq Require Import List QArith Qcanon.
From AmiscV Require Import Field QcInst Transf Sys QcRun.
Import ListNotations.

Definition mono := (Qc * list nat)%type.                 (* coefficient, exponent per input *)
Fixpoint qpow (x : Qc) (n : nat) : Qc := match n with O => qc_make 1 1 | S k => Qcmult x (qpow x k) end.
Fixpoint mono_val (xs : list Qc) (es : list nat) : Qc :=
  match xs, es with
  | x :: xs', e :: es' => Qcmult (qpow x e) (mono_val xs' es')
  | _, _ => qc_make 1 1
  end.
Definition poly_val (p : list mono) (xs : list Qc) : Qc :=
  fold_right (fun m acc => Qcplus (Qcmult (fst m) (mono_val xs (snd m))) acc) (qc_make 0 1) p.

Record vnorm := mkvnorm { vn_chain : list (tr (F:=Qc)); vn_hyper : hyper (F:=Qc) }.
Definition vlookup (tab : list vnorm) (v : nat) : vnorm := nth v tab (mkvnorm [] (mkhyper None None)).
Definition q_vnorm (tab : list vnorm) (v : nat) (x : Qc) : Qc := q_normalize (vn_chain (vlookup tab v)) (vn_hyper (vlookup tab v)) x.
Definition q_vdenorm (tab : list vnorm) (v : nat) (y : Qc) : Qc := q_denormalize (vn_chain (vlookup tab v)) (vn_hyper (vlookup tab v)) y.

Fixpoint map2 {A B C} (f : A -> B -> C) (l : list A) (m : list B) : list C :=
  match l, m with a :: l', b :: m' => f a b :: map2 f l' m' | _, _ => [] end.

Definition poly_comp (tab : list vnorm) (id : nat) (ins outs : list nat) (polys : list (list mono)) (um : bool) : comp Qc :=
  mkcomp Qc id ins outs
    (fun xs => map (fun p => poly_val p xs) polys)
    (fun xs => map2 (q_vnorm tab) outs (map (fun p => poly_val p (map2 (q_vdenorm tab) ins xs)) polys))
    um.

(* run the evaluation in the given order from the given pool and return the canonical (raw) value of the asked variables *)
Definition q_sys_eval (tab : list vnorm) (order : list (comp Qc)) (e0 : env Qc) (targets ask : list nat) : option (list (option Qc)) :=
  match eval_targets Qc (q_vnorm tab) (q_vdenorm tab) targets order e0 with
  | None => None
  | Some e => Some (map (canon Qc (q_vdenorm tab) e) ask)
  end.
