(* Model/Grid.v — executable model of sparse-grid bookkeeping (src/amisc/training.py, src/amisc/component.py):
     SparseGrid.beta_to_knots (440-476): scalar inputs and latent inputs (round-robin / tensor-product expansion)
     SparseGrid._expand_grid_coords (392-402): itertools.product in row-major order
     SparseGrid.refine (293-372): the new coordinates are those without stored data for this alpha
     Component.activate_index (1140-1162): removal of duplicate (alpha, coordinate) pairs inside one batch
     Component.activate_index (1172-1206): slicing the concatenated model output back to the indices, storing
   and of the cost accounts (component.py:944-952, 1200; system.py:1479-1531) in Model/Cost.v.
   A coordinate is a list with one entry per input: a scalar input contributes [j], a latent input contributes its
   tuple of per-coefficient positions.  No proofs in this file. *)
From Coq Require Import List Arith Bool.
Import ListNotations.

(* ------------------------------------------------------------------ beta_to_knots *)
(* number of latent coefficients per input: 0 = scalar *)
Definition knots_scalar (kpl b : nat) : nat := kpl * b + 1.

(* round-robin: beta = 0 -> all ones; otherwise refine_idx = (b-1) mod n, refine_num = (b-1)/n + 1,
   latent_beta = [num]*(idx+1) ++ [num-1]*(n-idx-1), sizes kpl*latent_beta_j + 1 *)
Definition knots_round_robin (kpl n b : nat) : list nat :=
  match b with
  | 0 => repeat 1 n
  | S b' => let idx := b' mod n in let num := b' / n + 1 in
            map (fun j => kpl * (if Nat.leb j idx then num else num - 1) + 1) (seq 0 n)
  end.
Definition knots_tensor (kpl n b : nat) : list nat := repeat (kpl * b + 1) n.

(* grid sizes per input; a scalar input gives a singleton list *)
Definition beta_to_knots (kpl : nat) (round_robin : bool) (latent : list nat) (beta : list nat) : list (list nat) :=
  map (fun p => match fst p with
                | 0 => [knots_scalar kpl (snd p)]
                | n => if round_robin then knots_round_robin kpl n (snd p) else knots_tensor kpl n (snd p)
                end) (combine latent beta).

(* itertools.product over range(s) in row-major order, over the flattened list of 1-d grid sizes *)
Fixpoint product (sizes : list nat) : list (list nat) :=
  match sizes with
  | [] => [[]]
  | s :: rest => flat_map (fun j => map (cons j) (product rest)) (seq 0 s)
  end.
Definition grid_coords (kpl : nat) (rr : bool) (latent beta : list nat) : list (list nat) :=
  product (concat (beta_to_knots kpl rr latent beta)).

(* ------------------------------------------------------------------ store and refinement *)
Fixpoint coord_eqb (a b : list nat) : bool :=
  match a, b with
  | [], [] => true
  | x :: a', y :: b' => Nat.eqb x y && coord_eqb a' b'
  | _, _ => false
  end.
Definition key := (list nat * list nat)%type.          (* (alpha, coordinate) *)
Definition key_eqb (k1 k2 : key) : bool := coord_eqb (fst k1) (fst k2) && coord_eqb (snd k1) (snd k2).
Definition kmem (k : key) (l : list key) : bool := existsb (key_eqb k) l.

(* SparseGrid.refine: coordinates of beta without stored data for alpha *)
Definition new_coords (store : list key) (alpha : list nat) (coords : list (list nat)) : list (list nat) :=
  filter (fun c => negb (kmem (alpha, c) store)) coords.

(* the batch loop of activate_index: indices are processed in order; coordinates already requested in this batch
   for the same alpha are dropped; returns the per-index designs and the flat evaluation list *)
Fixpoint batch_designs (store : list key) (kpl : nat) (rr : bool) (latent : list nat)
                       (indices : list (list nat * list nat)) (sofar : list key) : list (list key) :=
  match indices with
  | [] => []
  | (alpha, beta) :: rest =>
      let fresh := new_coords store alpha (grid_coords kpl rr latent beta) in
      let design := filter (fun k => negb (kmem k sofar)) (map (fun c => (alpha, c)) fresh) in
      design :: batch_designs store kpl rr latent rest (sofar ++ design)
  end.

(* slicing the concatenated outputs back: index i gets outputs[start_i : start_i + len(design_i)] *)
Fixpoint slice_back {A} (designs : list (list key)) (outputs : list A) : list (list (key * A)) :=
  match designs with
  | [] => []
  | d :: rest => combine d (firstn (length d) outputs) :: slice_back rest (skipn (length d) outputs)
  end.

(* one activation batch: evaluate f at every requested key (one model call on the concatenation), store *)
Definition activate_batch {A} (f : key -> A) (store : list (key * A)) (kpl : nat) (rr : bool) (latent : list nat)
                          (indices : list (list nat * list nat)) : list (key * A) * list key :=
  let designs := batch_designs (map fst store) kpl rr latent indices [] in
  let evals := concat designs in
  let outputs := map f evals in
  (store ++ concat (slice_back designs outputs), evals).

(* a whole history of batches: returns the final store and every evaluation made, in order *)
Fixpoint run_history {A} (f : key -> A) (store : list (key * A)) (kpl : nat) (rr : bool) (latent : list nat)
                     (batches : list (list (list nat * list nat))) : list (key * A) * list key :=
  match batches with
  | [] => (store, [])
  | b :: rest =>
      let (store', ev) := activate_batch f store kpl rr latent b in
      let (store'', ev') := run_history f store' kpl rr latent rest in
      (store'', ev ++ ev')
  end.

(* ---- the rule before fix 516fd12 (kept for the refutation C09_zero_level_rule_refuted): the level-zero branch of SparseGrid.refine
   handed out its grid point whether or not an evaluation was stored for it; only the duplicates inside one batch were removed *)
Definition all_zero (beta : list nat) : bool := forallb (Nat.eqb 0) beta.
Fixpoint batch_designs_former (store : list key) (kpl : nat) (rr : bool) (latent : list nat)
                              (indices : list (list nat * list nat)) (sofar : list key) : list (list key) :=
  match indices with
  | [] => []
  | (alpha, beta) :: rest =>
      let coords := grid_coords kpl rr latent beta in
      let fresh := if all_zero beta then coords else new_coords store alpha coords in
      let design := filter (fun k => negb (kmem k sofar)) (map (fun c => (alpha, c)) fresh) in
      design :: batch_designs_former store kpl rr latent rest (sofar ++ design)
  end.
Definition activate_batch_former {A} (f : key -> A) (store : list (key * A)) (kpl : nat) (rr : bool) (latent : list nat)
                                 (indices : list (list nat * list nat)) : list (key * A) * list key :=
  let designs := batch_designs_former (map fst store) kpl rr latent indices [] in
  let evals := concat designs in
  (store ++ concat (slice_back designs (map f evals)), evals).
Fixpoint run_history_former {A} (f : key -> A) (store : list (key * A)) (kpl : nat) (rr : bool) (latent : list nat)
                            (batches : list (list (list nat * list nat))) : list (key * A) * list key :=
  match batches with
  | [] => (store, [])
  | b :: rest =>
      let (store', ev) := activate_batch_former f store kpl rr latent b in
      let (store'', ev') := run_history_former f store' kpl rr latent rest in
      (store'', ev ++ ev')
  end.

