(* Model/Sys.v — executable model of feed-forward evaluation in System.predict (src/amisc/system.py:922-1051):
     System.graph (278-291): edge c1 -> c2 when an output of c1 is an input of c2      -> depends
     topological evaluation, one component at a time, outputs written to the pool y     -> eval
     early exit once every requested output is computed (1016-1017)                     -> eval_targets
     _gather_comp_inputs (960-1009): inputs are normalised for a surrogate call and
       denormalised for a model call, according to the status tag of each value         -> gather / comp_step
   Values carry a tag: true = normalised form, false = raw (model) form.  Components are abstract functions on
   canonical raw values; `use_model` selects the model function, otherwise the surrogate function (which works on
   normalised values).  Variables and components are numbered by the harness.  No proofs in this file. *)
From Coq Require Import List Arith Bool.
Import ListNotations.

Section Sys.
Variable V : Type.                       (* values *)
Variable norm denorm : nat -> V -> V.    (* per-variable normalisation and its inverse *)

Definition var := nat.
Definition tagged := (bool * V)%type.
Definition env := list (var * tagged).

Fixpoint lookup (e : env) (v : var) : option tagged :=
  match e with
  | [] => None
  | (w, t) :: e' => if Nat.eqb v w then Some t else lookup e' v
  end.

Record comp := mkcomp {
  cid : nat;
  cin : list var;
  cout : list var;
  cmodel : list V -> list V;            (* raw inputs -> raw outputs *)
  csurr : list V -> list V;             (* normalised inputs -> normalised outputs *)
  use_model : bool
}.

(* value of a variable in the form the component needs *)
Definition as_raw (v : var) (t : tagged) : V := if fst t then denorm v (snd t) else snd t.
Definition as_norm (v : var) (t : tagged) : V := if fst t then snd t else norm v (snd t).

Fixpoint gather (e : env) (want_norm : bool) (vs : list var) : option (list V) :=
  match vs with
  | [] => Some []
  | v :: r => match lookup e v, gather e want_norm r with
              | Some t, Some l => Some ((if want_norm then as_norm v t else as_raw v t) :: l)
              | _, _ => None
              end
  end.

Fixpoint zip_out (tag : bool) (vs : list var) (ys : list V) : env :=
  match vs, ys with
  | v :: vs', y :: ys' => (v, (tag, y)) :: zip_out tag vs' ys'
  | _, _ => []
  end.

(* one component: gather (converting as needed), call, write outputs tagged raw (model) or normalised (surrogate);
   newer entries shadow older ones *)
Definition comp_step (e : env) (c : comp) : option env :=
  match gather e (negb (use_model c)) (cin c) with
  | None => None
  | Some xs => let ys := if use_model c then cmodel c xs else csurr c xs in
               Some (zip_out (negb (use_model c)) (cout c) ys ++ e)
  end.

Fixpoint eval (order : list comp) (e : env) : option env :=
  match order with
  | [] => Some e
  | c :: rest => match comp_step e c with None => None | Some e' => eval rest e' end
  end.

(* early exit: stop as soon as every target is in the pool *)
Definition all_computed (targets : list var) (e : env) : bool :=
  forallb (fun t => match lookup e t with Some _ => true | None => false end) targets.
Fixpoint eval_targets (targets : list var) (order : list comp) (e : env) : option env :=
  if all_computed targets e then Some e else
  match order with
  | [] => Some e
  | c :: rest => match comp_step e c with None => None | Some e' => eval_targets targets rest e' end
  end.

(* canonical (raw) value of a variable in an environment *)
Definition canon (e : env) (v : var) : option V :=
  match lookup e v with Some t => Some (as_raw v t) | None => None end.

(* ------------------------------------------------------------------ dependency order *)
Definition vmem (v : var) (l : list var) : bool := existsb (Nat.eqb v) l.
Definition produced (cs : list comp) : list var := flat_map cout cs.
(* `order` is a topological order of the graph: every input of a component that some component of the system
   produces has been produced by an earlier element of the order; no component appears twice *)
Fixpoint is_topological (all : list comp) (done : list var) (order : list comp) : bool :=
  match order with
  | [] => true
  | c :: rest =>
      forallb (fun v => negb (vmem v (produced all)) || vmem v done) (cin c) &&
      is_topological all (cout c ++ done) rest
  end.
End Sys.
