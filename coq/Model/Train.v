(* Model/Train.v — one component's training as a single machine: the index-set / weight bookkeeping of Model/Misc.v together
   with the data store of Model/Grid.v, and interruptions of Model/Crash.v placed inside a whole history
   (src/amisc/component.py activate_index 1115-1222, system.py _save_on_error 293-307):
     an accepted request for index i evaluates, in ONE batch, the index itself (unless it was a candidate, whose data exist
     already) followed by its new forward neighbours, stores the outputs, and only then moves the sets and weights;
     a request that is not accepted changes nothing;
     an interruption during an accepted request leaves the sets and weights untouched and the outputs of the first j indices
     of the batch stored; the saved state is that state; resuming repeats the request and continues.
   A multi-index i is split as (alpha, beta) = (firstn na i, skipn na i).  No proofs in this file. *)
From Coq Require Import List Arith Bool ZArith.
From AmiscV Require Import Misc Grid Crash.
Import ListNotations.

Section Train.
Variable A : Type.
Variable f : key -> A.                 (* the model: output at (fidelity, grid coordinate) *)
Variables (mx : idx) (na kpl : nat) (rr : bool) (latent : list nat).

Record tstate := mkt { ms : st; store : list (key * A) }.
Definition t0 : tstate := mkt st0 [].

Definition split_idx (i : idx) : list nat * list nat := (firstn na i, skipn na i).
(* the indices whose data the request for i has to produce, in the order of the batch loop *)
Definition batch_of (s : st) (i : idx) : list (list nat * list nat) :=
  map split_idx ((if mem i (cand s) then [] else [i]) ++ neighbors mx (active s) i).

Definition tstep (t : tstate) (i : idx) : tstate :=
  if accepts (ms t) i
  then mkt (activate mx (ms t) i) (fst (activate_batch f (store t) kpl rr latent (batch_of (ms t) i)))
  else t.
Definition trun (reqs : list idx) (t : tstate) : tstate := fold_left tstep reqs t.

(* the state saved when the request for i is interrupted after the outputs of the first j indices of its batch were stored
   (j = 0: before or inside the model call) *)
Definition tcrash (t : tstate) (i : idx) (j : nat) : tstate :=
  if accepts (ms t) i
  then mkt (ms t) (crash_store A f (store t) kpl rr latent (batch_of (ms t) i) j)
  else t.

(* a history interrupted during its (n+1)-th request, resumed from the saved state with the same remaining requests *)
Definition trun_interrupted (reqs : list idx) (n j : nat) : tstate :=
  let before := trun (firstn n reqs) t0 in
  match skipn n reqs with
  | [] => before
  | i :: rest => trun (i :: rest) (tcrash before i j)
  end.
End Train.
