(* Model/Refine.v — executable model of the selection logic of System.refine (src/amisc/system.py:798-872) and of the
   outer loop of System.fit (678-734).
     error_indicator = delta_error / max(1, cost); scan over components x candidates in list order; strict `>` against
     the running maximum that starts at -inf; a NaN indicator never compares greater.
   Indicators are exact rationals or NaN (None).  The refinement step itself (sampling, look-ahead predictions,
   activation) is abstract: `step` returns None when no candidate was chosen.  No proofs in this file. *)
From Coq Require Import List Arith Bool QArith Qcanon.
Import ListNotations.

(* one candidate of the scan: (component id, position in that component's candidate list, error, cost);
   error = None models NaN (every requested output had a NaN relative change) *)
Record rcand := mkcand { c_comp : nat; c_pos : nat; c_err : option Qc; c_cost : Qc }.

Definition qmax1 (x : Qc) : Qc := if Qle_bool (this (Q2Qc 1)) (this x) then x else Q2Qc 1.
Definition indicator (c : rcand) : option Qc :=
  match c_err c with Some e => Some (e / qmax1 (c_cost c))%Qc | None => None end.

(* strictly greater, NaN-aware: NaN > x is false; x > -inf is true for every number *)
Definition gt_opt (x : option Qc) (best : option Qc) : bool :=
  match x, best with
  | Some a, Some b => negb (Qle_bool (this a) (this b))
  | Some _, None => true
  | None, _ => false
  end.

(* the scan: best = running maximum (None = -inf), star = the candidate that set it *)
Fixpoint scan (cs : list rcand) (best : option Qc) (star : option rcand) : option rcand :=
  match cs with
  | [] => star
  | c :: rest => if gt_opt (indicator c) best then scan rest (indicator c) (Some c) else scan rest best star
  end.
Definition select (cs : list rcand) : option rcand := scan cs None None.

(* ------------------------------------------------------------------ the outer loop of fit *)
Section Fit.
Variable St : Type.
(* one refinement step: None when refine() returns component=None, else the new state and its added_error
   (None = NaN, as for initialisation steps) *)
Variable step : St -> option (St * option Qc).
Variable tol : Qc.

(* while True: r = refine(); if none: break; history.append; if level >= max_iter: break; if err < tol: break *)
Fixpoint fit (fuel : nat) (level max_iter : nat) (s : St) (hist : list (option Qc)) : St * list (option Qc) :=
  match fuel with
  | O => (s, hist)
  | S fuel' =>
      match step s with
      | None => (s, hist)
      | Some (s', err) =>
          let hist' := hist ++ [err] in
          if Nat.leb max_iter (S level) then (s', hist')
          else match err with
               | Some e => if negb (Qle_bool (this tol) (this e)) then (s', hist') else fit fuel' (S level) max_iter s' hist'
               | None => fit fuel' (S level) max_iter s' hist'          (* NaN < tol is false *)
               end
      end
  end.
End Fit.

(* ------------------------------------------------------------------ the error a candidate is credited with, from the predictions
   utils.relative_error (536-546): sqrt(sum((pred - targ)^2) / sum(targ^2)) over all samples of one output, NaN when a prediction is NaN or
   the quotient is not finite (a zero denominator); System.refine (834-838): the NaN-ignoring maximum over the requested outputs, divided by
   max(1, cost).  Square roots are avoided: the model works with the SQUARES (sum((pred - targ)^2) / sum(targ^2) and its quotient by
   max(1, cost)^2); since errors and costs are non-negative the scan over the squares makes the same choice (Props/C08X.v). *)
Fixpoint all_some (l : list (option Qc)) : option (list Qc) :=
  match l with
  | [] => Some []
  | Some x :: r => match all_some r with Some xs => Some (x :: xs) | None => None end
  | None :: _ => None
  end.
Definition sumsq (l : list Qc) : Qc := fold_left (fun acc x => acc + x * x)%Qc l (Q2Qc 0).
Fixpoint diffs (p t : list Qc) : list Qc :=
  match p, t with
  | x :: p', y :: t' => (x - y)%Qc :: diffs p' t'
  | _, _ => []
  end.
(* squared relative error of one output: None = NaN *)
Definition rel_sq (pred targ : list (option Qc)) : option Qc :=
  match all_some pred, all_some targ with
  | Some p, Some t => let den := sumsq t in
                      if Qeq_bool (this den) 0 then None else Some (sumsq (diffs p t) / den)%Qc
  | _, _ => None
  end.
Definition qmaxq (a b : Qc) : Qc := if Qle_bool (this a) (this b) then b else a.
Definition max_opt (a b : option Qc) : option Qc :=
  match a, b with
  | Some x, Some y => Some (qmaxq x y)
  | Some x, None => Some x
  | None, y => y
  end.
(* np.nanmax over the requested outputs: None when every output's error is NaN *)
Definition delta_sq (outs : list (list (option Qc) * list (option Qc))) : option Qc :=
  fold_left (fun m pt => max_opt m (rel_sq (fst pt) (snd pt))) outs None.

(* a candidate with its look-ahead predictions (per requested output: candidate surrogate, current surrogate) *)
Record pcand := mkpcand { p_comp : nat; p_pos : nat; p_outs : list (list (option Qc) * list (option Qc)); p_cost : Qc }.
Definition indicator_sq (c : pcand) : option Qc :=
  match delta_sq (p_outs c) with
  | Some s => Some (s / (qmax1 (p_cost c) * qmax1 (p_cost c)))%Qc
  | None => None
  end.
Fixpoint scan_sq (cs : list pcand) (best : option Qc) (star : option pcand) : option pcand :=
  match cs with
  | [] => star
  | c :: rest => if gt_opt (indicator_sq c) best then scan_sq rest (indicator_sq c) (Some c) else scan_sq rest best star
  end.
Definition select_sq (cs : list pcand) : option pcand := scan_sq cs None None.
