(* Model/Misc.v — executable model of amisc's multi-index bookkeeping.
   Mirrors, statement by statement, src/amisc/component.py:
     Component._neighbors          (lines 661-695)
     Component.update_misc_coeff   (lines 1074-1104)
     Component.activate_index      (guards 1119-1127, bookkeeping 1208-1220)
     Component.is_downward_closed  (lines 1341-1363)
   and src/amisc/system.py: System.simulate_fit (lines 527-583).
   A multi-index pair (alpha, beta) is modelled by the concatenation alpha ++ beta
   (len(alpha) is fixed per component, so the map is injective).
   Python sets are modelled by duplicate-free lists in insertion order; the
   correspondence check compares them as sets.  No proofs in this file. *)
From Coq Require Import List Arith ZArith Bool.
Import ListNotations.

Definition idx := list nat.

Fixpoint idx_eqb (a b : idx) : bool :=
  match a, b with
  | [], [] => true
  | x :: a', y :: b' => Nat.eqb x y && idx_eqb a' b'
  | _, _ => false
  end.

Fixpoint mem (i : idx) (s : list idx) : bool :=
  match s with
  | [] => false
  | j :: s' => idx_eqb i j || mem i s'
  end.

Fixpoint remove_idx (i : idx) (s : list idx) : list idx :=
  match s with
  | [] => []
  | j :: s' => if idx_eqb i j then remove_idx i s' else j :: remove_idx i s'
  end.

(* set.update(list): add the elements that are not yet present, in order *)
Definition add1 (s : list idx) (i : idx) : list idx := if mem i s then s else s ++ [i].
Definition add_all (s news : list idx) : list idx := fold_left add1 news s.

Fixpoint isum (i : idx) : nat := match i with [] => 0 | x :: r => x + isum r end.

(* pointwise <= with equal length *)
Fixpoint leb_idx (a b : idx) : bool :=
  match a, b with
  | [], [] => true
  | x :: a', y :: b' => Nat.leb x y && leb_idx a' b'
  | _, _ => false
  end.

(* unit shifts *)
Fixpoint inc (k : nat) (i : idx) : idx :=
  match i with
  | [] => []
  | x :: r => match k with 0 => S x :: r | S k' => x :: inc k' r end
  end.
Fixpoint dec (k : nat) (i : idx) : idx :=
  match i with
  | [] => []
  | x :: r => match k with 0 => pred x :: r | S k' => x :: dec k' r end
  end.

(* ---------------------------------------------------------------- _neighbors (forward) *)
(* for j in range(d): if ind_new[j]-1 >= 0: tup_check must be in active or equal (alpha,beta) *)
Definition back_ok (act : list idx) (self n : idx) : bool :=
  forallb (fun j => if Nat.ltb 0 (nth j n 0)
                    then (mem (dec j n) act || idx_eqb (dec j n) self)
                    else true)
          (seq 0 (length n)).

Definition neighbors (mx : idx) (act : list idx) (i : idx) : list idx :=
  flat_map (fun k => let n := inc k i in
                     if leb_idx n mx && back_ok act i n then [n] else [])
           (seq 0 (length i)).

(* ---------------------------------------------------------------- update_misc_coeff *)
Definition tree := list (idx * Z).

Fixpoint tget (c : tree) (i : idx) : option Z :=
  match c with
  | [] => None
  | (j, v) :: c' => if idx_eqb i j then Some v else tget c' i
  end.
Fixpoint tset (c : tree) (i : idx) (v : Z) : tree :=
  match c with
  | [] => [(i, v)]
  | (j, w) :: c' => if idx_eqb i j then (j, v) :: c' else (j, w) :: tset c' i v
  end.
Definition coeff (c : tree) (i : idx) : Z := match tget c i with Some v => v | None => 0%Z end.

(* diff = new - old; Some (sum |diff|) when every entry of diff is 0 or 1 *)
Fixpoint diff01 (n o : idx) : option nat :=
  match n, o with
  | [], [] => Some 0
  | x :: n', y :: o' =>
      if Nat.eqb x y then diff01 n' o'
      else if Nat.eqb x (S y) then option_map S (diff01 n' o')
      else None
  | _, _ => None
  end.

Definition sign (k : nat) : Z := if Nat.even k then 1%Z else (-1)%Z.

Definition bump (c : tree) (o : idx) (s : Z) : tree := tset c o (coeff c o + s)%Z.

Definition upd1 (set : list idx) (c : tree) (n : idx) : tree :=
  fold_left (fun c o => match diff01 n o with
                        | Some k => bump c o (sign k)
                        | None => c
                        end) (set ++ [n]) c.

(* `index_set` is evaluated once, before the loop over the new indices *)
Definition upd (news set : list idx) (c : tree) : tree := fold_left (upd1 set) news c.

(* ---------------------------------------------------------------- activate_index *)
Record st := mkst { active : list idx; cand : list idx; ctrain : tree; ctest : tree }.

Definition st0 : st := mkst [] [] [] [].

Definition accepts (s : st) (i : idx) : bool :=
  negb (mem i (active s)) && (mem i (cand s) || Nat.eqb (isum i) 0).

Definition activate (mx : idx) (s : st) (i : idx) : st :=
  if mem i (active s) then s
  else if negb (mem i (cand s)) && Nat.ltb 0 (isum i) then s
  else
    let nb := neighbors mx (active s) i in
    let ctrain' := upd [i] (active s) (ctrain s) in
    let inc_ := mem i (cand s) in
    let cand1 := if inc_ then remove_idx i (cand s) else cand s in
    let ctest1 := if inc_ then ctest s else upd [i] (active s ++ cand s) (ctest s) in
    let active' := add1 (active s) i in
    let ctest2 := upd nb (active' ++ cand1) ctest1 in
    mkst active' (add_all cand1 nb) ctrain' ctest2.

Definition run (mx : idx) (reqs : list idx) : st := fold_left (activate mx) reqs st0.

(* all intermediate states, one per request (accepted or not) *)
Fixpoint run_trace (mx : idx) (s : st) (reqs : list idx) : list st :=
  match reqs with
  | [] => []
  | r :: rest => let s' := activate mx s r in s' :: run_trace mx s' rest
  end.

(* look-ahead used by predict(index_set={c}, incremental=True) *)
Definition lookahead (s : st) (news : list idx) : tree := upd news (active s) (ctrain s).

(* ---------------------------------------------------------------- is_downward_closed *)
(* all j <= i pointwise, in itertools.product order *)
Fixpoint below (i : idx) : list idx :=
  match i with
  | [] => [[]]
  | x :: r => flat_map (fun v => map (cons v) (below r)) (seq 0 (S x))
  end.
Definition is_downward_closed (s : list idx) : bool :=
  forallb (fun i => forallb (fun j => mem j s) (below i)) s.

(* ---------------------------------------------------------------- simulate_fit *)
(* shadow structures; `_neighbors(..., active_set=shadow)` falls back to the live active set
   when the shadow set is empty (`active_set or self.active_set`) *)
Definition replay_step (mx : idx) (live : list idx) (s : st) (i : idx) : st :=
  let act_for_nb := match active s with [] => live | _ => active s end in
  let nb := neighbors mx act_for_nb i in
  let ctrain' := upd [i] (active s) (ctrain s) in
  let inc_ := mem i (cand s) in
  let cand1 := if inc_ then remove_idx i (cand s) else cand s in
  let ctest1 := if inc_ then ctest s else upd [i] (active s ++ cand s) (ctest s) in
  let active' := add1 (active s) i in
  let ctest2 := upd nb (active' ++ cand1) ctest1 in
  mkst active' (add_all cand1 nb) ctrain' ctest2.

Fixpoint replay (mx : idx) (live : list idx) (s : st) (hist : list idx) : list st :=
  match hist with
  | [] => []
  | i :: rest => let s' := replay_step mx live s i in s' :: replay mx live s' rest
  end.

(* accepted requests of a run = the per-component training history *)
Fixpoint accepted (mx : idx) (s : st) (reqs : list idx) : list idx :=
  match reqs with
  | [] => []
  | r :: rest => if accepts s r then r :: accepted mx (activate mx s r) rest
                 else accepted mx (activate mx s r) rest
  end.

(* ---------------------------------------------------------------- inclusion-exclusion spec *)
Fixpoint cube (d : nat) : list idx :=
  match d with
  | 0 => [[]]
  | S d' => map (cons 0) (cube d') ++ map (cons 1) (cube d')
  end.
Fixpoint addv (a b : idx) : idx :=
  match a, b with
  | x :: a', y :: b' => (x + y) :: addv a' b'
  | _, _ => []
  end.
Definition zsum (l : list Z) : Z := fold_right Z.add 0%Z l.
Definition IE (S : list idx) (i : idx) : Z :=
  zsum (map (fun e => if mem (addv i e) S then sign (isum e) else 0%Z) (cube (length i))).
