(* Model/Lagr.v — executable model of amisc's barycentric Lagrange interpolator
   (src/amisc/interpolator.py), per sample and per scalar output, polymorphic in the field operations.
     Lagrange._extend_grids   (137-166)  -> extend_grid
     Lagrange.refine          (168-209)  -> init_weights / extend_weights / refine1
     Lagrange.predict         (211-265)  -> node_tol / basis1 / tpredict
     Lagrange.gradient        (267-340)  -> dbasis1 / tgrad
     Lagrange.hessian         (342-466)  -> d2basis1 / thess
   and of the MISC combination in Component.predict (component.py:1048-1072) -> misc_predict.
   The tensor sum is written as nested 1-d sums (row-major, last dimension fastest, as
   itertools.product enumerates it); in exact arithmetic this equals the flat sum the code forms.
   No proofs in this file. *)
From Coq Require Import List Arith Bool.
From AmiscV Require Import Field.
Import ListNotations.

Section Lagr.
Context {F : Type} (K : ops F).
Local Notation f0 := (zero K).
Local Notation f1 := (one K).
Local Notation "x + y" := (add K x y).
Local Notation "x * y" := (mul K x y).
Local Notation "x - y" := (sub K x y).
Local Notation "x / y" := (divF K x y).

(* ------------------------------------------------------------------ grids and weights *)
(* _extend_grids: append the new values not yet in the grid, first occurrence only, in order *)
Definition extend_grid (old pts : list F) : list F :=
  fold_left (fun g p => if existsb (eqb K p) g then g else g ++ [p]) pts old.

(* initial weights: w_j = 1 / prod_i dist(j,i),  dist = (x_j - x_i)/C  with the diagonal set to 1 *)
Definition init_weights (C : F) (xs : list F) : list F :=
  map (fun j => inv K (prodF K (map (fun i => if Nat.eqb i j then f1
                                               else (nth j xs f0 - nth i xs f0) / C)
                                    (seq 0 (length xs)))))
      (seq 0 (length xs)).

(* incremental update, one new node at a time:
   weights[:j] *= C/(grid[:j]-grid[j]) ; weights[j] = prod(C/(grid[j]-grid[:j])) *)
Fixpoint extend_weights (C : F) (xs ws news : list F) : list F * list F :=
  match news with
  | [] => (xs, ws)
  | xn :: rest =>
      let ws1 := map2 (fun w xi => w * (C / (xi - xn))) ws xs in
      let wn := prodF K (map (fun xi => C / (xn - xi)) xs) in
      extend_weights C (xs ++ [xn]) (ws1 ++ [wn]) rest
  end.

(* Lagrange.refine for one input dimension: old = None initialises; when the grid of an existing state grows, ALL its
   weights are recomputed with the current capacity C (the domain may have moved since the old weights were computed);
   an unchanged grid keeps its weights.  The incremental update extend_weights above is the formula the code used
   before the repair recorded in known_findings.json; it is kept for C05_extend_weights and C04_weights_refuted. *)
Definition refine1 (C : F) (old : option (list F * list F)) (pts : list F) : list F * list F :=
  match old with
  | None => let g := extend_grid [] pts in (g, init_weights C g)
  | Some (xs, ws) =>
      let g := extend_grid xs pts in
      if Nat.ltb (length xs) (length g) then (g, init_weights C g) else (xs, ws)
  end.
(* the former incremental form, for the refutation *)
Definition refine1_incremental (C : F) (old : option (list F * list F)) (pts : list F) : list F * list F :=
  match old with
  | None => let g := extend_grid [] pts in (g, init_weights C g)
  | Some (xs, ws) => let g := extend_grid xs pts in extend_weights C xs ws (skipn (length xs) g)
  end.

(* ------------------------------------------------------------------ prediction *)
Definition snapped (tol x xk : F) : bool := leb K (absF K (x - xk)) tol.

(* the snapping tolerance of one dimension: rel * (max node - min node), the spread being replaced by 1
   when it is zero (interpolator.py: span = nanmax(x_j) - nanmin(x_j); span[span == 0] = 1; |diff| <= 1e-8 * span) *)
Definition span (xs : list F) : F :=
  match xs with
  | [] => f0
  | x :: r => fold_left (maxF K) r x - fold_left (minF K) r x
  end.
Definition node_tol (rel : F) (xs : list F) : F :=
  let s := span xs in rel * (if eqb K s f0 then f1 else s).

Definition count_true (l : list bool) : nat := length (filter (fun b => b) l).

(* per-node (diff with snapped entries replaced by 1, snapped flag) *)
Definition diffs1 (tol : F) (xs : list F) (x : F) : list (F * bool) :=
  map (fun xk => let s := snapped tol x xk in ((if s then f1 else x - xk), s)) xs.

(* 1-d basis values L_k(x), k = 0..n-1, exactly as coded: quotient/qsum, overridden by 1 at a snapped
   node and then by 0 when another node of this dimension is snapped *)
Definition basis1 (tol : F) (xs ws : list F) (x : F) : list F :=
  let ds := diffs1 tol xs x in
  let quot := map2 (fun w (d : F * bool) => w / fst d) ws ds in
  let qsum := sumF K quot in
  let nsn := count_true (map snd ds) in
  map2 (fun q (d : F * bool) => let s := snd d in
                   if Nat.ltb (if s then 1 else 0)%nat nsn then f0
                   else if s then f1 else q / qsum) quot ds.

Fixpoint chunks {A} (n sz : nat) (l : list A) : list (list A) :=
  match n with
  | O => []
  | S n' => firstn sz l :: chunks n' sz (skipn sz l)
  end.

(* one grid: (tolerance, nodes, weights) *)
Definition grid := (F * (list F * list F))%type.
Definition gsize (g : grid) : nat := length (fst (snd g)).
Definition gsizes (gs : list grid) : nat := fold_right Nat.mul 1%nat (map gsize gs).
(* the grid of a Lagrange state: tolerance derived from the node spread *)
Definition mk_grid (rel : F) (xs ws : list F) : grid := (node_tol rel xs, (xs, ws)).

Fixpoint tpredict (gs : list grid) (x : list F) (ys : list F) : F :=
  match gs, x with
  | [], _ => hd f0 ys
  | (tol, (xs, ws)) :: gs', x0 :: x' =>
      sumF K (map2 (fun b ch => b * tpredict gs' x' ch)
                   (basis1 tol xs ws x0) (chunks (length xs) (gsizes gs') ys))
  | _, [] => f0
  end.

(* ------------------------------------------------------------------ gradient *)
(* derivative of the 1-d basis functions at x, as coded (generic branch, at-this-node branch,
   at-another-node branch; the last one overrides) *)
Definition dbasis1 (tol : F) (xs ws : list F) (x : F) : list F :=
  let ds := diffs1 tol xs x in
  let quot := map2 (fun w (d : F * bool) => w / fst d) ws ds in
  let qsum := sumF K quot in
  let sqsum := sumF K (map2 (fun w d => w / (fst d * fst d)) ws ds) in
  let n := length xs in
  map (fun j =>
    let wj := nth j ws f0 in let dj := nth j ds (f1, false) in
    let generic := (wj / (qsum * fst dj)) * (sqsum / qsum - f1 / fst dj) in
    (* first other snapped node, if any *)
    let others := filter (fun p => negb (Nat.eqb p j) && snd (nth p ds (f1, false))) (seq 0 n) in
    match others with
    | s :: _ => (wj / nth s ws f0) / (x - nth j xs f0)
    | [] =>
        if snd dj
        then opp K (sumF K (map (fun p => (nth p ws f0 / wj) / (x - nth p xs f0))
                                (filter (fun p => negb (Nat.eqb p j)) (seq 0 n))))
        else generic
    end) (seq 0 n).

(* d/dx_k of the tensor interpolant: dimension k uses dbasis1, the others basis1 *)
Fixpoint tgrad (k : nat) (gs : list grid) (x : list F) (ys : list F) : F :=
  match gs, x with
  | [], _ => f0
  | (tol, (xs, ws)) :: gs', x0 :: x' =>
      match k with
      | O => sumF K (map2 (fun b ch => b * tpredict gs' x' ch)
                          (dbasis1 tol xs ws x0) (chunks (length xs) (gsizes gs') ys))
      | S k' => sumF K (map2 (fun b ch => b * tgrad k' gs' x' ch)
                             (basis1 tol xs ws x0) (chunks (length xs) (gsizes gs') ys))
      end
  | _, [] => f0
  end.

(* ------------------------------------------------------------------ Hessian (interpolator.py:342-466) *)
(* second derivative of the 1-d basis functions at x, as coded: generic branch front*(first+second) with
   qsum_p = -sum w/d^2, qsum_pp = 2 sum w/d^3; at this node 2 (sum_p (w_p/w_j)/(x-x_p))^2 + 2 sum_p (w_p/w_j)/(x-x_p)^2;
   at another node s: (-2 (w_j/w_s)/(x_s-x_j)) * (sum_{p<>s} (w_p/w_s)/(x_s-x_p) + 1/(x_s-x_j)), which uses the NODE x_s
   (not the evaluation point); the last one overrides *)
Definition d2basis1 (tol : F) (xs ws : list F) (x : F) : list F :=
  let ds := diffs1 tol xs x in
  let quot := map2 (fun w (d : F * bool) => w / fst d) ws ds in
  let qsum := sumF K quot in
  let qp := opp K (sumF K (map2 (fun w (d : F * bool) => w / (fst d * fst d)) ws ds)) in
  let two := f1 + f1 in
  let qpp := two * sumF K (map2 (fun w (d : F * bool) => w / (fst d * fst d * fst d)) ws ds) in
  let n := length xs in
  map (fun j =>
    let wj := nth j ws f0 in let dj := nth j ds (f1, false) in
    let front := wj / (qsum * fst dj) in
    let first := opp K (qpp / qsum) + two * ((qp / qsum) * (qp / qsum)) in
    let second := two * (qp / (qsum * fst dj)) + two / (fst dj * fst dj) in
    let generic := front * (first + second) in
    let others := filter (fun p => negb (Nat.eqb p j) && snd (nth p ds (f1, false))) (seq 0 n) in
    match others with
    | s :: _ =>
        let xsn := nth s xs f0 in let wsn := nth s ws f0 in
        let cdiff := xsn - nth j xs f0 in
        (opp K two * (wj / wsn) / cdiff) *
        (sumF K (map (fun p => (nth p ws f0 / wsn) / (xsn - nth p xs f0))
                     (filter (fun p => negb (Nat.eqb p s)) (seq 0 n))) + f1 / cdiff)
    | [] =>
        if snd dj
        then let r := filter (fun p => negb (Nat.eqb p j)) (seq 0 n) in
             let s1 := sumF K (map (fun p => (nth p ws f0 / wj) / (x - nth p xs f0)) r) in
             let s2 := sumF K (map (fun p => (nth p ws f0 / wj) / ((x - nth p xs f0) * (x - nth p xs f0))) r) in
             two * (s1 * s1) + two * s2
        else generic
    end) (seq 0 n).

(* d2/dx_m dx_n of the tensor interpolant: m = n uses d2basis1 in that dimension; m <> n uses dbasis1 in both *)
Fixpoint thess (m n : nat) (gs : list grid) (x : list F) (ys : list F) : F :=
  match gs, x with
  | [], _ => f0
  | (tol, (xs, ws)) :: gs', x0 :: x' =>
      let ch := chunks (length xs) (gsizes gs') ys in
      match m, n with
      | O, O => sumF K (map2 (fun b c => b * tpredict gs' x' c) (d2basis1 tol xs ws x0) ch)
      | O, S n' => sumF K (map2 (fun b c => b * tgrad n' gs' x' c) (dbasis1 tol xs ws x0) ch)
      | S m', O => sumF K (map2 (fun b c => b * tgrad m' gs' x' c) (dbasis1 tol xs ws x0) ch)
      | S m', S n' => sumF K (map2 (fun b c => b * thess m' n' gs' x' c) (basis1 tol xs ws x0) ch)
      end
  | _, [] => f0
  end.

(* ------------------------------------------------------------------ MISC combination *)
(* terms: (weight, grids, data) for the indices of the set in use; zero weights are skipped *)
Definition misc_predict (terms : list (F * (list grid * list F))) (x : list F) : F :=
  sumF K (map (fun t => fst t * tpredict (fst (snd t)) x (snd (snd t)))
              (filter (fun t => negb (eqb K (fst t) f0)) terms)).
Definition misc_grad (k : nat) (terms : list (F * (list grid * list F))) (x : list F) : F :=
  sumF K (map (fun t => fst t * tgrad k (fst (snd t)) x (snd (snd t)))
              (filter (fun t => negb (eqb K (fst t) f0)) terms)).

Definition misc_hess (m n : nat) (terms : list (F * (list grid * list F))) (x : list F) : F :=
  sumF K (map (fun t => fst t * thess m n (fst (snd t)) x (snd (snd t)))
              (filter (fun t => negb (eqb K (fst t) f0)) terms)).

(* sum of absolute values of the summands, for the condition-aware rounding bound of DESIGN 3.3 *)
Fixpoint tpredict_abs (gs : list grid) (x : list F) (ys : list F) : F :=
  match gs, x with
  | [], _ => absF K (hd f0 ys)
  | (tol, (xs, ws)) :: gs', x0 :: x' =>
      sumF K (map2 (fun b ch => absF K b * tpredict_abs gs' x' ch)
                   (basis1 tol xs ws x0) (chunks (length xs) (gsizes gs') ys))
  | _, [] => f0
  end.
End Lagr.
