(* Model/Monitor.v — monitoring in System.fit (src/amisc/system.py:663-744) as observers of the training loop.
   Between refinement steps fit() may evaluate a test set (test_set_performance), plot and save figures, write the
   surrogate to file and log; all of these read the state.  `mon` is whatever those branches do to the process state;
   `learned` projects a process state onto what is learned (training history, index sets, stored data, cost
   accounts, variable domains AND the position of the global random stream).  No proofs in this file. *)
From Coq Require Import List Qcanon.
From AmiscV Require Import Refine.

Section Monitor.
Variables St L : Type.
Variable learned : St -> L.
Variable step : St -> option (St * option Qc).
Variable mon : St -> St.

(* one refinement step followed by the monitoring branches *)
Definition step_mon (s : St) : option (St * option Qc) :=
  match step s with
  | Some (s', e) => Some (mon s', e)
  | None => None
  end.

Definition fit_plain := fit St step.
Definition fit_monitored := fit St step_mon.
End Monitor.
