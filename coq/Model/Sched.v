(* Model/Sched.v — executable model of how amisc uses a concurrent.futures.Executor
   (src/amisc/component.py:883-907 call_model, 1058-1063 predict, 1264-1268 gradient; src/amisc/system.py:813-819 refine):
     futures are created by executor.submit in submission order 0..n-1 and kept in a list;
     wait(futures, return_when=ALL_COMPLETED) returns when every task has finished, in whatever order the pool ran them;
     results are then read from the list in SUBMISSION order; a task that raised is recorded as an error at its
     submission index.
   The schedule is an arbitrary sequence sigma of task indices (the order in which the pool completes them; repeated or
   out-of-range entries are harmless).  The serial path evaluates in order; the vectorised path makes one call on the
   whole batch with a batch function that is assumed pointwise.  No proofs in this file. *)
From Coq Require Import List Arith Bool.
Import ListNotations.

Section Sched.
Variables X Y : Type.
Variable f : X -> option Y.            (* None = the task raised *)

Fixpoint update {A} (i : nat) (v : A) (l : list A) : list A :=
  match l, i with
  | [], _ => []
  | _ :: r, 0 => v :: r
  | a :: r, S i' => a :: update i' v r
  end.

(* slot = None: not finished yet; Some r: finished with result r *)
Definition run_one (xs : list X) (slots : list (option (option Y))) (i : nat) : list (option (option Y)) :=
  match nth_error xs i with
  | Some x => update i (Some (f x)) slots
  | None => slots
  end.
Definition complete (xs : list X) (sigma : list nat) : list (option (option Y)) :=
  fold_left (run_one xs) sigma (repeat None (length xs)).

(* wait(ALL_COMPLETED) then [fs.result() for fs in futures] *)
Definition all_done (slots : list (option (option Y))) : bool :=
  forallb (fun s => match s with Some _ => true | None => false end) slots.
Definition gather (slots : list (option (option Y))) : option (list (option Y)) :=
  if all_done slots then Some (map (fun s => match s with Some r => r | None => None end) slots) else None.

Definition executor_path (xs : list X) (sigma : list nat) : option (list (option Y)) := gather (complete xs sigma).
Definition serial_path (xs : list X) : list (option Y) := map f xs.
(* errors dict: submission indices whose task raised *)
Definition error_indices (rs : list (option Y)) : list nat :=
  map fst (filter (fun p => match snd p with None => true | Some _ => false end) (combine (seq 0 (length rs)) rs)).
End Sched.
