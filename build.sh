#!/bin/bash
# Build the Coq development (full .vo build) and the extracted model driver.
#   build.sh            : everything (setup_cmd)
#   build.sh Props/C01.vo ... : only the named Coq targets (plus the driver)
# Serialised with flock so concurrent checks do not race in the build tree.
set -u
cd "$(dirname "$0")"
ROOT=$(pwd)
exec 9>"$ROOT/.build.lock"
flock 9
cd "$ROOT/coq"
if [ ! -f Makefile ] || [ _CoqProject -nt Makefile ]; then
  coq_makefile -f _CoqProject -o Makefile >/dev/null || exit 2
fi
if [ $# -eq 0 ]; then
  timeout 3000 make -j16 2>&1 | grep -v '^COQDEP\|^COQC\|^make' ; rc=${PIPESTATUS[0]}
else
  timeout 3000 make -j16 "$@" 2>&1 | grep -v '^COQDEP\|^COQC\|^make' ; rc=${PIPESTATUS[0]}
fi
if [ "$rc" -ne 0 ]; then echo "BUILD-FAIL coq rc=$rc"; exit 1; fi
# --- extraction + driver (only when a model or the driver changed)
cd "$ROOT/ocaml"
mkdir -p gen
stamp=gen/.stamp
need=0
[ -f "$stamp" ] && [ -x _build/default/gen/driver.exe ] || need=1
for f in "$ROOT"/coq/Model/*.v "$ROOT"/coq/Extract/Extract.v driver.ml dune-gen; do
  [ "$f" -nt "$stamp" ] && need=1
done
if [ "$need" -eq 1 ]; then
  (cd "$ROOT/coq" && timeout 3000 make -j16 $(ls Model/*.v | sed 's/\.v$/.vo/') 2>&1 | grep -v '^COQDEP\|^COQC\|^make')
  rm -f gen/*.ml gen/*.mli
  cp dune-gen gen/dune
  (cd gen && timeout 600 coqc -Q ../../coq AmiscV ../../coq/Extract/Extract.v >/dev/null) || { echo "BUILD-FAIL extraction"; exit 1; }
  timeout 600 dune build ./gen/driver.exe 2>&1 || { echo "BUILD-FAIL dune"; exit 1; }
  touch "$stamp"
fi
exit 0
