#!/bin/bash
# run every registered quick check on the current tree; print one line per check
cd "$(dirname "$0")"
tier=${1:-quick}
for pid in $(/venv/bin/python -c "import json; print(' '.join(c['property_id'] for c in json.load(open('MANIFEST.json'))['checks']))"); do
  start=$(date +%s)
  out=$(./check $pid --tier $tier 2>&1)
  rc=$?
  echo "$pid rc=$rc $(( $(date +%s) - start ))s $(echo "$out" | grep -c '^VIOLATION') violations; $(echo "$out" | tail -1 | cut -c1-160)"
done
