"""C19: monitoring and bookkeeping options never influence what is learned."""
from __future__ import annotations

import contextlib
import hashlib
import io
import itertools
import os
import random
import shutil

import numpy as np

from common import Ctx, WORK, import_amisc
import systems


def rng_fingerprint():
    st = np.random.get_state()
    return hashlib.sha1(st[1].tobytes() + str(st[2:]).encode()).hexdigest()


def one_run(sys_seed, np_seed, niter, opts, kind, tmp):
    import logging
    r = random.Random(sys_seed)
    root = None
    if opts['root_dir']:
        root = tmp / f'run_{abs(hash(str(sorted(opts.items())))) % 10 ** 8}_{sys_seed}'
        root.mkdir(parents=True, exist_ok=True)
    if kind == 'loop':
        system, _ = systems.random_loop_system(r, size=2, name='mon', extra=True)
        if root is not None:
            system.root_dir = root
    else:
        system, _ = systems.persist_chain_system(r, ncomp=3, name='mon', root_dir=root, norms=False)     # up to 6 outputs: more than the 3 that are plotted
    test_set = None
    if opts['test_set']:
        rs = np.random.RandomState(sys_seed)
        nt = {'large': 1200, 'huge': 6500}.get(opts['test_set'], 6)      # a large test set must be treated like a small one (no subsampling from the global stream)
        xt = {str(v): rs.rand(nt) * (v.get_domain()[1] - v.get_domain()[0]) + v.get_domain()[0] for v in system.inputs()}
        yt = system.predict(xt, use_model='best', normalized_inputs=False)
        test_set = (xt, {k: np.asarray(v) for k, v in yt.items()})
        if opts['test_set'] == 'partial' and len(yt) > 1:      # reference values for the last output only
            last = list(yt.keys())[-1]
            test_set = (xt, {last: np.asarray(yt[last])})
    sink = io.StringIO()
    if opts['log'] == 'stdout':
        with contextlib.redirect_stdout(sink), contextlib.redirect_stderr(sink):
            system.set_logger(stdout=True)      # the handler binds the stream that is current now
    elif opts['log'] == 'file':
        (tmp / 'logs').mkdir(parents=True, exist_ok=True)
        system.set_logger(log_file=str(tmp / 'logs' / f'log_{sys_seed}_{abs(hash(str(sorted(opts.items())))) % 10 ** 8}.log'))
    logging.disable(logging.NOTSET if opts['log'] != 'none' else logging.CRITICAL)
    np.random.seed(np_seed)
    try:
        with contextlib.redirect_stdout(sink), contextlib.redirect_stderr(sink):
            # 'two_stage': the same number of iterations in two consecutive fit() calls (the second starts from a history that carries test errors)
            stages = [niter] if not opts.get('two_stage') else [niter // 2, niter - niter // 2]
            for it_ in stages:
                system.fit(max_iter=it_, num_refine=12, max_tol=opts.get('max_tol', -1.0), test_set=test_set, save_interval=opts['save_interval'],
                           plot_interval=opts['plot_interval'], start_test_check=1)      # the test set is evaluated from the first iteration on
    finally:
        logging.disable(logging.CRITICAL)
    fp = rng_fingerprint()
    xq = system.sample_inputs(4)
    pred = system.predict(xq)
    st = systems.system_state(system)
    return {'digest': systems.digest(st), 'rng': fp, 'pred': {k: np.asarray(v).tolist() for k, v in pred.items()},
            'history': [(h['component'], h['alpha'], h['beta'], h['num_evals']) for h in st['history']], 'state': st,
            'errors': [float(h['added_error']) for h in st['history']]}


def run(ctx: Ctx):
    import_amisc()
    rng = ctx.rng
    tmp = WORK / f'c19_tmp_{os.getpid()}'
    shutil.rmtree(tmp, ignore_errors=True)
    tmp.mkdir(parents=True, exist_ok=True)
    ctx.rule = ('for each system (feed-forward chains with module-level models, and a feedback loop) and numpy seed: one run of fit() without any '
                'monitoring, then runs over the product {test set given / not (plus one run with a 1200-sample test set)} x {save_interval 0, 2} x {plot_interval 0, 1} x {root_dir set / '
                'not} x {no logging, stdout, log file} (quick: a random third of the 48 combinations per system; thorough: all); compared: digest '
                'of index sets, weights, stored data, costs, domains and history, refinement choices, the position of the global random stream '
                'after training, and predictions; non-trivial = a combination that differs from the baseline in at least one option')
    combos = [dict(zip(('test_set', 'save_interval', 'plot_interval', 'root_dir', 'log'), c))
              for c in itertools.product([False, True], [0, 2], [0, 1], [False, True], ['none', 'stdout', 'file'])]
    base_opts = combos[0]
    try:
        for n in range(ctx.pick(3, 10)):
            sys_seed = ctx.seed * 1000 + n; np_seed = rng.randint(0, 10 ** 6); niter = rng.randint(4, 6)
            kind = 'loop' if n % 3 == 2 else 'chain'
            base = one_run(sys_seed, np_seed, niter, base_opts, kind, tmp)
            todo = combos[1:] if not ctx.quick else rng.sample(combos[1:], 13)
            if ctx.quick:     # always include the combinations that switch on every monitoring branch
                todo += [c for c in combos if c['test_set'] and c['root_dir'] and c['plot_interval'] == 1 and c['log'] == 'none'][:2]
            # a run that ends because the tolerance is met (not the iteration limit): with and without a root directory
            errs = sorted(e for e in base['errors'] if e == e and e > 0)
            if len(errs) >= 2:
                tol = errs[-1] * 1.0001       # met by the first error-driven step: strictly earlier than the iteration limit
                base_t = one_run(sys_seed, np_seed, niter, {**base_opts, 'max_tol': tol}, kind, tmp)
                for o_ in ({**base_opts, 'root_dir': True, 'max_tol': tol}, {**base_opts, 'root_dir': True, 'save_interval': 2, 'test_set': True, 'max_tol': tol}):
                    case_t = {'system_seed': sys_seed, 'kind': kind, 'numpy_seed': np_seed, 'iterations': niter, 'options': o_}
                    ctx.case(case_t, nontrivial=True, kind=kind + ':tolerance-stop')
                    r_t = one_run(sys_seed, np_seed, niter, o_, kind, tmp)
                    if r_t['history'] != base_t['history'] or r_t['digest'] != base_t['digest']:
                        ctx.violate('C19:refinement-choices-change', f'options {o_}: training stopped by max_tol={tol} after {len(r_t["history"])} steps, the run '
                                    f'without monitoring after {len(base_t["history"])}', case_t)
            if kind == 'chain':      # one more combination per chain system: a test set of more than a thousand samples
                todo = todo + [{'test_set': 'large', 'save_interval': 0, 'plot_interval': 0, 'root_dir': False, 'log': 'none'}]
                if n == 0:       # ... and once a test set of several thousand samples (start_test_check=1 so that it is evaluated from the first step on)
                    todo = todo + [{'test_set': 'huge', 'save_interval': 0, 'plot_interval': 0, 'root_dir': False, 'log': 'none'}]
            # a test set that holds reference values for only some of the outputs, with and without a root directory (plots)
            todo = todo + [{'test_set': 'partial', 'save_interval': 0, 'plot_interval': 1, 'root_dir': True, 'log': 'none'},
                           {'test_set': 'partial', 'save_interval': 0, 'plot_interval': 1, 'root_dir': True, 'log': 'none', 'two_stage': True},
                           {'test_set': True, 'save_interval': 2, 'plot_interval': 1, 'root_dir': True, 'log': 'none', 'two_stage': True},
                           {'test_set': 'partial', 'save_interval': 0, 'plot_interval': 0, 'root_dir': False, 'log': 'none'}]
            for opts in todo:
                case = {'system_seed': sys_seed, 'kind': kind, 'numpy_seed': np_seed, 'iterations': niter, 'options': opts}
                ctx.case(case, nontrivial=True, kind=kind)
                try:
                    r = one_run(sys_seed, np_seed, niter, opts, kind, tmp)
                except Exception as e:
                    ctx.violate('C19:monitored-run-raises', f'fit with {opts} raised {type(e).__name__}: {e}', case); continue
                if r['history'] != base['history']:
                    ctx.violate('C19:refinement-choices-change', f'options {opts}: history {r["history"]} vs baseline {base["history"]}', case)
                elif r['digest'] != base['digest']:
                    a, b = r['state'], base['state']
                    diff = [f'{c}.{k}' for c in a['components'] for k in a['components'][c] if a['components'][c][k] != b['components'][c][k]]
                    diff += ['domains'] if a['domains'] != b['domains'] else []
                    ctx.violate('C19:learned-state-changes', f'options {opts}: {diff or "history values"} differ from the run without monitoring', case)
                if r['rng'] != base['rng']:
                    ctx.violate('C19:random-stream-consumed-by-monitoring', f'options {opts}: the global random stream is at a different position after training', case)
                if any(not systems.floats_close(r['pred'][k], base['pred'][k], rtol=1e-12) for k in base['pred']):
                    ctx.violate('C19:predictions-change', f'options {opts}: predictions differ from the run without monitoring', case)
        run_verbose(ctx)
    finally:
        shutil.rmtree(tmp, ignore_errors=True)


def run_verbose(ctx: Ctx):
    """asking predict() for verbose output changes only the log: same values, same NaN pattern (also for samples that do not converge)"""
    import logging
    rng = ctx.rng
    for n in range(ctx.pick(5, 30)):
        r = random.Random(ctx.seed * 71 + n)
        system, spec = systems.random_loop_system(r, size=r.randint(2, 3), name=f'vb{n}', extra=True, nonlinear=r.random() < 0.5)
        xs = {f'x{i}': np.array([round(rng.random(), 4) for _ in range(5)]) for i in range(spec['size'])}
        maxit = rng.choice([0, 1, 2, 3, 50]); amem = rng.choice([1, 3, 10])
        case = {'verbose_case': n, 'max_fpi_iter': maxit, 'anderson_mem': amem, 'x': {k: v.tolist() for k, v in xs.items()}}
        ctx.case(case, nontrivial=True, kind='verbose-predict')
        quiet = system.predict(xs, use_model='best', max_fpi_iter=maxit, anderson_mem=amem, verbose=False)
        sink = io.StringIO()
        logging.disable(logging.NOTSET)
        try:
            with contextlib.redirect_stdout(sink), contextlib.redirect_stderr(sink):
                loud = system.predict(xs, use_model='best', max_fpi_iter=maxit, anderson_mem=amem, verbose=True)
        finally:
            logging.disable(logging.CRITICAL)
        for k in quiet:
            if not systems.floats_close(quiet[k], loud[k], rtol=0, atol=0):
                ctx.violate('C19:verbose-changes-prediction', f'{k}: {np.asarray(quiet[k]).tolist()} with verbose=False, {np.asarray(loud[k]).tolist()} with verbose=True', case)
                break
