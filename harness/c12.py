"""C12: save/load preserves a system exactly and training can resume from it."""
from __future__ import annotations

import os
import random
import shutil
from pathlib import Path

import numpy as np

from common import Ctx, WORK, enc, run_model, ModelError, import_amisc
import systems


def build(kind, sys_seed, root):
    r = random.Random(sys_seed)
    if kind == 'field':
        system, _ = systems.field_input_system(r, name='sl')
        # field_input_system uses a closure model: give it the module-level twin so that it can be re-loaded
        import models_lib
        comp = system.components[0]
        comp.model = models_lib.field_amp_model
        if root is not None:
            system.root_dir = root
        return system
    system, _ = systems.persist_chain_system(r, ncomp=r.randint(1, 3), name='sl', root_dir=root, norms=(kind == 'norms'),
                                             no_surrogate_prob=(0.4 if kind == 'nosurr' else 0.0), costs=(kind == 'costs'), with_alpha=True,
                                             grid_opts=True)      # non-default SparseGrid settings: they must survive a save made before a component is trained
    return system


class reseeding:
    """while active, every System.refine call first seeds numpy with base + current refine level (class-level patch, so nothing is
    attached to the instance and nothing leaks into the saved file)"""
    def __init__(self, base):
        self.base = base

    def __enter__(self):
        from amisc import System
        self.orig = System.refine
        base, orig = self.base, self.orig

        def refine(self_, *a, **k):
            np.random.seed(base + self_.refine_level)
            return orig(self_, *a, **k)
        System.refine = refine
        return self

    def __exit__(self, *exc):
        from amisc import System
        System.refine = self.orig
        return False


def full_state(system):
    st = systems.system_state(system)
    def fl(d):
        if d is None:
            return None
        return [[float(a), float(b)] for a, b in d] if isinstance(d, list) else [float(d[0]), float(d[1])]
    st['variables'] = {str(v): {'domain': str(fl(v.get_domain())), 'norm': str([str(t) for t in v.norm]) if v.norm else 'None', 'dist': str(v.distribution), 'nominal': str(np.asarray(v.get_nominal(), dtype=float).tolist() if v.get_nominal() is not None else None),
                                'raw_fields': str((v.nominal, v.description, v.units, v.tex, v.category)),
                                # what the distribution IS, not only how it prints: arguments, log base, density at three points of the domain
                                'dist_detail': (None if v.distribution is None else
                                                str(([float(t) for t in np.ravel(v.distribution.dist_args)], getattr(v.distribution, 'base', None),
                                                     [float(t) for t in np.ravel(v.distribution.pdf(np.array([d_[0] + f_ * (d_[1] - d_[0]) for f_ in (0.2, 0.5, 0.9)])))]
                                                     if (d_ := v.get_domain()) is not None and not isinstance(d_, list) else None)))}
                       for v in system.variables()}
    for c in system.components:
        st['components'][c.name]['model_kwargs'] = str(dict(c.model_kwargs.data)) if hasattr(c.model_kwargs, 'data') else str(c.model_kwargs)
        st['components'][c.name]['fidelity'] = (str(c.model_fidelity), str(c.data_fidelity), str(c.surrogate_fidelity))
        if c.has_surrogate:      # the settings of the training data and of the interpolator are part of what a save must keep
            td = c.training_data
            st['components'][c.name]['training_data_settings'] = {k: str(getattr(td, k, None)) for k in
                                                                  ('collocation_rule', 'knots_per_level', 'expand_latent_method', 'opt_args')}
            st['components'][c.name]['interpolator'] = str(c.interpolator)
    return st


def history_equiv(ha, hb):
    """two training histories agree: same choices, evaluation counts and costs exactly; the error indicator (a relative difference of nearly
    equal predictions, recomputed after a load) up to rounding"""
    if len(ha) != len(hb):
        return False
    for a, b in zip(ha, hb):
        if any(a[k] != b[k] for k in ('component', 'alpha', 'beta', 'num_evals', 'added_cost')):
            return False
        if not systems.floats_close([a['added_error']], [b['added_error']], rtol=1e-9, atol=1e-13):
            return False
    return True


def diff_states(a, b):
    out = []
    for c in a['components']:
        if c not in b['components']:
            out.append(f'component {c} missing'); continue
        for k in a['components'][c]:
            if systems.digest(a['components'][c][k]) != systems.digest(b['components'][c].get(k)):
                out.append(f'{c}.{k}')
    for k in ('history', 'domains', 'variables'):
        if systems.digest(a[k]) != systems.digest(b[k]):
            out.append(k)
    return out


def run(ctx: Ctx):
    import_amisc()
    import c12s
    c12s.run_search(ctx)       # amisc.utils.search_for_file versus Model/Search.v
    from amisc import System
    rng = ctx.rng
    tmp = WORK / f'c12_tmp_{os.getpid()}'
    shutil.rmtree(tmp, ignore_errors=True)
    tmp.mkdir(parents=True, exist_ok=True)
    cwd0 = os.getcwd()
    ctx.rule = ('random systems (multi-fidelity chains, normalised variables, components without surrogate, cost-reporting models, a field-quantity '
                'input) trained with fit(save_interval=1): after EVERY iteration the saved file is loaded - from a different working directory and, '
                'for half of the save points, after the whole save directory was moved - and compared with the live state at that iteration '
                '(variables, index sets, both weight trees, stored data, costs, history), predictions in both modes, and continued training from '
                'the loaded system versus an uninterrupted twin with per-iteration reseeding; multi-index strings also go through Model/Codec.v; '
                'non-trivial = save point with at least two activations')
    lines, meta = [], []
    tlines, tmeta = [], []
    try:
        for n in range(ctx.pick(6, 50)):
            kind = ['plain', 'norms', 'nosurr', 'costs', 'field', 'plain'][n % 6]
            sys_seed = ctx.seed * 977 + n; np_seed = rng.randint(0, 10 ** 6)
            K = rng.randint(3, 5); extra = rng.randint(1, 3)
            root = tmp / f'sys{n}'; root.mkdir()
            system = build(kind, sys_seed, root)
            if not any(c.has_surrogate for c in system.components):
                continue
            live = {}
            xq = None
            try:
              with reseeding(np_seed):
                system.fit(max_iter=K, num_refine=10, max_tol=-1.0, save_interval=1)
                # live snapshots per iteration are re-created by a twin below; first collect the final reference of the FULL run
                twin_full = build(kind, sys_seed, None)
                snaps = {}
                for it in range(1, K + extra + 1):
                    twin_full.fit(max_iter=1, num_refine=10, max_tol=-1.0)
                    if twin_full.refine_level != it:
                        break
                    snaps[it] = full_state(twin_full)
                    if xq is None:
                        np.random.seed(7); xq = twin_full.sample_inputs(4)
                    snaps[it]['pred'] = {m: {k: np.asarray(v).tolist() for k, v in twin_full.predict(xq, index_set=m).items()} for m in ('train', 'test')}
            except Exception as e:
                ctx.violate('C12:training-raises', f'{type(e).__name__}: {e}', {'system': n, 'kind': kind}); continue
            files = sorted((system.root_dir / 'surrogates').glob('*/*.yml'), key=lambda f: int(f.stem.split('iter')[-1]))
            moved_root = None
            for f in files:
                it = int(f.stem.split('iter')[-1])
                if it not in snaps:
                    continue
                case = {'system': n, 'kind': kind, 'save_point': it, 'numpy_seed': np_seed}
                ctx.case(case, nontrivial=it >= 2, kind=kind)
                move = (it % 2 == 0)
                if move:
                    # move the whole save directory (yml + pkl files) as a unit and load from an unrelated working directory
                    dst = tmp / f'moved_{n}_{it}'
                    shutil.copytree(f.parent, dst)
                    shutil.rmtree(f.parent)
                    f2 = dst / f.name
                    os.chdir(tmp)
                else:
                    f2 = f
                    os.chdir(root)
                case['moved'] = move
                try:
                    loaded = System.load_from_file(f2)
                except Exception as e:
                    ctx.violate('C12:load-raises', f'loading the file saved at iteration {it} (moved={move}) raised {type(e).__name__}: {e}', case)
                    os.chdir(cwd0); continue
                finally:
                    os.chdir(cwd0)
                st = full_state(loaded)
                d = diff_states(snaps[it], st)
                if d:
                    ctx.violate('C12:loaded-state-differs', f'iteration {it} (moved={move}): {d} differ between the live system and the loaded file', case)
                    continue
                for m in ('train', 'test'):
                    p = loaded.predict(xq, index_set=m)
                    for k, v in snaps[it]['pred'][m].items():
                        if not systems.floats_close(p[k], v, rtol=1e-10, atol=1e-12):
                            ctx.violate('C12:loaded-prediction-differs', f'iteration {it}: {m}-mode prediction of {k} differs after load', case)
                # resume training from the loaded system and compare with the uninterrupted twin
                if it + 1 in snaps:
                    loaded.root_dir = None
                    try:
                        with reseeding(np_seed):
                            loaded.fit(max_iter=1, num_refine=10, max_tol=-1.0)
                    except Exception as e:
                        ctx.violate('C12:resume-raises', f'continuing training from the file saved at iteration {it} raised {type(e).__name__}: {e}', case); continue
                    st2 = full_state(loaded)
                    d2 = diff_states(snaps[it + 1], st2)
                    if d2 == ['history'] and history_equiv(snaps[it + 1]['history'], st2['history']):
                        d2 = []
                    if d2:
                        ctx.violate('C12:resumed-training-differs', f'one more step from the loaded iteration {it}: {d2} differ from the uninterrupted run', case)
                    ctx.count('resumes')
                # the weight trees and index sets as they are written: MiscTree.serialize / IndexSet.serialize versus Model/Codec.v save_tree /
                # save_index_set on the same items in the same insertion order (weights are integers)
                for c in loaded.components:
                    if not c.has_surrogate:
                        continue
                    for tree in (c.misc_coeff_train, c.misc_coeff_test):
                        items = [[list(a), list(b), int(round(float(v)))] for a, b, v in tree]
                        if not items or any(abs(float(v) - round(float(v))) > 0 for _, _, v in tree):
                            continue
                        ser = tree.serialize()
                        want_nested = [[k, [[kb, int(round(float(v)))] for kb, v in inner.items()]] for k, inner in ser.items() if isinstance(inner, dict)]
                        tlines.append('codec_tree ' + enc([items]))
                        tmeta.append((case, want_nested, [str(t) for t in [(tuple(a), tuple(b)) for a, b, _ in tree]]))
                # multi-index strings: model codec correspondence
                for c in loaded.components:
                    for a, b in list(c.active_set)[:3]:
                        lines.append('codec_tuple ' + enc([list(a)])); meta.append((case, str(tuple(a))))
                        lines.append('codec_tuple ' + enc([list(b)])); meta.append((case, str(tuple(b))))
    finally:
        os.chdir(cwd0)
        shutil.rmtree(tmp, ignore_errors=True)
    run_resave_and_stale(ctx)
    for (case, want_nested, want_pairs), mo in zip(tmeta, run_model(tlines, shards=4) if tlines else []):
        ctx.count('weight_trees_compared')
        if isinstance(mo, ModelError):
            ctx.disagree('C12:model-error', case, str(mo), None); continue
        got_nested = [[''.join(chr(c_) for c_ in k), [[''.join(chr(c_) for c_ in kb), v] for kb, v in inner]] for k, inner in mo[0]]
        if got_nested != want_nested or mo[1] != 1:
            ctx.disagree('C12:MiscTree.serialize', case, got_nested, want_nested)
        got_pairs = [''.join(chr(c_) for c_ in t) for t in mo[2]]
        if got_pairs != want_pairs or mo[3] != 1:
            ctx.disagree('C12:str((alpha, beta))', case, got_pairs, want_pairs)
    if lines:
        for (case, want), mo in zip(meta, run_model(lines)):
            ctx.count('multi_index_strings')
            if isinstance(mo, ModelError):
                ctx.disagree('C12:model-error', case, str(mo), None); continue
            got = ''.join(chr(c) for c in mo[0])
            if got != want or mo[1] != 1:
                ctx.disagree('C12:str(tuple)', case, [got, mo[1]], want)


def run_resave_and_stale(ctx: Ctx):
    """(a) save, train more, save AGAIN under the same file name in the same directory, load: the loaded system is the later one;
    (b) two checkpoints saved under the same file name in two directories; the later directory is moved and loaded while the working
    directory is the EARLIER one (which holds same-named but stale pickles): the files next to the yaml must win"""
    from amisc import System
    rng = ctx.rng
    tmp = WORK / 'c12_tmp2'
    shutil.rmtree(tmp, ignore_errors=True); tmp.mkdir(parents=True, exist_ok=True)
    cwd0 = os.getcwd()
    try:
        for n in range(ctx.pick(3, 15)):
            sys_seed = ctx.seed * 389 + n
            system = build('plain', sys_seed, None)
            if not any(c.has_surrogate for c in system.components):
                continue
            np.random.seed(n)
            dirA = tmp / f'A{n}'; dirB = tmp / f'B{n}'; dirA.mkdir(); dirB.mkdir()
            system.fit(max_iter=2, num_refine=8, max_tol=-1.0)
            system.save_to_file('sys.yml', save_dir=dirA)
            early = full_state(system)
            system.fit(max_iter=3, num_refine=8, max_tol=-1.0)
            late = full_state(system)
            system.save_to_file('sys.yml', save_dir=dirA)          # (a) same name, same directory
            system.save_to_file('sys.yml', save_dir=dirB)          # (b) same name, other directory
            case = {'resave_system': n, 'system_seed': sys_seed}
            ctx.case(case, nontrivial=True, kind='resave')
            os.chdir(tmp)
            try:
                la = System.load_from_file(dirA / 'sys.yml')
            finally:
                os.chdir(cwd0)
            d = diff_states(late, full_state(la))
            if d:
                ctx.violate('C12:resave-keeps-stale-data', f'saving twice under the same name: the loaded system differs from the live one in {d}', case)
            # (c) two checkpoints under DIFFERENT file names in one directory, training in between: each file loads its own state
            dirC = tmp / f'C{n}'; dirC.mkdir()
            sys_c = build('plain', sys_seed, None)
            np.random.seed(n)
            sys_c.fit(max_iter=2, num_refine=8, max_tol=-1.0)
            sys_c.save_to_file('early.yml', save_dir=dirC)
            sys_c.fit(max_iter=3, num_refine=8, max_tol=-1.0)
            sys_c.save_to_file('late.yml', save_dir=dirC)
            os.chdir(tmp)
            try:
                for fname, want in (('early.yml', early), ('late.yml', late)):
                    try:
                        lc = System.load_from_file(dirC / fname)
                    except Exception as e:
                        ctx.violate('C12:load-raises', f'loading {fname} saved next to another checkpoint raised {type(e).__name__}: {e}', case); continue
                    d = diff_states(want, full_state(lc))
                    if d:
                        ctx.violate('C12:checkpoints-in-one-directory-share-files', f'{fname}, saved in the same directory as another checkpoint of the '
                                    f'same system, loads a state that differs from the one saved in {d}', case)
            finally:
                os.chdir(cwd0)
            # make dirA stale again (the early checkpoint) and load the moved dirB from inside dirA
            shutil.rmtree(dirA); dirA.mkdir()
            sys_early = build('plain', sys_seed, None)
            np.random.seed(n)
            sys_early.fit(max_iter=2, num_refine=8, max_tol=-1.0)
            sys_early.save_to_file('sys.yml', save_dir=dirA)
            moved = tmp / f'moved{n}'
            shutil.move(str(dirB), str(moved))
            os.chdir(dirA)
            try:
                lb = System.load_from_file(moved / 'sys.yml')
            except Exception as e:
                ctx.violate('C12:load-raises', f'loading a moved checkpoint from a directory holding same-named files raised {type(e).__name__}: {e}', case)
                lb = None
            finally:
                os.chdir(cwd0)
            if lb is not None:
                d = diff_states(late, full_state(lb))
                if d:
                    ctx.violate('C12:stale-files-in-cwd-win', f'a moved checkpoint loaded from a working directory that holds same-named older files differs from '
                                f'what was saved in {d}', case)
    finally:
        os.chdir(cwd0)
        shutil.rmtree(tmp, ignore_errors=True)
