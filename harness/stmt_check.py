"""Type-check the statements of a Props file without its proofs (each proof replaced by Abort)."""
import re, subprocess, sys, tempfile, os
src = open(sys.argv[1]).read()
drop = sys.argv[2:]  # modules to drop from imports / theorems to skip
src = re.sub(r'Proof\.\s*exact:?[^.]*(\.[A-Za-z_][\w.]*)*\.\s*Qed\.', 'Abort.', src)
src = re.sub(r'^Print Assumptions.*$', '', src, flags=re.M)
for d in drop:
    src = re.sub(r'\b' + d + r'\b(?=[^.\n]*\.\s*$)', '', src, count=1, flags=re.M) if not d.startswith('T:') else \
        re.sub(r'Theorem ' + d[2:] + r'\b.*?Abort\.', '', src, flags=re.S)
p = '/tmp/stmt_check.v'
open(p, 'w').write(src)
r = subprocess.run(['coqc', '-w', 'none', '-Q', '.', 'AmiscV', p], cwd='/verif/coq', capture_output=True, text=True)
print(r.stdout[-3000:], r.stderr[-3000:]); print('OK' if r.returncode == 0 else 'FAIL')
for f in ('/tmp/stmt_check.v', '/tmp/stmt_check.vo', '/tmp/stmt_check.glob', '/tmp/stmt_check.vok', '/tmp/stmt_check.vos'):
    if os.path.exists(f): os.remove(f)
