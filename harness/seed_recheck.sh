#!/bin/bash
# seed_recheck.sh <seed-id> <check-ids...> : apply a stored seeded change to /repo, run the checks, undo; records the result in meta.json
SID=$1; shift
D=/verif/seeded/$SID
# works in a scratch worktree of /repo's HEAD (created on demand), never in /repo itself
WT=${WT_RECHECK:-/tmp/wt_recheck}
[ -d "$WT" ] || git -C /repo worktree add -q --detach "$WT" HEAD
cd "$WT" || exit 2
git checkout -q --detach $(git -C /repo rev-parse HEAD) 2>/dev/null; git checkout -q -- . 
if ! git apply $D/patch.diff 2>/dev/null; then
  if ! patch -p1 --fuzz=3 -s < $D/patch.diff; then echo "$SID: patch does not apply to the current tree"; git checkout -- . ; find . -name '*.rej' -o -name '*.orig' | xargs -r rm -f; exit 3; fi
fi
find . -name '*.orig' | xargs -r rm -f
demo=$(PYTHONPATH=$WT/src timeout 600 /venv/bin/python $D/demo.py >/dev/null 2>&1; echo $?)
res=""
for pid in "$@"; do
  out=$(cd /verif && AMISC_REPO=$WT ./check $pid --tier quick 2>&1 | grep -E "VIOLATION" | head -1)
  if [ -n "$out" ]; then res="$res $pid:caught"; else res="$res $pid:missed"; fi
done
git checkout -- . ; git status --short | head -2
/venv/bin/python - "$D/meta.json" "$res" "$demo" <<'PY'
import json,sys
p,res,demo=sys.argv[1:4]
m=json.load(open(p)); m['recheck_on_current_tree']={'demo_exit_with_patch':int(demo),'result':res.split()}
json.dump(m,open(p,'w'),indent=1)
PY
echo "$SID demo=$demo $res"
