"""Builders of random amisc components and systems with exactly-known (polynomial) models."""
from __future__ import annotations

import hashlib
import random
import itertools
import json
from fractions import Fraction

import numpy as np


# ------------------------------------------------------------------------------------------------
# polynomial models: out = sum_t coef_t * prod_k x_k^e_tk   (integer coefficients and exponents)
# ------------------------------------------------------------------------------------------------
def poly_eval_np(terms, xs):
    """terms: list of (coef, exps) ; xs: list of numpy arrays (one per input)"""
    tot = 0.0
    for coef, exps in terms:
        t = float(coef)
        for x, e in zip(xs, exps):
            if e:
                t = t * x ** e
        tot = tot + t
    return tot + 0.0 * xs[0] if len(xs) else tot


def poly_eval_exact(terms, xs):
    tot = Fraction(0)
    for coef, exps in terms:
        t = Fraction(coef)
        for x, e in zip(xs, exps):
            t *= Fraction(x) ** e
        tot += t
    return tot


def make_poly_model(in_names, out_terms, alpha_effect=None, log=None, cost=None):
    """Vectorised dict->dict model.  out_terms: {out: terms}.  alpha_effect(out, alpha_tuple)->additive constant
    (lets model-fidelity change the output).  log: list collecting (alpha, inputs dict) per call."""
    def model(inputs, model_fidelity=None):
        xs = [np.asarray(inputs[n], dtype=float) for n in in_names]
        ret = {}
        for out, terms in out_terms.items():
            y = poly_eval_np(terms, xs)
            if alpha_effect is not None and model_fidelity is not None:
                mf = np.atleast_2d(np.asarray(model_fidelity))
                y = y + np.array([alpha_effect(out, tuple(int(v) for v in row)) for row in mf]).reshape(np.shape(y)) \
                    if mf.shape[0] == np.size(y) and mf.shape[0] > 1 else y + alpha_effect(out, tuple(int(v) for v in mf[0]))
            ret[out] = y
        if log is not None:
            log.append((None if model_fidelity is None else np.atleast_2d(model_fidelity).tolist(),
                        {n: np.atleast_1d(inputs[n]).tolist() for n in in_names}))
        if cost is not None:
            nsamp = np.shape(np.atleast_1d(xs[0]))
            if isinstance(cost, tuple):        # ('by_alpha', base): the reported cost depends on the model fidelity, base * (1 + 7 sum(alpha))
                if model_fidelity is None:
                    ret['model_cost'] = np.full(nsamp, float(cost[1]))
                else:
                    mf = np.atleast_2d(np.asarray(model_fidelity))
                    rows = mf if mf.shape[0] == nsamp[0] else np.repeat(mf[:1], nsamp[0], axis=0)
                    ret['model_cost'] = np.array([float(cost[1]) * (1 + 7 * int(np.sum(r))) for r in rows])
            else:
                ret['model_cost'] = np.full(nsamp, float(cost))
        return ret
    model.__name__ = 'poly_model'
    return model


def random_terms(rng, nin, max_deg, nterms=None, coef_rng=(-3, 3)):
    """random polynomial with per-input degree <= max_deg[k]"""
    nterms = nterms or rng.randint(1, 4)
    terms = []
    for _ in range(nterms):
        c = 0
        while c == 0:
            c = rng.randint(*coef_rng)
        terms.append((c, tuple(rng.randint(0, max_deg[k]) for k in range(nin))))
    return terms


# ------------------------------------------------------------------------------------------------
# canonical digests of a trained system (for impl-vs-impl comparisons)
# ------------------------------------------------------------------------------------------------
def comp_state(comp):
    """sets, weights, stored data, costs of one component as plain python (sorted)"""
    def tree(t):
        return sorted((tuple(a), tuple(b), float(c)) for a, b, c in t)
    td = comp.training_data
    data = {}
    for alpha, d in getattr(td, 'yi_map', {}).items():
        for coord, yi in d.items():
            data[str((tuple(alpha), coord))] = {k: (np.asarray(v).tolist()) for k, v in sorted(yi.items())}
    return {
        'active': sorted((tuple(a), tuple(b)) for a, b in comp.active_set),
        'cand': sorted((tuple(a), tuple(b)) for a, b in comp.candidate_set),
        'ctrain': tree(comp.misc_coeff_train), 'ctest': tree(comp.misc_coeff_test),
        'costs': tree(comp.misc_costs),
        'model_costs': sorted((tuple(k), float(v)) for k, v in comp.model_costs.items()),
        'x_grids': {k: np.asarray(v).tolist() for k, v in getattr(td, 'x_grids', {}).items()},
        'data': dict(sorted(data.items())),
    }


def history_plain(system):
    out = []
    for h in system.train_history:
        out.append({'component': h['component'], 'alpha': tuple(h['alpha']) if h['alpha'] is not None else None,
                    'beta': tuple(h['beta']) if h['beta'] is not None else None,
                    'num_evals': int(h['num_evals']), 'added_cost': float(h['added_cost']),
                    'added_error': float(h['added_error'])})
    return out


def digest(obj) -> str:
    def default(o):
        if isinstance(o, (np.floating, np.integer)):
            return o.item()
        if isinstance(o, np.ndarray):
            return o.tolist()
        return str(o)
    return hashlib.sha1(json.dumps(obj, sort_keys=True, default=default).encode()).hexdigest()


def system_state(system):
    return {'components': {c.name: comp_state(c) for c in system.components}, 'history': history_plain(system),
            'domains': {str(v): (list(v.get_domain()) if v.get_domain() is not None else None) for v in system.variables()}}


def floats_close(a, b, rtol=1e-9, atol=1e-12):
    a, b = np.asarray(a, dtype=float), np.asarray(b, dtype=float)
    if a.shape != b.shape:
        return False
    return bool(np.all((np.isnan(a) & np.isnan(b)) | (np.abs(a - b) <= atol + rtol * np.maximum(np.abs(a), np.abs(b)))))


# ------------------------------------------------------------------------------------------------
# random feed-forward systems
# ------------------------------------------------------------------------------------------------
def random_chain_system(rng, ncomp=None, with_alpha=True, norms=False, no_surrogate_prob=0.0, name='sys',
                        max_level=2, logs=None, costs=None):
    """A feed-forward system: component k takes 1-2 exogenous inputs and 0-2 outputs of earlier components.
    Every model is a polynomial with per-input degree <= max_level (so data_fidelity=max_level resolves it with
    knots_per_level=1 ... we use knots_per_level=2 by default so degree <= 2*level).  Returns (system, spec)."""
    from amisc import Component, System, Variable
    ncomp = ncomp or rng.randint(2, 4)
    comps, spec = [], []
    produced = []   # output names so far
    xcount = 0
    for k in range(ncomp):
        nex = rng.randint(1, 2)
        ex = []
        for _ in range(nex):
            if xcount > 0 and rng.random() < 0.25:
                ex.append(f'x{rng.randrange(xcount)}')   # shared exogenous input
            else:
                ex.append(f'x{xcount}'); xcount += 1
        ex = list(dict.fromkeys(ex))
        up = rng.sample(produced, k=min(len(produced), rng.randint(0 if k == 0 else 1, 2))) if produced else []
        in_names = ex + up
        nout = rng.randint(1, 2)
        outs = [f'y{k}_{j}' for j in range(nout)]
        has_surr = rng.random() >= no_surrogate_prob
        lev = [rng.randint(1, max_level) for _ in in_names]
        kpl = 2
        out_terms = {o: random_terms(rng, len(in_names), [kpl * l for l in lev]) for o in outs}
        na = rng.randint(0, 1) if (with_alpha and has_surr) else 0
        aeff = (lambda out, a: 0.0)
        log = None if logs is None else logs.setdefault(f'c{k}', [])
        model = make_poly_model(in_names, out_terms, alpha_effect=aeff if na else None, log=log,
                                cost=None if costs is None else costs.get(f'c{k}'))
        spec.append({'name': f'c{k}', 'inputs': in_names, 'outputs': outs, 'terms': out_terms, 'levels': lev,
                     'na': na, 'has_surrogate': has_surr})
        produced += outs
        kw = {}
        if has_surr:
            kw['data_fidelity'] = tuple(lev)
            if na:
                kw['model_fidelity'] = (1,) * na
        comps.append((model, in_names, outs, f'c{k}', kw))
    # variables: exogenous inputs on random domains, outputs with generous domains
    variables = {}
    for k in range(xcount):
        lo = rng.choice([-2, -1, 0, 1]); w = rng.choice([1, 2, 4])
        variables[f'x{k}'] = Variable(f'x{k}', distribution=f'U({lo}, {lo + w})',
                                      norm=(rng.choice([None, 'linear(0.5, 1)', 'zscore(1, 2)']) if norms else None))
    for s in spec:
        for o in s['outputs']:
            # coupling variables may carry a (time-stable) normalisation too
            variables[o] = Variable(o, domain=(-50.0, 50.0), norm=(rng.choice([None, 'linear(0.5, 1)', 'zscore(1, 4)']) if norms else None))
    components = []
    for model, in_names, outs, name_, kw in comps:
        components.append(Component(model, [variables[n] for n in in_names], [variables[o] for o in outs],
                                    name=name_, vectorized=True, **kw))
    system = System(*components, name=name)
    return system, spec


def exact_system_eval(spec, xvals: dict):
    """exact composition (Fractions) of the polynomial components in dependency (listing) order"""
    env = {k: Fraction(v) for k, v in xvals.items()}
    for s in spec:
        xs = [env[n] for n in s['inputs']]
        for o in s['outputs']:
            env[o] = poly_eval_exact(s['terms'][o], xs)
    return env


def random_loop_system(rng, size=2, name='loop', max_level=2, downstream=True, nonlinear=False, extra=False, log=None, norms=False, gain_scale=1, side=None):
    """A feedback loop of `size` components: comp i computes u_i = c_i + sum_j A_ij * u_j (+ quadratic term if nonlinear)
    + b_i * x_i, with a contraction matrix A (row sums < 0.6); optionally a downstream component reading u_0.
    Returns (system, spec) with spec['A'], spec['b'], spec['c'] as Fractions for the exact linear solve."""
    from amisc import Component, System, Variable
    A = [[Fraction(0)] * size for _ in range(size)]
    for i in range(size):
        others = [j for j in range(size) if j != i]
        # ring coupling guarantees one strongly connected component
        js = {others[(i) % len(others)]} | ({rng.choice(others)} if rng.random() < 0.5 else set())
        js.add((i + 1) % size)
        js.discard(i)
        for j in js:
            A[i][j] = Fraction(rng.choice([-2, -1, 1, 2]), 8) * gain_scale
    b = [Fraction(rng.choice([1, 2, -1]), 2) for _ in range(size)]
    c = [Fraction(rng.randint(-2, 2), 2) for _ in range(size)]
    variables = {f'x{i}': Variable(f'x{i}', distribution='U(0, 1)') for i in range(size)}
    nrng = random.Random(rng.random()) if norms else None       # coupling variables with a (time-stable) normalisation
    for i in range(size):
        variables[f'u{i}'] = Variable(f'u{i}', domain=(-6.0, 6.0), norm=(nrng.choice([None, 'linear(0.5, 1)', 'zscore(1, 2)']) if norms else None))
    comps = []
    # side = (producer, consumer, d): member `producer` also returns s = 2 x_producer + 1, which member `consumer` reads with coefficient d: s is
    # a coupling variable of the loop that does not depend on the loop state (it is settled after the first sweep)
    if side is not None:
        variables['s'] = Variable('s', domain=(-6.0, 6.0))
    for i in range(size):
        ins = [f'x{i}'] + [f'u{j}' for j in range(size) if A[i][j] != 0]
        coef = [float(b[i])] + [float(A[i][j]) for j in range(size) if A[i][j] != 0]
        ci = float(c[i])
        if side is not None and side[1] == i:
            ins.append('s'); coef.append(float(side[2]))
        has_side = side is not None and side[0] == i

        has_extra = extra and i == 0
        if has_extra:
            variables['w0'] = Variable('w0', domain=(-100.0, 100.0))

        def model(inputs, _ins=tuple(ins), _coef=tuple(coef), _c=ci, _o=f'u{i}', _nl=nonlinear, _ex=has_extra, _name=f'l{i}', _sd=has_side):
            tot = _c
            for n_, k_ in zip(_ins, _coef):
                tot = tot + k_ * np.asarray(inputs[n_], dtype=float)
            if _nl == 'rough':      # not a polynomial: a surrogate of it is never exact (for checks that must tell model and surrogate apart)
                tot = tot + 0.05 * np.sin(3.0 * np.asarray(inputs[_ins[1]], dtype=float))
            elif _nl:
                tot = tot + 0.02 * np.asarray(inputs[_ins[1]], dtype=float) ** 2
            ret = {_o: tot}
            if _ex:   # an output of a loop member that is not a coupling variable
                ret['w0'] = 10.0 * np.asarray(inputs[_ins[1]], dtype=float) + 1.0
            if _sd:
                ret['s'] = 2.0 * np.asarray(inputs[_ins[0]], dtype=float) + 1.0
            if log is not None:
                log.append((_name, {n_: np.atleast_1d(np.asarray(inputs[n_], dtype=float)).copy() for n_ in _ins},
                            {k_: np.atleast_1d(np.asarray(v_, dtype=float)).copy() for k_, v_ in ret.items()}))
            return ret
        outs = [variables[f'u{i}']] + ([variables['w0']] if has_extra else []) + ([variables['s']] if has_side else [])
        comps.append(Component(model, [variables[n] for n in ins], outs, name=f'l{i}', vectorized=True,
                               data_fidelity=(max_level if nonlinear else 1,) * len(ins)))
    spec = {'A': A, 'b': b, 'c': c, 'size': size, 'nonlinear': nonlinear, 'extra': extra, 'side': side}
    if downstream:
        variables['z'] = Variable('z', domain=(-50.0, 50.0))

        def dmodel(inputs):
            return {'z': 2.0 * np.asarray(inputs['u0'], dtype=float) + 1.0}
        comps.append(Component(dmodel, [variables['u0']], [variables['z']], name='down', vectorized=True, data_fidelity=(1,)))
    return System(*comps, name=name), spec


def solve_affine_loop(spec, xvals):
    """exact solution u of u = c + A u + b*x (Fractions), by Gaussian elimination"""
    n = spec['size']
    M = [[(Fraction(1) if i == j else Fraction(0)) - spec['A'][i][j] for j in range(n)] for i in range(n)]
    rhs = [spec['c'][i] + spec['b'][i] * Fraction(xvals[f'x{i}']) for i in range(n)]
    if spec.get('side'):
        p_, c_, d_ = spec['side']
        rhs[c_] += Fraction(d_) * (2 * Fraction(xvals[f'x{p_}']) + 1)
    for col in range(n):
        piv = next(r for r in range(col, n) if M[r][col] != 0)
        M[col], M[piv] = M[piv], M[col]; rhs[col], rhs[piv] = rhs[piv], rhs[col]
        for r in range(n):
            if r != col and M[r][col] != 0:
                f = M[r][col] / M[col][col]
                M[r] = [a - f * b_ for a, b_ in zip(M[r], M[col])]; rhs[r] -= f * rhs[col]
    return [rhs[i] / M[i][i] for i in range(n)]


def field_input_system(rng, name='fld', field_norm=None, field_first=False):
    """one component with a scalar input and a FIELD-QUANTITY input (SVD-compressed, 2 latent coefficients) -> scalar output.
    The construction uses its own deterministic data (no global random state)."""
    from amisc import Component, System, Variable
    from amisc.compression import SVD
    grid = np.linspace(-1.0, 1.0, 12)
    rs = np.random.RandomState(rng.randint(0, 10 ** 6))
    a = rs.rand(15); b = 1.0 + rs.rand(15)
    data = a[:, None] * np.sin(grid) + b[:, None] * np.cos(grid)       # (samples, dof)
    p = Variable('p', compression=SVD(rank=2, data_matrix=data.T, coords=grid), norm=field_norm)
    # field_first: the field quantity is listed BEFORE the scalar, which then has a plain domain (no density that would mask a misplaced point)
    d = Variable('d', domain=(0.2, 0.8)) if field_first else Variable('d', distribution='U(0, 1)')
    amp = Variable('amp', domain=(-20.0, 20.0))

    def model(inputs, p_coords=None):
        dd = np.atleast_1d(np.asarray(inputs['d'], dtype=float))
        pf = np.atleast_1d(np.asarray(inputs['p'], dtype=float))
        return {'amp': dd * np.mean(pf, axis=-1) + 0.5 * dd ** 2}
    comp = Component(model, [p, d] if field_first else [d, p], [amp], name='fq', data_fidelity=(2, 2), vectorized=True)
    return System(comp, name=name), None


def branching_system(rng, name='br'):
    """source -> {target, side}, side -> sink: two sibling branches whose relative order in a topological sort is not fixed by the
    dependencies; the coupling variable of the side branch starts with a too-narrow domain guess"""
    from amisc import Component, System, Variable
    X = {f'x{i}': Variable(f'x{i}', distribution='U(0, 1)') for i in range(3)}
    ya = Variable('ya', domain=(0.0, 3.0)); yb = Variable('yb', domain=(-20.0, 20.0))
    ye = Variable('ye', domain=(0.0, 1.0)); yf = Variable('yf', domain=(-50.0, 50.0))
    c = [rng.randint(1, 3) for _ in range(6)]
    m_src = make_poly_model(['x0'], {'ya': [(c[0], (2,)), (1, (1,))]})
    m_tgt = make_poly_model(['ya', 'x1'], {'yb': [(c[1], (1, 1)), (c[2], (0, 2))]})
    m_side = make_poly_model(['ya', 'x2'], {'ye': [(c[3], (1, 0)), (1, (0, 2))]})
    m_sink = make_poly_model(['ye'], {'yf': [(c[4], (2,)), (c[5], (1,))]})
    comps = [Component(m_src, [X['x0']], [ya], name='source', vectorized=True, data_fidelity=(2,)),
             Component(m_tgt, [ya, X['x1']], [yb], name='target', vectorized=True, data_fidelity=(2, 2)),
             Component(m_side, [ya, X['x2']], [ye], name='side', vectorized=True, data_fidelity=(2, 2)),
             Component(m_sink, [ye], [yf], name='sink', vectorized=True, data_fidelity=(2,))]
    return System(*comps, name=name), None


def two_field_input_system(rng, name='fld2'):
    """one component with a scalar input and TWO field-quantity inputs (SVD-compressed) -> scalar output: sample_inputs has to draw the
    field quantities in a defined order.  Deterministic construction data."""
    from amisc import Component, System, Variable
    from amisc.compression import SVD
    grid = np.linspace(-1.0, 1.0, 10)
    rs = np.random.RandomState(rng.randint(0, 10 ** 6))
    a = rs.rand(12); b = 1.0 + rs.rand(12)
    data1 = a[:, None] * np.sin(grid) + b[:, None] * np.cos(grid)
    data2 = b[:, None] * np.sin(2 * grid) + a[:, None] * (1.0 + grid ** 2)
    press = Variable('press', compression=SVD(rank=2, data_matrix=data1.T, coords=grid))
    temp = Variable('temp', compression=SVD(rank=2, data_matrix=data2.T, coords=grid))
    d = Variable('d', distribution='U(0, 1)')
    amp = Variable('amp', domain=(-40.0, 40.0))

    def model(inputs, press_coords=None, temp_coords=None):
        dd = np.atleast_1d(np.asarray(inputs['d'], dtype=float))
        pf = np.atleast_1d(np.asarray(inputs['press'], dtype=float)); tf = np.atleast_1d(np.asarray(inputs['temp'], dtype=float))
        return {'amp': dd * np.mean(pf, axis=-1) + 0.5 * dd ** 2 + np.mean(tf * tf, axis=-1)}
    comp = Component(model, [d, press, temp], [amp], name='fq2', data_fidelity=(1, 1, 1), vectorized=True)
    return System(comp, name=name), None


def persist_chain_system(rng, ncomp=None, name='ps', with_alpha=True, norms=False, serial=False, max_level=2, no_surrogate_prob=0.0,
                         root_dir=None, costs=False, grid_opts=False):
    """like random_chain_system but with module-level models (models_lib.poly_model + model kwargs), so the system can be
    saved to file and loaded again.  Returns (system, spec)."""
    from amisc import Component, System, Variable
    import models_lib
    ncomp = ncomp or rng.randint(1, 3)
    spec, produced, xcount = [], [], 0
    for k in range(ncomp):
        ex = []
        for _ in range(rng.randint(1, 2)):
            if xcount > 0 and rng.random() < 0.25:
                ex.append(f'x{rng.randrange(xcount)}')
            else:
                ex.append(f'x{xcount}'); xcount += 1
        ex = list(dict.fromkeys(ex))
        up = rng.sample(produced, k=min(len(produced), rng.randint(0 if k == 0 else 1, 2))) if produced else []
        in_names = ex + up
        outs = [f'y{k}_{j}' for j in range(rng.randint(1, 2))]
        has_surr = rng.random() >= no_surrogate_prob
        lev = [rng.randint(1, max_level) for _ in in_names]
        terms = {o: [[c, list(e)] for c, e in random_terms(rng, len(in_names), [2 * l for l in lev])] for o in outs}
        na = rng.randint(0, 1) if (with_alpha and has_surr) else 0
        spec.append({'name': f'c{k}', 'inputs': in_names, 'outputs': outs, 'terms': {o: [(c, tuple(e)) for c, e in t] for o, t in terms.items()},
                     'raw_terms': terms, 'levels': lev, 'na': na, 'has_surrogate': has_surr, 'alpha_gain': 0.125 if na else 0.0,
                     'cost': (rng.choice([0.5, 1.0, 3.0]) if costs else None)})
        produced += outs
    variables = {}
    grng0 = random.Random(rng.random()) if grid_opts else None
    for k in range(xcount):
        lo = rng.choice([-2, -1, 0, 1]); w = rng.choice([1, 2, 4])
        extra = {}
        if rng.random() < 0.5:          # legal "falsy" field values that must survive a save/load
            extra = {'nominal': 0.0 if lo <= 0 <= lo + w else float(lo), 'description': '', 'units': ''}
        dist = f'U({lo}, {lo + w})'
        if grid_opts and grng0.random() < 0.35:      # distributions whose text form carries a third argument (log base) that a save must keep
            dist = grng0.choice(['LogUniform(0.5, 4, 2)', 'LogNormal(0, 0.25, 2)', 'LU(1, 8, base=3)'])
        xnorm = (rng.choice([None, 'linear(0.5, 1)', 'zscore(1, 2)']) if norms else None)
        if grid_opts and xnorm is None and dist.startswith('U(') and grng0.random() < 0.3:
            xnorm = grng0.choice(['log(10, 5)', 'log(2, 3)'])      # shifted logarithm, written positionally (base, offset) in the saved file
        variables[f'x{k}'] = Variable(f'x{k}', distribution=dist, norm=xnorm, **extra)
    for s in spec:
        for o in s['outputs']:
            variables[o] = Variable(o, domain=(-50.0, 50.0), norm=(rng.choice([None, 'linear(0.5, 1)']) if norms else None))
    comps = []
    grng = random.Random(rng.random()) if grid_opts else None
    for s in spec:
        kw = {}
        if s['has_surrogate']:
            kw['data_fidelity'] = tuple(s['levels'])
            if s['na']:
                kw['model_fidelity'] = (1,) * s['na']
            if grng is not None:         # non-default training-data settings, which a saved (also: not yet trained) component must keep
                from amisc.training import SparseGrid
                kpl = grng.choice([1, 2, 3])
                s['knots_per_level'] = kpl
                kw['training_data'] = SparseGrid(knots_per_level=kpl)
        comps.append(Component(models_lib.poly_model_serial if serial else models_lib.poly_model,
                               [variables[n] for n in s['inputs']], [variables[o] for o in s['outputs']], name=s['name'],
                               vectorized=not serial, in_names=list(s['inputs']), terms=s['raw_terms'], alpha_gain=s['alpha_gain'],
                               cost=s['cost'], **kw))
    system = System(*comps, name=name, root_dir=root_dir)
    return system, spec
