"""C16: normalisation, compression and dataset conversion are inverse and time-stable."""
from __future__ import annotations

import math
from fractions import Fraction

import numpy as np

from common import Ctx, enc, q, unq, run_model, ModelError, import_amisc


def gen_variable(rng, allow_log=True):
    from amisc import Variable
    kind = rng.choice(['uniform', 'uniform', 'normal', 'domain', 'none'])
    kw = {}
    if kind == 'uniform':
        lo = rng.choice([-4.0, -1.0, 0.0, 0.5, 3.0]); hi = lo + rng.choice([0.5, 1.0, 2.0, 10.0])
        kw['distribution'] = f'U({lo}, {hi})'
    elif kind == 'normal':
        kw['distribution'] = f'N({rng.choice([-2.0, 0.0, 1.5])}, {rng.choice([0.5, 1.0, 2.0])})'
    elif kind == 'domain':
        lo = rng.choice([-4.0, 0.0, 1.0, 2.0]); kw['domain'] = (lo, lo + rng.choice([1.0, 3.0, 8.0]))
    chain = []
    lo_bound = kw['domain'][0] if 'domain' in kw else (float(kw['distribution'][2:].split(',')[0]) if kind == 'uniform' else None)
    positive = lo_bound is not None and lo_bound > 0      # a log stage needs a strictly positive domain
    for _ in range(rng.randint(1, 4)):
        r = rng.random()
        if r < 0.3:
            chain.append(f'linear({rng.choice([0.5, 2.0, 3.0, -2.0, 0.25])}, {rng.choice([0.0, 1.0, -3.0])})')
        elif r < 0.55:
            if kind != 'none' and rng.random() < 0.6:
                chain.append('minmax' if rng.random() < 0.5 else f'minmax(lb_norm={rng.choice([-1.0, 0.0, 2.0])}, ub_norm={rng.choice([3.0, 4.0, 10.0])})')
            else:
                chain.append(f'minmax({rng.choice([0.0, 2.0])}, {rng.choice([4.0, 6.0])}, {rng.choice([0.0, -1.0])}, {rng.choice([1.0, 5.0])})')
        elif r < 0.8:
            chain.append('zscore' if kind == 'normal' and rng.random() < 0.5 else f'zscore({rng.choice([0.0, 1.0, -2.0])}, {rng.choice([0.5, 2.0, 4.0])})')
        elif allow_log and positive and not chain:
            chain.append(rng.choice(['log10', 'log', 'log(2, 1)']))
        else:
            chain.append(f'linear({rng.choice([2.0, 4.0])}, 1.0)')
    var = Variable('v', norm=chain, **kw)
    return var, {'kind': kind, **{k: str(v) for k, v in kw.items()}, 'norm': chain}


def model_chain(var):
    """protocol form of the variable's norm chain and hyper-parameters; None when a Log stage is present"""
    from amisc.transform import Linear, Log, Minmax, Zscore
    from amisc.distribution import Normal
    ch = []
    for t in var.norm:
        a = t.transform_args
        if isinstance(t, Log):
            return None, None
        if isinstance(t, Linear):
            ch.append([0, [q(a[0]), q(a[1])]])
        elif isinstance(t, Minmax):
            args = [0.0 if (isinstance(v, float) and math.isnan(v)) else v for v in a]
            ch.append([1, [q(v) for v in args]])
        elif isinstance(t, Zscore):
            args = [1.0 if (isinstance(v, float) and math.isnan(v)) else v for v in a]
            ch.append([2, [q(v) for v in args]])
    dom = var.get_domain()
    dist = var.distribution.dist_args if isinstance(var.distribution, Normal) else None
    hyper = [[q(dom[0]), q(dom[1])] if dom else [], [q(dist[0]), q(dist[1])] if dist else []]
    return ch, hyper


def close(a: float, ref: Fraction, scale: Fraction):
    return a == a and abs(Fraction(float(a)) - ref) <= Fraction(1, 10 ** 10) * (abs(ref) + scale + 1)


def increasing(var):
    from amisc.transform import Linear, Log, Minmax, Zscore
    for t in var.norm:
        a = t.transform_args
        if isinstance(t, Linear) and not a[0] > 0:
            return False
        if isinstance(t, Minmax) and not a[3] > a[2]:
            return False
        if isinstance(t, Zscore) and not (math.isnan(a[1]) or a[1] > 0):
            return False
    return True


def run_variables(ctx: Ctx):
    from amisc.transform import Minmax
    rng = ctx.rng
    lines, meta = [], []
    for n in range(ctx.pick(300, 4000)):
        try:
            var, desc = gen_variable(rng)
        except Exception as e:
            ctx.count('invalid_variable_spec'); continue
        dom = var.get_domain()
        lo, hi = dom if dom else (-3.0, 5.0)
        xs = [lo + (hi - lo) * rng.random() for _ in range(3)] + ([lo, hi] if dom else [])
        case = {'variable': desc, 'x': xs}
        haslog = any(type(t).__name__ == 'Log' for t in var.norm)
        ctx.case(case, nontrivial=len(var.norm) >= 2, kind='log-chain' if haslog else f'chain{len(var.norm)}')
        try:
            ys = [float(var.normalize(x)) for x in xs]
            back = [float(var.denormalize(y)) for y in ys]
        except Exception as e:
            ctx.violate('C16:normalize-raises', f'{type(e).__name__}: {e}', case); continue
        if any(y != y or abs(y) == float('inf') for y in ys):
            ctx.count('nonfinite_normalised'); continue
        scale = max(abs(hi), abs(lo), 1.0)
        for x, b in zip(xs, back):
            if not abs(b - x) <= 1e-8 * scale:
                ctx.violate('C16:roundtrip', f'denormalize(normalize({x})) = {b}', case); break
        # normalised domain = image of the domain; samples of an order-preserving chain lie inside it
        if dom:
            from amisc.variable import VariableList
            nd = VariableList([var]).get_domains(norm=True)['v']
            img = (float(var.normalize(dom[0])), float(var.normalize(dom[1])))
            if not (abs(nd[0] - img[0]) <= 1e-12 * (1 + abs(img[0])) and abs(nd[1] - img[1]) <= 1e-12 * (1 + abs(img[1]))):
                ctx.violate('C16:normalised-domain-not-image', f'get_domains gives {nd}, images of the bounds are {img}', case)
            if increasing(var) and not haslog:
                for x, y in zip(xs, ys):
                    if not (min(nd) - 1e-9 * (1 + abs(min(nd))) <= y <= max(nd) + 1e-9 * (1 + abs(max(nd)))):
                        ctx.violate('C16:sample-outside-normalised-domain', f'{x} in {dom} normalises to {y} outside {nd}', case); break
            # time stability: store a normalised value, update the domain, decode
            stored = ys[0]
            try:
                newdom = (lo - 2.0 * (hi - lo), hi + 3.0 * (hi - lo))
                if var.distribution is None and rng.random() < 0.5:
                    var.domain = newdom                 # the attribute assigned directly (no call that could refresh anything kept from earlier calls)
                    case['domain_changed_by'] = 'assignment'
                else:
                    var.update_domain(newdom)
                later = float(var.denormalize(stored))
            except Exception as e:
                later = float('nan')
            # after the update the two directions must still be inverse to each other, and the reported normalised domain the image of
            # the new bounds (a denormalisation that remembers hyper-parameters of an earlier call would pass the test above)
            try:
                if haslog:
                    raise StopIteration          # the widened domain may leave the domain of a Log stage
                nd2 = var.get_domain()
                for x2 in (xs[1], nd2[0], nd2[1]):
                    y2 = float(var.normalize(x2)); b2 = float(var.denormalize(y2))
                    if y2 == y2 and abs(y2) != float('inf') and not abs(b2 - x2) <= 1e-8 * max(abs(nd2[0]), abs(nd2[1]), 1.0):
                        ctx.violate('C16:roundtrip-after-domain-update', f'after update_domain to {nd2}: denormalize(normalize({x2})) = {b2}', case); break
                ndn = VariableList([var]).get_domains(norm=True)['v']
                back_dom = (float(var.denormalize(ndn[0])), float(var.denormalize(ndn[1])))
                if all(v == v and abs(v) != float('inf') for v in ndn) and not (abs(back_dom[0] - nd2[0]) <= 1e-8 * (1 + abs(nd2[0])) and abs(back_dom[1] - nd2[1]) <= 1e-8 * (1 + abs(nd2[1]))):
                    ctx.violate('C16:roundtrip-after-domain-update', f'after update_domain to {nd2}: the normalised domain {ndn} decodes to {back_dom}', case)
            except StopIteration:
                pass
            except Exception as e:
                ctx.violate('C16:normalize-raises', f'after update_domain: {type(e).__name__}: {e}', case)
            if not abs(later - xs[0]) <= 1e-8 * scale:
                mm = any(isinstance(t, Minmax) for t in var.norm)
                ctx.violate('C16:stored-value-reinterpreted-after-domain-update:minmax' if mm else 'C16:stored-value-reinterpreted-after-domain-update',
                            f'{xs[0]} stored as {stored} under domain {dom} decodes to {later} after the domain was widened', case)
            var.domain = dom
        # correspondence with Model/Transf.v (log-free chains), before the domain games
        var2, _ = None, None
        ch, hyper = model_chain(var)
        if ch is not None:
            lines.append('transf ' + enc([ch, hyper, [q(x) for x in xs], [q(y) for y in ys]]))
            meta.append((case, ys, back, xs))
    for (case, ys, back, xs), mo in zip(meta, run_model(lines, shards=8) if lines else []):
        ctx.count('chains_compared')
        if isinstance(mo, ModelError):
            ctx.disagree('C16:model-error', case, str(mo), None); continue
        mys, mback = [unq(t) for t in mo[0]], [unq(t) for t in mo[1]]
        sc = max([abs(Fraction(x)) for x in xs] + [abs(t) for t in mys] + [Fraction(1)])
        if any(not close(a, m, sc) for a, m in zip(ys, mys)):
            ctx.disagree('C16:normalize', case, [float(t) for t in mys], ys)
        elif any(not close(a, m, sc) for a, m in zip(back, mback)):
            ctx.disagree('C16:denormalize', case, [float(t) for t in mback], back)


def run_datasets(ctx: Ctx):
    """to_surrogate_dataset / to_model_dataset round trips for scalars and for latent coefficients of field quantities"""
    from amisc import Variable
    from amisc.variable import VariableList
    from amisc.compression import SVD
    from amisc.utils import to_model_dataset, to_surrogate_dataset
    rng = ctx.rng
    for n in range(ctx.pick(25, 250)):
        np.random.seed(ctx.seed * 7 + n)
        scal = Variable('s', distribution='U(1, 5)', norm=rng.choice([None, 'minmax', 'linear(2, 1)', ['log10', 'linear(3, 1)'], 'zscore(1, 2)']))
        rank = rng.randint(1, 4); dof = rng.randint(rank + 1, 12); nfields = 1
        coords = np.linspace(0, 1, dof)
        basis = np.linalg.qr(np.random.rand(dof, rank))[0]
        data = basis @ np.random.rand(rank, 3 * rank + 2)
        fld = Variable('p', compression=SVD(rank=rank, coords=coords, data_matrix=data), norm=rng.choice([None, 'linear(2, 0)']))
        vl = VariableList([scal, fld])
        shape = tuple(rng.randint(1, 3) for _ in range(rng.randint(1, 2)))
        surr = {'s': np.asarray(scal.normalize(1 + 4 * np.random.rand(*shape)))}
        lat = np.random.rand(*shape, rank) * 2 - 1
        for i in range(rank):
            surr[f'p_LATENT{i}'] = lat[..., i]
        case = {'dataset': n, 'rank': rank, 'dof': dof, 'shape': shape, 'scalar_norm': str(scal.norm), 'field_norm': str(fld.norm)}
        ctx.case(case, nontrivial=True, kind='dataset')
        try:
            from amisc.typing import LATENT_STR_ID
            surr = {k.replace('_LATENT', LATENT_STR_ID): v for k, v in surr.items()}
            model_ds, fc = to_model_dataset(surr, vl, del_latent=True)
            back, names = to_surrogate_dataset(model_ds, vl, del_fields=True, **fc)
        except Exception as e:
            ctx.violate('C16:dataset-conversion-raises', f'{type(e).__name__}: {e}', case); continue
        for k, v in surr.items():
            if k not in back or not np.allclose(np.asarray(back[k]), np.asarray(v), rtol=1e-8, atol=1e-9):
                ctx.violate('C16:dataset-roundtrip', f'{k}: {np.asarray(v).ravel()[:4].tolist()} -> model form -> {np.asarray(back.get(k)).ravel()[:4].tolist()}', case); break


def run(ctx: Ctx):
    import_amisc()
    ctx.rule = ('variables with no / explicit / uniform / normal domain and chains of 1-4 transforms (linear incl. negative slopes, minmax with '
                'deferred or explicit bounds, zscore with deferred or explicit arguments, log / log10 / log(b, offset)): normalize and denormalize '
                'compared with Model/Transf.v in exact rationals (log-free chains), round trips, normalised domain = image of the domain, samples '
                'inside it for order-preserving chains, decoding after update_domain; to_model_dataset / to_surrogate_dataset round trips for '
                'scalars and SVD latent coefficients of random rank, grid and batch shape; non-trivial = chain of at least two transforms')
    run_variables(ctx)
    run_datasets(ctx)
    run_fields_and_pdf(ctx)
    run_multi_field(ctx)


def run_fields_and_pdf(ctx: Ctx):
    """(a) field quantities of rank up to 12: latent coefficients must come back in their numeric order; (b) a field with a minmax norm and a
    scalar-shorthand latent domain decodes to the same field before and after a per-latent domain update; (c) samples drawn from a pdf with
    a narrow domain stay inside the normalised domain"""
    from amisc import Component, System, Variable
    from amisc.variable import VariableList
    from amisc.compression import SVD
    from amisc.typing import LATENT_STR_ID
    from amisc.utils import to_model_dataset, to_surrogate_dataset
    rng = ctx.rng
    for n in range(ctx.pick(8, 60)):
        np.random.seed(ctx.seed * 11 + n)
        rank = rng.choice([2, 5, 11, 12]); dof = rank + rng.randint(1, 6)
        coords = np.linspace(0, 1, dof)
        basis = np.linalg.qr(np.random.rand(dof, rank))[0]
        data = basis @ (np.random.rand(rank, 3 * rank + 2) * np.arange(rank, 0, -1)[:, None])
        fld = Variable('T', compression=SVD(rank=rank, coords=coords, data_matrix=data), norm=rng.choice([None, 'minmax(200, 400)']), domain=(-5.0, 5.0))
        vl = VariableList([fld])
        lat = np.random.rand(3, rank) * 2 - 1
        surr = {f'T{LATENT_STR_ID}{i}': lat[:, i] for i in range(rank)}
        case = {'field_case': n, 'rank': rank, 'dof': dof, 'norm': str([str(t) for t in fld.norm] if fld.norm else None)}
        ctx.case(case, nontrivial=True, kind=f'field:rank={rank}')
        try:
            m1, fc = to_model_dataset(surr, vl, del_latent=True)
            back, _ = to_surrogate_dataset(m1, vl, del_fields=True, **fc)
        except Exception as e:
            ctx.violate('C16:dataset-conversion-raises', f'{type(e).__name__}: {e}', case); continue
        for k, v in surr.items():
            if k not in back or not np.allclose(np.asarray(back[k]), v, rtol=1e-7, atol=1e-8):
                ctx.violate('C16:dataset-roundtrip', f'rank {rank}: latent {k} {v.tolist()} -> field -> {np.asarray(back.get(k)).tolist()}', case); break
        # time stability of the decoding under a per-latent domain update (what fit() does for coupling field quantities)
        f_before = np.asarray(m1['T'])
        fld.update_domain([(-6.0 - i, 6.0 + i) for i in range(rank)])
        m2, _ = to_model_dataset(surr, vl, del_latent=True)
        if not np.allclose(np.asarray(m2['T']), f_before, rtol=1e-9, atol=1e-9):
            ctx.violate('C16:field-reinterpreted-after-domain-update', f'the same latent coefficients reconstruct to a different field after update_domain '
                        f'(max change {float(np.max(np.abs(np.asarray(m2["T"]) - f_before))):.3g}); norm {case["norm"]}', case)
    # (b2) a field quantity supplied on coordinates OTHER than the compression grid (same number of points, same end points, different
    # spacing): model form <-> surrogate form goes through interpolation, and the latent coefficients come back (to interpolation accuracy)
    for n in range(ctx.pick(4, 20)):
        dof = 60
        grid = np.linspace(-1.0, 1.0, dof)
        rs = np.random.RandomState(ctx.seed * 19 + n)
        a = rs.rand(12); b = 1.0 + rs.rand(12)
        data = a[:, None] * np.sin(2 * grid) + b[:, None] * np.cos(grid)
        col = n % 2 == 1        # coordinates as a flat array or as an (N, 1) column (one coordinate per point)
        fld = Variable('T', compression=SVD(rank=2, coords=(grid.reshape((-1, 1)) if col else grid), data_matrix=data.T))
        vl = VariableList([fld])
        p_ = rng.choice([1.3, 1.6, 0.7])
        stretched = -1.0 + 2.0 * ((grid + 1.0) / 2.0) ** p_          # same count, same end points, different interior spacing
        if col:
            stretched = stretched.reshape((-1, 1))
        lat = rs.rand(3, 2) * 2 - 1
        surr = {f'T_LATENT{i}': lat[:, i] for i in range(2)}
        case = {'stretched_grid_case': n, 'exponent': p_, 'coordinates_as_column': col, 'latent': lat.tolist()}
        ctx.case(case, nontrivial=True, kind='dataset:other-coordinates')
        try:
            m1, fc = to_model_dataset(surr, vl, del_latent=True, T_coords=stretched)
            back, _ = to_surrogate_dataset(m1, vl, del_fields=True, **fc)
            # the field handed out on the stretched coordinates is the reconstruction evaluated there
            m0, _ = to_model_dataset(surr, vl, del_latent=True)
            ref = np.array([np.interp(np.ravel(stretched), grid, row) for row in np.asarray(m0['T'])])
            if not np.allclose(np.asarray(m1['T']), ref, rtol=0, atol=2e-3 * float(np.max(np.abs(ref)) + 1)):
                ctx.violate('C16:field-on-other-coordinates-wrong', 'the field returned on other coordinates is not the reconstruction interpolated to them', case)
            for k, v in surr.items():
                if k not in back or not np.allclose(np.asarray(back[k]), v, rtol=0, atol=2e-2 * float(np.max(np.abs(lat)) + 1)):
                    ctx.violate('C16:dataset-roundtrip', f'field supplied on other coordinates: latent {k} {v.tolist()} -> field -> {np.asarray(back.get(k)).tolist()}', case); break
        except Exception as e:
            ctx.violate('C16:dataset-conversion-raises', f'other coordinates: {type(e).__name__}: {e}', case)
    # (c) sampling from the pdf
    for n in range(ctx.pick(6, 40)):
        spec = rng.choice([('N(0, 1)', (-0.5, 0.5)), ('N(2, 3)', (1.0, 2.5)), ('U(0, 10)', (4.0, 5.0)), ('LN(0, 1)', (0.5, 2.0))])
        if n == 0:      # a domain far out in the tail of the density (2 % of its mass): the rejection loop needs hundreds of redraws
            spec = ('N(0, 1)', (2.0, 3.0))
        norm = rng.choice([None, 'minmax', 'linear(2, 1)', 'zscore(1, 2)'])
        try:
            v = Variable('q', distribution=spec[0], domain=spec[1], norm=norm)
        except Exception:
            continue
        comp = Component(lambda inputs: {'r': np.asarray(inputs['q'], dtype=float)}, [v], [Variable('r')], name='pdfc', vectorized=True)
        system = System(comp, name='pdf')
        np.random.seed(ctx.seed * 13 + n)
        case = {'pdf_case': n, 'distribution': spec[0], 'domain': spec[1], 'norm': norm}
        ctx.case(case, nontrivial=True, kind='pdf-sampling')
        try:
            xs = np.asarray(system.sample_inputs(400, use_pdf=True)['q'], dtype=float)
        except Exception as e:
            ctx.violate('C16:sample_inputs-raises', f'{type(e).__name__}: {e}', case); continue
        nd = system.inputs().get_domains(norm=True)['q']
        lo, hi = min(nd), max(nd)
        out = int(np.sum((xs < lo - 1e-12 * (1 + abs(lo))) | (xs > hi + 1e-12 * (1 + abs(hi)))))
        if out:
            ctx.violate('C16:sample-outside-normalised-domain', f'{out} of 400 samples drawn with use_pdf=True lie outside the normalised domain {nd}', case)
        # a variable held constant at a user-supplied (physical) nominal value, or at its default nominal: the returned sample is that value
        # in normalised form (it decodes to the value and lies inside the normalised domain)
        for nomv in (spec[1][0] + 0.3 * (spec[1][1] - spec[1][0]), None):
            try:
                kw_ = {'constants': {'q'}} if nomv is None else {'constants': {'q'}, 'nominal': {'q': nomv}}
                xc = np.asarray(system.sample_inputs(3, **kw_)['q'], dtype=float)
                want = nomv if nomv is not None else v.get_nominal()
                dec = np.asarray(v.denormalize(xc), dtype=float)
                if want is not None and not np.allclose(dec, want, rtol=1e-9, atol=1e-12):
                    ctx.violate('C16:constant-sample-does-not-decode-to-its-nominal', f'sample_inputs(constants={{q}}, nominal={nomv}) returned {xc.tolist()}, which '
                                f'decodes to {dec.tolist()} instead of {want}', case)
            except Exception as e:
                ctx.violate('C16:sample_inputs-raises', f'constants/nominal: {type(e).__name__}: {e}', case)


def run_multi_field(ctx: Ctx):
    """a quantity made of several fields (fields=[...]) compressed together: the dict of field values is keyed by field name, so its key order is
    irrelevant, and reconstruct(compress(v)) gives every field back under its own name (on the compression grid and on a coarser one)"""
    from amisc import Variable
    from amisc.compression import SVD
    rng = ctx.rng
    for n in range(ctx.pick(4, 30)):
        npts = rng.choice([20, 30, 45]); nf = rng.randint(2, 3)
        grid = np.linspace(-1.0, 1.0, npts)
        names = ['ux', 'uy', 'uz'][:nf]
        shapes = [[np.sin(2 * grid), grid], [np.cos(grid), grid ** 2], [np.exp(-grid ** 2), grid ** 3]][:nf]
        rs = np.random.RandomState(ctx.seed * 7 + n)

        def make(nsamp, x=None, _shapes=shapes):
            out = []
            for k_, (m0, m1) in enumerate(_shapes):
                a = rs.uniform(0.5 + k_, 1.5 + k_, (nsamp, 1)); b = rs.uniform(-1, 1, (nsamp, 1))
                if x is None:
                    out.append(a * m0 + b * m1)
                else:
                    f0 = [np.sin(2 * x), np.cos(x), np.exp(-x ** 2)][k_]; f1 = [x, x ** 2, x ** 3][k_]
                    out.append(a * f0 + b * f1)
            return out
        train = make(60)
        dm = np.concatenate([f[..., None] for f in train], axis=-1).reshape((60, -1)).T
        v = Variable('vel', compression=SVD(rank=2 * nf, coords=grid, fields=list(names), data_matrix=dm))
        vals = make(4)
        perm = list(range(nf)); rng.shuffle(perm)
        if perm == sorted(perm):
            perm = perm[::-1]
        case = {'multi_field': n, 'fields': names, 'grid_points': npts, 'key_order': [names[i] for i in perm]}
        ctx.case(case, nontrivial=True, kind=f'compression:{nf}-fields')
        try:
            lat_a = np.asarray(v.compress({names[i]: vals[i].copy() for i in range(nf)})['latent'])
            lat_b = np.asarray(v.compress({names[i]: vals[i].copy() for i in perm})['latent'])
            rec = v.reconstruct({'latent': lat_b})
        except Exception as e:
            ctx.violate('C16:dataset-conversion-raises', f'multi-field compression: {type(e).__name__}: {e}', case); continue
        if not np.allclose(lat_a, lat_b, rtol=1e-9, atol=1e-9):
            ctx.violate('C16:compression-depends-on-key-order', f'latent coefficients of the same field values differ by {float(np.max(np.abs(lat_a - lat_b))):.3e} between the key orders '
                        f'{names} and {[names[i] for i in perm]}', case); continue
        for i in range(nf):
            err = float(np.max(np.abs(np.asarray(rec[names[i]]) - vals[i])))
            if err > 1e-8 * (1 + float(np.max(np.abs(vals[i])))):
                ctx.violate('C16:latent-roundtrip', f'reconstruct(compress(v)) returns field {names[i]} off by {err:.3e}', case); break
