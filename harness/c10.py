"""C10: prediction is pointwise — batch plumbing (format_inputs/format_outputs) versus Model/Shape.v, and
batch-versus-single evaluation of components and systems."""
from __future__ import annotations

import itertools

import numpy as np

from common import Ctx, enc, run_model, ModelError, import_amisc
import systems


def gen_shape_case(rng):
    rank = rng.choice([0, 1, 1, 2, 2, 3, 4])
    L = tuple(rng.randint(1, 4) for _ in range(rank))
    nvar = rng.randint(1, 4)
    shapes = []
    for v in range(nvar):
        kind = rng.random()
        if rank == 0:
            shapes.append(())
        elif kind < 0.45:
            shapes.append(L)
        elif kind < 0.85 or rank >= 2:
            shapes.append(tuple(1 if rng.random() < 0.4 else d for d in L))
        else:
            shapes.append(())          # bare scalar mixed with rank-1 arrays
    # make sure the loop shape is attained on every axis
    if rank and not any(s == L for s in shapes):
        shapes[rng.randrange(nvar)] = L
    return {'shapes': [list(s) for s in shapes]}


def run_shapes(ctx: Ctx):
    from amisc.utils import format_inputs, format_outputs
    rng = ctx.rng
    ncase = ctx.pick(400, 6000)
    cases, lines = [], []
    for _ in range(ncase):
        c = gen_shape_case(rng)
        arrays = []
        base = 1
        for s in c['shapes']:
            n = int(np.prod(s)) if s else 1
            arrays.append(np.arange(base, base + n, dtype=float).reshape(s))
            base += n + 3
        names = [f'v{k}' for k in range(len(arrays))]
        order = list(range(len(arrays)))
        rng.shuffle(order)            # key order in the dict is irrelevant for the result
        c['key_order'] = order
        cases.append((c, arrays, names))
        s1 = [list(np.atleast_1d(a).shape) for a in arrays]
        lines.append('shape_loop ' + enc([c['shapes']]))
        lines.append('shape_batch_sum ' + enc([[[list(a.shape), [int(v) for v in a.ravel()]] for a in arrays]]))
    outs = run_model(lines, shards=8)
    for k, (c, arrays, names) in enumerate(cases):
        mo_loop, mo_batch = outs[2 * k], outs[2 * k + 1]
        d = {names[i]: arrays[i] for i in c['key_order']}
        try:
            fin, loop = format_inputs(d)
        except Exception as e:
            ctx.violate('C10:format_inputs-raises', f'format_inputs raised {type(e).__name__}: {e}', c)
            continue
        loop = tuple(int(v) for v in loop)
        nontriv = len(loop) >= 1 and int(np.prod(loop)) > 1 and len(set(map(tuple, c['shapes']))) > 1
        ctx.case(c, nontrivial=nontriv, kind=f'rank={len(loop)}')
        if isinstance(mo_loop, ModelError) or isinstance(mo_batch, ModelError):
            ctx.disagree('C10:model-error', c, str(mo_loop), None); continue
        if list(loop) != mo_loop:
            ctx.disagree('C10:loop_shape', c, mo_loop, list(loop))
        # oracle: the loop shape is the numpy broadcast of the (at least 1-d) shapes; every row is the broadcast sample
        want_loop = np.broadcast_shapes(*[np.atleast_1d(a).shape for a in arrays])
        if tuple(loop) != tuple(want_loop):
            ctx.violate('C10:loop-shape', f'loop shape {loop} for input shapes {c["shapes"]}, expected {want_loop}', c)
            continue
        N = int(np.prod(loop))
        for i, nme in enumerate(names):
            full = np.broadcast_to(np.atleast_1d(arrays[i]), want_loop).reshape(N)
            if fin[nme].shape != (N,) or not np.array_equal(fin[nme], full):
                ctx.violate('C10:row-misplaced', f'format_inputs delivers {fin[nme].tolist()} for {nme}, broadcast gives {full.tolist()}', c)
        # pipeline: f = weighted sum of the variables' samples, then format_outputs
        y = sum((i + 1) * fin[nme] for i, nme in enumerate(names))
        out = format_outputs({'y': y}, loop)['y']
        want = sum((i + 1) * np.broadcast_to(np.atleast_1d(arrays[i]), want_loop) for i in range(len(arrays)))
        if tuple(out.shape) != tuple(want_loop) or not np.array_equal(out, want):
            ctx.violate('C10:output-misplaced', f'output {out.tolist()} shape {out.shape}, expected {want.tolist()}', c)
        mL, mdata = mo_batch
        if mL != list(loop) or mdata != [int(v) for v in np.asarray(y).ravel()]:
            ctx.disagree('C10:batch_eval', c, mo_batch, [list(loop), [int(v) for v in np.asarray(y).ravel()]])
    # format_outputs shape rules
    lines, meta = [], []
    for _ in range(ctx.pick(150, 1500)):
        L = tuple(rng.randint(1, 3) for _ in range(rng.randint(1, 3)))
        o = tuple(rng.randint(1, 3) for _ in range(rng.randint(0, 2)))
        N = int(np.prod(L))
        val = np.arange(N * int(np.prod(o) if o else 1), dtype=float).reshape((N,) + o)
        got = format_outputs({'y': val}, L)['y']
        lines.append('shape_out ' + enc([list(L), list(o)]))
        meta.append((L, o, got, val))
    for (L, o, got, val), mo in zip(meta, run_model(lines)):
        ctx.count('format_outputs_cases')
        if list(got.shape) != mo:
            ctx.disagree('C10:fmt_output_shape', {'L': L, 'o': o}, mo, list(got.shape))
        if not np.array_equal(got.ravel(), val.ravel()):
            ctx.violate('C10:format_outputs-moves-data', f'format_outputs reordered data for loop {L}, out {o}', {'L': L, 'o': o})


def run_batches(ctx: Ctx):
    """batch versus single-sample evaluation on real components / systems (implementation oracle)"""
    rng = ctx.rng
    nsys = ctx.pick(6, 40)
    for n in range(nsys):
        np.random.seed(ctx.seed * 104729 + n)
        system, spec = systems.random_chain_system(rng, ncomp=rng.randint(1, 3), with_alpha=False, name=f'b{n}')
        system.fit(max_iter=rng.randint(3, 6), num_refine=10, max_tol=-1.0, update_bounds=False)
        shape = tuple(rng.randint(1, 3) for _ in range(rng.randint(1, 3)))
        x = system.sample_inputs(shape)
        on_nodes = rng.random() < 0.6
        if on_nodes:      # some coordinates exactly on training nodes (the interpolator special-cases them per batch)
            for comp in system.components:
                if not comp.has_surrogate:
                    continue
                for v in comp.inputs:
                    g = list(comp.training_data.x_grids.get(str(v), []))
                    if str(v) in x and g:
                        arr = np.array(x[str(v)], dtype=float)
                        mask = np.random.rand(*arr.shape) < 0.4
                        arr[mask] = np.random.choice(g, size=int(mask.sum()))
                        x[str(v)] = arr
        case = {'system': n, 'shape': shape, 'components': [(s['name'], s['inputs'], s['levels']) for s in spec], 'some_coordinates_on_nodes': on_nodes}
        ctx.case(case, nontrivial=int(np.prod(shape)) > 1, kind='system-batch')
        N = int(np.prod(shape))
        names = list(x.keys())
        rev = {k: x[k] for k in reversed(names)}
        for mode, kw in (('surrogate', {}), ('model', {'use_model': 'best'})):
            try:
                y = system.predict(x, **kw)
                y_rev = system.predict(rev, **kw)
            except Exception as e:
                ctx.violate('C10:predict-raises', f'System.predict({mode}) raised {type(e).__name__}: {e}', case); continue
            for var, arr in y.items():
                if tuple(arr.shape[:len(shape)]) != shape:
                    ctx.violate('C10:system-output-shape', f'{mode}: output {var} has shape {arr.shape} for input shape {shape}', case)
                if not systems.floats_close(arr, y_rev[var], rtol=1e-13):
                    ctx.violate('C10:key-order', f'{mode}: output {var} depends on the key order of the input dict', case)
            flat = {k: np.asarray(v).reshape(N) for k, v in x.items()}
            perm = list(range(N)); rng.shuffle(perm)
            yp = system.predict({k: v[perm] for k, v in flat.items()}, **kw)
            for j in range(N):
                ys = system.predict({k: v[j] for k, v in flat.items()}, **kw)
                for var in y:
                    full = np.asarray(y[var]).reshape((N,) + np.asarray(y[var]).shape[len(shape):])
                    single = np.asarray(ys[var])
                    if not systems.floats_close(np.ravel(full[j]), np.ravel(single), rtol=1e-12):
                        ctx.violate('C10:batch-vs-single', f'{mode}: sample {j} of {var}: batch {full[j].tolist()} single {single.tolist()}', case)
                    pj = perm.index(j)
                    if not systems.floats_close(np.ravel(np.asarray(yp[var])[pj]), np.ravel(full[j]), rtol=1e-12):
                        ctx.violate('C10:permutation', f'{mode}: permuting the batch changed sample {j} of {var}', case)
        # component level: predict / gradient / hessian / call_model
        for comp in system.components:
            if not comp.has_surrogate:
                continue
            xin = {v: x[v] for v in comp.inputs if v in x}
            if len(xin) != len(comp.inputs):
                # coupling inputs: draw them uniformly in their (normalised) domain
                for v in comp.inputs:
                    if v not in xin:
                        lo, hi = v.normalize(v.get_domain())
                        xin[str(v)] = lo + (hi - lo) * np.random.rand(*shape)
            fl = {k: np.asarray(v).reshape(N) for k, v in xin.items()}
            for fname in ('predict', 'gradient', 'hessian', 'call_model'):
                f = getattr(comp, fname)
                try:
                    yb = f(xin)
                except Exception as e:
                    ctx.violate(f'C10:{fname}-raises', f'Component.{fname} raised {type(e).__name__}: {e}', case); continue
                ctx.count(f'component_{fname}')
                # the order of keys in the input dictionary is irrelevant (also for derivatives)
                try:
                    yr = f({k: xin[k] for k in reversed(list(xin.keys()))})
                    for var in yb:
                        if var == 'errors' or np.asarray(yb[var]).dtype == object:
                            continue
                        if not systems.floats_close(np.asarray(yb[var], dtype=float), np.asarray(yr[var], dtype=float), rtol=1e-13, atol=1e-300):
                            ctx.violate(f'C10:{fname}-key-order', f'Component.{fname}: {var} depends on the key order of the input dict', case); break
                except Exception as e:
                    ctx.violate(f'C10:{fname}-raises', f'Component.{fname} with reversed key order raised {type(e).__name__}: {e}', case)
                for var, arr in yb.items():
                    arr = np.asarray(arr)
                    # reading fixed in C10_output_shape: a one-sample loop (1,) is squeezed in front of trailing axes
                    if fname != 'call_model' and tuple(arr.shape[:len(shape)]) != shape and not (shape == (1,) and arr.ndim >= 1 and fname != 'predict'):
                        ctx.violate(f'C10:{fname}-output-shape', f'{fname}: {var} has shape {arr.shape} for input shape {shape}', case)
                for j in range(N):
                    ys = f({k: v[j] for k, v in fl.items()})
                    for var in yb:
                        if var in ('errors',):
                            continue
                        arr = np.asarray(yb[var])
                        if arr.dtype == object:
                            continue
                        full = arr.reshape((N,) + arr.shape[len(shape):]) if tuple(arr.shape[:len(shape)]) == shape else None
                        if full is None:
                            continue
                        single = np.asarray(ys[var])
                        if not systems.floats_close(np.ravel(full[j]), np.ravel(single), rtol=1e-10, atol=1e-10):
                            ctx.violate(f'C10:{fname}-batch-vs-single',
                                        f'{fname}: sample {j} of {var}: batch {np.ravel(full[j]).tolist()} single {np.ravel(single).tolist()}', case)


def run(ctx: Ctx):
    import_amisc()
    ctx.rule = ('random tuples of 1-4 input arrays with loop rank 0-4: identical shapes, equal-rank shapes with axes of extent 1, bare '
                'scalars with rank-1 arrays, shuffled dict key order; format_inputs/format_outputs compared exactly (integer data) with '
                'Model/Shape.v and with numpy broadcasting; plus trained random systems evaluated on batches of random shape versus the '
                'same samples one at a time, permuted and with reversed key order (System.predict surrogate/model, Component.predict/'
                'gradient/hessian/call_model); non-trivial = more than one sample and at least two different input shapes (shape cases) '
                'or more than one sample (batch cases)')
    run_shapes(ctx)
    run_batches(ctx)
    run_nan_batches(ctx)
    run_positional_keys(ctx)
    run_loop_batches(ctx)
    run_field_coords(ctx)
    run_latent_key_order(ctx)
    run_loop_nan_batches(ctx)
    run_array_nan_batches(ctx)
    run_node_mix(ctx)
    run_failing_sample(ctx)


def run_nan_batches(ctx: Ctx):
    """a batch in which one sample makes an upstream model return NaN: the other samples must be what they are alone"""
    from amisc import Component, System, Variable
    rng = ctx.rng
    for n in range(ctx.pick(8, 60)):
        x = Variable('x', domain=(0, 1)); z = Variable('z', domain=(0, 1))
        u = Variable('u', domain=(-5, 5)); v = Variable('v', domain=(-9, 9))

        def up(inputs):
            xv = np.asarray(inputs['x'], dtype=float)
            return {'u': np.where(xv > 0.5, np.nan, 2.0 * xv)}

        def down(inputs):
            return {'v': np.asarray(inputs['u'], dtype=float) + 3.0 * np.asarray(inputs['z'], dtype=float)}
        vec = rng.random() < 0.5
        if vec:
            A = Component(up, [x], [u], name='up', vectorized=True); B = Component(down, [u, z], [v], name='down', vectorized=True)
        else:
            def up1(inputs):
                return {'u': float('nan') if float(inputs['x']) > 0.5 else 2.0 * float(inputs['x'])}

            def down1(inputs):
                return {'v': float(inputs['u']) + 3.0 * float(inputs['z'])}
            A = Component(up1, [x], [u], name='up', vectorized=False); B = Component(down1, [u, z], [v], name='down', vectorized=False)
        system = System(A, B, name=f'nb{n}')
        N = rng.randint(2, 6)
        xs = {'x': np.array([rng.choice([0.125, 0.25, 0.375, 0.75]) for _ in range(N)]), 'z': np.array([rng.random() for _ in range(N)])}
        xs['x'][rng.randrange(N)] = 0.75
        case = {'nan_batch': n, 'vectorized': vec, 'x': xs['x'].tolist(), 'z': xs['z'].tolist()}
        ctx.case(case, nontrivial=True, kind='nan-batch')
        try:
            y = system.predict(xs, use_model='best', normalized_inputs=False)
        except Exception as e:
            ctx.violate('C10:predict-raises', f'{type(e).__name__}: {e}', case); continue
        for j in range(N):
            ys = system.predict({k: a[j:j + 1] for k, a in xs.items()}, use_model='best', normalized_inputs=False)
            for k in y:
                if not systems.floats_close(np.ravel(y[k])[j], np.ravel(ys[k])[0]):
                    ctx.violate('C10:batch-vs-single', f'sample {j} of {k}: {float(np.ravel(y[k])[j])} in a batch containing a NaN-producing sample, '
                                f'{float(np.ravel(ys[k])[0])} alone', case); break


def run_loop_batches(ctx: Ctx):
    """feedback systems with an iteration limit that only some samples of the batch meet: every sample's result (values and NaN pattern)
    is the one it has when evaluated alone"""
    rng = ctx.rng
    for n in range(ctx.pick(6, 40)):
        system, spec = systems.random_loop_system(rng, size=rng.randint(2, 3), name=f'lb{n}', extra=False, downstream=True)
        N = rng.randint(2, 5)
        xs = {f'x{i}': np.array([round(rng.random(), 4) for _ in range(N)]) for i in range(spec['size'])}
        maxit = rng.choice([1, 2, 3, 4, 6]); tol = rng.choice([1e-3, 1e-8, 1e-12])
        if rng.random() < 0.5:      # one sample that can never converge (NaN input) next to samples that converge comfortably
            xs['x0'][rng.randrange(N)] = np.nan; maxit = 60; tol = 1e-8
        case = {'loop_batch': n, 'size': spec['size'], 'x': {k: [None if t != t else t for t in v.tolist()] for k, v in xs.items()}, 'max_fpi_iter': maxit, 'fpi_tol': tol}
        ctx.case(case, nontrivial=True, kind='loop-batch')
        try:
            y = system.predict(xs, use_model='best', max_fpi_iter=maxit, fpi_tol=tol, anderson_mem=1)
            for j in range(N):
                ys = system.predict({k: v[j:j + 1] for k, v in xs.items()}, use_model='best', max_fpi_iter=maxit, fpi_tol=tol, anderson_mem=1)
                for k in y:
                    a, b = float(np.ravel(y[k])[j]), float(np.ravel(ys[k])[0])
                    if not ((a != a and b != b) or abs(a - b) <= 1e-9 * (1 + abs(b))):
                        ctx.violate('C10:batch-vs-single', f'feedback system, sample {j} of {k}: {a} in the batch, {b} alone (iteration limit {maxit})',
                                    {**case, 'sample': j}); break
        except Exception as e:
            ctx.violate('C10:predict-raises', f'{type(e).__name__}: {e}', case)


def run_loop_nan_batches(ctx: Ctx):
    """a feedback loop in which one sample's iterate turns NaN DURING the iteration (square root of a value that drifts negative): the
    other samples of the batch are what they are alone"""
    from amisc import Component, System, Variable
    rng = ctx.rng
    for n in range(ctx.pick(5, 30)):
        g = rng.choice([0.4, 0.5, 0.9])
        xx = Variable('xx', domain=(0, 1)); v0 = Variable('v0', domain=(-3.0, 3.0)); v1 = Variable('v1', domain=(-3.0, 3.0))

        def m0(inputs):
            with np.errstate(invalid='ignore'):
                return {'v0': np.sqrt(np.asarray(inputs['xx'], dtype=float) - np.asarray(inputs['v1'], dtype=float))}

        def m1(inputs, _g=g):
            return {'v1': _g * np.asarray(inputs['v0'], dtype=float) + 0.2}
        system = System(Component(m0, [xx, v1], [v0], name='m0', vectorized=True), Component(m1, [v0], [v1], name='m1', vectorized=True), name=f'ln{n}')
        N = rng.randint(2, 5)
        xs = np.array([round(0.55 + 0.4 * rng.random(), 4) for _ in range(N)])
        bad = rng.randrange(N); xs[bad] = round(0.05 + 0.2 * rng.random(), 4)
        case = {'loop_nan_batch': n, 'gain': g, 'xx': xs.tolist(), 'sample_that_turns_nan': bad}
        ctx.case(case, nontrivial=True, kind='loop-nan-batch')
        try:
            y = system.predict({'xx': xs}, use_model='best', max_fpi_iter=80)
            for j in range(N):
                ys = system.predict({'xx': xs[j:j + 1]}, use_model='best', max_fpi_iter=80)
                for k in y:
                    a, b = float(np.ravel(y[k])[j]), float(np.ravel(ys[k])[0])
                    if not ((a != a and b != b) or abs(a - b) <= 1e-9 * (1 + abs(b))):
                        ctx.violate('C10:batch-vs-single', f'feedback system with a sample turning NaN: sample {j} of {k}: {a} in the batch, {b} alone',
                                    {**case, 'sample': j}); break
        except Exception as e:
            ctx.violate('C10:predict-raises', f'{type(e).__name__}: {e}', case)


def run_field_coords(ctx: Ctx):
    """field-quantity inputs announced by `<var>_coords` on 1-d / 2-d / 3-d grids: the trailing field axes are not loop axes; a batch of
    fields has one result per field, equal to the result of that field alone"""
    from amisc import Component, Variable
    rng = ctx.rng

    def model(inputs, f_coords=None, g_coords=None):
        nf = 1 if f_coords is None or f_coords.ndim == 1 else f_coords.ndim - 1
        ng = 1 if g_coords is None or g_coords.ndim == 1 else g_coords.ndim - 1
        f, g = np.asarray(inputs['f'], dtype=float), np.asarray(inputs['g'], dtype=float)
        a = np.asarray(inputs['a'], dtype=float) if 'a' in inputs else 0.0        # a plain scalar input listed after the fields
        return {'y': np.sum(f, axis=tuple(range(-nf, 0))) + 2.0 * np.max(g, axis=tuple(range(-ng, 0))) + 5.0 * a}
    for n in range(ctx.pick(10, 80)):
        nd = rng.randint(1, 3)
        sizes = [rng.randint(2, 4) for _ in range(nd)]
        if nd == 1:
            coords = np.linspace(0, 1, sizes[0]) if rng.random() < 0.5 else np.linspace(0, 1, sizes[0]).reshape((sizes[0], 1))
        else:
            coords = np.stack(np.meshgrid(*[np.linspace(0, 1, m) for m in sizes], indexing='ij'), axis=-1)
        fshape = tuple(sizes)
        vec = rng.random() < 0.5
        loop = tuple(rng.randint(1, 3) for _ in range(rng.randint(1, 2)))
        with_scalar = n % 2 == 1      # every other case: a scalar input (one value per sample) listed after the field inputs
        comp = Component(model, [Variable('f'), Variable('g')] + ([Variable('a')] if with_scalar else []), [Variable('y')], vectorized=vec, name=f'fc{n}')
        rs = np.random.RandomState(ctx.seed * 41 + n)
        f = rs.rand(*(loop + fshape)); g = rs.rand(*(loop + fshape))
        axes = tuple(range(-len(fshape), 0))
        want = np.sum(f, axis=axes) + 2.0 * np.max(g, axis=axes)
        extra = {}
        if with_scalar:
            extra['a'] = rs.rand(*loop); want = want + 5.0 * extra['a']
        case = {'field_coords': n, 'grid_sizes': sizes, 'coords_shape': list(coords.shape), 'loop_shape': loop, 'vectorized': vec, 'scalar_input_after_fields': with_scalar}
        ctx.case(case, nontrivial=nd >= 2, kind=f'field-coords:{nd}d')
        for fname, call in (('call_model', lambda: comp.call_model({'f': f, 'g': g, **extra}, f_coords=coords, g_coords=coords)),
                            ('predict(use_model)', lambda: comp.predict({'g': g, 'f': f, **extra}, use_model='best', f_coords=coords, g_coords=coords))):
            try:
                y = np.asarray(call()['y'])
            except Exception as e:
                ctx.violate('C10:field-input-raises', f'{fname} raised {type(e).__name__}: {e}', case); continue
            if y.shape != loop:
                ctx.violate('C10:field-axes-taken-as-loop-axes', f'{fname} returned shape {y.shape} for loop shape {loop} and field shape {fshape}', case)
            elif not np.allclose(y, want, rtol=1e-13, atol=0):
                ctx.violate('C10:batch-vs-single', f'{fname}: values differ from the per-field results', case)


def run_latent_key_order(ctx: Ctx):
    """the latent coefficients of a compressed field input may be listed in any key order: model call (the field is reconstructed from them)
    and surrogate prediction give the same values"""
    import random as _random
    rng = ctx.rng
    for n in range(ctx.pick(4, 20)):
        system, _ = systems.field_input_system(_random.Random(ctx.seed * 67 + n), name=f'lk{n}')
        comp = system.components[0]
        for b in [(0, 0), (1, 0), (0, 1)]:
            comp.activate_index((), b)
        N = rng.randint(1, 4)
        np.random.seed(ctx.seed * 5 + n)
        x = system.sample_inputs(N)
        keys = list(x.keys())
        perm = keys[:]
        while perm == keys:
            rng.shuffle(perm)
        case = {'latent_key_order': n, 'keys': [str(k) for k in keys], 'permuted': [str(k) for k in perm]}
        ctx.case(case, nontrivial=True, kind='latent-key-order')
        for label, kw in (('surrogate', {}), ('model', {'use_model': 'best'})):
            try:
                y1 = system.predict({k: x[k] for k in keys}, **kw)
                y2 = system.predict({k: x[k] for k in perm}, **kw)
            except Exception as e:
                ctx.violate('C10:predict-raises', f'{label}: {type(e).__name__}: {e}', case); continue
            for var in y1:
                if not systems.floats_close(y1[var], y2[var], rtol=1e-12, atol=1e-14):
                    ctx.violate('C10:key-order', f'{label}: output {var} = {np.asarray(y1[var]).tolist()} with keys {case["keys"]}, '
                                f'{np.asarray(y2[var]).tolist()} with keys {case["permuted"]}', case); break


def run_positional_keys(ctx: Ctx):
    """a model with a positional signature called through the component wrapper: the key order of the input dict is irrelevant,
    serially and through an executor"""
    from concurrent.futures import ThreadPoolExecutor
    from amisc import Component
    import unpacked_models as um
    rng = ctx.rng
    comp = Component(um.third, name='third')
    names = [str(v) for v in comp.inputs]
    for n in range(ctx.pick(6, 40)):
        N = rng.randint(1, 4)
        vals = {k: np.array([float(rng.randint(-4, 8)) / 2 for _ in range(N)]) for k in names}
        want = um.expected  # not used directly: third's own formulas below
        y2 = vals['x1'] + 2.0 * vals['y1'] - vals['y0']; y3 = vals['x1'] * 4.0 + vals['y0']
        for perm in itertools.permutations(names):
            d = {k: vals[k] for k in perm}
            case = {'positional_call': n, 'key_order': list(perm), 'values': {k: v.tolist() for k, v in vals.items()}}
            ctx.case(case, nontrivial=list(perm) != names, kind='positional-keys')
            for label, kw in (('serial', {}), ('executor', 'pool')):
                try:
                    if kw == 'pool':
                        with ThreadPoolExecutor(max_workers=2) as pool:
                            out = comp.call_model(dict(d), executor=pool)
                    else:
                        out = comp.call_model(dict(d))
                except Exception as e:
                    ctx.violate('C10:call_model-raises', f'{label}: {type(e).__name__}: {e}', case); continue
                if not (systems.floats_close(out['y2'], y2) and systems.floats_close(out['y3'], y3)):
                    ctx.violate('C10:key-order-changes-result', f'{label} call with key order {list(perm)}: y2={np.asarray(out["y2"]).tolist()} '
                                f'y3={np.asarray(out["y3"]).tolist()}, expected {y2.tolist()} {y3.tolist()}', case)


def run_array_nan_batches(ctx: Ctx):
    """a system input that is an array per sample (`var_shape`): a NaN inside ONE sample's array must not touch the other samples"""
    from amisc import Component, System, Variable
    rng = ctx.rng
    for n in range(ctx.pick(6, 40)):
        D = rng.randint(2, 4); N = rng.randint(3, 7)
        vec = rng.random() < 0.5
        u, a = Variable('u'), Variable('a', domain=(0, 5))
        f1 = Component(lambda inputs: {'y': np.sum(inputs['u'], axis=-1) + inputs['a']}, [u, a], [Variable('y')], name='f1', vectorized=vec)
        f2 = Component(lambda inputs: {'z': 2.0 * inputs['y'] - 1.0}, [Variable('y')], [Variable('z')], name='f2', vectorized=vec)
        system = System(f1, f2, name=f'an{n}')
        U = np.arange(1.0, 1.0 + N * D).reshape(N, D) / 4; A = np.linspace(0.5, 4.5, N)
        bad = (rng.randrange(N), rng.randrange(D))
        U[bad] = np.nan
        kw = dict(use_model='best', normalized_inputs=False, var_shape={'u': (D,)})
        case = {'array_nan_batch': n, 'N': N, 'D': D, 'nan_at': list(bad), 'vectorized': vec}
        ctx.case(case, nontrivial=True, kind='nan-batch:array-input')
        batch = {'u': U, 'a': A} if n % 2 == 0 else {'a': A, 'u': U}
        try:
            y = system.predict(batch, **kw)
        except Exception as e:
            ctx.violate('C10:predict-raises', f'{type(e).__name__}: {e}', case); continue
        for j in range(N):
            ys = system.predict({k: v[j:j + 1] for k, v in batch.items()}, **kw)
            for k in ('y', 'z'):
                if not systems.floats_close(np.ravel(y[k])[j], np.ravel(ys[k])[0]):
                    ctx.violate('C10:batch-vs-single', f'sample {j} of {k}: {float(np.ravel(y[k])[j])} in a batch whose sample {bad[0]} has a NaN inside its array input, '
                                f'{float(np.ravel(ys[k])[0])} alone', case); break


def run_node_mix(ctx: Ctx):
    """batches that mix a training grid point (every coordinate on a node), samples with SOME coordinates on nodes and generic samples: whatever
    the interpolator decides per batch about on-node handling, each sample must get the value it gets alone"""
    import p_exact
    rng = ctx.rng
    for n in range(ctx.pick(6, 40)):
        nx = rng.randint(2, 3); kpl = rng.randint(1, 2); levels = [rng.randint(1, 2) for _ in range(nx)]
        domains = [(float(lo), float(lo) + rng.choice([1.0, 2.0, 4.0])) for lo in (rng.choice([-2, -1, 0, 1]) for _ in range(nx))]
        comp, terms = p_exact.build_poly_component(rng, nx, 0, 1, levels, kpl, domains, name=f'nm{n}')
        order = p_exact.random_order(rng, tuple(levels), rng.randint(3, 6))
        p_exact.fill_terms(rng, terms, set(order), 0, nx, kpl)
        p_exact.grow_to(comp, 0, order)
        names = [f'x{k}' for k in range(nx)]
        grids = [list(comp.training_data.x_grids[v]) for v in names]
        rows = []
        rows.append([rng.choice(g) for g in grids])                                               # a full tensor grid point
        for _ in range(2):                                                                          # some coordinates on nodes
            k0 = rng.randrange(nx)
            rows.append([rng.choice(grids[k]) if k == k0 else float(comp.inputs[names[k]].normalize(np.array([domains[k][0] + (domains[k][1] - domains[k][0]) * rng.random()]))[0])
                         for k in range(nx)])
        rows.append([float(comp.inputs[names[k]].normalize(np.array([domains[k][0] + (domains[k][1] - domains[k][0]) * rng.random()]))[0]) for k in range(nx)])   # generic
        case = {'node_mix': n, 'nx': nx, 'levels': levels, 'kpl': kpl, 'order': order, 'rows': rows}
        ctx.case(case, nontrivial=True, kind='component-batch:node-mix')
        singles = [float(np.ravel(comp.predict({v: np.array([r[k]]) for k, v in enumerate(names)}, index_set='train')['y0'])[0]) for r in rows]
        for sub in ([0, 1, 2, 3], [1, 2, 3], [1, 3], [2, 0]):
            xb = {v: np.array([rows[i][k] for i in sub]) for k, v in enumerate(names)}
            yb = np.ravel(comp.predict(xb, index_set='train')['y0'])
            for j, i in enumerate(sub):
                if not systems.floats_close(yb[j], singles[i], rtol=1e-10, atol=1e-12):
                    ctx.violate('C10:batch-vs-single', f'sample {rows[i]} = {float(yb[j])} in the batch of rows {sub} (row 0 is a training grid point, rows 1-2 have one coordinate '
                                f'on a node), {singles[i]} alone', {**case, 'batch_rows': sub}); break
            else:
                continue
            break


def run_failing_sample(ctx: Ctx):
    """one sample of a batch makes a (non-vectorised) model raise: it comes back as NaN with an error record, and every OTHER sample has the value
    it has alone, at its own position - serially and through an executor"""
    from concurrent.futures import ThreadPoolExecutor
    from amisc import Component, Variable
    rng = ctx.rng

    def model(inputs):
        a, b = float(inputs['a']), float(inputs['b'])
        if a == 4.0:
            raise ValueError('model failure at a=4')
        return {'r': 10.0 * a + b}
    comp = Component(model, [Variable('a', domain=(0, 10)), Variable('b', domain=(0, 10))], [Variable('r')], name='failing', vectorized=False)
    for n in range(ctx.pick(8, 60)):
        shape = tuple(rng.randint(1, 3) for _ in range(rng.randint(1, 2)))
        N = int(np.prod(shape))
        a = np.array([float(rng.randint(0, 9)) for _ in range(N)]); b = np.array([float(rng.randint(0, 9)) / 2 for _ in range(N)])
        if N >= 2:
            a[rng.randrange(N - 1)] = 4.0           # a failing sample that is not the last one
        case = {'failing_sample_batch': n, 'shape': shape, 'a': a.tolist(), 'b': b.tolist()}
        ctx.case(case, nontrivial=N >= 2 and 4.0 in a, kind='batch-with-failing-sample')
        want = np.where(a == 4.0, np.nan, 10.0 * a + b).reshape(shape)
        for label in ('serial', 'thread pool'):
            try:
                if label == 'serial':
                    out = comp.call_model({'a': a.reshape(shape), 'b': b.reshape(shape)})
                else:
                    with ThreadPoolExecutor(max_workers=2) as pool:
                        out = comp.call_model({'a': a.reshape(shape), 'b': b.reshape(shape)}, executor=pool)
            except Exception as e:
                ctx.violate('C10:call_model-raises', f'{label}: {type(e).__name__}: {e}', case); continue
            got = np.asarray(out['r'], dtype=float)
            if got.shape != want.shape or not np.allclose(got, want, rtol=0, atol=0, equal_nan=True):
                ctx.violate('C10:batch-vs-single', f'{label} call_model with a failing sample in the batch returns {got.tolist()}; sample by sample it is {want.tolist()}', case); break
            if sorted(int(i) for i in (out.get('errors') or {})) != [i for i in range(N) if a[i] == 4.0]:
                ctx.violate('C10:batch-vs-single', f'{label}: error records for samples {sorted(out.get("errors") or {})}, the failing samples are {[i for i in range(N) if a[i] == 4.0]}', case); break
