"""C07 / C06 (Model/Graph.v): the dependency structure System.predict evaluates.  Random topologies of analytic (affine, contractive)
components - chains, fans, several feedback loops, isolated components, random listings, and EVERY directed graph without
self-edges on 2-3 (thorough: 2-4) components - are predicted with instrumented models; the harness observes
  * System.graph() edges                                  -> compared with the extracted `edges` (functional),
  * the groups System.predict iterates over, in order (the `networkx` name inside amisc.system is replaced, in the harness process
    only, by a forwarding proxy that records what topological_sort yields and the members of each condensation node)
                                                          -> accepted by the extracted `plan_ok`, groups = extracted `sccs`,
  * how often each model is called                        -> exactly once outside the groups `is_loop` marks, at least once inside,
  * the returned values                                   -> the exact solution of the affine coupled equations (numpy solve)."""
from __future__ import annotations

from fractions import Fraction

import numpy as np

from common import Ctx, ModelError, enc, run_model


class NxProxy:
    def __init__(self, nx, log):
        self._nx, self._log = nx, log

    def __getattr__(self, name):
        return getattr(self._nx, name)

    def topological_sort(self, dag):
        order = list(self._nx.topological_sort(dag))
        try:
            self._log.append([set(dag.nodes[s]['members']) for s in order])
        except Exception:
            self._log.append(None)
        return iter(order)


def random_topology(rng, n):
    """spec: per component (name, inputs, outputs, consts); affine models out = 0.15 * sum(inputs) + const"""
    ncomp = rng.randint(2, 7)
    nexo = rng.randint(1, 3)
    exo = [f'x{i}' for i in range(nexo)]
    outs = []
    spec = []
    for c in range(ncomp):
        no = 1 if rng.random() < 0.7 else 2
        o = [f'v{c}_{j}' for j in range(no)]
        outs.append(o)
    allouts = [v for o in outs for v in o]
    kind = rng.choice(['dag', 'loops', 'rings', 'rings', 'dense'])
    ring_of, rings = {}, []
    if kind == 'rings':         # several separate feedback loops chained one after the other, plus free components
        c = 0
        while c < ncomp:
            size = min(ncomp - c, rng.choice([1, 2, 2, 3]))
            rings.append(list(range(c, c + size)))
            for k in range(c, c + size):
                ring_of[k] = len(rings) - 1
            c += size
    for c in range(ncomp):
        ins = []
        if rng.random() < 0.8 or c == 0:
            ins += rng.sample(exo, rng.randint(1, nexo))
        if kind == 'rings':
            r = rings[ring_of[c]]
            if len(r) > 1:
                ins.append(rng.choice(outs[r[(r.index(c) - 1) % len(r)]]))           # previous member of the own ring
            if ring_of[c] > 0 and rng.random() < 0.7:
                ins.append(rng.choice(outs[rng.choice(rings[rng.randrange(ring_of[c])])]))   # something from an earlier ring
            pool = []
        elif kind == 'dag':
            pool = [v for o in outs[:c] for v in o]
        else:
            pool = [v for k, o in enumerate(outs) for v in o if k != c]       # no component consumes its own output directly
        if pool:
            kmax = {'dag': 2, 'loops': 1, 'dense': 3}[kind]
            ins += rng.sample(pool, min(len(pool), rng.randint(0, kmax)))
        if not ins:
            ins = [exo[0]]
        ins = list(dict.fromkeys(ins))
        rng.shuffle(ins)
        spec.append({'name': f'g{n}c{c}', 'inputs': ins, 'outputs': outs[c], 'consts': [rng.randint(-3, 3) for _ in outs[c]]})
    order = list(range(ncomp)); rng.shuffle(order)
    return [spec[i] for i in order], exo


def enumerated_topologies(rng, sizes):
    """every directed graph without self-edges on n components (one output each, each also reading the exogenous input)"""
    for ncomp in sizes:
        pairs = [(i, j) for i in range(ncomp) for j in range(ncomp) if i != j]
        for mask in range(2 ** len(pairs)):
            spec = []
            for j in range(ncomp):
                ins = ['x0'] + [f'w{i}' for k, (i, jj) in enumerate(pairs) if jj == j and (mask >> k) & 1]
                rng.shuffle(ins)
                spec.append({'name': f'e{ncomp}m{mask}c{j}', 'inputs': ins, 'outputs': [f'w{j}'], 'consts': [rng.randint(-3, 3)]})
            order = list(range(ncomp))
            if mask % 2:
                rng.shuffle(order)
            yield [spec[i] for i in order], ['x0']


def build(spec, exo, calls):
    from amisc import Component, System, Variable
    V = {v: Variable(v, distribution='U(-1, 1)') for v in exo}
    for s in spec:
        for o in s['outputs']:
            V[o] = Variable(o, domain=(-20.0, 20.0))
    comps = []
    for s in spec:
        def model(inputs, _s=s):
            calls.append(_s['name'])
            tot = 0.0
            for v in _s['inputs']:
                tot = tot + np.asarray(inputs[v], dtype=float)
            return {o: 0.15 * tot + float(c) for o, c in zip(_s['outputs'], _s['consts'])}
        comps.append(Component(model, [V[v] for v in s['inputs']], [V[o] for o in s['outputs']], name=s['name'], vectorized=True))
    return System(*comps, name='g')


def exact_solution(spec, exo, x):
    outs = [o for s in spec for o in s['outputs']]
    idx = {o: i for i, o in enumerate(outs)}
    A = np.eye(len(outs)); b = np.zeros(len(outs))
    for s in spec:
        for o, c in zip(s['outputs'], s['consts']):
            b[idx[o]] += c
            for v in s['inputs']:
                if v in idx:
                    A[idx[o], idx[v]] -= 0.15
                else:
                    b[idx[o]] += 0.15 * x[v]
    sol = np.linalg.solve(A, b)
    return {o: float(sol[idx[o]]) for o in outs}


def run_graph(ctx: Ctx):
    import amisc.system as asys
    rng = ctx.rng
    lines, meta = [], []
    tops = [random_topology(rng, n) for n in range(ctx.pick(40, 500))]
    tops += list(enumerated_topologies(rng, ctx.pick([2, 3], [2, 3, 4])))
    for n, (spec, exo) in enumerate(tops):
        calls = []
        try:
            system = build(spec, exo, calls)
        except Exception as e:
            ctx.violate('C07:system-construction-raises', f'{type(e).__name__}: {e}', {'graph_system': n, 'spec': spec}); continue
        names = [s['name'] for s in spec]
        pos = {nm: i for i, nm in enumerate(names)}
        allvars = sorted({v for s in spec for v in s['inputs'] + s['outputs']})
        num = {v: i for i, v in enumerate(allvars)}
        comps_io = [[[num[v] for v in s['inputs']], [num[v] for v in s['outputs']]] for s in spec]
        case = {'graph_system': n, 'components': [(s['name'], s['inputs'], s['outputs']) for s in spec]}
        real_edges = sorted({(pos[a], pos[b]) for a, b in system.graph().edges})
        x = {v: np.array([rng.randint(-4, 4) / 4.0]) for v in exo}
        log = []
        saved = asys.nx
        asys.nx = NxProxy(saved, log)
        calls.clear()
        try:
            y = system.predict(x, use_model='best', normalized_inputs=False, fpi_tol=1e-11, max_fpi_iter=400)
        except Exception as e:
            ctx.violate('C07:predict-raises', f'{type(e).__name__}: {e}', case); continue
        finally:
            asys.nx = saved
        if not log or log[-1] is None:
            ctx.disagree('C07:evaluation-plan-not-observable', case, 'System.predict did not ask networkx for a topological order of a condensation', None); continue
        plan_sets = log[-1]
        plan = [[i for i, nm in enumerate(names) if nm in g] for g in plan_sets]      # members in listing order, as the code iterates them
        ncalls = {nm: calls.count(nm) for nm in names}
        loops = sum(1 for g in plan if len(g) > 1)
        ctx.case({**case, 'x': {k: v.tolist() for k, v in x.items()}}, nontrivial=len(real_edges) > 0, kind=f'graph:{len(names)}comps:{loops}loops')
        lines.append('graph_plan ' + enc([comps_io, [plan]]))
        meta.append((case, real_edges, plan, ncalls, names))
        # values: the exact solution of the affine coupled equations
        ref = exact_solution(spec, exo, {k: float(v[0]) for k, v in x.items()})
        for o, r in ref.items():
            got = float(np.ravel(np.asarray(y[o], dtype=float))[0]) if o in y else float('nan')
            if not (got == got and abs(got - r) <= 1e-7 * (1 + abs(r))):
                ctx.violate('C07:not-the-coupled-solution', f'output {o} = {got}, the coupled equations give {r}', {**case, 'x': {k: v.tolist() for k, v in x.items()}}); break
    for (case, real_edges, plan, ncalls, names), mo in zip(meta, run_model(lines) if lines else []):
        ctx.count('plans_checked')
        if isinstance(mo, ModelError):
            ctx.disagree('C07:model-error', case, str(mo), None); continue
        m_edges = sorted({(a, b) for a, b in mo[0]})
        m_groups = sorted(sorted(g) for g in mo[1])
        if m_edges != real_edges:
            ctx.disagree('C07:System.graph edges', case, m_edges, real_edges); continue
        if sorted(sorted(g) for g in plan) != m_groups:
            ctx.disagree('C07:strongly connected groups', case, m_groups, plan); continue
        if mo[2] != [1]:
            ctx.disagree('C07:evaluation plan not in dependency order', case, 'plan_ok = false', plan); continue
        # feedback members (and only they) are iterated
        for g in plan:
            for i in g:
                c = ncalls[names[i]]
                # a loop whose initial iterate already is the fixed point is left after one sweep: only 'at least once' can be asked of loop members
                if (len(g) > 1 and c < 1) or (len(g) == 1 and c != 1):
                    ctx.violate('C07:feedback-membership', f'component {names[i]} (group {[names[k] for k in g]}) had its model called {c} time(s)',
                                {**case, 'calls': ncalls}); break
