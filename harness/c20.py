"""C20: seeded training is reproducible across processes and string-hash randomisation."""
from __future__ import annotations

import json
import os
import subprocess
import sys
from concurrent.futures import ThreadPoolExecutor

from common import Ctx, ROOT, REPO, enc, run_model, ModelError


def child(sid, npseed, niter, hashseed):
    env = dict(os.environ, PYTHONHASHSEED=str(hashseed), PYTHONPATH=f'{REPO}/src:{ROOT}/harness', OMP_NUM_THREADS='1',
               OPENBLAS_NUM_THREADS='1', MPLBACKEND='Agg')
    p = subprocess.run([sys.executable, str(ROOT / 'harness' / 'c20_child.py'), str(sid), str(npseed), str(niter)],
                       env=env, capture_output=True, text=True, timeout=900)
    for line in p.stdout.splitlines():
        if line.startswith('C20JSON '):
            return json.loads(line[8:])
    return {'error': (p.stderr or p.stdout)[-1500:]}


def run(ctx: Ctx):
    rng = ctx.rng
    nsys = ctx.pick(8, 24)
    seeds = ctx.pick([0, 1, 2, 3, 'random', 'random'], [0, 1, 2, 3, 4, 5, 6, 7, 11, 101, 'random', 'random', 'random', 'random'])
    ctx.rule = ('identical construction code and numpy seed run in separate interpreter processes with PYTHONHASHSEED in {0..N, random}: '
                'order of System.inputs()/coupling_variables(), drawn samples, training history, full state digest and predictions must '
                'coincide; systems with 3-8 exogenous inputs, feed-forward and feedback; the order of inputs() is also compared with '
                'Model/Order.v; non-trivial = system with at least two exogenous inputs and two processes compared')
    jobs = []
    for n in range(nsys):
        sid = ctx.seed * 100 + n
        npseed = rng.randint(0, 10 ** 6); niter = rng.randint(4, 7)
        for hs in seeds:
            jobs.append((sid, npseed, niter, hs))
    with ThreadPoolExecutor(16) as ex:
        results = list(ex.map(lambda j: child(*j), jobs))
    by_sys = {}
    for j, r in zip(jobs, results):
        by_sys.setdefault(j[:3], []).append((j[3], r))
    lines, meta = [], []
    for (sid, npseed, niter), runs in by_sys.items():
        case = {'system': sid, 'numpy_seed': npseed, 'iterations': niter, 'hash_seeds': [str(h) for h, _ in runs]}
        errs = [r for _, r in runs if 'error' in r]
        if errs:
            ctx.violate('C20:child-crashed', 'training raised in a child process: ' + errs[0]['error'][-600:], case); continue
        ref = runs[0][1]
        ctx.case(case, nontrivial=len(ref['inputs_order']) >= 2 and len(runs) >= 2, kind=f'n_inputs={len(ref["inputs_order"])}')
        for hs, r in runs[1:]:
            def same(key):
                return r[key] == ref[key]
            for key in ('component_order', 'inputs_order', 'coupling_order', 'sample_keys', 'samples', 'history', 'state_digest', 'prediction'):
                if not same(key):
                    a, b = ref[key], r[key]
                    ctx.violate(f'C20:{key}-depends-on-hash-seed',
                                f'{key} differs between PYTHONHASHSEED={runs[0][0]} and {hs}: {str(a)[:200]} vs {str(b)[:200]}',
                                {**case, 'hash_seed_a': str(runs[0][0]), 'hash_seed_b': str(hs)})
                    break
        ctx.count('processes', len(runs))
        # correspondence: order of inputs()/coupling_variables()/outputs() versus Model/Order.v (variables numbered)
        names = sorted({v for c in ref['components'] for part in c for v in part})
        num = {v: i for i, v in enumerate(names)}
        lines.append('order_io ' + enc([[[[num[v] for v in part] for part in c] for c in ref['components']]]))
        meta.append((case, ref, names))
    for (case, ref, names), mo in zip(meta, run_model(lines) if lines else []):
        if isinstance(mo, ModelError):
            ctx.disagree('C20:model-error', case, str(mo), None); continue
        got = [[names[i] for i in part] for part in mo]
        want = [ref['inputs_order'], ref['coupling_order'], ref['outputs_order']]
        if got != want:
            ctx.disagree('C20:order of inputs/coupling/outputs', case, got, want)
