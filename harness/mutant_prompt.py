"""Print the prompt given to an independent mutation sub-agent for one property (nothing from /verif leaks)."""
import json, sys
pid = sys.argv[1]
props = {json.loads(l)['id']: json.loads(l) for l in open('/verif/properties.jsonl') if l.strip()}
p = props[pid]
wt = f'/tmp/wt_{pid}'
print(f"""You are testing how well a semantic property of the Python library amisc (eckelsjd/amisc: multi-fidelity surrogates via adaptive multi-index stochastic collocation) is protected. You have your own scratch git worktree of the repository at {wt} (work ONLY there; never touch /repo or /verif, and do not read anything under /verif). Python with all dependencies is /venv/bin/python; run code against your worktree with `cd {wt} && PYTHONPATH={wt}/src /venv/bin/python ...` (check `import amisc; print(amisc.__file__)` points into {wt}). The existing test suite runs with `cd {wt} && PYTHONPATH={wt}/src /venv/bin/python -m pytest -q -p no:cacheprovider --timeout=900 -x tests/<file>` (full suite ~80 s; tests/test_system_spec.py::test_init_methods fails on the unchanged tree — ignore it).

The property:
  Title: {p['title']}
  Statement: {p['statement']}
  Quantified over: {p['quantifier']['text']}
  Anchored in: {', '.join(p['anchors']['files'])}

Your task: produce up to THREE different, realistic source changes (each a separate small patch to files under src/amisc, of the kind a plausible refactoring slip, off-by-one, wrong variable, stale cache, reordered statement, sign error or "optimisation" could introduce) each of which BREAKS this property while the package still imports and the ENTIRE existing test suite still passes exactly as before (57 passed, 1 failed test_init_methods). Prefer changes that need something specific to manifest — a multi-step sequence of operations, an unusual but legal input, a particular history/order, a corner of the parameter space, or two cooperating sites that each look fine alone — NOT ones that any ordinary use would expose at once. For each change also write a small standalone demonstration script (plain python, no pytest needed) that exits 0 on the unchanged tree and exits 1 (printing what went wrong) with your change applied, exercising only public behaviour of amisc.

Deliverables, in {wt}/mutants/<k>/ for k = 1,2,3: `patch.diff` (output of `git diff` for that change alone, applicable with `git apply` to the unchanged tree), `demo.py`, and `meta.json` with keys: property ("{pid}"), summary (one sentence: what was changed), needs (what specific input/sequence/order is needed for it to manifest), suite ("57 passed, 1 failed" as you observed it with the change applied — actually run the full suite for each change). Before finishing, for each mutant: `git checkout -- src` to get the clean tree (NEVER use `git stash`: it is shared between worktrees), verify demo exits 0; apply patch, verify demo exits 1 and the full suite result is unchanged; then restore the clean tree (leave the worktree clean apart from the mutants/ directory). If you cannot find a change that survives the suite, say so rather than delivering one that fails tests. Report at the end a short list: per mutant the summary, needs, and the verification results you observed.""")
