"""C01 / C02 / C18: multi-index bookkeeping of a Component versus Model/Misc.v.

The three properties share one set of runs; each check reports the observables it is about.
"""
from __future__ import annotations

import copy
import itertools

import numpy as np

from common import Ctx, enc, run_model, ModelError


# ------------------------------------------------------------------------------------------------
# generators
# ------------------------------------------------------------------------------------------------
def margin(active: set, mx: tuple) -> list:
    """admissible margin of a downward-closed set inside the box [0, mx]"""
    d = len(mx)
    if not active:
        return [tuple([0] * d)]
    out = set()
    for i in active:
        for k in range(d):
            n = list(i); n[k] += 1; n = tuple(n)
            if n[k] > mx[k] or n in active:
                continue
            if all(n[j] == 0 or tuple(n[:j] + (n[j] - 1,) + n[j + 1:]) in active for j in range(d)):
                out.add(n)
    return sorted(out)


def random_history(rng, mx, steps, p_bad=0.3):
    """random linear extension of a random downward-closed set with inadmissible requests interleaved"""
    d = len(mx)
    active, reqs = set(), []
    for _ in range(steps):
        r = rng.random()
        m = margin(active, mx)
        if r < p_bad or not m:
            kind = rng.randrange(4)
            if kind == 0 and active:
                reqs.append(rng.choice(sorted(active)))                       # already active
            elif kind == 1:
                reqs.append(tuple(rng.randint(0, mx[k] + 1) for k in range(d)))   # anywhere, maybe outside the box
            elif kind == 2 and active:
                i = list(rng.choice(sorted(active))); k = rng.randrange(d); i[k] += 2   # a gap away
                reqs.append(tuple(i))
            else:
                i = list(rng.choice(m)) if m else [0] * d
                k = rng.randrange(d); i[k] += 1                                # neighbour of a candidate
                reqs.append(tuple(i))
            r2 = reqs[-1]
            if r2 in m and r2 not in active:     # happened to be admissible
                active.add(r2)
        if m and r >= p_bad:
            c = rng.choice(m)
            reqs.append(c); active.add(c)
    return reqs


def all_dc_sets(mx):
    """all non-empty downward-closed subsets of the box (as frozensets), by growth from {0}"""
    zero = tuple([0] * len(mx))
    seen = {frozenset([zero])}
    frontier = [frozenset([zero])]
    while frontier:
        nxt = []
        for s in frontier:
            for c in margin(set(s), mx):
                t = frozenset(s | {c})
                if t not in seen:
                    seen.add(t); nxt.append(t)
        frontier = nxt
    return seen


def linear_extension(rng, s, mx):
    active, order = set(), []
    while len(active) < len(s):
        m = [c for c in margin(active, mx) if c in s]
        c = rng.choice(m)
        order.append(c); active.add(c)
    return order


def boxes_upto(cells, maxdim):
    """all limit vectors mx (each limit >= 0) with prod(mx+1) <= cells and 1..maxdim dims, limits sorted is NOT assumed"""
    out = []
    for d in range(1, maxdim + 1):
        for mx in itertools.product(range(0, cells), repeat=d):
            if int(np.prod([m + 1 for m in mx])) <= cells:
                out.append(mx)
    return out


def split3(rng, d):
    """split d dims into (n_alpha, n_data, n_surr); data dims are kept <= 2 (they drive grid size)"""
    nd = rng.randint(1, min(3, d))      # amisc needs len(data_fidelity) == number of inputs >= 1
    na = rng.randint(0, d - nd)
    return na, nd, d - na - nd


# ------------------------------------------------------------------------------------------------
# implementation runner
# ------------------------------------------------------------------------------------------------
def make_component(na, nd, ns, mx, name='comp'):
    from amisc import Component, Variable
    from amisc.training import SparseGrid
    inputs = [Variable(f'x{k}', distribution='U(0, 1)') for k in range(nd)] or [Variable('x0', distribution='U(0, 1)')]
    outputs = [Variable(f'y_{name}')]

    fail = {'on': False}

    def model(inputs, model_fidelity=None):
        if fail['on']:            # a vectorised model that raises: the exception propagates out of activate_index
            fail['on'] = False
            raise RuntimeError('model failure injected by the harness')
        first = next(iter(inputs.values()))
        return {f'y_{name}': np.ones(np.shape(np.atleast_1d(first)))}
    model.fail = fail
    kw = {}
    if na:
        kw['model_fidelity'] = tuple(mx[:na])
    if nd:
        kw['data_fidelity'] = tuple(mx[na:na + nd])
    if ns:
        kw['surrogate_fidelity'] = tuple(mx[na + nd:])
    comp = Component(model, inputs, outputs, name=name, vectorized=True,
                     training_data=SparseGrid(knots_per_level=1), **kw)
    return comp


def tree_items(tree):
    return sorted((tuple(a) + tuple(b), int(round(c))) if float(c).is_integer() else (tuple(a) + tuple(b), float(c))
                  for a, b, c in tree)


def snapshot(comp):
    return {
        'active': sorted(tuple(a) + tuple(b) for a, b in comp.active_set),
        'cand': sorted(tuple(a) + tuple(b) for a, b in comp.candidate_set),
        'ctrain': tree_items(comp.misc_coeff_train),
        'ctest': tree_items(comp.misc_coeff_test),
    }


def clear_residue(comp):
    """names of the containers of a component (and of its training data) that are not empty after clear(): a cleared object is a fresh one"""
    left = []
    for name in ('active_set', 'candidate_set', 'misc_states', 'misc_costs', 'misc_coeff_train', 'misc_coeff_test', 'model_costs'):
        try:
            if len(getattr(comp, name)) > 0:
                left.append(name)
        except Exception:
            pass
    td = comp.training_data
    for name in ('betas', 'x_grids', 'yi_map', 'yi_nan_map', 'error_map', 'latent_size'):
        obj = getattr(td, name, None)
        try:
            if obj is not None and len(obj) > 0:
                left.append('training_data.' + name)
        except Exception:
            pass
    return left


def impl_trace(case):
    na, nd, ns, mx, reqs = case['na'], case['nd'], case['ns'], tuple(case['mx']), case['reqs']
    comp = make_component(na, nd, ns, mx)
    if case.get('prefix_then_clear'):
        # reuse after clear(): a previous history on the same object must leave no trace
        for r in case['prefix_then_clear']:
            comp.activate_index(tuple(r[:na]), tuple(r[na:]))
        comp.clear()
        comp.training_data.clear()
        case['_clear_residue'] = clear_residue(comp)
    snaps = []
    case['_fail_snaps'] = []
    for k, r in enumerate(reqs):
        if k in case.get('fail_at', ()):
            # the model raises during this request; the caller catches the exception: the state in between is a point of the history too
            # (index sets and weights move only after all data is stored); then the request is repeated and must behave as usual
            comp.model.fail['on'] = True
            try:
                comp.activate_index(tuple(r[:na]), tuple(r[na:]))
                raised = False
            except RuntimeError:
                raised = True
            comp.model.fail['on'] = False
            case['_fail_snaps'].append((k, raised, snapshot(comp)))
            if not raised:
                snaps.append(snapshot(comp)); continue       # the request needed no model call (it was ignored): nothing to repeat
        try:
            comp.activate_index(tuple(r[:na]), tuple(r[na:]))
        except Exception as e:   # an activation request must never raise; the case ends here
            snaps.append({'raised': f'{type(e).__name__}: {e}'[:300]})
            break
        snaps.append(snapshot(comp))
    return comp, snaps


def canon_model_state(s):
    a, c, tr, te = s
    return {'active': sorted(tuple(i) for i in a), 'cand': sorted(tuple(i) for i in c),
            'ctrain': sorted((tuple(i), v) for i, v in tr), 'ctest': sorted((tuple(i), v) for i, v in te)}


# ------------------------------------------------------------------------------------------------
# independent property oracles (evaluated on the implementation's own structures)
# ------------------------------------------------------------------------------------------------
def ie_value(S: set, i: tuple) -> int:
    tot = 0
    for e in itertools.product((0, 1), repeat=len(i)):
        if tuple(a + b for a, b in zip(i, e)) in S:
            tot += (-1) ** sum(e)
    return tot


def oracle_c01(snap):
    """weights = inclusion-exclusion; support = set; sum = 1"""
    errs = []
    act, cand = set(snap['active']), set(snap['cand'])
    for mode, S, tree in (('train', act, snap['ctrain']), ('test', act | cand, snap['ctest'])):
        keys = [k for k, _ in tree]
        if len(set(keys)) != len(keys):
            errs.append(f'{mode}: duplicate keys')
        if set(keys) != S:
            errs.append(f'{mode}: weight keys differ from the set in use: extra={sorted(set(keys) - S)} missing={sorted(S - set(keys))}')
        for k, v in tree:
            if k in S and v != ie_value(S, k):
                errs.append(f'{mode}: weight of {k} is {v}, inclusion-exclusion gives {ie_value(S, k)}')
        if S and sum(v for _, v in tree) != 1:
            errs.append(f'{mode}: weights sum to {sum(v for _, v in tree)}')
    return errs


def is_dc(S: set) -> bool:
    for i in S:
        for k in range(len(i)):
            if i[k] > 0 and tuple(i[:k] + (i[k] - 1,) + i[k + 1:]) not in S:
                return False
    return True


def oracle_c02(prev, snap, req, mx):
    errs = []
    act, cand = set(snap['active']), set(snap['cand'])
    if len(act) != len(snap['active']) or len(cand) != len(snap['cand']):
        errs.append('duplicates in sets')
    if not is_dc(act):
        errs.append(f'active set not downward closed: {sorted(act)}')
    if act & cand:
        errs.append(f'active and candidate sets intersect: {sorted(act & cand)}')
    for i in act | cand:
        if len(i) != len(mx) or any(a > b for a, b in zip(i, mx)):
            errs.append(f'index {i} exceeds the declared maxima {mx}')
    if act:
        want = set(margin(act, mx))
        if cand != want:
            errs.append(f'candidate set is not the admissible margin: extra={sorted(cand - want)} missing={sorted(want - cand)}')
        full = int(np.prod([m + 1 for m in mx]))
        if (len(cand) == 0) != (len(act) == full):
            errs.append('candidates exhausted but the box is not fully active (or vice versa)')
    else:
        if cand:
            errs.append('candidates without an active set')
    pact, pcand = set(prev['active']), set(prev['cand'])
    req = tuple(req)
    inadmissible = req in pact or (req not in pcand and sum(req) > 0)
    if inadmissible and snap != prev:
        errs.append(f'inadmissible request {req} changed the state')
    if not inadmissible and (req not in act):
        errs.append(f'admissible request {req} was not activated')
    return errs


# ------------------------------------------------------------------------------------------------
# case production
# ------------------------------------------------------------------------------------------------
def gen_cases(ctx: Ctx):
    rng = ctx.rng
    cases = []
    cells = ctx.pick(8, 16)
    n_orders = ctx.pick(1, 3)
    # exhaustive part: all boxes with <= cells cells (<= 3 dims), all downward-closed sets, random linear extensions
    for mx in boxes_upto(cells, 3):
        d = len(mx)
        for s in sorted(all_dc_sets(mx), key=lambda t: (len(t), sorted(t))):
            for _ in range(n_orders):
                order = linear_extension(rng, s, mx)
                na, nd, ns = split3(rng, d)
                cases.append({'na': na, 'nd': nd, 'ns': ns, 'mx': list(mx), 'reqs': [list(r) for r in order],
                              'kind': 'exhaustive'})
    n_exh = len(cases)
    # random part: bigger boxes, inadmissible requests interleaved
    for _ in range(ctx.pick(120, 1500)):
        d = rng.randint(1, ctx.pick(5, 6))
        mx = tuple(rng.randint(0, 3 if d <= 3 else 2) for _ in range(d))
        na, nd, ns = split3(rng, d)
        # keep grid sizes small: data dims limited to level 2
        mx = tuple(min(m, 2) if na <= k < na + nd else m for k, m in enumerate(mx))
        reqs = random_history(rng, mx, rng.randint(1, ctx.pick(14, 24)))
        c = {'na': na, 'nd': nd, 'ns': ns, 'mx': list(mx), 'reqs': [list(r) for r in reqs], 'kind': 'random'}
        if rng.random() < 0.3:
            c['fail_at'] = sorted(rng.sample(range(len(reqs)), min(len(reqs), rng.randint(1, 2))))
            c['kind'] = 'random-with-failing-model'
        elif rng.random() < 0.25:
            c['prefix_then_clear'] = [list(r) for r in random_history(rng, mx, rng.randint(1, 6), p_bad=0.0)]
            c['kind'] = 'random-after-clear'
        cases.append(c)
    return cases, n_exh


def run(ctx: Ctx, which: str):
    """which in {'C01','C02'}: shared runs, property-specific oracle and compared observables"""
    from common import import_amisc
    import_amisc()
    from amisc.component import IndexSet, Component
    cases, n_exh = gen_cases(ctx)
    ctx.rule = ('all boxes (1-3 dims) with <= N cells x all downward-closed sets x random linear extensions (exhaustive part), '
                'plus random histories in boxes of 1-6 dims with ~30% inadmissible requests (already active, outside the box, '
                'gap away, neighbour of a candidate); dims split at random into model/data/surrogate fidelity; a case is '
                'non-trivial when at least two requests are accepted; distinct = distinct (box, split, request list)')
    ctx.extra['exhaustive_part_cases'] = n_exh
    lines = ['misc_trace ' + enc([c['mx'], c['reqs']]) for c in cases]
    mouts = run_model(lines, shards=8)
    la_lines, la_meta = [], []
    dc_lines, dc_meta = [], []
    for c, mo in zip(cases, mouts):
        comp, snaps = impl_trace(c)
        mx = tuple(c['mx'])
        nacc = 0
        left = c.pop('_clear_residue', None)
        if left:
            ctx.violate(f'{which}:state-survives-clear', f'after clear() the component still holds {left}: a cleared object must behave like a fresh one', c)
        if isinstance(mo, ModelError):
            ctx.disagree('misc_trace', c, str(mo), 'ok')
            continue
        mstates = [canon_model_state(s) for s in mo[0]]
        prev = {'active': [], 'cand': [], 'ctrain': [], 'ctest': []}
        for k, (snap, ms) in enumerate(zip(snaps, mstates)):
            if 'raised' in snap:
                ctx.violate(f'{which}:activation-raises:{snap["raised"].split(":")[0]}',
                            f'activate_index({c["reqs"][k]}) raised {snap["raised"]}', {**c, 'after_request': k})
                break
            if snap != prev:
                nacc += 1
            # --- correspondence on the observables the property constrains
            keys = ('active', 'cand', 'ctrain', 'ctest') if which == 'C01' else ('active', 'cand')
            for key in keys:
                if snap[key] != ms[key]:
                    ctx.disagree(f'{which}:{key} after request {k}', c, ms[key], snap[key])
                    break
            # --- property oracle on the implementation
            errs = oracle_c01(snap) if which == 'C01' else oracle_c02(prev, snap, c['reqs'][k], mx)
            for e in errs:
                ctx.violate(f'{which}:{e.split(":")[0][:40]}', e, {**c, 'after_request': k})
            prev = snap
        # states left behind by an activation whose model raised: same invariants, and (C01) weights = inclusion-exclusion
        for k, raised, fsnap in c.pop('_fail_snaps', []):
            if not raised:
                continue
            act = set(tuple(t) for t in fsnap['active']); cand = set(tuple(t) for t in fsnap['cand'])
            if which == 'C02':
                if not is_dc(act) or act & cand or (act and cand != set(margin(act, mx))) or (not act and cand):
                    ctx.violate('C02:invariants-after-failed-activation', f'after activate_index({c["reqs"][k]}) was aborted by a model exception: active '
                                f'{sorted(act)}, candidates {sorted(cand)}, admissible margin {sorted(margin(act, mx)) if act else []}', {**c, 'after_request': k})
            else:
                for e in oracle_c01(fsnap):
                    ctx.violate(f'C01:{e.split(":")[0][:40]}', 'after an activation aborted by a model exception: ' + e, {**c, 'after_request': k})
        ctx.case({k: c[k] for k in ('na', 'nd', 'ns', 'mx', 'reqs', 'prefix_then_clear', 'fail_at') if k in c}, nontrivial=nacc >= 2, kind=c['kind'])
        # C01: the weights that System.simulate_fit replays for the accepted requests are, at every iteration, the inclusion-exclusion
        # weights of the replayed sets (the replay rebuilds both weight tables from the history alone)
        if which == 'C01' and c['kind'] == 'random' and snaps and 'raised' not in snaps[-1] and not c.get('fail_at') and ctx.rng.random() < 0.5:
            from amisc import System
            na = c['na']
            acc_reqs = []
            prev_ = {'active': []}
            for k_, sn_ in enumerate(snaps):
                if sn_['active'] != prev_['active']:
                    acc_reqs.append(c['reqs'][k_])
                prev_ = sn_
            try:
                sysm = System(comp, name='replay')
                for r_ in acc_reqs:
                    sysm.train_history.append({'component': comp.name, 'alpha': tuple(r_[:na]), 'beta': tuple(r_[na:]), 'num_evals': 0, 'added_cost': 0.0,
                                               'added_error': 0.0})
                for it_, (_res, acts, cands, ctr, cte) in enumerate(sysm.simulate_fit()):
                    rsnap = {'active': sorted(tuple(a) + tuple(b) for a, b in acts[comp.name]), 'cand': sorted(tuple(a) + tuple(b) for a, b in cands[comp.name]),
                             'ctrain': tree_items(ctr[comp.name]), 'ctest': tree_items(cte[comp.name])}
                    for e in oracle_c01(rsnap):
                        ctx.violate(f'C01:replayed-{e.split(":")[0][:40]}', f'simulate_fit, iteration {it_}: ' + e, {**c, 'iteration': it_}); break
                ctx.count('replays_checked')
            except Exception as e:
                ctx.violate('C01:simulate_fit-raises', f'{type(e).__name__}: {e}', c)
        ctx.count(f'dims={len(mx)}')
        ctx.count('requests', len(c['reqs'])); ctx.count('accepted', nacc)
        if snaps and 'raised' in snaps[-1]:
            continue
        if which == 'C01' and snaps and snaps[-1]['cand']:
            # look-ahead: update_misc_coeff on a deep copy / predict(incremental=True) versus real activation
            cand = ctx.rng.choice(snaps[-1]['cand'])
            na = c['na']
            tmp = copy.deepcopy(comp.misc_coeff_train)
            comp.update_misc_coeff(IndexSet({(tuple(cand[:na]), tuple(cand[na:]))}), comp.active_set, tmp)
            la_impl = tree_items(tmp)
            st = mo[0][-1]
            la_lines.append('misc_lookahead ' + enc([st, [list(cand)]]))
            la_meta.append((c, cand, la_impl, comp))
        if which == 'C02':
            # is_downward_closed on the reached set and on a perturbed (often non-closed) set
            act = snaps[-1]['active'] if snaps else []
            pert = [i for i in act if ctx.rng.random() < 0.8]
            for s in (act, pert):
                na = c['na']
                impl = bool(Component.is_downward_closed(IndexSet([(tuple(i[:na]), tuple(i[na:])) for i in s])))
                dc_lines.append('misc_dc ' + enc([[list(i) for i in s]]))
                dc_meta.append((c, s, impl))
    if la_lines:
        for (c, cand, la_impl, comp), mo in zip(la_meta, run_model(la_lines)):
            got = sorted((tuple(i), v) for i, v in mo)
            ctx.count('lookahead')
            if got != la_impl:
                ctx.disagree('C01:lookahead', {**c, 'cand': cand}, got, la_impl)
            # oracle: the look-ahead weights are the inclusion-exclusion weights of active + {cand}
            S = set(tuple(a) + tuple(b) for a, b in comp.active_set) | {tuple(cand)}
            for k, v in la_impl:
                if v != ie_value(S, k):
                    ctx.violate('C01:lookahead', f'look-ahead weight of {k} is {v}, inclusion-exclusion on active+{cand} gives {ie_value(S, k)}',
                                {**c, 'cand': cand})
    if dc_lines:
        for (c, s, impl), mo in zip(dc_meta, run_model(dc_lines)):
            ctx.count('is_downward_closed')
            if bool(mo) != impl:
                ctx.disagree('C02:is_downward_closed', {'set': s}, bool(mo), impl)
            if impl != is_dc(set(s)):
                ctx.violate('C02:is_downward_closed', f'is_downward_closed({s}) returned {impl}', {'set': s})
