"""C03: component surrogates are exact on their sparse polynomial space."""
from __future__ import annotations

import numpy as np

from common import Ctx, import_amisc
import p_exact


def rand_domain(rng, wide=True):
    w = rng.choice([1e-6, 1e-3, 0.1, 1.0, 1.0, 2.0, 7.0, 1e3, 1e6]) if wide else rng.choice([0.5, 1.0, 2.0, 4.0])
    lo = rng.choice([0.0, -1.0, 1.0, 3.0, -0.5]) * rng.choice([1.0, w, 10 * w, 1e3 * w, 1e5 * w, 1e6 * w])   # offsets up to 1e6 widths
    return (float(lo), float(lo + w))


def rand_norms(rng, nx, ny):
    norms = {}
    for k in range(nx):
        norms[f'x{k}'] = rng.choice([None, None, 'minmax', 'linear(2, 1)', 'linear(0.5, -1)', 'zscore(1, 2)'])
    for j in range(ny):
        norms[f'y{j}'] = rng.choice([None, None, 'linear(2, 1)', 'zscore(-1, 3)'])
    return norms


def run(ctx: Ctx):
    import_amisc()
    rng = ctx.rng
    ctx.rule = ('components with 1-4 inputs, 0-2 ignored model-fidelity dims, 1-3 outputs, knots/level 1-3, random domain location and '
                'width (1e-9..1e6), random input/output normalisations (minmax, linear, zscore), random admissible index sets reached in '
                'random order; polynomial models (integer coefficients in unit coordinates) whose monomials are each resolvable by some '
                'index of the set in use; train and test mode; evaluation on nodes, inside and beyond the domain; reference = exact '
                'polynomial value (Fractions); non-trivial = at least 3 active indices')
    n = ctx.pick(40, 500)
    for i in range(n):
        nx = rng.choice([1, 1, 2, 2, 3, 4]); na = rng.randint(0, 2 if nx <= 2 else 1); ny = rng.randint(1, 3)
        kpl = rng.randint(1, 3 if nx <= 2 else 2)
        levels = [rng.randint(1, 3 if nx == 1 else 2 if nx <= 3 else 1) for _ in range(nx)]
        domains = [rand_domain(rng) for _ in range(nx)]
        norms = rand_norms(rng, nx, ny) if rng.random() < 0.6 else None
        if i in (1, 2):      # stratified: an un-normalised input whose whole domain is narrower than 1e-8 in absolute units (a gap in metres next to
            nx = max(nx, 2); levels = (levels + [1, 1])[:nx]; kpl = min(kpl, 2)      # a load in newtons); nothing may treat such a grid as a single node
            domains = ([(1e-9, 3e-9)] if i == 1 else [(0.0, 1e-9)]) + [(100.0, 400.0)] + [rand_domain(rng) for _ in range(nx - 2)]
            norms = None
        # every fifth component (un-normalised): the domain of its first input is widened in the middle of the history (better bounds became known);
        # the grids grown afterwards live on the new domain, the model is what it was: the surrogate stays exact
        widen = None
        if i % 5 == 3:
            norms = None
            w0 = domains[0][1] - domains[0][0]
            widen = ('x0', (domains[0][0] - 2.0 * w0, domains[0][1] + 1.0 * w0))
        comp, terms = p_exact.build_poly_component(rng, nx, na, ny, levels, kpl, domains, norms)
        mx = (2,) * na + tuple(levels)
        order = p_exact.random_order(rng, mx, rng.randint(1, 8 if nx <= 2 else 5))
        case = {'nx': nx, 'na': na, 'ny': ny, 'kpl': kpl, 'levels': levels, 'domains': domains, 'norms': norms, 'order': order, 'domain_widened_mid_history': widen}
        ok = True
        for mode in ('train', 'test'):
            # the polynomial must be fixed before training data are generated: choose the set first (it only depends on the order)
            comp.clear(); comp.training_data.clear()
            S_train = set(order)
            from p_misc import margin
            S = S_train if mode == 'train' else S_train | set(margin(S_train, mx))
            p_exact.fill_terms(rng, terms, S, na, nx, kpl)
            case_m = {**case, 'mode': mode, 'terms': {k: list(v) for k, v in terms.items()}}
            try:
                if widen is not None:
                    comp.inputs[widen[0]].update_domain(domains[0], override=True)       # (second mode: back to the declared domain first)
                p_exact.grow_to(comp, na, order, widen_after=min(2, len(order) - 1), widen=widen)
            except Exception as e:
                ctx.violate('C03:activation-raises', f'activate_index raised {type(e).__name__}: {e}', case_m); ok = False; break
            pts = p_exact.sample_points(rng, comp, domains, nx, 4)
            ok = p_exact.check_component(ctx, comp, terms, domains, na, nx, mode, pts, case_m, 'C03') and ok
        ctx.case(case, nontrivial=len(order) >= 3, kind=f'nx={nx}')
        ctx.count('with_norms' if norms else 'no_norms')
        wmin = min(d[1] - d[0] for d in domains)
        ctx.count('width<=1e-3' if wmin <= 1e-3 else 'width>1e-3')
