"""Shared machinery of the amisc verification harness.

Run under /venv/bin/python (which imports amisc from /repo/src).  See DESIGN.md §2.3.
"""
from __future__ import annotations

import hashlib
import json
import os
import random
import re
import subprocess
import sys
import time
from pathlib import Path

ROOT = Path(__file__).resolve().parent.parent
REPO = Path(os.environ.get('AMISC_REPO', '/repo'))
COQ = ROOT / 'coq'
DRIVER = Path(os.environ.get('VERIF_DRIVER') or (ROOT / 'ocaml' / '_build' / 'default' / 'gen' / 'driver.exe'))   # override: development only
EVIDENCE = ROOT / 'evidence'
WORK = ROOT / 'work'            # scratch (git-ignored): replays, temp files
KNOWN = ROOT / 'known_findings.json'

# axioms of the standard library that a theorem may depend on (DESIGN §4); anything else fails the audit
ALLOWED_AXIOMS = {
    'functional_extensionality_dep', 'FunctionalExtensionality.functional_extensionality_dep',
    'JMeq_eq', 'JMeq.JMeq_eq', 'proof_irrelevance', 'ProofIrrelevance.proof_irrelevance',
    'ClassicalDedekindReals.sig_forall_dec', 'ClassicalDedekindReals.sig_not_dec',
    'sig_forall_dec', 'sig_not_dec', 'Classical_Prop.classic', 'classic',
}
FORBIDDEN = re.compile(r'\b(Admitted|admit|Axiom|Axioms|Parameter|Parameters|Conjecture|Conjectures|Hypothesis|Hypotheses'
                       r'|Variable|Variables|Abort)\b|Unset\s+Guard|bypass_check|type-in-type|impredicative-set'
                       r'|Unset\s+Universe\s+Checking|Unset\s+Positivity|Admit\s+Obligations')


def sh(cmd, timeout=3000, cwd=None, env=None, input=None):
    p = subprocess.run(cmd, shell=isinstance(cmd, str), cwd=cwd, env=env, input=input,
                       capture_output=True, text=True, timeout=timeout)
    return p.returncode, p.stdout, p.stderr


# ----------------------------------------------------------------------------------------------
# proof obligations
# ----------------------------------------------------------------------------------------------
def strip_comments(src: str) -> str:
    out, depth, i = [], 0, 0
    while i < len(src):
        if src.startswith('(*', i):
            depth += 1; i += 2
        elif src.startswith('*)', i) and depth > 0:
            depth -= 1; i += 2
        else:
            if depth == 0:
                out.append(src[i])
            i += 1
    return ''.join(out)


def coq_deps(vfile: Path) -> list[Path]:
    """Transitive closure of the development's own files a .v file depends on (via coqdep)."""
    rc, out, err = sh(['coqdep', '-Q', '.', 'AmiscV', '-sort', str(vfile.relative_to(COQ))], cwd=COQ, timeout=120)
    files = []
    for tok in out.split():
        p = (COQ / tok).with_suffix('.v') if not tok.endswith('.v') else COQ / tok
        if p.exists() and p not in files:
            files.append(p)
    if vfile not in files:
        files.append(vfile)
    return files


def audit_sources(files: list[Path]) -> list[str]:
    """Forbidden constructs (declared axioms, admits, disabled checks) in the given files.
    Section-local `Variable`/`Hypothesis`/`Context` are allowed only inside a Section."""
    problems = []
    for f in files:
        src = strip_comments(f.read_text())
        depth = 0
        for ln, line in enumerate(src.splitlines(), 1):
            s = line.strip()
            if re.match(r'^(Section|Module\s+Type)\b', s):
                depth += 1
            if re.match(r'^End\b', s) and depth > 0:
                depth -= 1
            for m in FORBIDDEN.finditer(line):
                w = m.group(0)
                if w.split()[0] in ('Variable', 'Variables', 'Hypothesis', 'Hypotheses') and depth > 0:
                    continue
                problems.append(f'{f.relative_to(ROOT)}:{ln}: forbidden `{w}`')
    return problems


def check_obligations_multi(pids: list, log) -> dict:
    """obligations of a property whose theorems are spread over several Props files (e.g. C11 + C11H)"""
    tot = None
    for p in pids:
        listed = f'Props/{p}.v' in (COQ / '_CoqProject').read_text().split()
        if p != pids[0] and not listed:
            continue                     # an extension file that is not part of the development (yet)
        r = check_obligations(p, log)
        if tot is None:
            tot = r
        else:
            for k in ('obligations', 'discharged'):
                tot[k] += r[k]
            for k in ('theorems', 'problems'):
                tot[k] += r[k]
            tot['axioms'] = sorted(set(tot['axioms']) | set(r['axioms']))
            tot['checker_cmd'] += ' ; ' + r['checker_cmd']
    if tot['problems']:
        tot['discharged'] = 0
    return tot


def check_obligations(pid: str, log) -> dict:
    """Build Props/<pid>.vo and everything it depends on, audit, and read back Print Assumptions.
    Returns {'obligations', 'discharged', 'theorems', 'axioms', 'problems', 'checker_cmd'}."""
    props = COQ / 'Props' / f'{pid}.v'
    res = {'obligations': 0, 'discharged': 0, 'theorems': [], 'axioms': [], 'problems': [],
           'checker_cmd': f'./build.sh Props/{pid}.vo && coqc -Q . AmiscV Props/{pid}.v (Print Assumptions parsed)'}
    if not props.exists():
        res['problems'].append(f'missing {props}')
        return res
    src = strip_comments(props.read_text())
    thms = re.findall(r'^\s*Theorem\s+(\w+)', src, flags=re.M)
    res['theorems'] = thms
    res['obligations'] = len(thms)
    # Props files contain nothing but Theorem ... Proof. exact <lemma>. Qed. + Print Assumptions
    n_pa = len(re.findall(r'Print\s+Assumptions\s+(\w+)', src))
    if n_pa < len(thms):
        res['problems'].append(f'{props.name}: {len(thms)} theorems but only {n_pa} Print Assumptions')
    rc, out, err = sh([str(ROOT / 'build.sh'), f'Props/{pid}.vo'], timeout=3400)
    if rc != 0:
        res['problems'].append('build failed: ' + (out + err)[-3000:])
        return res
    res['problems'] += audit_sources(coq_deps(props))
    rc, out, err = sh(['coqc', '-Q', '.', 'AmiscV', f'Props/{pid}.v'], cwd=COQ, timeout=900)
    if rc != 0:
        res['problems'].append('coqc Props failed: ' + (out + err)[-3000:])
        return res
    # parse "Closed under the global context" / "Axioms:\n name : type ..." blocks, one per Print Assumptions
    blocks = re.split(r'(?=Closed under the global context|Axioms:)', out)
    blocks = [b for b in blocks if b.startswith('Closed') or b.startswith('Axioms:')]
    if len(blocks) != n_pa:
        res['problems'].append(f'expected {n_pa} assumption reports, coqc printed {len(blocks)}')
    axioms = set()
    bad = 0
    for b in blocks:
        if b.startswith('Closed'):
            continue
        names = re.findall(r'^([A-Za-z_][\w.\']*)\s*:', b, flags=re.M)
        this_bad = [n for n in names if n not in ALLOWED_AXIOMS and n.split('.')[-1] not in ALLOWED_AXIOMS]
        axioms.update(names)
        if this_bad:
            bad += 1
            res['problems'].append(f'assumptions not on the allow-list: {this_bad}')
    res['axioms'] = sorted(axioms)
    res['discharged'] = max(0, len(thms) - bad) if not res['problems'] else 0
    return res


# ----------------------------------------------------------------------------------------------
# extracted model
# ----------------------------------------------------------------------------------------------
def enc(t) -> str:
    """nested lists / ints / bools -> protocol text (binary integers)."""
    if isinstance(t, bool):
        return '1' if t else '0'
    if isinstance(t, int):
        return ('-' if t < 0 else '') + bin(abs(t))[2:]
    if hasattr(t, 'item') and not isinstance(t, (list, tuple)):
        return enc(int(t))
    return '[' + ','.join(enc(x) for x in t) + ']'


def dec(s: str):
    s = s.strip()
    if s.startswith('ERR'):
        raise ModelError(s)
    # binary ints -> python ints via a tiny tokenizer
    out, stack, cur, i, n = None, [], None, 0, len(s)
    tok = re.compile(r'-?[01]+')
    while i < n:
        c = s[i]
        if c == '[':
            new = []
            if stack:
                stack[-1].append(new)
            stack.append(new); i += 1
        elif c == ']':
            out = stack.pop(); i += 1
        elif c == ',' or c == ' ':
            i += 1
        else:
            m = tok.match(s, i)
            v = int(m.group(0), 2)
            if stack:
                stack[-1].append(v)
            else:
                out = v
            i = m.end()
    return out


class ModelError(Exception):
    pass


def run_model(lines: list[str], timeout=3000, shards: int = 1) -> list:
    """Feed `<cmd> <tree>` lines to the extracted driver; return decoded outputs (or ModelError objects)."""
    if not DRIVER.exists():
        raise RuntimeError('model driver not built')
    if shards <= 1 or len(lines) < 2 * shards:
        p = subprocess.run([str(DRIVER)], input='\n'.join(lines) + '\n', capture_output=True, text=True,
                           timeout=timeout, preexec_fn=_unlimit_stack)
        outs = p.stdout.splitlines()
    else:
        from concurrent.futures import ThreadPoolExecutor
        chunks = [lines[k::shards] for k in range(shards)]

        def one(ch):
            p = subprocess.run([str(DRIVER)], input='\n'.join(ch) + '\n', capture_output=True, text=True,
                               timeout=timeout, preexec_fn=_unlimit_stack)
            return p.stdout.splitlines()
        with ThreadPoolExecutor(shards) as ex:
            parts = list(ex.map(one, chunks))
        outs = [None] * len(lines)
        for k, part in enumerate(parts):
            if len(part) != len(chunks[k]):
                raise RuntimeError('model driver died in shard')
            outs[k::shards] = part
    if len(outs) != len(lines):
        raise RuntimeError(f'model driver returned {len(outs)} lines for {len(lines)} cases')
    res = []
    for o in outs:
        try:
            res.append(dec(o))
        except ModelError as e:
            res.append(e)
    return res


def _unlimit_stack():
    import resource
    try:
        resource.setrlimit(resource.RLIMIT_STACK, (resource.RLIM_INFINITY, resource.RLIM_INFINITY))
    except Exception:
        pass


# ----------------------------------------------------------------------------------------------
# exact numbers
# ----------------------------------------------------------------------------------------------
def frac(x):
    """exact Fraction of a python/numpy float or int"""
    from fractions import Fraction
    if isinstance(x, Fraction):
        return x
    if isinstance(x, int):
        return Fraction(x)
    return Fraction(float(x))


def q(x):
    """protocol form of an exact rational: [num, den]"""
    f = frac(x)
    return [f.numerator, f.denominator]


def unq(t):
    from fractions import Fraction
    return Fraction(t[0], t[1])


# ----------------------------------------------------------------------------------------------
# check context: coverage bookkeeping, disagreements, violations, evidence
# ----------------------------------------------------------------------------------------------
class Ctx:
    def __init__(self, pid: str, tier: str, seed: int):
        self.pid, self.tier, self.seed = pid, tier, seed
        self.rng = random.Random(seed * 1000003 + int(pid[1:]))
        self.t0 = time.time()
        self.evaluations = 0
        self._distinct = set()
        self.samples = []
        self.hist = {}
        self.disagreements = []      # correspondence differences: dict(name, case, model, impl)
        self.violations = []         # property-oracle failures on the implementation: dict(sig, what, case)
        self.notes = []
        self.rule = ''
        self.exhaustive = False
        self.extra = {}
        self.assumptions = []

    @property
    def quick(self):
        return self.tier == 'quick'

    def pick(self, quick, thorough):
        return quick if self.quick else thorough

    def case(self, case, nontrivial: bool = True, kind: str | None = None):
        """register one explored case (hashable via json)"""
        self.evaluations += 1
        if nontrivial:
            h = hashlib.sha1(json.dumps(case, sort_keys=True, default=str).encode()).hexdigest()
            self._distinct.add(h)
        if len(self.samples) < 3:
            self.samples.append(case)
        if kind:
            self.hist[kind] = self.hist.get(kind, 0) + 1

    def count(self, key, n=1):
        self.hist[key] = self.hist.get(key, 0) + n

    def disagree(self, name: str, case, model, impl):
        self.disagreements.append({'correspondence': name, 'case': case, 'model': model, 'impl': impl})

    def violate(self, sig: str, what: str, case):
        """the implementation itself fails the property on `case`; sig identifies the failure for known findings"""
        self.violations.append({'signature': sig, 'what': what, 'case': case})

    def elapsed(self):
        return time.time() - self.t0


def load_known():
    if KNOWN.exists():
        return json.loads(KNOWN.read_text())
    return {'findings': [], 'fixed': []}


def write_replay(pid: str, obj) -> Path:
    d = WORK / 'replay'
    d.mkdir(parents=True, exist_ok=True)
    h = hashlib.sha1(json.dumps(obj, sort_keys=True, default=str).encode()).hexdigest()[:10]
    p = d / f'{pid}_{h}.json'
    p.write_text(json.dumps(obj, indent=1, default=str))
    return p


def finish(ctx: Ctx, obl: dict, level_text_axioms: list[str]) -> int:
    """Turn obligations + correspondence + oracle results into the exit status, the VIOLATION /
    KNOWN-FINDING lines and the evidence file."""
    pid = ctx.pid
    known = [f for f in load_known().get('findings', []) if f['property'] == pid]
    known_sigs = {f['signature']: f for f in known}
    nviol = 0
    printed_known = set()
    reported = set()
    for v in ctx.violations:
        if v['signature'] in known_sigs:
            if v['signature'] not in printed_known:
                printed_known.add(v['signature'])
                print(f"KNOWN-FINDING: property={pid} {known_sigs[v['signature']]['what']}")
            continue
        if v['signature'] in reported:
            continue
        reported.add(v['signature'])
        nviol += 1
        path = write_replay(pid, {'property': pid, 'kind': 'failing-input', 'signature': v['signature'],
                                  'what': v['what'], 'case': v['case'], 'seed': ctx.seed, 'tier': ctx.tier})
        print(f'VIOLATION property={pid} replay={path}')
    # known findings listed in the file are always announced (the check re-establishes them when it can)
    for sig, f in known_sigs.items():
        if sig not in printed_known and f.get('always_announce', True):
            print(f"KNOWN-FINDING: property={pid} {f['what']}")
    have_input = nviol > 0
    broken = []
    if obl['problems'] or obl['discharged'] != obl['obligations'] or obl['obligations'] == 0:
        broken.append({'kind': 'proof-obligation', 'theorems': obl['theorems'], 'problems': obl['problems'][:5]})
    # a correspondence difference that coincides with a known finding's modelled behaviour is filtered by the
    # property module itself; whatever is left here is unexplained
    if ctx.disagreements:
        names = sorted({d['correspondence'] for d in ctx.disagreements})
        broken.append({'kind': 'correspondence', 'names': names, 'first': ctx.disagreements[0],
                       'count': len(ctx.disagreements)})
    if broken and not have_input:
        nviol += 1
        path = write_replay(pid, {'property': pid, 'kind': 'no-failing-input-found', 'broken': broken,
                                  'seed': ctx.seed, 'tier': ctx.tier})
        print(f'VIOLATION property={pid} replay={path} no-failing-input-found')
    elif broken:
        # the failing input above is the replay; record what else no longer checks
        write_replay(pid, {'property': pid, 'kind': 'broken-with-input', 'broken': broken, 'seed': ctx.seed})
    ev = {
        'property_id': pid, 'tier': ctx.tier, 'seed': ctx.seed, 'level': 'proof',
        'coverage': {
            'obligations': obl['obligations'], 'discharged': obl['discharged'],
            'checker_cmd': obl['checker_cmd'],
            'trusted_base': ['Coq 8.16.1 kernel (coqc; coqchk in thorough tier)',
                             'axioms reported by Print Assumptions: ' + (', '.join(obl['axioms']) or 'none (closed under the global context)'),
                             'extraction: ExtrOcamlBasic only (bool, option, unit, list, prod, sumbool, sumor; andb/orb inlined)',
                             'ocaml/driver.ml, harness/*.py (generators, canonicalisers, oracles), CPython, numpy'] + level_text_axioms,
            'theorems': obl['theorems'],
            'evaluations': ctx.evaluations, 'distinct_nontrivial': len(ctx._distinct),
            'rule': ctx.rule, 'samples': ctx.samples[:3], 'distribution': ctx.hist,
            'correspondence_disagreements': len(ctx.disagreements),
            'exhaustive': ctx.exhaustive, **ctx.extra,
        },
        'assumptions': ctx.assumptions + ctx.notes,
        'wall_s': round(ctx.elapsed(), 2),
        'violations': nviol,
    }
    EVIDENCE.mkdir(exist_ok=True)
    (EVIDENCE / f'{pid}.json').write_text(json.dumps(ev, indent=1, default=str))
    return 1 if nviol else 0


# ----------------------------------------------------------------------------------------------
# amisc helpers
# ----------------------------------------------------------------------------------------------
def import_amisc():
    sys.path.insert(0, str(REPO / 'src'))
    import logging
    logging.disable(logging.CRITICAL)
    import warnings
    warnings.filterwarnings('ignore')
    import amisc  # noqa
    assert Path(amisc.__file__).resolve().is_relative_to(REPO.resolve()), amisc.__file__
    return amisc


def coqchk(pid, obl: dict) -> dict:
    """thorough tier: re-check the compiled property files (the property's own and its extension files) and everything they depend on with coqchk"""
    pids = [pid] if isinstance(pid, str) else list(pid)
    mods = [f'AmiscV.Props.{p_}' for p_ in pids]
    rc, out, err = sh(['coqchk', '-silent', '-o', '-Q', '.', 'AmiscV'] + mods, cwd=COQ, timeout=6000)
    txt = out + err
    obl['checker_cmd'] += ' ; coqchk -silent -o -Q . AmiscV ' + ' '.join(mods)
    if rc != 0:
        obl['problems'].append('coqchk failed: ' + txt[-2000:])
        obl['discharged'] = 0
    else:
        m = re.search(r'\* Axioms:(.*?)(\n\s*\n|\* |\Z)', txt, flags=re.S)
        obl['coqchk_axioms'] = m.group(1).strip() if m else txt[-500:]
    return obl
