"""C06: feedback loops return a fixed point within tolerance or NaN, never stale data."""
from __future__ import annotations

from fractions import Fraction

import numpy as np

from common import Ctx, enc, q, run_model, ModelError, import_amisc
import systems

FTOL = 1e-10


def inf_norm(M):
    return max(sum(abs(v) for v in row) for row in M)


def mat_inv(M):
    n = len(M)
    A = [list(map(Fraction, row)) + [Fraction(int(i == j)) for j in range(n)] for i, row in enumerate(M)]
    for c in range(n):
        p = next(r for r in range(c, n) if A[r][c] != 0)
        A[c], A[p] = A[p], A[c]
        A[c] = [v / A[c][c] for v in A[c]]
        for r in range(n):
            if r != c and A[r][c] != 0:
                A[r] = [a - A[r][c] * b for a, b in zip(A[r], A[c])]
    return [row[n:] for row in A]


def per_sample_traces(log, size, xs):
    """rebuild, for every sample, the sequence of sweeps [(c, y, z)] from the call log of the loop members.
    Samples are identified by their (distinct) exogenous inputs x_i."""
    N = len(xs['x0'])
    key_of = {}
    for s in range(N):
        for i in range(size):
            key_of[(i, float(xs[f'x{i}'][s]))] = s
    # group calls into sweeps: a sweep is one call of every member l0..l{size-1} (any order)
    sweeps, cur = [], {}
    for name, ins, outs in log:
        if not name.startswith('l'):
            continue
        if name in cur:
            sweeps.append(cur); cur = {}
        cur[name] = (ins, outs)
        if len(cur) == size:
            sweeps.append(cur); cur = {}
    traces = [[] for _ in range(N)]
    for sw in sweeps:
        rows = {}
        for name, (ins, outs) in sw.items():
            i = int(name[1:])
            xcol = ins[f'x{i}']
            for r in range(len(xcol)):
                s = key_of.get((i, float(xcol[r])))
                if s is None:
                    continue
                d = rows.setdefault(s, {'c': {}, 'y': {}, 'z': {}})
                for n_, arr in ins.items():
                    if n_.startswith('u'):
                        d['c'].setdefault(n_, float(arr[r]))
                for n_, arr in outs.items():
                    (d['y'] if n_.startswith('u') else d['z'])[n_] = float(arr[r])
        for s, d in rows.items():
            traces[s].append(d)
    return traces


def run(ctx: Ctx):
    import_amisc()
    run_models(ctx)
    run_surrogates(ctx)
    run_nan_samples(ctx)
    run_field_loops(ctx)
    run_sequential_loops(ctx)


def run_models(ctx: Ctx):
    rng = ctx.rng
    nsys = ctx.pick(14, 150)
    ctx.rule = ('feedback loops of 2-4 members (affine contraction matrices, optionally a quadratic term, optionally a non-coupling output of a '
                'loop member and a downstream component), evaluated with the true models (instrumented: every sweep logged) and with trained '
                'surrogates, for max_fpi_iter in {0..3, 30, 100}, anderson_mem in {1,2,10}, batches of 1-7 samples; each sample\'s recorded '
                'sweeps and returned values go through the extracted trace checker (Model/Fpi.v trace_ok); oracles: residual of returned '
                'samples, exact affine solve, NaN in every loop/downstream output otherwise, batch-vs-single, more-iterations; '
                'non-trivial = at least two sweeps recorded or a non-converged sample')
    lines, meta = [], []
    for n in range(nsys):
        size = rng.randint(2, 4)
        nonlinear = rng.random() < 0.3
        log = []
        system, spec = systems.random_loop_system(rng, size=size, name=f'f{n}', nonlinear=nonlinear, extra=rng.random() < 0.7,
                                                  downstream=rng.random() < 0.7, log=log, norms=(n % 2 == 1))
        N = rng.randint(1, 7)
        xs = {f'x{i}': np.array([round(rng.random(), 6) + 0.0001 * s for s in range(N)]) for i in range(size)}
        while any(len(set(v.tolist())) < N for v in xs.values()):      # samples are told apart by their inputs in the call log
            xs = {f'x{i}': np.array([round(rng.random(), 6) + 0.0001 * s for s in range(N)]) for i in range(size)}
        maxit = rng.choice([0, 1, 2, 3, 3, 30, 100]); amem = rng.choice([1, 2, 10])
        detached = n % 4 == 2      # every fourth system runs without a logger (system.logger = None): what is returned may not depend on it
        if detached:
            system.logger = None
            maxit = min(maxit, 3)
        case = {'system': n, 'size': size, 'nonlinear': nonlinear, 'A': [[str(v) for v in r] for r in spec['A']], 'b': [str(v) for v in spec['b']],
                'c': [str(v) for v in spec['c']], 'extra': spec['extra'], 'x': {k: v.tolist() for k, v in xs.items()},
                'max_fpi_iter': maxit, 'anderson_mem': amem, 'logger_detached': detached}
        log.clear()
        try:
            y = system.predict(xs, use_model='best', max_fpi_iter=maxit, anderson_mem=amem, fpi_tol=FTOL)
        except Exception as e:
            ctx.violate('C06:predict-raises', f'System.predict raised {type(e).__name__}: {e}', case); continue
        traces = per_sample_traces(list(log), size, xs)
        unames = [f'u{i}' for i in range(size)]
        znames = ['w0'] if spec['extra'] else []
        down = 'z' in y
        nconv = 0
        A = spec['A']
        normA = float(inf_norm(A))
        amp = float(inf_norm([[sum(A[i][k] * Minv_kj for k, Minv_kj in zip(range(size), col)) for col in zip(*mat_inv([[(1 if i2 == j2 else 0) - A[i2][j2] for j2 in range(size)] for i2 in range(size)]))] for i in range(size)])) if not nonlinear else None
        for s in range(N):
            vals = {k: float(np.ravel(y[k])[s]) for k in y}
            loop_out = unames + znames
            nan_loop = [k for k in loop_out if vals[k] != vals[k]]
            tr = traces[s]
            ctx.case({**case, 'sample': s}, nontrivial=len(tr) >= 2 or bool(nan_loop), kind=f'size={size}:maxit={maxit}')
            if nan_loop:
                # not converged: NaN in EVERY output of the loop and of everything downstream
                stale = [k for k in loop_out + (['z'] if down else []) if vals[k] == vals[k]]
                if stale:
                    ctx.violate('C06:stale-output-of-nonconverged-sample',
                                f'sample {s} did not converge ({nan_loop} are NaN) but {stale} are returned as {[vals[k] for k in stale]}',
                                {**case, 'sample': s})
                ret = []
            else:
                nconv += 1
                u = [vals[k] for k in unames]
                # re-evaluating the loop at the returned coupling values reproduces them within tol * sensitivity
                xi = {f'x{i}': np.array([xs[f'x{i}'][s]]) for i in range(size)}
                for i, comp in enumerate(system.components[:size]):
                    ins = {str(v): (xi[str(v)] if str(v) in xi else np.array([vals[str(v)]])) for v in comp.inputs}
                    out = comp.call_model(ins)
                    if abs(float(np.ravel(out[f'u{i}'])[0]) - u[i]) > FTOL * (normA + 1e-3) + 1e-13 + (0.02 * 24 * FTOL if nonlinear else 0):
                        ctx.violate('C06:returned-not-a-fixed-point', f'sample {s}: re-evaluating member l{i} at the returned coupling values gives '
                                    f'{float(np.ravel(out[f"u{i}"])[0])}, returned {u[i]}', {**case, 'sample': s})
                if not nonlinear:
                    ustar = systems.solve_affine_loop(spec, {f'x{i}': float(xs[f'x{i}'][s]) for i in range(size)})
                    if any(abs(Fraction(u[i]) - ustar[i]) > Fraction(FTOL) * Fraction(amp + 1e-3) + Fraction(1, 10 ** 12) for i in range(size)):
                        ctx.violate('C06:affine-solve-mismatch', f'sample {s}: returned {u}, exact linear solve {[float(t) for t in ustar]}', {**case, 'sample': s})
                if spec['extra'] and tr:
                    pass
                ret = [[q(vals[k]) for k in unames], [q(vals[k]) for k in znames]]
            # --- anderson_mem = 1 is the plain iteration (hypothesis plain_mix of C06_plain_iteration_converges): every sweep starts from
            # the previous sweep's result; and for an affine contraction the sample is returned within the m sweeps the theorem promises
            # (smallest m with |A|^m * first residual <= tol), whenever the limit allows m
            if amem == 1 and tr and all(len(d['c']) == size and len(d['y']) == size for d in tr):
                for t in range(1, len(tr)):
                    if any(abs(tr[t]['c'][k] - tr[t - 1]['y'][k]) > 1e-12 * (1 + abs(tr[t - 1]['y'][k])) for k in unames):      # up to the rounding of the mixing step
                        ctx.violate('C06:anderson_mem=1-is-not-the-plain-iteration', f'sample {s}, sweep {t} starts from {tr[t]["c"]}, the previous sweep '
                                    f'returned {tr[t - 1]["y"]}', {**case, 'sample': s}); break
                if not nonlinear and 0 < normA < 1:
                    r0 = max(abs(Fraction(tr[0]['y'][k]) - Fraction(tr[0]['c'][k])) for k in unames)
                    m_, bound = 0, r0
                    while bound > Fraction(FTOL) and m_ < 400:
                        bound = bound * inf_norm(A); m_ += 1
                    if m_ + 1 <= maxit and (nan_loop or len(tr) > m_ + 2):       # one sweep of slack for rounding at the threshold
                        ctx.violate('C06:plain-iteration-slower-than-the-contraction-bound', f'sample {s}: |A| = {normA}, first residual {float(r0)}: the '
                                    f'theorem promises a result after at most {m_} further sweeps (limit {maxit}); observed {len(tr)} sweeps, '
                                    f'{"NaN" if nan_loop else "returned"}', {**case, 'sample': s})
                    ctx.count('contraction_bounds_checked')
            # --- correspondence: the recorded sweeps of this sample through the extracted checker
            if tr and all(len(d['c']) == size and len(d['y']) == size for d in tr):
                # skip runs where a residual is within rounding of the tolerance (the float comparison could go either way)
                near = any(abs(abs(d['y'][k] - d['c'][k]) - FTOL) <= 1e-13 for d in tr for k in unames)
                if not near:
                    trm = [[[q(d['c'][k]) for k in unames], [q(d['y'][k]) for k in unames], [q(d['z'][k]) for k in znames]] for d in tr]
                    # the initial iterate is not constrained by the property (with a normalised coupling variable the code starts members listed
                    # after its producer from the normalised mid-point taken as a raw value): the observed one is used
                    lines.append('fpi_trace ' + enc([q(FTOL), maxit, [q(tr[0]['c'][k]) for k in unames], trm, ret]))
                    meta.append(({**case, 'sample': s, 'sweeps': len(tr)}, [d for d in tr], ret))
            else:
                ctx.count('trace_incomplete')
        # --- batch independence and more iterations (implementation oracle)
        for s in range(N):
            ys = system.predict({k: v[s:s + 1] for k, v in xs.items()}, use_model='best', max_fpi_iter=maxit, anderson_mem=amem, fpi_tol=FTOL)
            for k in y:
                a, b = float(np.ravel(y[k])[s]), float(np.ravel(ys[k])[0])
                if not ((a != a and b != b) or abs(a - b) <= 1e-12 * (1 + abs(a))):
                    ctx.violate('C06:batch-dependence', f'sample {s}, {k}: {a} in the batch, {b} alone', {**case, 'sample': s}); break
        y2 = system.predict(xs, use_model='best', max_fpi_iter=4 * maxit + 7, anderson_mem=amem, fpi_tol=FTOL)
        for s in range(N):
            if all(float(np.ravel(y[k])[s]) == float(np.ravel(y[k])[s]) for k in unames):
                for k in y:
                    a, b = float(np.ravel(y[k])[s]), float(np.ravel(y2[k])[s])
                    if not abs(a - b) <= 1e-12 * (1 + abs(a)):
                        ctx.violate('C06:more-iterations-change-converged-sample', f'sample {s}, {k}: {a} with limit {maxit}, {b} with {4 * maxit + 7}',
                                    {**case, 'sample': s}); break
        ctx.count('converged_samples', nconv); ctx.count('nonconverged_samples', N - nconv)
    outs = run_model(lines, shards=8) if lines else []
    for (case, tr, ret), mo in zip(meta, outs):
        ctx.count('traces_checked')
        if isinstance(mo, ModelError):
            ctx.disagree('C06:model-error', case, str(mo), None); continue
        if mo != 1:
            ctx.disagree('C06:fpi-trace-rejected', case, 'trace_ok = false', {'trace': tr, 'returned': 'NaN' if not ret else 'values'})


def run_surrogates(ctx: Ctx):
    """trained loops evaluated through their surrogates: NaN consistency, batch independence, more iterations, residual"""
    rng = ctx.rng
    for n in range(ctx.pick(4, 30)):
        size = rng.randint(2, 3)
        system, spec = systems.random_loop_system(rng, size=size, name=f'g{n}', extra=True, downstream=True, nonlinear=('rough' if n % 2 == 0 else False))
        np.random.seed(ctx.seed * 31 + n)
        system.fit(max_iter=rng.randint(4, 8), num_refine=10, max_tol=-1.0)
        N = rng.randint(2, 6)
        xs = system.sample_inputs(N)
        maxit = rng.choice([0, 1, 2, 40]); amem = rng.choice([1, 3, 10])
        case = {'surrogate_system': n, 'size': size, 'max_fpi_iter': maxit, 'anderson_mem': amem, 'x': {k: np.asarray(v).tolist() for k, v in xs.items()}}
        try:
            y = system.predict(xs, max_fpi_iter=maxit, anderson_mem=amem, fpi_tol=FTOL)
        except Exception as e:
            ctx.violate('C06:surrogate-predict-raises', f'{type(e).__name__}: {e}', case); continue
        # members of ONE loop evaluated in different modes (model for some, surrogate for the others): a returned sample is a fixed point of
        # exactly those mixed equations
        for um in ({'l0': 'best'}, {f'l{size - 1}': 'best'}):
            try:
                ym = system.predict(xs, use_model=um, max_fpi_iter=60, anderson_mem=amem, fpi_tol=FTOL)
                for s in range(N):
                    vm = {k: float(np.ravel(ym[k])[s]) for k in ym}
                    if any(vm[f'u{i}'] != vm[f'u{i}'] for i in range(size)):
                        continue
                    for i, comp in enumerate(system.components[:size]):
                        ins = {str(v): (np.asarray(xs[str(v)])[s:s + 1] if str(v) in xs else np.array([vm[str(v)]])) for v in comp.inputs}
                        out = comp.predict(ins, use_model=um.get(comp.name))
                        if abs(float(np.ravel(out[f'u{i}'])[0]) - vm[f'u{i}']) > FTOL * 2 + 1e-12:
                            ctx.violate('C06:returned-not-a-fixed-point', f'use_model={um}, sample {s}: member l{i} evaluated in its own mode at the returned '
                                        f'values gives {float(np.ravel(out[f"u{i}"])[0])}, returned {vm[f"u{i}"]}', {**case, 'sample': s, 'use_model': um}); break
                ctx.count('mixed_mode_loops')
            except Exception as e:
                ctx.violate('C06:surrogate-predict-raises', f'use_model={um}: {type(e).__name__}: {e}', case)
        unames = [f'u{i}' for i in range(size)]
        loop_out = unames + ['w0']
        for s in range(N):
            vals = {k: float(np.ravel(y[k])[s]) for k in y}
            nan_loop = [k for k in loop_out if vals[k] != vals[k]]
            ctx.case({**case, 'sample': s}, nontrivial=True, kind=f'surrogate:maxit={maxit}')
            if nan_loop:
                stale = [k for k in loop_out + ['z'] if vals[k] == vals[k]]
                if stale:
                    ctx.violate('C06:stale-output-of-nonconverged-sample', f'surrogate mode, sample {s}: {nan_loop} NaN but {stale} returned', {**case, 'sample': s})
            else:
                for i, comp in enumerate(system.components[:size]):
                    ins = {str(v): (np.asarray(xs[str(v)])[s:s + 1] if str(v) in xs else np.array([vals[str(v)]])) for v in comp.inputs}
                    out = comp.predict(ins)
                    if abs(float(np.ravel(out[f'u{i}'])[0]) - vals[f'u{i}']) > FTOL * 2 + 1e-12:
                        ctx.violate('C06:returned-not-a-fixed-point', f'surrogate mode, sample {s}: member l{i} at the returned values gives '
                                    f'{float(np.ravel(out[f"u{i}"])[0])}, returned {vals[f"u{i}"]}', {**case, 'sample': s})
            ys = system.predict({k: np.asarray(v)[s:s + 1] for k, v in xs.items()}, max_fpi_iter=maxit, anderson_mem=amem, fpi_tol=FTOL)
            for k in y:
                a, b = vals[k], float(np.ravel(ys[k])[0])
                if not ((a != a and b != b) or abs(a - b) <= 1e-12 * (1 + abs(a))):
                    ctx.violate('C06:batch-dependence', f'surrogate mode, sample {s}, {k}: {a} in the batch, {b} alone', {**case, 'sample': s}); break


def run_field_loops(ctx: Ctx):
    """feedback loops whose coupling variables are FIELD quantities (SVD-compressed: the solver iterates on latent coefficients); the
    fields live in a subspace the compression represents exactly and the members are affine, so the exact solution is known: returned
    samples reproduce themselves under re-evaluation of every member (within a few fpi_tol) and match the exact linear solve"""
    from amisc import Component, System, Variable
    from amisc.compression import SVD
    rng = ctx.rng
    for n in range(ctx.pick(6, 30)):
        npts = rng.randint(6, 9)
        grid = np.linspace(0, 1, npts)
        B = np.vstack([np.sin(np.pi * grid), np.cos(np.pi * grid), grid ** 2])
        rs = np.random.RandomState(ctx.seed * 7 + n)
        D = (rs.uniform(-3, 3, (200, 3)) @ B).T

        def field(name):
            v = Variable(name, compression=SVD(rank=3, coords=grid))
            v.compression.compute_map(data_matrix=D)
            lat_ = v.compression.compress(D.T)
            v.update_domain(list(zip(np.min(lat_, axis=0), np.max(lat_, axis=0))), override=True)
            return v
        size = rng.randint(2, 3)
        gains = [rng.choice([0.9, 0.95, 0.98, -0.95]) for _ in range(size)]       # slowly contracting: many sweeps, the mixing step matters
        offs = [np.array([rng.randint(-2, 2) / 4 for _ in range(3)]) @ B for _ in range(size)]
        names = ['fu', 'fv', 'fw'][:size]
        fvars = [field(nm) for nm in names]
        x = Variable('x', distribution='U(0, 1)')
        comps = []
        for i in range(size):
            prev = names[(i - 1) % size]

            def fm(inputs, _i=i, _prev=prev, _g=gains[i], _o=offs[i]):
                out = _g * np.asarray(inputs[_prev], dtype=float) + _o
                if _i == 0:
                    out = out + np.asarray(inputs['x'], dtype=float)[..., None] * B[0]
                return {names[_i]: out}
            comps.append(Component(fm, ([x] if i == 0 else []) + [fvars[(i - 1) % size]], [fvars[i]], name=f'F{i}', vectorized=True))
        system = System(*comps, name=f'fl{n}')
        N = rng.randint(1, 5)
        xs = np.array([round(rng.random(), 4) for _ in range(N)])
        tol = rng.choice([1e-4, 1e-6, 1e-8]); mem = rng.choice([2, 3, 5, 10])
        G = float(np.prod(gains))
        case = {'field_loop': n, 'size': size, 'gains': gains, 'x': xs.tolist(), 'fpi_tol': tol, 'anderson_mem': mem}
        ctx.case(case, nontrivial=True, kind='field-loop')
        try:
            y = system.predict({'x': xs}, fpi_tol=tol, anderson_mem=mem, max_fpi_iter=600)
        except Exception as e:
            ctx.violate('C06:predict-raises', f'field-coupled loop: {type(e).__name__}: {e}', case); continue
        ok = np.full(xs.shape, True)
        for arr in y.values():
            ok &= ~np.isnan(np.asarray(arr, dtype=float))
        if not ok.any():
            ctx.count('field_loop_all_nan'); continue

        def lat(name):
            return {k: a for k, a in y.items() if k.startswith(f'{name}_LATENT')}
        res = 0.0
        for i, comp in enumerate(comps):
            ins = {**lat(names[(i - 1) % size]), **({'x': xs} if i == 0 else {})}
            r = comp.predict(ins)
            for k, arr in r.items():
                res = max(res, float(np.max(np.abs(np.asarray(arr) - np.asarray(y[k]))[ok])))
        if res > 5 * tol:
            ctx.violate('C06:returned-not-a-fixed-point', f'field-coupled loop: re-evaluating the members at the returned latent coefficients moves them by '
                        f'{res:.3e} = {res / tol:.1f} x fpi_tol', case)
        # exact solve of the first field: u = g0 * (... chain ...) ; for an affine ring u = (1 - G)^-1 * (constant + x b1)
        const = offs[0].copy(); acc = gains[0]
        for i in range(size - 1, 0, -1):
            const = const + acc * offs[i]; acc = acc * gains[i]
        u_exact = (xs[:, None] * B[0] + const) / (1 - G)
        u_rec = fvars[0].compression.reconstruct(np.stack([y[f'{names[0]}_LATENT{i}'] for i in range(3)], axis=-1))
        err = float(np.max(np.abs(u_rec - u_exact)[ok]))
        bound = 10 * np.sqrt(3) * tol / (1 - abs(G)) + 1e-9
        if err > bound:
            ctx.violate('C06:affine-solve-mismatch', f'field-coupled loop: field {names[0]} differs from the exact linear solve by {err:.3e} > {bound:.3e}', case)


def run_nan_samples(ctx: Ctx):
    """samples that become NaN inside a loop (NaN exogenous input, or a model that returns NaN once the iterate drifts): they must come
    back NaN in every output of the loop, and must not disturb the other samples of the batch"""
    from amisc import Component, System, Variable
    rng = ctx.rng
    for n in range(ctx.pick(10, 80)):
        size = rng.randint(2, 3)
        kind = rng.choice(['nan-input', 'sqrt-drift'])
        xx = Variable('xx', domain=(0, 1))
        us = [Variable(f'v{i}', domain=(-3.0, 3.0)) for i in range(size)]
        g = rng.choice([0.4, 0.5, 0.9])

        def first(inputs, _k=kind, _last=f'v{size - 1}', _g=g):
            a = np.asarray(inputs['xx'], dtype=float); b = np.asarray(inputs[_last], dtype=float)
            with np.errstate(invalid='ignore'):
                return {'v0': np.sqrt(a - b) if _k == 'sqrt-drift' else _g * b + a}
        comps = [Component(first, [xx, us[-1]], [us[0]], name='m0', vectorized=True)]
        for i in range(1, size):
            def nxt(inputs, _p=f'v{i - 1}', _o=f'v{i}', _g=g, _last=(i == size - 1)):
                return {_o: _g * np.asarray(inputs[_p], dtype=float) + (0.2 if _last else -0.1)}
            comps.append(Component(nxt, [us[i - 1]], [us[i]], name=f'm{i}', vectorized=True))
        system = System(*comps, name=f'n{n}')
        N = rng.randint(2, 5)
        xs = np.array([round(0.55 + 0.4 * rng.random(), 4) for _ in range(N)])
        bad = rng.randrange(N)
        xs[bad] = np.nan if kind == 'nan-input' else 0.05 + 0.2 * rng.random()
        case = {'nan_system': n, 'kind': kind, 'size': size, 'gain': g, 'xx': [None if v != v else float(v) for v in xs], 'bad_sample': bad}
        ctx.case(case, nontrivial=True, kind=f'nan:{kind}')
        try:
            y = system.predict({'xx': xs}, use_model='best')
        except Exception as e:
            ctx.violate('C06:one-bad-sample-aborts-the-batch', f'System.predict raised {type(e).__name__}: {e} for a batch in which only sample {bad} '
                        f'cannot converge', case)
            continue
        names = [f'v{i}' for i in range(size)]
        for s in range(N):
            vals = [float(np.ravel(y[k])[s]) for k in names]
            nans = [v != v for v in vals]
            if any(nans) and not all(nans):
                ctx.violate('C06:stale-output-of-nan-sample', f'sample {s}: loop outputs {dict(zip(names, vals))} mix NaN and stale finite values', {**case, 'sample': s})
            if s == bad:
                # the sample that turns NaN, evaluated alone: the sweep in which it turns NaN is then also the last sweep of the batch
                try:
                    yb = system.predict({'xx': xs[s:s + 1]}, use_model='best')
                    vb = [float(np.ravel(yb[k])[0]) for k in names]
                    if any(v != v for v in vb) and not all(v != v for v in vb):
                        ctx.violate('C06:stale-output-of-nan-sample', f'sample {s} evaluated alone: loop outputs {dict(zip(names, vb))} mix NaN and stale '
                                    f'finite values', {**case, 'sample': s, 'alone': True})
                    if [v != v for v in vb] != nans:
                        ctx.violate('C06:batch-dependence', f'sample {s}: NaN pattern {nans} in the batch, {[v != v for v in vb]} alone', {**case, 'sample': s})
                except Exception as e:
                    ctx.violate('C06:one-bad-sample-aborts-the-batch', f'System.predict of the single sample {s} raised {type(e).__name__}: {e}', case)
            if s != bad:
                try:
                    ys = system.predict({'xx': xs[s:s + 1]}, use_model='best')
                    for k in names:
                        a, b = float(np.ravel(y[k])[s]), float(np.ravel(ys[k])[0])
                        if not ((a != a and b != b) or abs(a - b) <= 1e-12 * (1 + abs(a))):
                            ctx.violate('C06:batch-dependence', f'sample {s}, {k}: {a} in the batch with a NaN sample, {b} alone', {**case, 'sample': s}); break
                except Exception:
                    pass


def run_sequential_loops(ctx: Ctx):
    """two feedback loops in sequence (the second reads the first) plus a thresholding component downstream of both: a sample's result
    must not depend on how many sweeps OTHER samples needed in the first loop, and non-converged samples must be NaN downstream even
    when the downstream model would turn a NaN input into a finite output"""
    from amisc import Component, System, Variable
    rng = ctx.rng
    for n in range(ctx.pick(10, 80)):
        ga, gb = rng.choice([0.3, 0.6, 0.85]), rng.choice([0.3, 0.6, 0.85])
        V = {k: Variable(k, domain=(-4.0, 4.0)) for k in ('a0', 'a1', 'b0', 'b1')}
        xx = Variable('xx', domain=(0, 1)); t = Variable('t', domain=(-2, 2))

        def fa0(inputs, _g=ga):
            x_ = np.asarray(inputs['xx'], dtype=float)
            # samples with xx < 0.5 have no feedback in the first loop (they converge at once), the others need many sweeps
            return {'a0': np.where(x_ < 0.5, 0.0, _g) * np.tanh(np.asarray(inputs['a1'], dtype=float)) + x_}

        def fa1(inputs, _g=ga):
            return {'a1': _g * np.asarray(inputs['a0'], dtype=float) - 0.2}

        def fb0(inputs, _g=gb):
            return {'b0': _g * np.asarray(inputs['b1'], dtype=float) + 0.5 * np.asarray(inputs['a0'], dtype=float)}

        def fb1(inputs, _g=gb):
            return {'b1': _g * np.sin(np.asarray(inputs['b0'], dtype=float)) + 0.1}

        def thr(inputs):
            b = np.asarray(inputs['b0'], dtype=float)
            return {'t': np.where(b > 0.3, 1.0, 0.0)}          # NaN > 0.3 is False: the model itself does not propagate NaN
        comps = [Component(fa0, [xx, V['a1']], [V['a0']], name='A0', vectorized=True), Component(fa1, [V['a0']], [V['a1']], name='A1', vectorized=True),
                 Component(fb0, [V['b1'], V['a0']], [V['b0']], name='B0', vectorized=True), Component(fb1, [V['b0']], [V['b1']], name='B1', vectorized=True),
                 Component(thr, [V['b0']], [t], name='T', vectorized=True)]
        system = System(*comps, name=f'sq{n}')
        N = rng.randint(2, 6)
        xs = {'xx': np.array([round(rng.random(), 5) for _ in range(N)])}
        xs['xx'][0] = round(0.1 + 0.3 * rng.random(), 5); xs['xx'][-1] = round(0.6 + 0.3 * rng.random(), 5)   # one fast and one slow sample
        maxit = rng.choice([1, 2, 3, 5, 8, 12, 20, 40]); amem = rng.choice([1, 1, 2, 10])
        case = {'sequential_loops': n, 'gains': (ga, gb), 'xx': xs['xx'].tolist(), 'max_fpi_iter': maxit, 'anderson_mem': amem}
        ctx.case(case, nontrivial=True, kind=f'two-loops:maxit={maxit}')
        try:
            y = system.predict(xs, use_model='best', max_fpi_iter=maxit, anderson_mem=amem, fpi_tol=FTOL)
        except Exception as e:
            ctx.violate('C06:predict-raises', f'{type(e).__name__}: {e}', case); continue
        # the tightest iteration limit under which the fast sample converges alone: with exactly that limit it must converge in the batch too
        # (each loop has the whole budget, whatever the other loop or the other samples used)
        m0 = None
        for m_ in range(1, 61):
            y0 = system.predict({'xx': xs['xx'][:1]}, use_model='best', max_fpi_iter=m_, anderson_mem=amem, fpi_tol=FTOL)
            if all(float(np.ravel(v_)[0]) == float(np.ravel(v_)[0]) for v_ in y0.values()):
                m0 = m_; break
        if m0 is not None:
            yb = system.predict(xs, use_model='best', max_fpi_iter=m0, anderson_mem=amem, fpi_tol=FTOL)
            bad0 = [k for k in yb if not (abs(float(np.ravel(yb[k])[0]) - float(np.ravel(y0[k])[0])) <= 1e-10 * (1 + abs(float(np.ravel(y0[k])[0]))))]
            if bad0:
                ctx.violate('C06:batch-dependence', f'sample 0 converges alone with max_fpi_iter={m0} ({ {k: float(np.ravel(y0[k])[0]) for k in bad0} }) but in the '
                            f'batch it gives { {k: float(np.ravel(yb[k])[0]) for k in bad0} } (two sequential loops)', {**case, 'sample': 0, 'tight_limit': m0})
        for s in range(N):
            vals = {k: float(np.ravel(y[k])[s]) for k in y}
            for loop, down in ((('a0', 'a1'), ('b0', 'b1', 't')), (('b0', 'b1'), ('t',))):
                if any(vals[k] != vals[k] for k in loop):
                    stale = [k for k in loop + down if vals[k] == vals[k]]
                    if stale:
                        ctx.violate('C06:stale-output-of-nonconverged-sample', f'sample {s}: loop {loop} did not converge but {stale} = '
                                    f'{[vals[k] for k in stale]} (downstream of it)', {**case, 'sample': s})
            ys = system.predict({'xx': xs['xx'][s:s + 1]}, use_model='best', max_fpi_iter=maxit, anderson_mem=amem, fpi_tol=FTOL)
            for k in y:
                a, b = vals[k], float(np.ravel(ys[k])[0])
                if not ((a != a and b != b) or abs(a - b) <= 1e-10 * (1 + abs(a))):
                    ctx.violate('C06:batch-dependence', f'sample {s}, {k}: {a} in the batch, {b} alone (two sequential loops, max_fpi_iter={maxit})',
                                {**case, 'sample': s}); break
