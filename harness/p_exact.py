"""C03 / C17: exactness of component surrogates on their sparse polynomial space, and equivariance under affine
changes of input units.  Components with polynomial models (integer coefficients) whose monomials are resolvable by
some index of the set in use; the reference is the exact polynomial value (Fractions)."""
from __future__ import annotations

import itertools
from fractions import Fraction

import numpy as np

from common import Ctx, import_amisc
from p_misc import margin
from systems import poly_eval_exact

TWO30 = Fraction(1, 2 ** 30)


def build_poly_component(rng, nx, na, ny, levels, kpl, domains, norms=None, name='pc', alpha_gain=0.0):
    """model y_j(x) = polynomial in *unit* coordinates u_k = (x_k - lo_k)/(hi_k - lo_k), so that one and the same
    polynomial can be re-parameterised on shifted/scaled domains (C17); coefficients are filled in later via `terms`."""
    from amisc import Component, Variable
    from amisc.training import SparseGrid
    terms = {f'y{j}': [] for j in range(ny)}
    los = [float(d[0]) for d in domains]; ws = [float(d[1]) - float(d[0]) for d in domains]

    def model(inputs, model_fidelity=None):
        us = [(np.asarray(inputs[f'x{k}'], dtype=float) - los[k]) / ws[k] for k in range(nx)]
        out = {}
        for j in range(ny):
            tot = 0.0 * us[0]
            for coef, exps in terms[f'y{j}']:
                t = float(coef)
                for u, e in zip(us, exps):
                    if e:
                        t = t * u ** e
                tot = tot + t
            if alpha_gain and model_fidelity is not None:       # opt-in: the output depends on the model fidelity (per sample)
                mf = np.atleast_2d(np.asarray(model_fidelity, dtype=float))
                asum = mf.sum(axis=1) if mf.shape[0] == np.size(tot) else np.full(np.shape(tot), mf[0].sum())
                tot = tot + alpha_gain * (j + 1) * np.reshape(asum, np.shape(tot)) * (1.0 + us[0])
            out[f'y{j}'] = tot
        return out
    xs = [Variable(f'x{k}', distribution=f'U({float(domains[k][0])!r}, {float(domains[k][1])!r})',
                   norm=None if norms is None else norms.get(f'x{k}')) for k in range(nx)]
    ys = [Variable(f'y{j}', norm=None if norms is None else norms.get(f'y{j}')) for j in range(ny)]
    kw = {'data_fidelity': tuple(levels)}
    if na:
        kw['model_fidelity'] = (2,) * na
    comp = Component(model, xs, ys, name=name, vectorized=True, training_data=SparseGrid(knots_per_level=kpl), **kw)
    return comp, terms


def grow_to(comp, na, order, widen_after=None, widen=None):
    """activate the indices of `order`; optionally the domain of one input is widened (widen = (name, new_domain)) after `widen_after` activations"""
    for k, c in enumerate(order):
        if widen is not None and k == widen_after:
            comp.inputs[widen[0]].update_domain(widen[1])
        comp.activate_index(tuple(c[:na]), tuple(c[na:]))


def random_order(rng, mx, steps):
    active, order = set(), []
    for _ in range(steps):
        m = margin(active, mx)
        if not m:
            break
        c = rng.choice(m)
        order.append(c); active.add(c)
    return order


def fill_terms(rng, terms, S, na, nx, kpl, nterms=3):
    """monomials each resolvable by some index of S: exponent m_k <= kpl * beta*_k"""
    S = sorted(S)
    for out in terms:
        terms[out].clear()
        for _ in range(rng.randint(1, nterms)):
            b = rng.choice(S)
            exps = tuple(rng.randint(0, kpl * b[na + k]) for k in range(nx))
            c = 0
            while c == 0:
                c = rng.randint(-4, 4)
            terms[out].append((c, exps))


def exact_value(terms_out, domains, x):
    us = [(Fraction(x[k]) - Fraction(domains[k][0])) / (Fraction(domains[k][1]) - Fraction(domains[k][0])) for k in range(len(x))]
    rabs = Fraction(0)
    for c, exps in terms_out:
        t = abs(Fraction(c))
        for u, e in zip(us, exps):
            t *= abs(u) ** e
        rabs += t
    return poly_eval_exact(terms_out, us), rabs


def check_component(ctx, comp, terms, domains, na, nx, mode, pts, case, sig_prefix, lebesgue=64):
    """compare Component.predict (through normalise/denormalise) with the exact polynomial at raw points pts"""
    names = [f'x{k}' for k in range(nx)]
    for x in pts:
        xin = {v: comp.inputs[v].normalize(np.array([x[k]])) for k, v in enumerate(names)}
        try:
            pred = comp.predict(xin, index_set=mode)
        except Exception as e:
            ctx.violate(f'{sig_prefix}:predict-raises', f'Component.predict raised {type(e).__name__}: {e}', {**case, 'x': x}); return
        for out in terms:
            got = float(np.ravel(comp.outputs[out].denormalize(pred[out]))[0])
            ref, rabs = exact_value(terms[out], domains, x)
            # rounding allowance: 2^-30 * (sum |coef * monomial| at x and over the unit box, times a Lebesgue-type factor)
            box = sum(abs(Fraction(c)) for c, _ in terms[out])
            bound = TWO30 * lebesgue * (max(rabs, box) + 1)
            ok = got == got and abs(Fraction(got) - ref) <= bound
            if not ok:
                ctx.violate(f'{sig_prefix}:not-exact', f'{mode}-mode surrogate of {out} at x={x} is {got}, the polynomial model gives {float(ref)} '
                            f'(error {float(abs(Fraction(got) - ref)) if got == got else "nan":.3e}, allowed {float(bound):.1e})',
                            {**case, 'x': x, 'output': out, 'mode': mode})
                return False
    # evaluation points handed over as arrays that broadcast against each other axis by axis ((N, 1) with (1, M)): the result has shape (N, M)
    # and entry (i, j) is the value at (x0_i, x1_j, ...)
    if len(pts) >= 2 and nx >= 2:
        a0 = [pts[0][0], pts[1][0], pts[-1][0]]; a1 = [pts[0][1], pts[-1][1]]
        rest = [pts[0][k] for k in range(2, nx)]
        xin = {names[0]: comp.inputs[names[0]].normalize(np.array(a0).reshape(3, 1)), names[1]: comp.inputs[names[1]].normalize(np.array(a1).reshape(1, 2))}
        for k in range(2, nx):
            xin[names[k]] = comp.inputs[names[k]].normalize(np.array([[rest[k - 2]]]))
        try:
            pred = comp.predict(xin, index_set=mode)
        except Exception as e:
            ctx.violate(f'{sig_prefix}:predict-raises', f'Component.predict on broadcastable inputs raised {type(e).__name__}: {e}', {**case, 'broadcast': True}); return
        for out in terms:
            arr = np.asarray(comp.outputs[out].denormalize(pred[out]), dtype=float)
            if arr.shape != (3, 2):
                ctx.violate(f'{sig_prefix}:not-exact', f'inputs of shapes (3, 1) and (1, 2) returned {out} of shape {arr.shape}', {**case, 'broadcast': True}); return False
            for i_ in range(3):
                for j_ in range(2):
                    x = [a0[i_], a1[j_]] + rest
                    ref, rabs = exact_value(terms[out], domains, x)
                    box = sum(abs(Fraction(c)) for c, _ in terms[out])
                    got = float(arr[i_, j_])
                    if not (got == got and abs(Fraction(got) - ref) <= TWO30 * lebesgue * (max(rabs, box) + 1)):
                        ctx.violate(f'{sig_prefix}:not-exact', f'{mode}-mode surrogate of {out} on broadcast inputs, entry ({i_}, {j_}) = {got}; the polynomial at x={x} gives '
                                    f'{float(ref)}', {**case, 'broadcast': True, 'x': x, 'output': out, 'mode': mode})
                        return False
    # the same evaluation through an executor (the tensor interpolants are evaluated as separate jobs) must give the same values
    if pts and getattr(ctx, 'tier', 'quick') is not None:
        from concurrent.futures import ThreadPoolExecutor
        xin = {v: comp.inputs[v].normalize(np.array([x[k] for x in pts])) for k, v in enumerate(names)}
        try:
            serial = comp.predict(xin, index_set=mode)
            with ThreadPoolExecutor(max_workers=3) as pool:
                par = comp.predict(xin, index_set=mode, executor=pool)
        except Exception as e:
            ctx.violate(f'{sig_prefix}:predict-raises', f'Component.predict with an executor raised {type(e).__name__}: {e}', {**case, 'executor': True}); return
        for out in terms:
            a, b = np.ravel(serial[out]), np.ravel(par[out])
            scale = 1.0 + float(np.max(np.abs(a[np.isfinite(a)]))) if np.isfinite(a).any() else 1.0
            if a.shape != b.shape or not np.allclose(a, b, rtol=0, atol=1e-9 * scale, equal_nan=True):
                ctx.violate(f'{sig_prefix}:not-exact', f'{mode}-mode surrogate of {out} evaluated through an executor differs from the serial evaluation '
                            f'(max difference {float(np.nanmax(np.abs(a - b))) if a.shape == b.shape else "shape"})',
                            {**case, 'output': out, 'mode': mode, 'executor': True})
                return False
    return True


def sample_points(rng, comp, domains, nx, n):
    pts = []
    td = comp.training_data
    for _ in range(n):
        x = []
        for k in range(nx):
            lo, hi = float(domains[k][0]), float(domains[k][1])
            r = rng.random()
            if r < 0.2:
                g = td.x_grids[f'x{k}']
                x.append(float(comp.inputs[f'x{k}'].denormalize(np.array([rng.choice(g)]))[0]))
            elif r < 0.85:
                x.append(lo + (hi - lo) * rng.random())
            else:
                x.append(hi + 0.5 * (hi - lo) * rng.random())     # beyond the domain
        pts.append(x)
    # always: one point on the lower edge and one on the upper edge of one input's domain (the Leja edge nodes sit next to, not on, the edges;
    # the edge of a U(0,1) or min-max normalised input is exactly 0.0 in surrogate space)
    for edge in (0, 1):
        k0 = rng.randrange(nx)
        x = [float(domains[k][0]) + (float(domains[k][1]) - float(domains[k][0])) * rng.random() for k in range(nx)]
        x[k0] = float(domains[k0][edge])
        pts.append(x)
    return pts
