"""Regenerate MANIFEST.json from the registry (run by hand after adding a property)."""
import json
import sys
from pathlib import Path
ROOT = Path(__file__).resolve().parent.parent
sys.path.insert(0, str(ROOT / 'harness'))
from manifest_data import CHECKS, NOT_APPLICABLE  # noqa: E402

props = [json.loads(l) for l in (ROOT / 'properties.jsonl').read_text().splitlines() if l.strip()]
ids = [p['id'] for p in props]
checks = []
for pid in ids:
    if pid in CHECKS:
        c = CHECKS[pid]
        checks.append({
            'property_id': pid,
            'quick_cmd': f'./check {pid} --tier quick',
            'thorough_cmd': f'./check {pid} --tier thorough',
            'evidence_file': f'evidence/{pid}.json',
            'replay_cmd_template': f'./check {pid} --replay {{path}}',
            'engine': 'coq-proof+extracted-model-correspondence',
            'level_claimed': {'category': 'proof', 'text': c['text'], 'design_ref': c['design_ref']},
            'level_note': c['note'],
            'technique': c['technique'],
        })
na = [{'property_id': pid, 'reason': NOT_APPLICABLE.get(pid, 'check not built yet in this round; see DESIGN.md section 5 for the planned model and theorems')}
      for pid in ids if pid not in CHECKS]
man = {
    'version': 1,
    'setup_cmd': './build.sh',
    'hooks': {'guard': 'AMISC_VERIF', 'enable': 'no source hooks: the harness wraps user models, executors and SparseGrid/Lagrange methods from its own process (AMISC_VERIF is unused)',
              'baseline_off_cmd': 'cd /repo && /venv/bin/python -m pytest -ra -q -p no:cacheprovider --timeout=900 --continue-on-collection-errors',
              'source_commits': [], 'add_only': True},
    'engines': [{'name': 'coq-proof+extracted-model-correspondence', 'path': 'check',
                 'serves_properties': sorted(CHECKS),
                 'kind_free_text': 'Coq 8.16 theorems about hand-written Gallina models (coq/Model, coq/Proofs, coq/Props); models extracted to OCaml (ExtrOcamlBasic) and run against real amisc from /repo/src on generated cases; property oracles search for failing inputs'}],
    'checks': checks,
    'notes': 'See DESIGN.md. known_findings.json lists recorded findings and fixed defects.',
    'not_applicable': na,
}
(ROOT / 'MANIFEST.json').write_text(json.dumps(man, indent=1) + '\n')
print(len(checks), 'checks,', len(na), 'not claimed')
