#!/usr/bin/env python3
"""print a markdown table of the stored seeded changes (seeded/<id>/meta.json): summary, result of the first evaluation, result on the current tree"""
import json, sys, pathlib
root = pathlib.Path(__file__).resolve().parent.parent / 'seeded'
pat = sys.argv[1] if len(sys.argv) > 1 else ''
rows = []
for d in sorted(root.iterdir()):
    if pat and pat not in d.name:
        continue
    try:
        m = json.load(open(d / 'meta.json'))
    except Exception:
        continue
    first = ' '.join(m.get('result', []))
    now = ' '.join(m.get('recheck_on_current_tree', {}).get('result', [])) or first
    summ = (m.get('summary') or '').replace('|', '/').replace('\n', ' ')
    if len(summ) > 150:
        summ = summ[:147] + '...'
    rows.append(f'| {d.name} | {summ} | {first} | {now} |')
print('| seed | change | first | now |\n|---|---|---|---|')
print('\n'.join(rows))
