import p_misc
def run(ctx):
    p_misc.run(ctx, 'C02')
