"""C18: System.simulate_fit replays the training history into the structures every component had."""
from __future__ import annotations

import copy

import numpy as np

from common import Ctx, enc, run_model, ModelError, import_amisc
import systems
from p_misc import tree_items, canon_model_state


def snap_comp(comp):
    return {'active': sorted(tuple(a) + tuple(b) for a, b in comp.active_set),
            'cand': sorted(tuple(a) + tuple(b) for a, b in comp.candidate_set),
            'ctrain': tree_items(comp.misc_coeff_train), 'ctest': tree_items(comp.misc_coeff_test)}


def snap_shadow(act, cand, ctr, cte):
    return {'active': sorted(tuple(a) + tuple(b) for a, b in act), 'cand': sorted(tuple(a) + tuple(b) for a, b in cand),
            'ctrain': tree_items(ctr), 'ctest': tree_items(cte)}


def run(ctx: Ctx):
    import_amisc()
    rng = ctx.rng
    nsys = ctx.pick(16, 80)
    ctx.rule = ('random feed-forward systems (2-4 polynomial components, with/without a model-fidelity dimension, some components '
                'without surrogate), trained with fit() for 4-10 iterations; after every iteration the live sets/weights of every '
                'component and the live predictions (train and test mode) are recorded; simulate_fit() yields are compared with them '
                'and with the replay of Model/Misc.v on the per-component history; non-trivial = history of at least 3 activations')
    model_lines, model_meta = [], []
    for n in range(nsys):
        np.random.seed(ctx.seed * 7919 + n)
        if n % 4 == 3:
            system, lspec = systems.random_loop_system(rng, size=rng.randint(2, 3), name=f's{n}')
            spec = [{'name': c.name, 'na': 0, 'levels': list(c.data_fidelity), 'has_surrogate': True} for c in system.components]
        else:
            system, spec = systems.random_chain_system(rng, with_alpha=True, norms=False,
                                                       no_surrogate_prob=0.2 if n % 3 == 2 else 0.0, name=f's{n}')
        if not any(c.has_surrogate for c in system.components):
            continue
        niter = rng.randint(4, ctx.pick(8, 12))
        xin = system.sample_inputs(7)
        live = []
        orig_refine = system.refine

        def refine_and_record(*a, **k):
            res = orig_refine(*a, **k)
            if res['component'] is not None:
                rec = {'comps': {c.name: snap_comp(c) for c in system.components if c.has_surrogate}}
                for key, mode in (('ytrain', 'train'), ('ytest', 'test')):
                    try:   # before every component is initialised the live prediction may be NaN or not computable
                        rec[key] = {k2: np.copy(v) for k2, v in system.predict(xin, index_set=mode).items()}
                    except Exception:
                        rec[key] = None
                live.append(rec)
            return res
        object.__setattr__(system, 'refine', refine_and_record)
        try:
            system.fit(max_iter=niter, num_refine=15, max_tol=-1.0, update_bounds=False)
        finally:
            object.__delattr__(system, 'refine')
        hist = systems.history_plain(system)
        case = {'system': n, 'components': [(s['name'], s['na'], s['levels'], s['has_surrogate']) for s in spec],
                'history': [(h['component'], h['alpha'], h['beta']) for h in hist]}
        ctx.case(case, nontrivial=len(hist) >= 3, kind=f'ncomp={len(spec)}')
        ctx.count('iterations', len(hist))
        if len(hist) != len(live):
            ctx.violate('C18:history-length', f'{len(hist)} history entries for {len(live)} activations', case)
            continue
        # ---- replay by the implementation
        k = -1
        for k, (res, act, cand, ctr, cte) in enumerate(system.simulate_fit()):
            if k >= len(live):
                ctx.violate('C18:too-many-yields', 'simulate_fit yields more iterations than were trained', case)
                break
            for cname, lsnap in live[k]['comps'].items():
                rs = snap_shadow(act[cname], cand[cname], ctr[cname], cte[cname])
                if rs != lsnap:
                    diffk = [kk for kk in rs if rs[kk] != lsnap[kk]]
                    ctx.violate(f'C18:replay-differs:{diffk[0]}',
                                f'iteration {k}: replayed {diffk} of component {cname} differ from the live ones: '
                                f'replayed={rs[diffk[0]]} live={lsnap[diffk[0]]}', {**case, 'iteration': k})
            # predictions with the regenerated structures
            has = [c.name for c in system.components if c.has_surrogate]
            test_sets = {c: act[c].union(cand[c]) for c in has}
            for mode, want, iset, coeff in (('train', live[k]['ytrain'], act, ctr), ('test', live[k]['ytest'], test_sets, cte)):
                if want is None:
                    continue
                ctx.count('prediction_comparisons')
                try:
                    got = system.predict(xin, index_set={c: copy.deepcopy(iset[c]) for c in has},
                                         misc_coeff={c: copy.deepcopy(coeff[c]) for c in has})
                except Exception as e:
                    ctx.violate(f'C18:replay-predict-raises:{mode}', f'iteration {k}: predicting with the replayed structures raised '
                                f'{type(e).__name__}: {e}', {**case, 'iteration': k})
                    continue
                for var in want:
                    if not systems.floats_close(got[var], want[var]):
                        ctx.violate(f'C18:prediction-differs:{mode}',
                                    f'iteration {k}: {mode}-mode prediction of {var} with replayed structures '
                                    f'{np.asarray(got[var]).tolist()} != live {np.asarray(want[var]).tolist()}',
                                    {**case, 'iteration': k})
        if k + 1 != len(live):
            ctx.violate('C18:yield-count', f'simulate_fit yielded {k + 1} iterations, trained {len(live)}', case)
        # last replayed state = live state
        for c in system.components:
            if c.has_surrogate and live and snap_comp(c) != live[-1]['comps'][c.name]:
                ctx.violate('C18:last-not-live', f'component {c.name} changed after the last recorded iteration', case)
        # ---- model replay per component
        for c in system.components:
            if not c.has_surrogate:
                continue
            mx = list(c.model_fidelity) + list(c.max_beta)
            chist = [list(h['alpha']) + list(h['beta']) for h in hist if h['component'] == c.name]
            if not chist:
                continue
            model_lines.append('misc_replay ' + enc([mx, [list(a) + list(b) for a, b in c.active_set], chist]))
            per_iter = [lv['comps'][c.name] for lv, h in zip(live, hist) if h['component'] == c.name]
            model_meta.append((case, c.name, per_iter))
    if model_lines:
        for (case, cname, per_iter), mo in zip(model_meta, run_model(model_lines)):
            ctx.count('model_replays')
            if isinstance(mo, ModelError):
                ctx.disagree('C18:misc_replay', case, str(mo), None); continue
            ms = [canon_model_state(s) for s in mo]
            if ms != per_iter:
                j = next((j for j in range(min(len(ms), len(per_iter))) if ms[j] != per_iter[j]), min(len(ms), len(per_iter)))
                ctx.disagree(f'C18:replay-vs-model component {cname} step {j}', case,
                             ms[j] if j < len(ms) else None, per_iter[j] if j < len(per_iter) else None)
