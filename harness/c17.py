"""C17: surrogates are equivariant under affine changes of input units."""
from __future__ import annotations

import itertools
from fractions import Fraction

import numpy as np

from common import Ctx, enc, q, unq, run_model, ModelError, import_amisc
import lagr
import p_exact
from p_misc import margin

TWO30 = Fraction(1, 2 ** 30)


def interp_twins(ctx: Ctx):
    """Lagrange states on a unit grid and on its image under x -> a*x+b (a, b powers of two, so the map is exact in
    floating point): weights must coincide, predictions/gradients/hessians must be images of each other (arbitrary data)."""
    from amisc.interpolator import Lagrange
    rng = ctx.rng
    lines, meta = [], []
    for _ in range(ctx.pick(60, 600)):
        d = rng.randint(1, 3)
        interp = Lagrange()
        names = [f'x{k}' for k in range(d)]
        grids = {}
        for v in names:
            g = set()
            while len(g) < 2:
                g = {rng.randrange(0, 65) / 64 for _ in range(rng.randint(2, 5))}
            grids[v] = sorted(g, key=lambda t: rng.random())
        ab = {}
        for v in names:      # offsets up to 2^19 widths (the property ranges to 1e6 widths); a*x+b stays exact in floating point
            a = 2.0 ** rng.randint(-30, 30)
            ab[v] = (a, rng.choice([0.0, 1.0, -1.0]) * a * 2.0 ** rng.randint(0, 19))
        prod = list(itertools.product(*[grids[v] for v in names]))
        ys = np.array([rng.randint(-16, 16) / 8 for _ in prod])
        x1 = {v: np.array([p[i] for p in prod]) for i, v in enumerate(names)}
        x2 = {v: ab[v][0] * x1[v] + ab[v][1] for v in names}
        st1 = interp.refine((), (x1, {'y': ys}), None, {v: (0.0, 1.0) for v in names})
        st2 = interp.refine((), (x2, {'y': ys}), None, {v: (ab[v][1], ab[v][0] + ab[v][1]) for v in names})
        case = {'grids': grids, 'ab': ab, 'data': ys.tolist()}
        for v in names:
            w1, w2 = np.asarray(st1.weights[v]), np.asarray(st2.weights[v])
            if w1.shape != w2.shape or not np.allclose(w1, w2, rtol=1e-10, atol=0):
                ctx.violate('C17:weights-not-invariant', f'weights of {v} change with the unit: {w1.tolist()} vs {w2.tolist()}', case)
        pts = []
        for _ in range(3):
            p = []
            for v in names:
                r = rng.random()
                node = rng.choice(grids[v]); sp = max(grids[v]) - min(grids[v])
                p.append(node if r < 0.3 else node + rng.choice([-1, 1]) * 2.0 ** -28 * sp if r < 0.45 else rng.randrange(0, 4097) / 4096 * 1.5 - 0.25)
            pts.append(p)
        for p in pts:
            xa = {v: np.array([p[i]]) for i, v in enumerate(names)}
            xb = {v: np.array([ab[v][0] * p[i] + ab[v][1]]) for i, v in enumerate(names)}
            gn = [[Fraction(t) for t in np.asarray(st1.x_grids[v]).tolist()] for v in names]
            if lagr.near_threshold(gn, [Fraction(t) for t in p]):
                continue
            f1 = float(interp.predict(xa, st1, (x1, {'y': ys}))['y'][0]); f2 = float(interp.predict(xb, st2, (x2, {'y': ys}))['y'][0])
            g1 = np.ravel(interp.gradient(xa, st1, (x1, {'y': ys}))['y']); g2 = np.ravel(interp.gradient(xb, st2, (x2, {'y': ys}))['y'])
            h1 = np.asarray(interp.hessian(xa, st1, (x1, {'y': ys}))['y']).reshape(d, d)
            h2 = np.asarray(interp.hessian(xb, st2, (x2, {'y': ys}))['y']).reshape(d, d)
            if not (np.all(np.isfinite(h1)) and np.all(np.isfinite(h2))):
                ctx.count('nonfinite_hessian_skipped'); h1 = h2 = np.zeros((d, d))   # exact-node corner: C11's matter
            a = np.array([ab[v][0] for v in names])
            scale = float(np.sum(np.abs(ys))) + 1.0
            ctx.case({**case, 'x': p}, nontrivial=len(prod) > 1, kind='interp-twin')
            if not abs(f1 - f2) <= 1e-9 * scale:
                ctx.violate('C17:predict-not-equivariant', f'prediction {f2} on the rescaled twin, {f1} on the original', {**case, 'x': p})
            big = 1e-7 * scale * (1.0 + 1.0 / min(abs(t1 - t2) for g in grids.values() for t1 in g for t2 in g if t1 != t2) ** 2)
            if not np.all(np.abs(g2 * a - g1) <= big):
                ctx.violate('C17:gradient-not-equivariant', f'gradient {(g2 * a).tolist()} (rescaled twin times a) vs {g1.tolist()}', {**case, 'x': p})
            if not np.all(np.abs(h2 * np.outer(a, a) - h1) <= big * 64):
                ctx.violate('C17:hessian-not-equivariant', f'hessian {(h2 * np.outer(a, a)).tolist()} (rescaled) vs {h1.tolist()}', {**case, 'x': p})
            # correspondence: the extracted model on the twin's own float state
            lines.append('lagr_predict ' + enc([lagr.state_grids(st2, names), [q(float(xb[v][0])) for v in names], [q(t) for t in ys.tolist()]]))
            meta.append(({**case, 'x': p}, f2))
    for (case, impl), mo in zip(meta, run_model(lines, shards=16)):
        if isinstance(mo, ModelError):
            ctx.disagree('C17:model-error', case, str(mo), None); continue
        if not lagr.within(impl, unq(mo[0]), unq(mo[1])):
            ctx.disagree('C17:Lagrange.predict on rescaled grid', case, float(unq(mo[0])), impl)


def component_twins(ctx: Ctx):
    rng = ctx.rng
    for i in range(ctx.pick(24, 250)):
        nx = rng.choice([1, 1, 2, 2, 3]); ny = rng.randint(1, 2); kpl = rng.randint(1, 2)
        levels = [rng.randint(1, 3 if nx == 1 else 2) for _ in range(nx)]
        doms = []
        for k in range(nx):
            w = 10.0 ** rng.randint(-9, 9)
            off = rng.choice([0.0, 1.0, -1.0, 1e3, -1e6]) * w
            if rng.random() < 0.15:     # negative ranges whose bounds are in the ratio of the interval capacity (lb = 4 ub): expressions like
                doms.append((-4.0 * w, -1.0 * w)); continue      # ub - lb / 4 vanish exactly there while (ub - lb) / 4 does not
            doms.append((off, off + w))
        ragged = i in (4, 5)
        if ragged:
            # stratified: an index whose inputs have different numbers of nodes (5 and 3), the coarser input living at an offset of 1e6 widths:
            # whatever pads the shorter node row may not enter that input's length scale
            nx, kpl, levels = 2, 2, [2, 1]
            w = 10.0 ** rng.choice([-3, 0, 2])
            doms = [(0.0, 1.0), (-1e6 * w, -1e6 * w + w)] if i == 4 else [(2.0, 4.0), (1e6 * w, 1e6 * w + w)]
        unit = [(0.0, 1.0)] * nx
        mx = tuple(levels)
        order = p_exact.random_order(rng, mx, rng.randint(2, 7))
        if ragged:
            order = [(0, 0), (1, 0), (0, 1), (1, 1), (2, 0), (2, 1)]
        S = set(order)
        case = {'nx': nx, 'ny': ny, 'kpl': kpl, 'levels': levels, 'domains': doms, 'order': order}
        c1, t1 = p_exact.build_poly_component(rng, nx, 0, ny, levels, kpl, unit, name='orig')
        # a third of the twins normalise their inputs with minmax (the normalisation must not introduce an absolute length scale either)
        tw_norms = {f'x{k}': 'minmax' for k in range(nx)} if rng.random() < 0.33 else None
        if ragged:
            tw_norms = None
        if i < 4:       # stratified: the narrowest width of the property's range (1e-9) is always covered, under minmax (i < 2) and un-normalised
            tw_norms = {f'x{k}': 'minmax' for k in range(nx)} if i < 2 else None
            doms[0] = (rng.choice([0.0, 1.0]), 0.0); doms[0] = (doms[0][0], doms[0][0] + 1e-9)
        case['twin_input_norm'] = 'minmax' if tw_norms else None
        c2, t2 = p_exact.build_poly_component(rng, nx, 0, ny, levels, kpl, doms, name='twin', norms=tw_norms)
        p_exact.fill_terms(rng, t1, S, 0, nx, kpl)
        for k in t1:
            t2[k].clear(); t2[k].extend(t1[k])
        case['terms'] = {k: list(v) for k, v in t1.items()}
        try:
            p_exact.grow_to(c1, 0, order); p_exact.grow_to(c2, 0, order)
        except Exception as e:
            ctx.violate('C17:activation-raises', f'activate_index raised {type(e).__name__}: {e}', case); continue
        ctx.case(case, nontrivial=len(order) >= 3, kind='component-twin')
        wmin = min(d[1] - d[0] for d in doms); ctx.count(f'log10(min width)={int(np.floor(np.log10(wmin)))}')
        us = [[rng.random() * 1.2 - 0.1 for _ in range(nx)] for _ in range(4)]
        # ... and points 2^-12 of the width away from a node of the twin's grid (far outside the relative snapping tolerance at every scale;
        # an absolute floor on that tolerance would swallow them on the narrowest domains)
        for _ in range(2):
            u_ = [rng.random() for _ in range(nx)]
            k0 = 0 if i < 4 else (1 if ragged else rng.randrange(nx))
            g_ = [float(c2.inputs[f'x{k0}'].denormalize(np.array([t_]))[0]) for t_ in c2.training_data.x_grids[f'x{k0}']]
            node_u = (rng.choice(g_) - doms[k0][0]) / (doms[k0][1] - doms[k0][0])
            u_[k0] = node_u + rng.choice([-1, 1]) * 2.0 ** -12
            us.append(u_)
        for u in us:
            x2 = [doms[k][0] + (doms[k][1] - doms[k][0]) * u[k] for k in range(nx)]
            ok = p_exact.check_component(ctx, c2, t2, doms, 0, nx, 'train', [x2], case, 'C17')
            if not ok:
                break
            # gradients / hessians of the twin, rescaled, against the analytic derivatives of the polynomial (unit coords)
            xin = {f'x{k}': np.array([x2[k]]) for k in range(nx)}
            if tw_norms:       # the component differentiates with respect to its (normalised) inputs: for minmax these are the unit coordinates
                xin = {f'x{k}': np.asarray(c2.inputs[f'x{k}'].normalize(np.array([x2[k]])), dtype=float) for k in range(nx)}
            uex = [(Fraction(x2[k]) - Fraction(doms[k][0])) / (Fraction(doms[k][1]) - Fraction(doms[k][0])) for k in range(nx)]
            g = c2.gradient(xin, index_set='train')
            for out, terms in t2.items():
                gg = np.ravel(g[out])
                box = float(sum(abs(c) for c, _ in terms)) + 1.0
                for k in range(nx):
                    ref = Fraction(0)
                    for c, ex in terms:
                        if ex[k] == 0:
                            continue
                        t = Fraction(c) * ex[k] * uex[k] ** (ex[k] - 1)
                        for j in range(nx):
                            if j != k:
                                t *= uex[j] ** ex[j]
                        ref += t
                    got = float(gg[k]) * (1.0 if tw_norms else (doms[k][1] - doms[k][0]))
                    if not abs(got - float(ref)) <= 1e-5 * box * 36:
                        ctx.violate('C17:gradient-scale-dependent', f'd{out}/dx{k} * width = {got}, analytic derivative (unit coordinates) {float(ref)}',
                                    {**case, 'x': x2}); break


def run(ctx: Ctx):
    import_amisc()
    ctx.rule = ('(i) Lagrange states on random dyadic unit grids (1-3 dims, 2-5 nodes) and on their images under x -> a*x+b with a = 2^-30..2^30 '
                'and dyadic offsets (exact in floating point), arbitrary data: weights must coincide, predictions, gradients (times a) and '
                'hessians (times a_k a_l) must agree at on-node / in-band / interior / exterior points; predictions on the rescaled grid are also '
                'compared with the extracted model in exact rationals; (ii) polynomial components on domains of width 1e-9..1e9 with offsets up to '
                '1e6 widths, same polynomial in unit coordinates: exactness and rescaled analytic gradients; non-trivial = more than one node / at '
                'least 3 active indices')
    interp_twins(ctx)
    component_twins(ctx)
