"""C14: failed evaluations are contained: recorded, imputed, never corrupting other data."""
from __future__ import annotations

import math
import random

import numpy as np

from common import Ctx, enc, run_model, ModelError, import_amisc
from p_misc import margin, snapshot
import systems


class Fault(Exception):
    pass


def make_component(seed, mode, fail_at, fail_kind, log):
    """a 1-2 input, 2-output component with optional model fidelity; the k-th model evaluation (1-based, in call order) fails if k in fail_at:
    'raise' -> exception, 'nan' -> both outputs NaN, 'nan-one' -> only the first output NaN.  mode: 'serial' | 'vector' | 'executor'"""
    from amisc import Component, Variable
    from amisc.training import SparseGrid
    r = random.Random(seed)
    nx = r.randint(1, 2); na = r.randint(0, 1); kpl = r.randint(1, 2)
    levels = [r.randint(1, 2) for _ in range(nx)]
    xs = [Variable(f'x{k}', distribution='U(0, 1)') for k in range(nx)]
    ys = [Variable('p'), Variable('q')]
    cp = [r.randint(-3, 3) / 2 for _ in range(nx)]; cq = [r.randint(-3, 3) / 2 for _ in range(nx)]
    counter = {'k': 0}

    def value(x, alpha):
        a = sum(alpha)
        return (sum(c * math.cos(2.0 * xv + k) for k, (c, xv) in enumerate(zip(cp, x))) + 0.5 * a,
                sum(c * xv * xv for c, xv in zip(cq, x)) + 1.0 + 0.25 * a)

    def one(x, alpha):
        counter['k'] += 1
        k = counter['k']
        p, q = value(x, alpha)
        failed = k in fail_at
        log.append({'k': k, 'alpha': tuple(alpha), 'x': tuple(x), 'failed': failed})
        if failed:
            if fail_kind == 'raise':
                raise Fault(f'evaluation {k} failed')
            if fail_kind == 'nan':
                return float('nan'), float('nan')
            return float('nan'), q
        return p, q

    if mode == 'vector':
        def model(inputs, model_fidelity=None):
            cols = [np.atleast_1d(np.asarray(inputs[f'x{k}'], dtype=float)) for k in range(nx)]
            N = len(cols[0])
            mf = np.atleast_2d(model_fidelity) if model_fidelity is not None else np.zeros((N, 0))
            out = [one(tuple(c[i] for c in cols), tuple(int(v) for v in (mf[i] if mf.shape[0] == N else mf[0]))) for i in range(N)]
            return {'p': np.array([o[0] for o in out]), 'q': np.array([o[1] for o in out])}
    else:
        def model(inputs, model_fidelity=None):
            alpha = tuple(int(v) for v in np.atleast_1d(model_fidelity)) if model_fidelity is not None else ()
            p, q = one(tuple(float(inputs[f'x{k}']) for k in range(nx)), alpha)
            return {'p': p, 'q': q}
    kw = {'data_fidelity': tuple(levels)}
    if na:
        kw['model_fidelity'] = (1,) * na
    comp = Component(model, xs, ys, name='fc', vectorized=(mode == 'vector'), training_data=SparseGrid(knots_per_level=kpl), **kw)
    return comp, nx, na, levels, value


def run_history(seed, mode, fail_at, fail_kind, nsteps):
    import c15
    log = []
    comp, nx, na, levels, value = make_component(seed, mode, fail_at, fail_kind, log)
    mx = (1,) * na + tuple(levels)
    r = random.Random(seed + 1)
    active, order = set(), []
    ex = saved = None
    if mode == 'executor':
        sr = random.Random(seed + 2)
        ex = c15.SchedExecutor(lambda m: sr.sample(range(m), m))
        saved = c15.install_wait(ex)
    err = None
    td0 = comp.training_data
    batches = []          # per activation: {'sets': [(alpha, [coords])], 'errs': [(alpha, coord, local index)]}
    o_set, o_err = td0.set, td0.set_errors

    def rec_set(alpha, beta, coords, yi):
        batches[-1]['sets'].append((tuple(alpha), [tuple(c) for c in coords]))
        return o_set(alpha, beta, coords, yi)

    def rec_err(alpha, beta, coords, errors):
        for c, e in zip(coords, errors):
            batches[-1]['errs'].append((tuple(alpha), tuple(c), int(e['index'])))
        return o_err(alpha, beta, coords, errors)
    td0.set, td0.set_errors = rec_set, rec_err
    try:
        for _ in range(nsteps):
            batches.append({'sets': [], 'errs': []})
            m = margin(active, mx)
            if not m:
                break
            c = r.choice(m)
            try:
                comp.activate_index(tuple(c[:na]), tuple(c[na:]), executor=ex)
            except Exception as e:
                err = f'{type(e).__name__}: {e}'
                break
            active.add(c); order.append(c)
    finally:
        td0.set, td0.set_errors = o_set, o_err
        if saved is not None:
            c15.restore_wait(saved)
    td = comp.training_data
    names = [f'x{k}' for k in range(nx)]
    stored = {}
    for alpha, d in td.yi_map.items():
        for coord, yi in d.items():
            stored[(tuple(alpha), tuple(coord))] = (float(yi['p']), float(yi['q']))
    errors = {(tuple(alpha), tuple(coord)) for alpha, d in td.error_map.items() for coord in d}
    imputed = {(tuple(alpha), tuple(coord)): {k: float(v) for k, v in yi.items()} for alpha, d in td.yi_nan_map.items() for coord, yi in d.items()}
    grids = {v: list(td.x_grids.get(v, [])) for v in names}
    pred = None
    if err is None and active:
        try:
            xq = {v: np.array([0.2, 0.55, 0.9]) for v in names}
            pred = {k: np.asarray(v).tolist() for k, v in comp.predict(xq).items()}
        except Exception as e:
            err = f'predict: {type(e).__name__}: {e}'
    return {'comp': comp, 'log': log, 'order': order, 'stored': stored, 'errors': errors, 'imputed': imputed, 'grids': grids, 'pred': pred,
            'raised': err, 'sets': snapshot(comp), 'names': names, 'na': na, 'batches': batches}


def key_of(run, entry):
    """(alpha, coordinate) of a logged evaluation, from the grid the run ended with"""
    coord = []
    for v, xv in zip(run['names'], entry['x']):
        g = np.asarray(run['grids'][v])
        coord.append(int(np.argmin(np.abs(g - xv))))
    return (entry['alpha'], tuple(coord))


def nanfree(a):
    return a == a


def run(ctx: Ctx):
    import_amisc()
    rng = ctx.rng
    ctx.rule = ('components with 1-2 inputs, 2 outputs, optional model fidelity; a scripted random admissible history is run once failure-free and then '
                'with the k-th model evaluation failing, for EVERY k (single failures) and for random subsets (multi-failures), in three failure kinds '
                '(raise, NaN in all outputs, NaN in one of two outputs) and three execution modes (serial, vectorised, harness executor with a random '
                'completion order); compared with the failure-free run: index sets and weights, every stored output that did not fail (incl. the other '
                'output at a NaN point), error records = exactly the failed (fidelity, point), imputed values only where a value is missing, finite '
                'predictions; the error re-basing is also run through Model/Fault.v; non-trivial = a failing position other than the first')
    lines, meta = [], []
    for n in range(ctx.pick(6, 30)):
        seed = ctx.seed * 31 + n
        nsteps = rng.randint(5, 7)
        base = run_history(seed, 'serial', set(), 'raise', nsteps)
        total = len(base['log'])
        positions = list(range(1, total + 1))
        jobs = [({k}, rng.choice(['raise', 'nan', 'nan-one']), rng.choice(['serial', 'serial', 'vector', 'executor'])) for k in positions]
        for _ in range(ctx.pick(3, 10)):
            jobs.append((set(rng.sample(positions, min(len(positions), rng.randint(2, 4)))), rng.choice(['raise', 'nan', 'nan-one']),
                         rng.choice(['serial', 'vector', 'executor'])))
        for fail_at, kind, mode in jobs:
            if mode == 'vector' and kind == 'raise':
                kind = 'nan'          # a vectorised model cannot fail for one sample only by raising
            case = {'system_seed': seed, 'steps': nsteps, 'fail_at': sorted(fail_at), 'kind': kind, 'mode': mode, 'evaluations': total}
            ctx.case(case, nontrivial=min(fail_at) > 1, kind=f'{kind}:{mode}')
            run_ = run_history(seed, mode, fail_at, kind, nsteps)
            # failed (fidelity, coordinate) pairs, located on the grids of the failure-free run (the grids do not depend on outputs)
            fk = {key_of({**run_, 'grids': base['grids']}, e) for e in run_['log'] if e['failed']}
            # the recorded finding: the FIRST point of some fidelity (its coordinate 0..0) failed, so nothing exists to impute from
            first_of_fidelity = any(all(c == 0 for c in coord) for _, coord in fk)
            if run_['raised']:
                ctx.violate('C14:first-evaluation-of-a-fidelity-fails' if first_of_fidelity else 'C14:training-raises-after-failure',
                            f'training with evaluation(s) {sorted(fail_at)} failing ({kind}, {mode}; failed points {sorted(fk)}) raised {run_["raised"]}', case)
                continue
            # index sets and weights are those of the failure-free run
            if run_['sets'] != base['sets'] or run_['order'] != base['order']:
                ctx.violate('C14:sets-or-weights-change', 'index sets / weights differ from the failure-free run for the same activations', case)
            # in executor mode the call counter follows the completion order: identify failures by (fidelity, point)
            failed_keys = {key_of(run_, e) for e in run_['log'] if e['failed']}
            base_by_key = {key_of(base, e): e for e in base['log']}
            # error records: exactly the failed evaluations that raised
            want_err = failed_keys if kind == 'raise' else set()
            if run_['errors'] != want_err:
                ctx.violate('C14:error-record-misplaced', f'errors recorded at {sorted(run_["errors"])}, the failing evaluations were at {sorted(want_err)}', case)
            # every other stored output is identical to the failure-free run
            for k, (p0, q0) in base['stored'].items():
                if k not in run_['stored']:
                    ctx.violate('C14:stored-data-missing', f'no stored data at {k}', case); break
                p1, q1 = run_['stored'][k]
                if k in failed_keys:
                    exp_p = float('nan'); exp_q = q0 if kind == 'nan-one' else float('nan')
                else:
                    exp_p, exp_q = p0, q0
                ok = ((p1 != p1) if exp_p != exp_p else p1 == exp_p) and ((q1 != q1) if exp_q != exp_q else q1 == exp_q)
                if not ok:
                    ctx.violate('C14:other-data-corrupted', f'stored outputs at {k} are {(p1, q1)}, expected {(exp_p, exp_q)} (failure-free: {(p0, q0)}; '
                                f'failed points: {sorted(failed_keys)})', case); break
            # imputed values only where something is missing, and they leave present values alone
            for k, d in run_['imputed'].items():
                if k not in failed_keys:
                    ctx.violate('C14:imputed-where-nothing-missing', f'an imputed value exists at {k}, which did not fail', case); break
                if kind == 'nan-one' and abs(d['q'] - base['stored'][k][1]) > 0:
                    ctx.violate('C14:imputation-overwrites-present-output', f'at {k} output q was present ({base["stored"][k][1]}) but the imputed record holds {d["q"]}', case)
            if run_['pred'] is None or any(not np.all(np.isfinite(v)) for v in run_['pred'].values()):
                ctx.violate('C14:prediction-not-finite', f'prediction after contained failures: {run_["pred"]}', case)
            # correspondence: the error re-basing of every observed batch through Model/Fault.v
            if kind == 'raise':
                for b in run_['batches']:
                    if not b['sets']:
                        continue
                    flat = [(a, c) for a, coords in b['sets'] for c in coords]
                    errs = sorted(flat.index(k) for k in failed_keys if k in flat)
                    sizes = [len(coords) for _, coords in b['sets']]
                    want = []
                    for a, coords in b['sets']:
                        want.append(sorted(j for (ea, ec, j) in b['errs'] if ea == a and ec in coords and coords.index(ec) == j))
                    lines.append('fault_rebase ' + enc([sizes, errs]))
                    meta.append(({**case, 'sizes': sizes, 'error_positions': errs}, want))
    for (case, want), mo in zip(meta, run_model(lines) if lines else []):
        ctx.count('rebase_cases')
        if isinstance(mo, ModelError):
            ctx.disagree('C14:model-error', case, str(mo), None); continue
        if [sorted(g) for g in mo] != want:
            ctx.disagree('C14:error re-basing', case, mo, want)
